"""C09 — read-only operations leave fitted models untouched; fit / transform / update never change the caller's arrays."""
import copy
import numpy as np, scipy.sparse as sp
import joblib
from sklearn.utils import check_array
from vp.coqrun import clist, parse_zlist
import alias_util as A
from c08 import Spy, graph_sig
import umap, umap.umap_ as U

RULE = ("directed valuations of the attributes that decide copying: X dense float32 / float64 / int64 / uint8 in C and F order, CSR (sorted and "
        "unsorted indices) / CSC / COO in float32 / float64; metric named / precomputed (dense and sparse) / bit; small-data and NN-descent paths; "
        "precomputed_knn absent / exact width / wider / with search index, int32 / int64 / float32 / float64 tables, with and without an active "
        "disconnection_distance; y absent / categorical / continuous; init string / float32 array / float64 F-ordered array; densMAP, graph "
        "transform mode, non-euclidean output metric.  Each case: sha256 of every caller array and every model buffer before / after fit, then "
        "after each of transform (new conforming / converted / training data), inverse_transform, * + - with a helper model, update.  One Coq "
        "case per fit (+ its operations): the machine run on the valuation must predict which buffers are shared and which changed.  Thorough adds "
        "random histories (length <= 6) of read-only operations over a pool of models.  Non-trivial: at least one caller array needs no "
        "conversion copy (so the model aliases it), or a precomputed_knn table, an in-place disconnection edit, an operator, an unsorted CSR.")


# ---- case construction (deterministic from the spec, so that replays rebuild the very same arrays) -----------------
def mk_dense(rs, n, dim, dtype, order):
    X = rs.normal(size=(n, dim)) * 2
    X[: n // 2] += 3
    if np.dtype(dtype).kind in "iu":
        X = np.round(np.abs(X) * (20 if dtype == "uint8" else 3))
    X = np.array(X, dtype=dtype, order=order)
    return X


def mk_sparse(rs, n, dim, fmt, dtype, unsorted):
    X = rs.normal(size=(n, dim)) * 2
    X[rs.random_sample(X.shape) < 0.35] = 0
    X[:, 0] = np.where(X[:, 0] == 0, 1.0, X[:, 0])            # no empty rows
    S = sp.csr_matrix(X.astype(dtype))
    if fmt == "csr" and unsorted:
        for i in range(S.shape[0]):
            a, b_ = S.indptr[i], S.indptr[i + 1]
            S.indices[a:b_] = S.indices[a:b_][::-1].copy(); S.data[a:b_] = S.data[a:b_][::-1].copy()
        S.has_sorted_indices = False
    return S.asformat(fmt) if fmt != "csr" else S


def build(spec):
    rs = np.random.RandomState(spec["seed"])
    n, dim, metric = spec["n"], spec.get("dim", 4), spec.get("metric", "euclidean")
    k = spec.get("n_neighbors", 6)
    kw = dict(n_neighbors=k, n_epochs=spec.get("n_epochs", 12), random_state=5, metric=metric)
    kw.update(spec.get("extra", {}))
    if spec.get("fmt", "dense") == "dense":
        X = mk_dense(rs, n, dim, spec.get("dtype", "float32"), spec.get("order", "C"))
        base = X.astype(np.float64)
        if metric == "precomputed":
            P = rs.normal(size=(n, 3))
            D = np.sqrt(((P[:, None] - P[None]) ** 2).sum(-1))
            X = np.array(D, dtype=spec.get("dtype", "float32"), order=spec.get("order", "C")); base = D
    else:
        X = mk_sparse(rs, n, dim, spec["fmt"], spec.get("dtype", "float32"), spec.get("unsorted", False))
        base = np.asarray(X.todense(), dtype=np.float64)
        if metric == "precomputed":
            P = rs.normal(size=(n, 3))
            D = np.sqrt(((P[:, None] - P[None]) ** 2).sum(-1))
            keep = np.zeros_like(D, dtype=bool)
            order_ = np.argsort(D, axis=1)[:, 1:k + 4]
            for i in range(n):
                keep[i, order_[i]] = True
            keep |= keep.T
            X = sp.csr_matrix(np.where(keep, D, 0).astype(spec.get("dtype", "float32"))).asformat(spec["fmt"]); base = D
    # distances used for thresholds and kNN tables
    if metric == "precomputed":
        D = base
    else:
        D = np.sqrt(((base[:, None] - base[None]) ** 2).sum(-1))
    if spec.get("disc"):
        pos = np.sort(D[D > 0])
        kw["disconnection_distance"] = float(pos[int(len(pos) * spec.get("disc_q", 0.35))])
    knn = None
    if spec.get("knn"):
        w = k + (4 if spec["knn"] == "wide" else 0)
        Dk = D.copy()
        if sp.issparse(X) and metric == "precomputed":
            Dk = np.where(np.asarray(X.todense()) > 0, D, np.inf); np.fill_diagonal(Dk, 0)
        idx = np.argsort(Dk, axis=1, kind="stable")[:, :w].astype(spec.get("idx_dtype", "int64"))
        dist = np.take_along_axis(Dk, idx.astype(np.int64), axis=1).astype(spec.get("dist_dtype", "float32"))
        if spec.get("knn_index"):
            from pynndescent import NNDescent
            sidx = NNDescent(np.ascontiguousarray(base, dtype=np.float32), n_neighbors=k, metric="euclidean", random_state=1, n_trees=4, n_iters=3)
            idx, dist = sidx.neighbor_graph
            idx = idx.copy(); dist = dist.copy()
            knn = (idx, dist, sidx)
        else:
            knn = (idx, dist)
        kw["precomputed_knn"] = knn
        if spec["knn"] == "wide":
            kw["force_approximation_algorithm"] = True
    y = None
    if spec.get("y") == "cat":
        y = (np.arange(n) % 3).astype(spec.get("y_dtype", "int64")); y[[1, 5]] = -1 if np.dtype(y.dtype).kind == "i" else 0
    elif spec.get("y") == "cont":
        y = (rs.normal(size=n) + np.arange(n) / n * 3).astype(spec.get("y_dtype", "float64")); kw["target_metric"] = "l2"
    init = spec.get("init", "spectral")
    if init == "arr32":
        init = rs.normal(size=(n, kw.get("n_components", 2))).astype(np.float32)
    elif init == "arr64F":
        init = np.asfortranarray(rs.normal(size=(n, kw.get("n_components", 2))))
    kw["init"] = init
    # arrays for the later calls
    def newX(variant, rows=7):
        r2 = np.random.RandomState(spec["seed"] + 100 + len(variant))
        if metric == "precomputed":
            Q = r2.normal(size=(rows, 3)); Dn = np.sqrt(((Q[:, None] - P[None]) ** 2).sum(-1))
            return np.array(Dn, dtype=variant[1], order=variant[2])
        if variant[0] == "dense":
            return mk_dense(r2, rows, dim, variant[1], variant[2])
        return mk_sparse(r2, rows, dim, variant[0], variant[1], False)
    return dict(X=X, y=y, init=init, knn=knn, kw=kw, newX=newX, n=n, k=k, metric=metric, D=D)


def directed_specs(seed0, quick):
    S = []
    add = lambda **s: S.append(dict(seed=seed0 + len(S), n=34 + (len(S) * 3) % 14, **s))
    ALL = ["Tnew", "Tconv", "Tsame", "Iconf", "Iconv", "Ifull", "mul", "add", "sub", "Uconf"]
    add(ops=ALL)
    add(order="F", y="cat", init="arr32", ops=["Tnew", "Tsame", "Iconf", "Ifull", "sub"])
    add(dtype="float64", y="cont", init="arr64F", ops=["Tconv", "Tsame", "mul"])
    add(dtype="int64", init="random", ops=["Tnew", "Tsame", "add", "Uconv"])
    add(disc=True, ops=["Tnew", "Tsame", "sub", "Uconf"])
    add(extra=dict(force_approximation_algorithm=True), ops=["Tnew", "Tsame", "mul"] + ([] if quick else ["Tconv", "Iconf", "Uconf"]))   # large-path update: 20 s of JIT
    add(dtype="float64", order="F", disc=True, extra=dict(force_approximation_algorithm=True), ops=["Tnew", "Tsame", "sub"])
    add(knn="exact", ops=["Tsame", "sub", "add"])
    add(knn="exact", disc=True, ops=["Tsame", "mul", "sub"])
    add(knn="wide", ops=["Tsame", "sub"])
    add(knn="wide", disc=True, ops=["Tsame", "add"])
    add(knn="exact", disc=True, dtype="float64", idx_dtype="int32", dist_dtype="float64", y="cat", ops=["Tsame"])
    add(knn="exact", knn_index=True, disc=True, disc_q=0.2, ops=["Tnew", "Tsame", "sub"])
    add(knn="exact", knn_index=True, ops=["Tnew", "Tsame"] + ([] if quick else ["Uconf"]))
    add(fmt="csr", ops=["Tnew", "Tconv", "Tsame", "mul", "sub", "Uconf"])
    add(fmt="csr", unsorted=True, ops=["Tnew", "Tsame", "add"])
    add(fmt="csr", dtype="float64", y="cat", ops=["Tnew", "Tsame"])
    add(fmt="csc", init="arr32", ops=["Tconv", "Tsame", "sub"])
    add(fmt="coo", y="cat", ops=["Tnew", "Tsame"])
    if not quick:                                                                                           # sparse NN-descent: 30 s of JIT
        add(fmt="csr", extra=dict(force_approximation_algorithm=True), ops=["Tnew", "Tsame", "Uconf"])
    add(fmt="csr", unsorted=True, disc=True, knn="exact", ops=["Tsame"])
    add(metric="precomputed", disc=True, ops=["Tnew", "Tconv", "Tsame", "mul"])
    add(metric="precomputed", dtype="float64", order="F", ops=["Tnew", "Tsame", "sub"])
    add(metric="precomputed", fmt="csr", ops=["Tsame", "add"])
    add(metric="precomputed", fmt="csr", knn="exact", disc=True, ops=["Tsame"])
    add(metric="bit_jaccard", dtype="uint8", ops=["Tnew", "Tsame", "sub"])
    add(metric="bit_jaccard", dtype="int64", order="F", ops=["Tconv", "Tsame"])
    add(extra=dict(densmap=True), ops=["Tsame", "mul", "add", "sub"])
    add(extra=dict(transform_mode="graph"), ops=["Tnew", "Tsame", "sub"])
    add(extra=dict(output_metric="manhattan"), init="arr32", ops=["Tnew", "Tsame", "Iconf"])
    if not quick:
        for dt in ("float32", "float64", "int64"):
            for od in ("C", "F"):
                for y in (None, "cat", "cont"):
                    for init in ("spectral", "arr32", "arr64F"):
                        add(dtype=dt, order=od, y=y, init=init, ops=["Tnew", "Tconv", "Tsame", "Iconf", "sub", "mul"] + ([] if y else ["Uconv"]))
        for fmt in ("csr", "csc", "coo"):
            for dt in ("float32", "float64"):
                for knn in (None, "exact", "wide"):
                    for disc in (False, True):
                        add(fmt=fmt, dtype=dt, knn=knn, disc=disc, unsorted=(fmt == "csr" and dt == "float32" and not disc), ops=["Tsame", "sub", "add"])
    return S


def random_spec(rng, seed):
    """a valuation drawn from the attribute grid (exact small-data path only: no further JIT)"""
    fmt = rng.choice(["dense"] * 3 + ["csr", "csr", "csc", "coo"])
    s = dict(seed=seed, n=rng.randint(30, 50))
    if fmt == "dense":
        s.update(dtype=rng.choice(["float32", "float32", "float64", "int64"]), order=rng.choice("CF"))
    else:
        s.update(fmt=fmt, dtype=rng.choice(["float32", "float64"]))
        s["unsorted"] = fmt == "csr" and rng.random() < 0.5
    s["y"] = rng.choice([None, None, "cat", "cont"])
    s["init"] = rng.choice(["spectral", "random", "arr32", "arr64F"])
    s["knn"] = rng.choice([None, None, "exact", "wide"])
    s["disc"] = rng.random() < 0.5
    if s["knn"]:
        s.update(idx_dtype=rng.choice(["int64", "int32"]), dist_dtype=rng.choice(["float32", "float64"]))
    if rng.random() < 0.25 and fmt == "dense":
        s["metric"] = "precomputed"
    s["ops"] = rng.sample(["Tsame", "Tnew", "Tconv", "mul", "add", "sub", "Iconf"], 3) + (["Uconf"] if s["y"] is None and rng.random() < 0.3 else [])
    return s


# ---- oracle helpers ---------------------------------------------------------------------------------------------------
OBSERVABLE = ("embedding_", "graph_.data", "graph_.indices", "graph_.indptr", "_raw_data", "_raw_data.data", "_raw_data.indices", "_raw_data.indptr")


def caller_snap(objs):
    return {k: A.snap_obj(v) for k, v in objs.items()}


def caller_check(ctx, where, before, after, desc, suffix=""):
    """oracle: values held by the caller's arrays are unchanged; returns (raw change per object)"""
    raw = {}
    for k in before:
        raw[k] = before[k][0] != after[k][0]
        if before[k][1] != after[k][1]:
            ctx.fail("%s:caller_%s_changed%s" % (where, k, suffix), "the values of the caller's %s differ after the call" % k, desc)
        elif raw[k]:
            ctx.count("%s:caller_%s_storage_permuted_same_matrix" % (where, k))
    return raw


def model_check(ctx, where, role, bufs, before, desc, model=None):
    after = A.hash_buffers(bufs)
    ch = A.changed_keys(before, after)
    if model is not None:
        # the observable state is what the attributes hold *now*: an attribute re-bound to a new array (no buffer written) counts too
        ch = sorted(set(ch) | set(A.changed_keys(before, A.snap_model(model))))
    for k in ch:
        ctx.fail("%s:%s%s_changed" % (where, role, k), "%s of the %smodel differs after %s" % (k, role.replace("_", " "), where), desc)
    return bool(ch)


def tterm(conf, same, graph):
    return "(mkT %s %s %s false true)" % (A.b(conf), A.b(same), A.b(graph))


def run_case(ctx, env, spec, terms, descs, rs_helper):
    c = build(spec)
    X, y, init, knn, kw = c["X"], c["y"], c["init"], c["knn"], c["kw"]
    desc = dict(spec=spec, call="fit", kwargs={k: v for k, v in kw.items() if k not in ("precomputed_knn", "init")})
    callers = dict(X=X, y=y, init=init if isinstance(init, np.ndarray) else None, knn_indices=knn[0] if knn else None, knn_dists=knn[1] if knn else None)
    before = caller_snap(callers)
    dist0 = knn[1].copy() if knn else None
    m = umap.UMAP(**kw)
    with Spy() as spy:
        try:
            m.fit(X, y) if y is not None else m.fit(X)
        except Exception as e:
            ctx.count("fit_raised:%s" % type(e).__name__); ctx.notes.append("fit raised for %s: %s %s" % (spec, type(e).__name__, str(e)[:80]))
            return
        rec = spy.rec
    after = caller_snap(callers)
    d_used = kw.get("disconnection_distance")
    used_knn = knn is not None and getattr(m, "knn_dists", None) is not None
    disc = False
    if d_used is not None:
        if used_knn:
            disc = bool((dist0[:, : m.knn_dists.shape[1]] >= d_used).any())
        else:
            disc = bool((c["D"] >= d_used).any())
    raw = caller_check(ctx, "UMAP.fit", before, after, desc, ":disconnection_active" if disc else "")
    sparse = sp.issparse(X)
    embed = kw.get("transform_mode", "embedding") == "embedding"
    small = c["n"] < 4096 and not kw.get("force_approximation_algorithm", False) and not used_knn
    wide = bool(used_knn and m.knn_dists.shape[1] < knn[1].shape[1])
    target = "TNone" if y is None else ("TCategorical" if kw.get("target_metric", "categorical") == "categorical" else "TContinuous")
    yconf = y is not None and y.dtype.kind in "iufb" and env["check_array_identity_y"]
    g = A.gcfg_term(sparse, A.x_conforms(X, c["metric"], env), (bool(before_sorted(spec)) if sparse else True), A.metric_class(c["metric"]),
                    used_knn, wide, disc, small, target, yconf)
    l = A.lcfg_term(A.init_kind(init), bool(rec and rec["weak"]), False, embed)
    gr = m.graph_
    emb = getattr(m, "embedding_", None)
    obs = [raw["X"], raw["y"], raw["init"], raw["knn_indices"], raw["knn_dists"],
           A.shares(X, m._raw_data), A.shares(callers["knn_indices"], getattr(m, "_knn_indices", None)),
           A.shares(callers["knn_dists"], getattr(m, "_knn_dists", None)), A.shares(callers["init"], emb),
           bool(gr.has_canonical_format), bool((gr.data == 0).any()),
           bool(rec is not None and rec["pre"] is not None and rec["pre"] != graph_sig(m)[2:])]
    tags = [t for t, f in (("aliases_caller_X", obs[5]), ("aliases_caller_knn", obs[6]), ("precomputed_knn", used_knn), ("disconnection_edit", disc),
                           ("knn_copied_for_edit", used_knn and disc and not obs[6]), ("csr_sorted_in_place", raw["X"]), ("sparse", sparse),
                           ("supervised", y is not None), ("init_array", callers["init"] is not None), ("nn_descent", not small)) if f]
    # ---- operations on the fitted model --------------------------------------------------------------------------------
    opterms, optags = [], []
    helper = None
    fit_objs = {k: v for k, v in callers.items() if v is not None}
    for opn in spec.get("ops", []):
        bufs0 = A.model_buffers(m); h0 = A.hash_buffers(bufs0)
        cal0 = caller_snap(fit_objs)
        d = dict(spec=spec, call=opn)
        try:
            if opn in ("Tnew", "Tconv", "Tsame"):
                if opn == "Tsame":
                    Xn = X
                elif sparse:
                    Xn = c["newX"](("csr", "float32", "C") if opn == "Tnew" else ("csc", "float64", "C"))
                elif c["metric"].startswith("bit_"):
                    Xn = c["newX"](("dense", "uint8", "C") if opn == "Tnew" else ("dense", "int64", "F"))
                else:
                    Xn = c["newX"](("dense", "float32", "C") if opn == "Tnew" else ("dense", "float64", "F"))
                xb = A.snap_obj(Xn)
                res = m.transform(Xn)
                xa = A.snap_obj(Xn)
                chk = check_array(Xn, dtype=np.uint8 if c["metric"].startswith("bit_") else np.float32, accept_sparse="csr", order="C")
                same = joblib.hash(chk) == m._input_hash
                pch = model_check(ctx, "UMAP.transform", "", bufs0, h0, d, m)
                cch = caller_check(ctx, "UMAP.transform", dict(X=xb), dict(X=xa), d)["X"]
                fch = any(caller_check(ctx, "UMAP.transform", cal0, caller_snap(fit_objs), d, ":array_given_to_fit").values())
                alias = bool(isinstance(res, np.ndarray) and emb is not None and np.shares_memory(res, m.embedding_))
                opterms.append("(VT %s, %s)" % (tterm(A.x_conforms(Xn, c["metric"], env), same, not embed), A.blist([pch or fch, cch, alias])))
                optags.append("transform_returns_stored_embedding" if alias else "transform")
            elif opn in ("Iconf", "Iconv", "Ifull"):
                # Ifull: exactly as many query points as training samples (shape coincidences must not turn the training data into a moving layout)
                rows = slice(None) if opn == "Ifull" else slice(0, 4)
                P = np.array(m.embedding_[rows] + 0.01, dtype=np.float64 if opn == "Iconv" else np.float32, order="F" if opn == "Iconv" else "C")
                xb = A.snap_obj(P)
                m.inverse_transform(P)
                xa = A.snap_obj(P)
                pch = model_check(ctx, "UMAP.inverse_transform", "", bufs0, h0, d, m)
                cch = caller_check(ctx, "UMAP.inverse_transform", dict(X=xb), dict(X=xa), d)["X"]
                fch = any(caller_check(ctx, "UMAP.inverse_transform", cal0, caller_snap(fit_objs), d, ":array_given_to_fit").values())
                opterms.append("(VI %s, %s)" % (A.b(opn in ("Iconf", "Ifull") and env["check_array_identity_dense"]), A.blist([pch or fch, cch, False])))
                optags.append("inverse_transform_n_train_points" if opn == "Ifull" else "inverse_transform")
            elif opn in ("mul", "add", "sub"):
                if helper is None:
                    helper = umap.UMAP(n_neighbors=5, n_epochs=11, random_state=2).fit(rs_helper.normal(size=(c["n"], 3)).astype(np.float32))
                hb = A.model_buffers(helper); hh = A.hash_buffers(hb)
                r = {"mul": lambda a, b_: a * b_, "add": lambda a, b_: a + b_, "sub": lambda a, b_: a - b_}[opn](m, helper)
                pch = model_check(ctx, "UMAP.__%s__" % opn, "left_operand_", bufs0, h0, d, m)
                pch = model_check(ctx, "UMAP.__%s__" % opn, "right_operand_", hb, hh, d, helper) or pch
                fch = any(caller_check(ctx, "UMAP.__%s__" % opn, cal0, caller_snap(fit_objs), d, ":array_given_to_fit").values())
                opterms.append("(VC %s true, %s)" % ({"mul": "OMul", "add": "OAdd", "sub": "OSub"}[opn], A.blist([pch or fch, False, False])))
                optags.append("operator_" + opn)
                # and the other way round (the model as right operand) - oracle only
                hh2 = A.hash_buffers(hb); h0b = A.hash_buffers(bufs0)
                {"mul": lambda a, b_: a * b_, "add": lambda a, b_: a + b_, "sub": lambda a, b_: a - b_}[opn](helper, m)
                model_check(ctx, "UMAP.__%s__" % opn, "right_operand_", bufs0, h0b, d, m)
                model_check(ctx, "UMAP.__%s__" % opn, "left_operand_", hb, hh2, d, helper)
            elif opn in ("Uconf", "Uconv"):
                if sparse:
                    Xn = c["newX"](("csr", "float32", "C") if opn == "Uconf" else ("coo", "float64", "C"), rows=6)
                else:
                    Xn = c["newX"](("dense", "float32", "C") if opn == "Uconf" else ("dense", "float64", "F"), rows=6)
                xb = A.snap_obj(Xn)
                was_small = bool(m._small_data)
                m.update(Xn)
                xa = A.snap_obj(Xn)
                cch = caller_check(ctx, "UMAP.update", dict(X=xb), dict(X=xa), d)["X"]
                fch = any(caller_check(ctx, "UMAP.update", cal0, caller_snap(fit_objs), d, ":array_given_to_fit").values())
                old_changed = bool(A.changed_keys(h0, A.hash_buffers(bufs0)))       # the buffers the model held before (correspondence only)
                opterms.append("(VU (mkU %s %s true true), %s)" % (A.b(A.x_conforms(Xn, c["metric"], env)), A.b(was_small), A.blist([old_changed or fch, cch, False])))
                optags.append("update")
        except Exception as e:          # refusals (NotImplementedError / ValueError) and crashes that belong to other properties (C11, C18)
            ctx.count("%s_raised:%s" % (opn, type(e).__name__))
            if not opn.startswith("U"):   # a refused read-only call must not have changed anything either
                model_check(ctx, "UMAP.%s(raising)" % opn, "", bufs0, h0, d)
    ctx.tag((repr(sorted(spec.items(), key=str)),), tags)
    for j, t in enumerate(optags):
        ctx.tag((repr(sorted(spec.items(), key=str)), j, t), [t])
    for k in ("fmt", "dtype", "order", "metric", "knn", "y", "init"):
        ctx.count("%s=%s" % (k, spec.get(k, {"fmt": "dense", "dtype": "float32", "order": "C", "metric": "euclidean", "knn": None, "y": None, "init": "spectral"}[k])))
    ctx.sample(dict(spec=spec, fit_observations=dict(zip(("X_raw_changed", "y_changed", "init_changed", "knn_idx_changed", "knn_dist_changed", "X_shared_with__raw_data",
                                                         "knn_idx_shared", "knn_dist_shared", "init_shared_with_embedding", "canonical", "stored_zeros", "graph_changed_by_layout"), obs))), 4)
    terms.append("(%s, %s, %s, %s, [%s])" % (env["_facts"], g, l, A.blist(obs), "; ".join(opterms)))
    descs.append(dict(desc, n_ops=len(opterms)))


def before_sorted(spec):
    return not spec.get("unsorted", False)


OPN = ("transform", "inverse", "mul", "add", "sub")


def run_history(ctx, env, hseed, terms, descs):
    """thorough: a random history of read-only operations over a pool of three models; every model is re-hashed after every operation"""
    rs = np.random.RandomState(hseed)
    n = 32
    pool = [umap.UMAP(n_neighbors=4 + i, n_epochs=11, random_state=i).fit(rs.normal(size=(n, 3 + i)).astype(np.float32)) for i in range(3)]
    fitted = 3
    hist, opterms = [], []
    for step in range(rs.randint(2, 7)):
        kind = OPN[rs.randint(len(OPN))]
        bufs = [A.model_buffers(p) for p in pool]; hs = [A.hash_buffers(b_) for b_ in bufs]
        d = dict(history_seed=hseed, history=hist + [kind])
        changed = False
        if kind in ("transform", "inverse"):
            i = rs.randint(fitted)
            conf = bool(rs.randint(2))
            if kind == "transform":
                same = bool(rs.randint(3) == 0)
                Xn = pool[i]._raw_data if same else np.array(rs.normal(size=(5, 3 + i)), dtype=np.float32 if conf else np.float64, order="C" if conf else "F")
                if same:
                    conf = True
                xb = A.sha(Xn); pool[i].transform(Xn); changed = xb != A.sha(Xn)
                opterms.append("(RTransform %d %s, %%s)" % (i, tterm(conf and env["check_array_identity_dense"], same, False)))
            else:
                P = np.array(pool[i].embedding_[:3] + 0.02, dtype=np.float32 if conf else np.float64)
                xb = A.sha(P); pool[i].inverse_transform(P); changed = xb != A.sha(P)
                opterms.append("(RInverse %d %s, %%s)" % (i, A.b(conf and env["check_array_identity_dense"])))
            hist.append("%s(%d)" % (kind, i))
        else:
            a, b_ = rs.randint(len(pool)), rs.randint(len(pool))
            r = {"mul": lambda p, q: p * q, "add": lambda p, q: p + q, "sub": lambda p, q: p - q}[kind](pool[a], pool[b_])
            opterms.append("(RCombine %s %d %d %d true, %%s)" % ({"mul": "OMul", "add": "OAdd", "sub": "OSub"}[kind], a, b_, len(pool)))
            pool.append(r)
            hist.append("%s(%d,%d)->%d" % (kind, a, b_, len(pool) - 1))
        for j, (b0, h0) in enumerate(zip(bufs, hs)):
            changed = model_check(ctx, "history:" + kind, "model%d_" % j, b0, h0, d, pool[j] if j < len(pool) else None) or changed
        opterms[-1] = opterms[-1] % A.b(changed)
    ctx.tag(("history", hseed), ["history_len_%d" % len(hist)])
    terms.append("(%s, 3, [%s])" % (env["_facts"], "; ".join(opterms)))
    descs.append(dict(history_seed=hseed, history=hist))


def run(ctx):
    ctx.check_proofs(["prop/P_C09.v"])
    rng = ctx.rng
    env = A.probe_env()
    env["_facts"] = "(mkFacts %s)" % A.b(env["tocoo_shares"])
    ctx.extra["environment_facts"] = env
    fx = A.source_fixes()
    ctx.extra["source_fixes"] = fx
    # ---- obligation regenerated from the source: with the repairs the source carries now, every program is statically safe -----
    tv = lambda k: A.b(fx[k] is not False)
    text = (A.HDR + "Definition src : fixes := mkFixes %s %s %s %s.\nDefinition probed : facts := %s.\n" % (tv("tocoo"), tv("knn"), tv("sub"), tv("tail"), env["_facts"])
            + "Lemma C09_programs_safe_for_this_source :\n"
              "  forallb (fun g => fit_safe_all src 0 probed g) all_gcfg && forallb (fun t => safe (transform_prog probed src 0 t)) all_tcfg\n"
              "  && forallb (fun u => safe (update_prog probed src 0 u)) all_ucfg\n"
              "  && forallb (fun k => forallb (fun w => safe (combine_prog probed src k 0 1 2 w)) bools) all_okinds = true.\n"
              "Proof. vm_compute. reflexivity. Qed.\n")
    ctx.obligations.append("gen/params_C09.v:C09_programs_safe_for_this_source")
    if ctx.coq_eval("params_C09", text, what="static safety of fit / transform / update / operators for the fixes found in the source") is not None:
        ctx.discharged.append("gen/params_C09.v:C09_programs_safe_for_this_source")
    quick = ctx.tier == "quick"
    specs = directed_specs(rng.randrange(10 ** 6), quick)
    specs += [random_spec(rng, rng.randrange(10 ** 6)) for _ in range(8 if quick else 60)]
    rs_helper = np.random.RandomState(rng.randrange(2 ** 31))
    terms, descs = [], []
    for spec in specs:
        run_case(ctx, env, spec, terms, descs, rs_helper)
    names12 = ["X changed", "y changed", "init changed", "knn indices changed", "knn dists changed", "X shares _raw_data", "knn indices shared with _knn_indices",
               "knn dists shared with _knn_dists", "init shares embedding_", "graph_ canonical", "graph_ holds stored zeros", "graph_ changed by the layout stage"]
    names3 = ["a buffer that existed before the call changed", "the array passed to the call changed", "the result is the stored embedding_ buffer"]
    shard = 40
    for s in range(0, len(terms), shard):
        text = (A.HDR + "Definition cases : list (facts * gcfg * lcfg * list bool * list (vop * list bool)) := %s.\nEval vm_compute in map verdict_case cases.\n"
                % clist(terms[s:s + shard]))
        bl = ctx.coq_eval("cases_C09_%d" % (s // shard), text, what="machine predictions vs observed sharing / changes per call")
        if bl is None:
            continue
        v = parse_zlist(bl[0])
        if len(v) != len(terms[s:s + shard]):
            ctx.broken.append("C09 verdict list length mismatch"); continue
        for off, code in enumerate(v):
            ctx.traces += 1 + (descs[s + off]["n_ops"] if code == -1 else 0)     # the fit and each of its operations is a compared trace
            if code != -1:
                what = names12[code] if 0 <= code < 12 else ("operation %d: %s" % (code // 100, names3[code % 100] if code % 100 < 3 else "machine stuck")) if code >= 100 else "machine stuck"
                ctx.diff(descs[s + off], what)
    if not quick:
        hterms, hdescs = [], []
        for hno in range(40):
            run_history(ctx, env, rng.randrange(10 ** 6), hterms, hdescs)
        text = A.HDR + "Definition cases : list (facts * nat * list (rop * bool)) := %s.\nEval vm_compute in map verdict_history cases.\n" % clist(hterms)
        bl = ctx.coq_eval("cases_C09_hist", text, what="histories of read-only operations")
        if bl is not None:
            for off, code in enumerate(parse_zlist(bl[0])):
                ctx.traces += 1
                if code != -1:
                    ctx.diff(hdescs[off], "history step %d" % code)
    ctx.partial.append("the programs of M_alias.v are a hand abstraction of the data flow, validated at the observed sharing / hash facts only; "
                       "temporaries inside sklearn, numba and pynndescent (e.g. the search index mutated by update) are invisible")
    ctx.partial.append("fit sorts a conforming CSR with unsorted indices in place (X.sort_indices(), same matrix): C09_caller_arrays carries the hypothesis "
                       "sort_safe; the oracle compares the matrix value, the permuted storage is counted in input_distribution")
    return ctx.finish(RULE, assumptions=[
        "SciPy / sklearn copy semantics are probed per run and are inputs of the machine (see coverage.environment_facts)",
        "sha256 over the bytes of every observed buffer; equality of hashes is taken as equality of contents"])


def replay(rep):
    from vp.common import Ctx
    c = rep.get("case") or (rep.get("diffs") or [{}])[0].get("case")
    if not c:
        return True
    ctx = Ctx("C09", "quick", 0)
    env = A.probe_env(); env["_facts"] = "(mkFacts %s)" % A.b(env["tocoo_shares"])
    if "history_seed" in c:
        run_history(ctx, env, c["history_seed"], [], [])
    else:
        run_case(ctx, env, c["spec"], [], [], np.random.RandomState(0))
    for f in ctx.oracle_fail:
        print("  ", f["signature"], f["summary"])
    return bool(ctx.oracle_fail)

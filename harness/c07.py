"""C07 — layout optimisation performs exactly the UMAP stochastic gradient descent."""
import math, struct
import numpy as np
from vp.coqrun import fl, zl, flist, zlist, blist, clist, parse_zlist
from vp import srcparams, link
import umap.layouts as L
import umap.umap_ as U
from umap.utils import tau_rand_int

PTOL = 1e-3     # position tolerance per epoch, relative to 1+|x| (float32 kernel vs binary64 model, restarted each epoch)
CTOL = 1e-9     # clock tolerance (float64 both sides; FMA contraction gives 1-ulp differences)
RULE = ("random graphs (2..12 vertices, 1..30 edges incl. shared endpoints, self pairs, coincident and near-coincident points, weights over 3 decades), "
        "dim 1..3, a,b in {defaults,(1,1),(.5,1.3)}, gamma in {0,1,2.5}, negative_sample_rate in {1,2,5}, move_other both, fit-style (head is tail) and "
        "transform-style (separate reference layout); the jitted single-epoch kernel is driven epoch by epoch with our own clock / RNG arrays; each epoch "
        "is one Coq case restarted from the implementation's state; decisions, Tausworthe states exact, clocks 1e-9, positions 1e-3.  Whole runs: "
        "optimize_layout_euclidean(n_epochs=list) must equal bit-for-bit a replay of the kernel under the schedule (alpha, RNG derivation, clocks) computed by the Coq model. "
        "Non-trivial: an edge fired, a negative sample was drawn, a clip was active, a coincident pair, a skipped edge.")

KARGS = dict()
SGD_K = "_optimize_layout_euclidean_single_epoch"
SHARED_THMS = "src_sgd_shared_eq"
DISTINCT_THMS = "src_sgd_distinct_eq"
SGDG_K = "_optimize_layout_generic_single_epoch"
# capstone corollaries of coq/link/K_sgd.v: statements of P_C07 / T_sgd restated about the translated epoch kernel itself
LINK_COROLLARIES = ("C07_src_frame", "C07_src_rng_rows", "C07_src_rng_rows_distinct", "C07_src_clocks", "C07_src_clocks_distinct",
                    "C07_src_idle", "C07_src_move_bound_attr", "C07_src_move_bound_attr_distinct", "C07_src_move_bound_rep",
                    "C07_src_move_bound_rep_distinct", "C07_src_move_bound_total", "C07_src_move_bound_distinct_total", "C07_src_move_bound", "C07_src_move_bound_distinct",
                    "C07_src_nonvacuous", "C07_src_nonvacuous_row")


def kernel():
    return L._nb_optimize_layout_euclidean_single_epoch


def call_epoch(H, T, head, tail, nv, eps, a, b, rng, gamma, move_other, alpha, epns, nneg, nxt, n):
    dim = H.shape[1]
    z1 = np.zeros(1, dtype=np.float32)
    kernel()(H, T, head, tail, nv, eps, a, b, rng, gamma, dim, move_other, alpha, epns, nneg, nxt, n,
             False, z1, z1.copy(), 0, 0, 0, 0, z1.copy(), z1.copy(), 0)


def call_epoch_py(H, T, head, tail, nv, eps, a, b, rng, gamma, move_other, alpha, epns, nneg, nxt, n):
    """the kernel's SOURCE run by the Python interpreter (py_func: no fastmath) on float64 arrays; rdist (jitted for float32
    only) is replaced by its py_func for the duration of the call"""
    dim = H.shape[1]
    z1 = np.zeros(1)
    saved = L.rdist
    L.rdist = saved.py_func
    try:
        with np.errstate(all="ignore"):
            L._optimize_layout_euclidean_single_epoch(H, T, head, tail, nv, eps, a, b, rng, gamma, dim, move_other, alpha, epns, nneg, nxt, n,
                                                      False, z1, z1.copy(), 0, 0, 0, 0, z1.copy(), z1.copy(), 0)
    finally:
        L.rdist = saved


SRC_PTOL = 1e-9    # translated source (binary64, FloatFns pow) vs the interpreter running the same source in float64 (libm pow)


def py_tau(st):
    """independent integer implementation of the Tausworthe step (oracle)"""
    def s64(x):
        x &= (1 << 64) - 1
        return x - (1 << 64) if x >> 63 else x
    s = [int(v) for v in st]
    s[0] = s64((((s[0] & 4294967294) << 12) & 0xFFFFFFFF) ^ ((((s[0] << 13) & 0xFFFFFFFF) ^ s[0]) >> 19))
    s[1] = s64((((s[1] & 4294967288) << 4) & 0xFFFFFFFF) ^ ((((s[1] << 2) & 0xFFFFFFFF) ^ s[1]) >> 25))
    s[2] = s64((((s[2] & 4294967280) << 17) & 0xFFFFFFFF) ^ ((((s[2] << 3) & 0xFFFFFFFF) ^ s[2]) >> 11))
    r = (s[0] ^ s[1] ^ s[2]) & 0xFFFFFFFF
    return s, (r - (1 << 32) if r >> 31 else r)


def textbook_epoch(H, T, shared, head, tail, nv, eps, a, b, rng, gamma, move_other, alpha, epns, nneg, nxt, n):
    """float64 statement of the property's update rule (oracle); returns new arrays + bookkeeping"""
    H = H.astype(np.float64).copy(); T = H if shared else T.astype(np.float64).copy()
    nxt = nxt.copy(); nneg = nneg.copy(); rng = [list(map(int, r)) for r in rng]
    fired, ndraw, clipped = [], 0, 0
    textbook_epoch.fragile = False      # a step at 0 < d^2 < 1e-6: see the caller
    for i in range(len(head)):
        if nxt[i] <= n:
            fired.append(i)
            j, k = int(head[i]), int(tail[i])
            diff = H[j] - T[k]; d2 = float(diff @ diff)
            if 0 < d2 < 1e-6: textbook_epoch.fragile = True
            if d2 > 0:
                d = math.sqrt(d2)
                coeff = -2.0 * a * b * d ** (2 * b - 2) / (1.0 + a * d ** (2 * b))
            else:
                coeff = 0.0
            g = np.clip(coeff * diff, -4, 4); clipped += int(np.any(np.abs(coeff * diff) > 4))
            H[j] = H[j] + g * alpha
            if move_other:
                T[k] = T[k] - g * alpha
            nxt[i] += eps[i]
            nn = int((n - nneg[i]) / epns[i])
            for _ in range(nn):
                rng[j], r = py_tau(rng[j]); ndraw += 1
                k2 = r % nv
                diff = H[j] - T[k2]; d2 = float(diff @ diff)
                if 0 < d2 < 1e-6: textbook_epoch.fragile = True
                if d2 > 0:
                    d = math.sqrt(d2)
                    coeff = 2.0 * gamma * b / ((0.001 + d2) * (1.0 + a * d ** (2 * b)))
                    if coeff > 0:
                        g = np.clip(coeff * diff, -4, 4); clipped += int(np.any(np.abs(coeff * diff) > 4))
                        H[j] = H[j] + g * alpha
            nneg[i] += nn * epns[i]
    return H, T, nxt, nneg, rng, fired, ndraw, clipped


def gen_graph(rng, npr):
    nvert = rng.randint(2, 12)
    dim = rng.randint(1, 3)
    shared = rng.random() < 0.6
    nhead = nvert if shared else rng.randint(1, 8)
    ne = rng.randint(1, 30)
    head = np.array([rng.randrange(nhead) for _ in range(ne)], dtype=np.int32)
    tail = np.array([rng.randrange(nvert) for _ in range(ne)], dtype=np.int32)
    order = np.lexsort((tail, head)); head, tail = head[order], tail[order]   # COO order after sum_duplicates
    w = np.array([10 ** rng.uniform(-3, 0) for _ in range(ne)], dtype=np.float32); w[rng.randrange(ne)] = 1.0
    nep = rng.choice([5, 11, 30, 200])
    eps = U.make_epochs_per_sample(w, nep)
    spread = rng.choice([10.0, 10.0, 1.0, 0.05])
    Tm = (npr.random((nvert, dim)) * spread).astype(np.float32)
    if rng.random() < 0.4:  # coincident / nearly coincident points
        for _ in range(rng.randint(1, 3)):
            p, q = rng.randrange(nvert), rng.randrange(nvert)
            Tm[p] = Tm[q] + (0 if rng.random() < 0.5 else np.float32(1e-3) * npr.random(dim).astype(np.float32))
    H = Tm if shared else (npr.random((nhead, dim)) * spread).astype(np.float32)
    a, b = rng.choice([(1.576943460405378, 0.8950608781227859), (1.0, 1.0), (0.5, 1.3)])
    gamma = rng.choice([0.0, 1.0, 1.0, 2.5]); rate = rng.choice([1.0, 2.0, 5.0, 5.0])
    move_other = shared if rng.random() < 0.8 else (not shared)
    alpha0 = rng.choice([1.0, 1.0, 0.25, 0.0])
    seed = np.array([rng.randint(-2 ** 31, 2 ** 31 - 1) for _ in range(3)], dtype=np.int64)
    return dict(nv=nvert, dim=dim, shared=shared, head=head, tail=tail, w=w, nep=nep, eps=eps, H=H, T=Tm, a=a, b=b, gamma=gamma,
                rate=rate, move_other=move_other, alpha0=alpha0, seed=seed)


def bits_of(x):
    return struct.unpack("<q", struct.pack("<d", float(x)))[0]


def ll(M):
    return "[" + "; ".join(flist(r) for r in np.asarray(M).tolist()) + "]"


def rngl(R):
    return "[" + "; ".join("(%s, %s, %s)%%Z" % tuple(zl(v) for v in r) for r in np.asarray(R).tolist()) + "]"


def run(ctx):
    ctx.check_proofs(["prop/P_C07.v"])
    # translation tie: clip, rdist (layouts.py) and tau_rand_int, norm (utils.py) regenerated from the current source;
    # link theorems: translated source = model/M_sgd.v definitions (tau_rand_int by reflexivity: same term)
    #   + the serial Euclidean epoch kernel, translated twice (tail_embedding is head_embedding / two disjoint arrays): coq/link/L_sgd.v
    lres = link.check(ctx, "layouts", {"clip": "src_clip_eq", "rdist": "src_rdist_eq", "tau_rand_int": "src_tau_rand_int_layouts_eq",
                                       SGD_K + "_shared": SHARED_THMS, SGD_K + "_distinct": DISTINCT_THMS})
    src_ready = lres.ok and not any("E_layouts" in e for e in lres.errors)
    # the generic-output-metric epoch kernel (output_metric a function parameter, output_metric_kwds = ()), translated twice as well:
    # coq/link/L_sgdg.v: translated source = M_sgdg.gepoch for every output metric whose gradient has the row length; capstone: the
    # transform-case translation with move_other=False returns the reference embedding unchanged
    lgres = link.check(ctx, "layouts_generic", {"clip": "src_clip_generic_eq", "tau_rand_int": "src_tau_rand_int_generic_eq",
                                        SGDG_K + "_shared": "src_sgdg_shared_eq", SGDG_K + "_distinct": "src_sgdg_distinct_eq"})
    link.check(ctx, "layouts_generic", {SGDG_K + "_shared": "gneg_iter_s", SGDG_K + "_distinct": "C07_src_generic_frame"})
    gsrc_ready = lgres.ok and not any("E_layouts_generic" in e for e in lgres.errors)
    for thm in LINK_COROLLARIES:
        ob = "link:layouts:" + thm
        ctx.obligations.append(ob)
        bad = [a for a in lres.axioms.get(thm, []) if a not in link.coqrun.ALLOWED_AXIOMS and not ctx._primitive(a)]
        if lres.theorems.get(thm) is True and not bad:
            ctx.discharged.append(ob)
        else:
            ctx.broken.append("link[layouts]: corollary %s %s" % (thm, ("uses axioms %s" % bad) if bad else (lres.theorems.get(thm) or "is missing")))
    link.check(ctx, "utils", {"tau_rand_int": "src_tau_rand_int_eq", "norm": "src_norm_eq"})
    link.check(ctx, "umap_sup", {"make_epochs_per_sample": "src_make_epochs_per_sample_eq"})
    rng = ctx.rng
    npr = np.random.RandomState(rng.randrange(2 ** 31))
    hdr = ("From Coq Require Import List ZArith PrimFloat. From UV Require Import Num FNum M_sgd V_sgd.\n"
           "Import ListNotations. Open Scope float_scope.\n")
    # ---- (1) Tausworthe generator, bit-exact ----------------------------------------------------------
    states = [[rng.randint(-2 ** 63, 2 ** 63 - 1) for _ in range(3)] for _ in range(60)] + [[0, 0, 0], [-1, -1, -1], [2 ** 63 - 1, -2 ** 63, 1]]
    want = []
    for st in states:
        s = np.array(st, dtype=np.int64); out = []
        for _ in range(12):
            out.append(int(tau_rand_int(s)))
        want.append(out)
        s2, o2 = list(st), []
        for _ in range(12):
            s2, r = py_tau(s2); o2.append(r)
        if o2 != out:
            ctx.fail("tau_rand_int:differs_from_published_generator", "state %s" % st, dict(state=st, got=out, want=o2))
    text = hdr + "Eval vm_compute in map (draws 12) [%s].\n" % "; ".join("(%s, %s, %s)%%Z" % tuple(zl(v) for v in st) for st in states)
    bl = ctx.coq_eval("cases_C07_rng", text, what="tau_rand_int sequences")
    if bl is not None:
        got = parse_zlist(bl[0]); flat = [v for o in want for v in o]
        ctx.traces += len(states)
        if got != flat:
            bad = next(i for i, (x, y) in enumerate(zip(got, flat)) if x != y) // 12 if len(got) == len(flat) else 0
            ctx.diff(dict(state=states[bad], impl=want[bad]), "tau_rand_int sequence")
    # ---- (2) single-epoch kernel -----------------------------------------------------------------------
    ngraphs = 60 if ctx.tier == "quick" else 600
    nep_run = 6
    terms, cases = [], []
    sterms, scases = [], []     # the same states run through the kernel's py_func in float64: reference for the TRANSLATED source
    nsrc = 30 if ctx.tier == "quick" else 150
    for gno in range(ngraphs):
        g = gen_graph(rng, npr)
        H = g["H"].copy(); T = H if g["shared"] else g["T"].copy()
        eps = g["eps"].copy(); epns = eps / g["rate"]; nneg = epns.copy(); nxt = eps.copy()
        rs = np.array([[int(s) for s in g["seed"]]] * H.shape[0], dtype=np.int64) + H[:, 0].astype(np.float64).view(np.int64).reshape(-1, 1)
        start = rng.choice([0, 0, 1, 3, g["nep"] // 2])
        for n in range(start, start + nep_run):
            alpha = g["alpha0"] * (1.0 - max(n - 1, 0) / g["nep"]) if n > 0 else g["alpha0"]
            pre = dict(H=H.copy(), T=T.copy(), nxt=nxt.copy(), nneg=nneg.copy(), rs=rs.copy())
            call_epoch(H, T, g["head"], g["tail"], g["nv"], eps, g["a"], g["b"], rs, g["gamma"], g["move_other"], alpha, epns, nneg, nxt, n)
            if gno < nsrc and src_ready:
                pH = pre["H"].astype(np.float64); pT = pH if g["shared"] else pre["T"].astype(np.float64)
                pn, pg, pr = pre["nxt"].copy(), pre["nneg"].copy(), pre["rs"].copy()
                try:
                    call_epoch_py(pH, pT, g["head"], g["tail"], g["nv"], eps, g["a"], g["b"], pr, g["gamma"], g["move_other"], alpha, epns, pg, pn, n)
                    pyres = (pH, pT, pn, pg, pr)
                except (OverflowError, ValueError, ZeroDivisionError):
                    pyres = None     # int() of a non-finite quotient: the interpreter raises where the jitted kernel does not
            desc = dict(n=n, alpha=alpha, a=g["a"], b=g["b"], gamma=g["gamma"], move_other=g["move_other"], shared=g["shared"], n_vertices=g["nv"],
                        head=g["head"], tail=g["tail"], epochs_per_sample=eps, epochs_per_negative_sample=epns, pre=pre,
                        post=dict(H=H.copy(), T=T.copy(), nxt=nxt.copy(), nneg=nneg.copy(), rs=rs.copy()))
            # oracle: the textbook update in float64
            tH, tT, tnxt, tnneg, trng, fired, ndraw, clipped = textbook_epoch(pre["H"], pre["T"], g["shared"], g["head"], g["tail"], g["nv"], eps, g["a"], g["b"],
                                                                              pre["rs"], g["gamma"], g["move_other"], alpha, epns, pre["nneg"], pre["nxt"], n)
            visited = [i for i in range(len(eps)) if nxt[i] != pre["nxt"][i]]
            due = [i for i in range(len(eps)) if pre["nxt"][i] <= n]
            if visited != [i for i in due if eps[i] != 0]:
                ctx.fail("single_epoch:visits_not_the_due_edges", "visited %s, due %s at epoch %d" % (visited, due, n), desc)
            # Near-coincident end points (0 < d^2 < 1e-6, e.g. two points attracted onto each other within one epoch): the repulsive
            # coefficient ~ 2*gamma*b / 0.001 is clipped to +-4 with the SIGN of a difference that is pure float32-vs-float64 rounding;
            # the update rule is discontinuous there, so positions computed in two precisions legitimately differ by up to 8*alpha
            # (seed 7: 1.04).  Such (graph, epoch) states are counted and their positions are not compared (clocks and draws still are).
            fragile = textbook_epoch.fragile
            if fragile: ctx.count("epochs_with_near_coincident_points_positions_not_compared")
            if not fragile and np.abs(tH - H).max() > PTOL * (1 + np.abs(tH).max()):
                ctx.fail("single_epoch:positions_not_textbook_update", "max deviation %g from the float64 textbook update" % np.abs(tH - H).max(), desc)
            if not g["shared"] and not g["move_other"] and not np.array_equal(T, pre["T"]):
                ctx.fail("single_epoch:reference_layout_moved", "tail embedding changed with move_other=False", desc)
            if not fragile and not g["shared"] and g["move_other"] and np.abs(tT - T).max() > PTOL * (1 + np.abs(tT).max()):
                ctx.fail("single_epoch:tail_not_textbook_update", "max deviation %g" % np.abs(tT - T).max(), desc)
            if [list(map(int, r)) for r in rs] != trng:
                ctx.fail("single_epoch:negative_sampling_draws", "RNG states differ from the number of draws the schedule prescribes", desc)
            moves = np.zeros(H.shape[0]);
            for i in fired:
                moves[g["head"][i]] += 1 + max(int((n - pre["nneg"][i]) / epns[i]), 0)
                if g["shared"] and g["move_other"]: moves[g["tail"][i]] += 1
            if np.any(np.abs(H.astype(np.float64) - pre["H"]).max(axis=1) > 4 * abs(alpha) * moves * (1 + 1e-5) + 1e-6):
                ctx.fail("single_epoch:move_exceeds_clip", "a coordinate moved more than 4*alpha per update", desc)
            near = bool(g["shared"] and any(np.array_equal(pre["H"][g["head"][i]], pre["H"][g["tail"][i]]) for i in fired))
            tags = [t for t, f in (("fired", bool(fired)), ("negatives", ndraw > 0), ("clip", clipped > 0), ("coincident", near), ("skipped", len(fired) < len(eps)),
                                   ("transform_style", not g["shared"]), ("alpha0", alpha == 0)) if f]
            ctx.tag((gno, n), tags)
            ctx.count("edges_fired", len(fired)); ctx.count("negative_draws", ndraw)
            if gno < 1 and n == start: ctx.sample(desc, 1)
            edges = "[" + "; ".join("mkEdgeF %d%%nat %d%%nat %s %s" % (int(h), int(t), fl(e), fl(en)) for h, t, e, en in zip(g["head"], g["tail"], eps, epns)) + "]"
            if fragile:
                continue          # (the Coq model runs in binary64, the kernel in float32: same discontinuity)
            terms.append("(mkCase %s %s %s %s %s %s %s %s %s %s %s %s %s %s %s %s %s %s %s)" % (
                fl(g["a"]), fl(g["b"]), fl(g["gamma"]), fl(alpha), fl(float(n)), zl(g["nv"]), "true" if g["move_other"] else "false",
                "true" if g["shared"] else "false", edges, ll(pre["H"]), "[]" if g["shared"] else ll(pre["T"]), flist(pre["nxt"]), flist(pre["nneg"]), rngl(pre["rs"]),
                ll(H), "[]" if g["shared"] else ll(T), flist(nxt), flist(nneg), rngl(rs)))
            cases.append(desc)
            if gno < nsrc and src_ready and pyres is not None:
                pH, pT, pn, pg, pr = pyres
                sterms.append("(mkCase %s %s %s %s %s %s %s %s %s %s %s %s %s %s %s %s %s %s %s)" % (
                    fl(g["a"]), fl(g["b"]), fl(g["gamma"]), fl(alpha), fl(float(n)), zl(g["nv"]), "true" if g["move_other"] else "false",
                    "true" if g["shared"] else "false", edges, ll(pre["H"]), "[]" if g["shared"] else ll(pre["T"]), flist(pre["nxt"]), flist(pre["nneg"]), rngl(pre["rs"]),
                    ll(pH), "[]" if g["shared"] else ll(pT), flist(pn), flist(pg), rngl(pr)))
                scases.append(desc)
    # ---- (2b) the TRANSLATED source (Src_layouts.v, regenerated from the current layouts.py) run in binary64 on the same states,
    #      against the interpreter running the kernel's source in float64 (validates the row-view / aliasing translation)
    for s in range(0, len(sterms), 60):
        text = hdr.replace("Import ListNotations.", "From UVS Require Import E_layouts.\nImport ListNotations.", 1) + \
            "Definition cases : list epoch_case := %s.\nEval vm_compute in map (verdict_src_epoch %s %s) cases.\n" % (clist(sterms[s:s + 60]), fl(SRC_PTOL), fl(CTOL))
        bl = link.coq_eval(ctx, lres, "cases_C07_src%d" % (s // 60), text, what="translated epoch kernel vs its py_func")
        if bl is None: continue
        v = parse_zlist(bl[0])
        if len(v) != 2 * len(sterms[s:s + 60]):
            ctx.broken.append("C07 translated-source verdict list length mismatch"); continue
        for off in range(len(v) // 2):
            code, dev = v[2 * off], v[2 * off + 1]
            ctx.traces += 1
            ctx.extra["max_src_position_deviation"] = max(ctx.extra.get("max_src_position_deviation", 0), dev / 1e12)
            if code == 6:
                ctx.broken.append("C07: a generated epoch case is outside the hypotheses of the link theorems src_sgd_shared_eq / src_sgd_distinct_eq")
            elif code != -1:
                ctx.diff(scases[s + off], "translated source of the epoch kernel vs py_func: " +
                         {1: "Tausworthe states", 2: "epoch_of_next_sample", 3: "epoch_of_next_negative_sample",
                          4: "head positions (dev %.3g)" % (dev / 1e12), 5: "tail positions"}.get(code, str(code)))
    ctx.extra["translated_epoch_cases"] = len(sterms)
    shard = 60
    maxdev = 0
    for s in range(0, len(terms), shard):
        text = hdr + "Definition cases : list epoch_case := %s.\nEval vm_compute in map (verdict_epoch %s %s) cases.\n" % (clist(terms[s:s + shard]), fl(PTOL), fl(CTOL))
        bl = ctx.coq_eval("cases_C07_%d" % (s // shard), text, what="epoch model vs jitted single-epoch kernel")
        if bl is None: continue
        v = parse_zlist(bl[0])
        if len(v) != 2 * len(terms[s:s + shard]):
            ctx.broken.append("C07 verdict list length mismatch"); continue
        for off in range(len(v) // 2):
            code, dev = v[2 * off], v[2 * off + 1]
            ctx.traces += 1; maxdev = max(maxdev, dev)
            if code != -1:
                ctx.diff(cases[s + off], {1: "Tausworthe states / number of negative draws", 2: "epoch_of_next_sample", 3: "epoch_of_next_negative_sample",
                                          4: "head positions (dev %.3g)" % (dev / 1e9), 5: "tail positions"}.get(code, str(code)))
    ctx.extra["max_position_deviation"] = maxdev / 1e9
    # ---- (3) whole runs: schedule computed by the Coq model, replayed through the kernel, must equal the driver bit for bit
    nruns = 12 if ctx.tier == "quick" else 80
    runs = []
    for r in range(nruns):
        g = gen_graph(rng, npr)
        N = rng.choice([3, 7, 12])
        if g["alpha0"] == 0: g["alpha0"] = 1.0
        eps = U.make_epochs_per_sample(g["w"], N)
        runs.append((g, N, eps))
    text = hdr + "Eval vm_compute in [%s].\n" % "; ".join(
        "map (fun n => alpha_of FNum %s %d%%Z n) [%s]%%Z" % (fl(g["alpha0"]), N, "; ".join(str(n) for n in range(N))) for g, N, eps in runs)
    text += "Eval vm_compute in [%s].\n" % "; ".join(
        "map (fun b => rng_state_of (%s, %s, %s)%%Z b) %s" % (zl(g["seed"][0]), zl(g["seed"][1]), zl(g["seed"][2]),
                                                          zlist([bits_of(x) for x in (g["H"][:, 0])])) for g, N, eps in runs)
    bl = ctx.coq_eval("cases_C07_runs", text, what="alpha schedule and per-vertex RNG derivation")
    if bl is not None:
        from vp.coqrun import parse_flist
        alphas = parse_flist(bl[0]); rstates = parse_zlist(bl[1])
        ai = ri = 0
        for g, N, eps in runs:
            H0 = g["H"].copy(); T0 = H0 if g["shared"] else g["T"].copy()
            # an epoch list in arbitrary order: the run uses max(list) epochs and returns the snapshots in increasing epoch order
            sub = sorted(rng.sample(range(N), rng.randint(0, N - 1)))
            elist = sub + [N]; rng.shuffle(elist)
            out = L.optimize_layout_euclidean(H0, T0, g["head"], g["tail"], list(elist), g["nv"], eps.copy(), g["a"], g["b"], g["seed"].copy(),
                                              gamma=g["gamma"], initial_alpha=g["alpha0"], negative_sample_rate=g["rate"], parallel=False, move_other=g["move_other"])
            H = g["H"].copy(); T = H if g["shared"] else g["T"].copy()
            nh = H.shape[0]
            rs = np.array(rstates[ri:ri + 3 * nh], dtype=object).reshape(nh, 3).astype(np.int64); ri += 3 * nh
            epns = eps / g["rate"]; nneg = epns.copy(); nxt = eps.copy()
            ok = True
            snaps = []
            for n in range(N):
                call_epoch(H, T, g["head"], g["tail"], g["nv"], eps, g["a"], g["b"], rs, g["gamma"], g["move_other"], alphas[ai + n], epns, nneg, nxt, n)
                snaps.append(H.copy())
            ai += N
            desc = dict(n_epochs=N, alpha0=g["alpha0"], a=g["a"], b=g["b"], gamma=g["gamma"], rate=g["rate"], move_other=g["move_other"], shared=g["shared"],
                        head=g["head"], tail=g["tail"], epochs_per_sample=eps, H=g["H"], T=g["T"], seed=g["seed"])
            ctx.traces += 1; ctx.tag(("run", r), ["whole_run"])
            want = [snaps[n_] for n_ in sub] + [snaps[N - 1]]
            desc["epoch_list"] = elist
            same = isinstance(out, list) and len(out) == len(want) and all(np.array_equal(o_, w_, equal_nan=True) for o_, w_ in zip(out, want))
            if not same:
                ctx.diff(desc, "optimize_layout_euclidean differs from the kernel replayed under the model's schedule (alpha / RNG derivation / clocks / snapshots)")
                # oracle: learning rate must decay linearly from alpha0 to 0 -> last epoch uses alpha0*(1-(N-2)/N); largest move bounded accordingly
                ctx.fail("optimize_layout_euclidean:schedule", "whole run differs from the SGD schedule of the property (learning-rate decay, per-vertex RNG, clocks)", desc)
    # ---- (4) epochs_per_sample and pruning, observed through simplicial_set_embedding --------------------
    captured = {}
    orig = U.optimize_layout_euclidean
    def spy(head_embedding, tail_embedding, head, tail, n_epochs, n_vertices, epochs_per_sample, *a, **k):
        captured.update(head=head.copy(), tail=tail.copy(), n_epochs=n_epochs, eps=epochs_per_sample.copy())
        return head_embedding
    U.optimize_layout_euclidean = spy
    try:
        import scipy.sparse as sp
        pterms, pcases = [], []
        for c in range(40 if ctx.tier == "quick" else 300):
            nv = rng.randint(4, 14)
            dens = npr.random((nv, nv)); M = np.triu((dens < 0.5) * 10 ** (-3.5 * npr.random((nv, nv))), 1).astype(np.float32)
            if rng.random() < 0.3: M[M > 0] = np.float32(rng.choice([1.0, 0.5])) / np.float32(rng.choice([500, 200, 11, 30]))
            if M.max() == 0: M[0, 1] = 0.7
            M.flat[np.argmax(M)] = np.float32(rng.choice([1.0, 1.0, 0.8]))
            Gm = sp.csr_matrix(M + M.T)
            ne = rng.choice([None, 0, 5, 10, 11, 30, 200, 500])
            captured.clear()
            emb, _ = U.simplicial_set_embedding(np.zeros((nv, 2), dtype=np.float32), Gm, 2, 1.0, 1.5, 0.9, 1.0, 5, ne, "random", np.random.RandomState(1), "euclidean", {}, False, {}, False)
            coo = Gm.tocoo(); w = coo.data; wmax = float(w.max())
            nmax = ne if ne is not None else 500
            kept = set(zip(captured["head"].tolist(), captured["tail"].tolist()))
            allp = list(zip(coo.row.tolist(), coo.col.tolist()))
            keepflags = [p in kept for p in allp]
            d = dict(weights=w, rows=coo.row, cols=coo.col, n_epochs=ne, kept=keepflags, eps=captured["eps"])
            # oracle: edges weaker than w_max / n_epochs are never used (pruned); all others are scheduled with period w_max / w
            thr = wmax / (nmax if nmax > 10 else 500)
            for (p, wv, kf) in zip(allp, w.tolist(), keepflags):
                if wv < thr * (1 - 1e-6) and kf:
                    ctx.fail("simplicial_set_embedding:weak_edge_used", "edge %s weight %g < w_max/n_epochs = %g is scheduled" % (p, wv, thr), d)
                if wv > thr * (1 + 1e-6) and not kf:
                    ctx.fail("simplicial_set_embedding:strong_edge_dropped", "edge %s weight %g >= w_max/n_epochs = %g is not scheduled" % (p, wv, thr), d)
            kw = [wv for wv, kf in zip(w.tolist(), keepflags) if kf]
            if len(kw) == len(captured["eps"]) and nmax > 0:
                exp_eps = np.array([wmax / x for x in kw])
                if np.abs(captured["eps"] / exp_eps - 1).max() > 1e-5:
                    ctx.fail("make_epochs_per_sample:period", "epochs_per_sample is not w_max / w", d)
            ctx.tag(("prune", c), ["pruning"] + (["some_pruned"] if not all(keepflags) else []))
            pterms.append("(%s, %s, %s, %s, %s)" % (fl(500.0), fl(float(nmax)), flist(w.tolist()), blist(keepflags), flist(captured["eps"].tolist()) if nmax > 0 else "[]"))
            pcases.append(d)
        text = hdr + ("Definition keepv (c : float * float * list float * list bool * list float) : Z :=\n"
                      "  let '(de, ne, ws, kf, eps) := c in\n"
                      "  let wmax := fold_left (fun m w => if m <? w then w else m) ws 0 in\n"
                      "  let thr := FloatFns.f_round32 (prune_threshold FNum de ne wmax) in\n"
                      "  let km := map (keep_edge FNum thr) ws in\n"
                      "  if negb (forallb (fun p => Bool.eqb (fst p) (snd p)) (combine km kf)) then 1%%Z else\n"
                      "  let em := map (fun w => epochs_per_sample FNum ne wmax w) (map fst (filter snd (combine ws km))) in\n"
                      "  if (0 <? ne) && negb (maxdiff em eps <=? 1e-6) then 2%%Z else (-1)%%Z.\n"
                      "Eval vm_compute in map keepv %s.\n" % clist(pterms))
        bl = ctx.coq_eval("cases_C07_prune", text, what="weak-edge pruning and epochs_per_sample")
        if bl is not None:
            v = parse_zlist(bl[0])
            for off, code in enumerate(v):
                ctx.traces += 1
                if code != -1:
                    ctx.diff(pcases[off], {1: "set of pruned edges", 2: "epochs_per_sample"}.get(code, "?"))
    finally:
        U.optimize_layout_euclidean = orig
    # ---- (5) generic-output-metric kernel with the Euclidean metric+gradient ---------------------------------------------
    import numba, umap.distances as Dm
    gk = numba.njit(L._optimize_layout_generic_single_epoch, fastmath=True)
    gterms, gcases = [], []
    gsterms, gscases = [], []     # the same states run through the kernel's SOURCE by the interpreter in float64 (reference for the translated source)
    ngsrc = 15 if ctx.tier == "quick" else 80
    for gno in range(25 if ctx.tier == "quick" else 250):
        g = gen_graph(rng, npr)
        H = g["H"].copy(); T = H if g["shared"] else g["T"].copy()
        # keep end points distinct: at d = 0 the gradient 0/(1e-6+0) and the `j == k` test are exercised by the Euclidean kernel cases
        eps = g["eps"].copy(); epns = eps / g["rate"]; nneg = epns.copy(); nxt = eps.copy()
        rs = np.array([[int(s_) for s_ in g["seed"]]] * H.shape[0], dtype=np.int64) + H[:, 0].astype(np.float64).view(np.int64).reshape(-1, 1)
        n = rng.choice([0, 1, 2, 5]); alpha = g["alpha0"] if g["alpha0"] > 0 else 0.5
        for rep in range(3):
            pre = dict(H=H.copy(), T=T.copy(), nxt=nxt.copy(), nneg=nneg.copy(), rs=rs.copy())
            gk(eps, nxt, g["head"], g["tail"], H, T, Dm.euclidean_grad, (), H.shape[1], alpha, g["move_other"], n, nneg, epns, rs, g["nv"], g["a"], g["b"], g["gamma"])
            if gno < ngsrc and gsrc_ready:
                pH = pre["H"].astype(np.float64); pT = pH if g["shared"] else pre["T"].astype(np.float64)
                pn, pg, pr = pre["nxt"].copy(), pre["nneg"].copy(), pre["rs"].copy()
                try:
                    with np.errstate(all="ignore"):
                        L._optimize_layout_generic_single_epoch(eps, pn, g["head"], g["tail"], pH, pT, Dm.euclidean_grad.py_func, (), pH.shape[1], alpha,
                                                                g["move_other"], n, pg, epns, pr, g["nv"], g["a"], g["b"], g["gamma"])
                    edges_ = "[" + "; ".join("mkEdgeF %d%%nat %d%%nat %s %s" % (int(h), int(t), fl(e), fl(en)) for h, t, e, en in zip(g["head"], g["tail"], eps, epns)) + "]"
                    gsterms.append("(mkCase %s %s %s %s %s %s %s %s %s %s %s %s %s %s %s %s %s %s %s)" % (
                        fl(g["a"]), fl(g["b"]), fl(g["gamma"]), fl(alpha), fl(float(n)), zl(g["nv"]), "true" if g["move_other"] else "false",
                        "true" if g["shared"] else "false", edges_, ll(pre["H"]), "[]" if g["shared"] else ll(pre["T"]), flist(pre["nxt"]), flist(pre["nneg"]), rngl(pre["rs"]),
                        ll(pH), "[]" if g["shared"] else ll(pT), flist(pn), flist(pg), rngl(pr)))
                    gscases.append(dict(kernel="generic/euclidean_grad (py_func, float64)", n=n, alpha=alpha, a=g["a"], b=g["b"], gamma=g["gamma"], move_other=g["move_other"],
                                        shared=g["shared"], n_vertices=g["nv"], head=g["head"], tail=g["tail"], epochs_per_sample=eps, pre=pre,
                                        post=dict(H=pH.copy(), T=pT.copy(), nxt=pn, nneg=pg, rs=pr)))
                except (OverflowError, ValueError, ZeroDivisionError):
                    pass             # int() of a non-finite quotient: the interpreter raises where the jitted kernel does not
            desc = dict(kernel="generic/euclidean_grad", n=n, alpha=alpha, a=g["a"], b=g["b"], gamma=g["gamma"], move_other=g["move_other"], shared=g["shared"], n_vertices=g["nv"],
                        head=g["head"], tail=g["tail"], epochs_per_sample=eps, pre=pre, post=dict(H=H.copy(), T=T.copy()))
            fired = [i for i in range(len(eps)) if pre["nxt"][i] <= n]
            ctx.tag(("generic", gno, rep), ["generic_kernel"] + (["fired"] if fired else []))
            # oracle: frame and the due-edge rule
            if not g["shared"] and not g["move_other"] and not np.array_equal(T, pre["T"]):
                ctx.fail("generic_epoch:reference_layout_moved", "tail embedding changed with move_other=False", desc)
            if [i for i in range(len(eps)) if nxt[i] != pre["nxt"][i]] != [i for i in fired if eps[i] != 0]:
                ctx.fail("generic_epoch:visits_not_the_due_edges", "visited edges are not the due ones", desc)
            edges = "[" + "; ".join("mkEdgeF %d%%nat %d%%nat %s %s" % (int(h), int(t), fl(e), fl(en)) for h, t, e, en in zip(g["head"], g["tail"], eps, epns)) + "]"
            gterms.append("(mkCase %s %s %s %s %s %s %s %s %s %s %s %s %s %s %s %s %s %s %s)" % (
                fl(g["a"]), fl(g["b"]), fl(g["gamma"]), fl(alpha), fl(float(n)), zl(g["nv"]), "true" if g["move_other"] else "false",
                "true" if g["shared"] else "false", edges, ll(pre["H"]), "[]" if g["shared"] else ll(pre["T"]), flist(pre["nxt"]), flist(pre["nneg"]), rngl(pre["rs"]),
                ll(H), "[]" if g["shared"] else ll(T), flist(nxt), flist(nneg), rngl(rs)))
            gcases.append(desc); n += 1
    gdev = 0
    for s in range(0, len(gterms), 40):
        bl = ctx.coq_eval("cases_C07_g%d" % (s // 40), hdr + "Definition cases : list epoch_case := %s.\nEval vm_compute in map (verdict_gepoch %s %s) cases.\n"
                          % (clist(gterms[s:s + 40]), fl(2e-3), fl(CTOL)), what="gepoch(euclidean_grad) vs jitted generic single-epoch kernel")
        if bl is None: continue
        v = parse_zlist(bl[0])
        for off in range(len(v) // 2):
            ctx.traces += 1; gdev = max(gdev, v[2 * off + 1])
            if v[2 * off] != -1:
                ctx.diff(gcases[s + off], {1: "Tausworthe states / number of negative draws", 2: "epoch_of_next_sample", 3: "epoch_of_next_negative_sample",
                                           4: "head positions (dev %.3g)" % (v[2 * off + 1] / 1e9), 5: "tail positions"}.get(v[2 * off], "?"))
    ctx.extra["max_position_deviation_generic"] = gdev / 1e9
    # ---- (5a) the TRANSLATED source of the generic kernel (Src_layouts_generic.v, regenerated from the current layouts.py) run in binary64 with
    #      output_metric := a transcription of euclidean_grad, against the interpreter running the kernel's source with euclidean_grad.py_func
    for s in range(0, len(gsterms), 60):
        text = hdr.replace("Import ListNotations.", "From UVS Require Import E_layouts_generic.\nImport ListNotations.", 1) + \
            "Definition cases : list epoch_case := %s.\nEval vm_compute in map (verdict_src_gepoch %s %s) cases.\n" % (clist(gsterms[s:s + 60]), fl(SRC_PTOL), fl(CTOL))
        bl = link.coq_eval(ctx, lgres, "cases_C07_gsrc%d" % (s // 60), text, what="translated generic epoch kernel vs the interpreter running its source")
        if bl is None: continue
        v = parse_zlist(bl[0])
        if len(v) != 2 * len(gsterms[s:s + 60]):
            ctx.broken.append("C07 translated-source (generic kernel) verdict list length mismatch"); continue
        for off in range(len(v) // 2):
            code, dev = v[2 * off], v[2 * off + 1]
            ctx.traces += 1
            ctx.extra["max_gsrc_position_deviation"] = max(ctx.extra.get("max_gsrc_position_deviation", 0), dev / 1e12)
            if code == 6:
                ctx.broken.append("C07: a generated generic-kernel case is outside the hypotheses of the link theorems src_sgdg_shared_eq / src_sgdg_distinct_eq")
            elif code != -1:
                ctx.diff(gscases[s + off], "translated source of the generic epoch kernel vs the interpreter: " +
                         {1: "Tausworthe states", 2: "epoch_of_next_sample", 3: "epoch_of_next_negative_sample",
                          4: "head positions (dev %.3g)" % (dev / 1e12), 5: "tail positions", 7: "returned clock arrays"}.get(code, str(code)))
    ctx.extra["translated_generic_epoch_cases"] = len(gsterms)
    # ---- (5b) generic kernel with NON-Euclidean output metrics (haversine on the sphere, hyperboloid): the attractive move of a visited
    #      edge moves the head along the gradient of d(head, tail) in its first argument and, when move_other, the tail along ITS OWN
    #      gradient d(tail, head) -- not the negated head step, which coincides only for translation-invariant metrics.  Negative sampling
    #      is switched off (clocks far in the future); reference: float64 transcription of the documented update using the metric's own
    #      gradient function (py_func; C14 ties it to the derivative)
    def ref_attract(H0, T0, shared, head, tail, nxt0, eps_, n_, a_, b_, alpha_, move_other_, mfun):
        H_ = H0.astype(np.float64).copy(); T_ = H_ if shared else T0.astype(np.float64).copy()
        for i_ in range(len(eps_)):
            if nxt0[i_] <= n_:
                cur, oth = H_[head[i_]], T_[tail[i_]]
                d_, g_ = mfun(cur.copy(), oth.copy()); _, rg_ = mfun(oth.copy(), cur.copy())
                w_ = 1.0 / (1.0 + a_ * d_ ** (2 * b_)) if d_ > 0 else 1.0
                gc_ = 2 * b_ * (w_ - 1) / (d_ + 1e-6)
                for dd in range(H_.shape[1]):
                    cur[dd] += min(4.0, max(-4.0, gc_ * g_[dd])) * alpha_
                    if move_other_:
                        oth[dd] += min(4.0, max(-4.0, gc_ * rg_[dd])) * alpha_
        return H_, T_
    for gno in range(12 if ctx.tier == "quick" else 120):
        mname = ("haversine_grad", "hyperboloid_grad")[gno % 2]
        mj = getattr(Dm, mname); mpy = mj.py_func
        nvert = rng.randint(4, 9); ne = rng.randint(3, 12)
        if mname == "haversine_grad":
            Hn = np.stack([npr.uniform(-1.2, 1.2, size=nvert), npr.uniform(-2.8, 2.8, size=nvert)], axis=1).astype(np.float32)
            Tn = np.stack([npr.uniform(-1.2, 1.2, size=nvert), npr.uniform(-2.8, 2.8, size=nvert)], axis=1).astype(np.float32)
        else:
            Hn = npr.normal(size=(nvert, 2)).astype(np.float32); Tn = npr.normal(size=(nvert, 2)).astype(np.float32)
        shared = gno % 4 < 2; move_other = shared or (gno % 3 == 0)
        headv = np.array([rng.randrange(nvert) for _ in range(ne)], dtype=np.int32)
        tailv = np.array([(h + 1 + rng.randrange(nvert - 1)) % nvert for h in headv], dtype=np.int32) if shared else np.array([rng.randrange(nvert) for _ in range(ne)], dtype=np.int32)
        epsv = npr.uniform(1.0, 3.0, size=ne); nxtv = np.where(npr.random(ne) < 0.7, 0.5, 7.0) * np.ones(ne)
        epnsv = np.full(ne, 1.0); nnegv = np.full(ne, 1e9)            # (n - 1e9)/1 < 0: no negative samples
        rsv = np.tile(np.array([1, 2, 3], dtype=np.int64), (nvert, 1))
        a_, b_, alpha_, n_ = rng.uniform(0.5, 2.0), rng.uniform(0.6, 1.2), rng.uniform(0.05, 0.6), 1
        Hk = Hn.copy(); Tk = Hk if shared else Tn.copy()
        gk(epsv.copy(), nxtv.copy(), headv, tailv, Hk, Tk, mj, (), 2, alpha_, move_other, n_, nnegv.copy(), epnsv, rsv.copy(), nvert, a_, b_, 1.0)
        Hr, Tr = ref_attract(Hn, Tn, shared, headv, tailv, nxtv, epsv, n_, a_, b_, alpha_, move_other, mpy)
        desc = dict(kernel="generic/" + mname, n=n_, alpha=alpha_, a=a_, b=b_, move_other=move_other, shared=shared, head=headv, tail=tailv,
                    epoch_of_next_sample=nxtv, H=Hn, T=None if shared else Tn, H_after=Hk.copy(), H_reference=Hr)
        ctx.tag(("generic_noneuclid", gno), ["generic_kernel_" + mname] + (["move_other"] if move_other else []))
        dev = float(np.max(np.abs(Hk.astype(np.float64) - Hr)))
        devT = 0.0 if shared else float(np.max(np.abs(Tk.astype(np.float64) - Tr)))
        if not (dev <= 2e-3 and devT <= 2e-3):        # also catches NaN
            ctx.fail("generic_epoch:%s:attractive_move" % mname, "after one epoch of attractive moves the layout deviates from the documented update by %.3g (head) / %.3g (tail); "
                     "move_other=%s" % (dev, devT, move_other), desc)
        if not shared and not move_other and not np.array_equal(Tk, Tn):
            ctx.fail("generic_epoch:reference_layout_moved", "tail embedding changed with move_other=False (%s)" % mname, desc)
    # ---- (6) parametric variant: get_graph_elements (executed from its source text; TensorFlow is not needed for it) ----------
    src = srcparams.func_source("umap/parametric_umap.py", "get_graph_elements")
    ctx.obligations.append("source: parametric_umap.get_graph_elements can be extracted and executed")
    if src is None:
        ctx.broken.append("get_graph_elements not found in umap/parametric_umap.py")
    else:
        ns = {"np": np}
        exec(src, ns); gge = ns["get_graph_elements"]
        ctx.discharged.append(ctx.obligations[-1])
        import scipy.sparse as sp
        qterms, qcases = [], []
        for c in range(30 if ctx.tier == "quick" else 200):
            nv = rng.randint(4, 12)
            M = np.triu((npr.random((nv, nv)) < 0.5) * 10 ** (-3.2 * npr.random((nv, nv))), 1).astype(np.float32)
            if M.max() == 0: M[0, 1] = 0.7
            M.flat[np.argmax(M)] = np.float32(1.0)
            Gm = sp.csr_matrix(M + M.T); ne = rng.choice([5, 30, 200, 500])
            before = Gm.copy()
            graph, eps_, head_, tail_, weight_, nvv = gge(Gm, ne)
            coo = before.tocoo(); w = coo.data
            kept = set(zip(head_.tolist(), tail_.tolist()))
            kf = [p in kept for p in zip(coo.row.tolist(), coo.col.tolist())]
            reps = eps_.astype("int").tolist()
            d = dict(weights=w, rows=coo.row, cols=coo.col, n_epochs=ne, kept=kf, repeats=reps)
            ctx.tag(("param", c), ["parametric_replication"] + (["some_pruned"] if not all(kf) else []))
            # oracle: replicated in proportion to the membership (floor(n_epochs*w)), weak edges (< w_max/n_epochs) unused, caller's graph untouched
            kw_ = [x for x, k_ in zip(w.tolist(), kf) if k_]
            if any(abs(r - ne * x) > 1 + 1e-3 * ne * x for r, x in zip(reps, kw_)) or len(reps) != len(kw_):
                ctx.fail("get_graph_elements:replication_not_proportional", "repeat counts are not floor(n_epochs*w)", d)
            if any(x < w.max() / ne * (1 - 1e-6) and k_ for x, k_ in zip(w.tolist(), kf)):
                ctx.fail("get_graph_elements:weak_edge_used", "an edge below w_max/n_epochs is replicated", d)
            if (before != Gm).nnz != 0 or not np.array_equal(before.data, Gm.data):
                ctx.fail("get_graph_elements:caller_graph_modified", "the fitted graph was modified in place", d)
            qterms.append("(%s, %s, %s, %s)" % (fl(float(ne)), flist(w.tolist()), blist(kf), zlist(reps)))
            qcases.append(d)
        bl = ctx.coq_eval("cases_C07_param", hdr + "Eval vm_compute in map verdict_replication %s.\n" % clist(qterms), what="replication vs get_graph_elements")
        if bl is not None:
            for off, code in enumerate(parse_zlist(bl[0])):
                ctx.traces += 1
                if code != -1: ctx.diff(qcases[off], {1: "set of pruned edges", 2: "repeat counts"}.get(code, "?"))
    ctx.partial.append("the generic optimiser is compared with the Euclidean output metric only (other output metrics' gradients are C14's); the TensorFlow edge dataset of the parametric variant is not modelled beyond the replication count")
    return ctx.finish(RULE, assumptions=["float32 kernel arithmetic / fastmath observed with tolerance; parallel=True kernel not covered (C06 covers its selection)"])

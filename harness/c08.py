"""C08 — the fitted graph does not depend on layout-stage hyperparameters; no explicitly stored zeros."""
import inspect, time
import numpy as np, scipy.sparse as sp
from vp.coqrun import clist, parse_zlist
import alias_util as A
import umap, umap.umap_ as U

RULE = ("scenarios (dense / CSR input, unsupervised, categorical and continuous targets, densMAP, set_op_mix_ratio 0.3 with an active "
        "disconnection distance, NN-descent path (also on data where it is genuinely approximate); thorough adds precomputed / cosine / larger n / more datasets) x one base configuration and "
        "variants differing in exactly one of n_epochs (0, 1, 10, 11, 60, None, lists), learning_rate, init (random / pca / spectral / float32 and "
        "float64-F arrays), n_components, min_dist, spread, repulsion_strength, negative_sample_rate; every fit is observed through a wrapper of "
        "simplicial_set_embedding (graph buffers hashed at entry and after fit) and is one Coq case: the machine run on the fit's attribute "
        "valuation must predict the observed sharing / change / canonical / stored-zero facts.  Non-trivial: the pruning threshold removes at "
        "least one edge (the in-place write that the private copy protects against), or the variant is a list / <= 10 epochs / array init.")

BASE = dict(n_neighbors=6, n_epochs=20, learning_rate=1.0, init="spectral", n_components=2, min_dist=0.1, spread=1.0,
            repulsion_strength=1.0, negative_sample_rate=5, random_state=7)


def variants(rs, n):
    a32 = rs.normal(size=(n, 2)).astype(np.float32)
    a64 = np.asfortranarray(rs.normal(size=(n, 2)))
    return [("n_epochs", 0), ("n_epochs", 1), ("n_epochs", 10), ("n_epochs", 11), ("n_epochs", 60), ("n_epochs", None),
            ("n_epochs", [2, 9]), ("n_epochs", [0, 25]), ("learning_rate", 0.05), ("learning_rate", 4.0),
            ("init", "random"), ("init", "pca"), ("init", a32), ("init", a64),
            ("n_components", 1), ("n_components", 3), ("n_components", 5), ("min_dist", 0.0), ("min_dist", 0.8), ("spread", 2.5),
            ("repulsion_strength", 0.0), ("repulsion_strength", 4.0), ("negative_sample_rate", 1), ("negative_sample_rate", 11)]


def make_scenario(name, rs, n, dim):
    X = rs.normal(size=(n, dim)).astype(np.float32)
    X[: n // 2] += 2.5
    X[rs.randint(n)] = X[rs.randint(n)]                       # one duplicated point
    kw, y = {}, None
    if name.startswith("sparse"):
        Xd = X.copy(); Xd[rs.random_sample(Xd.shape) < 0.4] = 0
        X = sp.csr_matrix(Xd)
    if name.endswith("_cat"):
        y = (np.arange(n) % 3).astype(np.int64); y[rs.randint(n, size=3)] = -1
    if name.endswith("_cont"):
        y = (rs.normal(size=n) + np.arange(n) / n * 4).astype(np.float64); kw["target_metric"] = "l2"
    if name == "densmap":
        kw["densmap"] = True
    if name == "mix_disc":
        D = np.sqrt(((X[:, None] - X[None]) ** 2).sum(-1))
        kw.update(set_op_mix_ratio=0.3, disconnection_distance=float(np.quantile(D[D > 0], 0.7)))
    if name == "nndescent":
        kw["force_approximation_algorithm"] = True
    if name == "nndescent_hard":      # high-dimensional, few neighbours: NN-descent is genuinely approximate, so the graph depends on every random draw made before it
        X = rs.normal(size=(400, 30)).astype(np.float32)
        kw.update(force_approximation_algorithm=True, n_neighbors=4)
    if name == "precomputed":
        X = np.sqrt(((X[:, None] - X[None]) ** 2).sum(-1)).astype(np.float32); kw["metric"] = "precomputed"
    if name == "cosine":
        kw["metric"] = "cosine"
    if name == "cat_w09":
        y = (np.arange(n) % 4).astype(np.int64); kw["target_weight"] = 0.9
    return X, y, kw


class Spy:
    """wrapper of umap.umap_.simplicial_set_embedding: hashes the graph buffers it is given (a module-level function, no source hook)"""

    def __init__(self):
        self.orig = U.simplicial_set_embedding
        self.sig = inspect.signature(self.orig)
        self.rec = None

    def __call__(self, *a, **k):
        ba = self.sig.bind(*a, **k); ba.apply_defaults()
        g = ba.arguments["graph"]
        ne = ba.arguments["n_epochs"]
        c = g.tocoo(copy=True); c.sum_duplicates()
        default = (500 if g.shape[0] <= 10000 else 200) + (200 if ba.arguments["densmap"] else 0)
        nmax = default if ne is None else (max(ne) if isinstance(ne, list) else ne)
        thr = c.data.max() / float(nmax if nmax > 10 else default)
        self.rec = dict(graph=g, fmt=g.format, pre=(A.sha(g.data), A.sha(g.indices), A.sha(g.indptr)) if g.format == "csr" else None,
                        weak=bool((c.data < thr).any()), canonical=bool(g.has_canonical_format), n_epochs=ne)
        return self.orig(*a, **k)

    def __enter__(self):
        U.simplicial_set_embedding = self; return self

    def __exit__(self, *e):
        U.simplicial_set_embedding = self.orig


def jsonable(v):
    return v.tolist() if isinstance(v, np.ndarray) else v


def describe(name, X, y, kw, param=None, value=None):
    d = dict(scenario=name, sparse=bool(sp.issparse(X)), X=(np.asarray(X.todense()) if sp.issparse(X) else X), y=y, kwargs=kw, base=BASE)
    if param is not None:
        d.update(param=param, value=jsonable(value), value_dtype=str(getattr(value, "dtype", "")),
                 value_order=("F" if isinstance(value, np.ndarray) and value.flags.f_contiguous and not value.flags.c_contiguous else "C"))
    return d


def one_fit(X, y, kw, spy):
    m = umap.UMAP(**kw)
    spy.rec = None
    m.fit(X, y) if y is not None else m.fit(X)
    return m, spy.rec


def graph_sig(m):
    g = m.graph_
    return (g.format, g.shape, A.sha(g.data), A.sha(g.indices), A.sha(g.indptr))


def check_graph(ctx, m, rec, desc, where="UMAP.fit"):
    """oracle clauses about one fitted model"""
    ok = True
    g = m.graph_
    if (g.data == 0).any() or g.nnz != g.count_nonzero():
        ctx.fail("%s.graph_:stored_zero_or_n_epochs_dependence" % where, "graph_ holds %d explicitly stored zeros" % int((g.data == 0).sum()), desc); ok = False
    if g.shape[0] != g.shape[1]:
        ctx.fail("%s.graph_:shape" % where, "graph_ shape %s" % (g.shape,), desc); ok = False
    if rec is not None and rec["pre"] is not None and rec["graph"] is g and rec["pre"] != graph_sig(m)[2:]:
        ctx.fail("%s.graph_:changed_by_layout_stage" % where, "graph_ buffers differ from what the graph stage handed to the layout stage", desc); ok = False
    return ok


def fit_case_term(env, X, y, kw, init, m, rec, before, after):
    """Coq case of one fit: attribute valuation + observed facts"""
    metric = kw.get("metric", "euclidean")
    sparse = sp.issparse(X)
    n = X.shape[0]
    small = n < 4096 and not kw.get("force_approximation_algorithm", False)
    d = kw.get("disconnection_distance")
    disc = False
    if d is not None:
        if hasattr(m, "_knn_dists") and getattr(m, "_knn_dists", None) is not None and not small:
            disc = bool(np.isinf(m._knn_dists).any())
        else:
            Xd = np.asarray(X.todense()) if sparse else X
            D = Xd if metric == "precomputed" else np.sqrt(((Xd[:, None] - Xd[None]) ** 2).sum(-1))
            disc = bool((D >= d).any())
    target = "TNone" if y is None else ("TCategorical" if kw.get("target_metric", "categorical") == "categorical" else "TContinuous")
    yconf = y is not None and y.dtype.kind in "iufb" and env["check_array_identity_y"]
    g = A.gcfg_term(sparse, A.x_conforms(X, metric, env), (bool(X.has_sorted_indices) if sparse else True), A.metric_class(metric),
                    False, False, disc, small, target, yconf)
    ne = kw.get("n_epochs")
    l = A.lcfg_term(A.init_kind(init), rec["weak"] if rec else False, isinstance(ne, list), True)
    changed = [before[k] != after[k] for k in ("X", "y", "init")] + [False, False]
    gr = m.graph_
    obs = changed + [A.shares(X, m._raw_data), False, False, A.shares(init if isinstance(init, np.ndarray) else None, m.embedding_),
                     bool(gr.has_canonical_format), bool((gr.data == 0).any()),
                     bool(rec is not None and rec["pre"] is not None and rec["pre"] != graph_sig(m)[2:])]
    return "(%s, %s, %s, %s)" % (env["_facts"], g, l, A.blist(obs))


def snap3(X, y, init):
    return dict(X=A.snap_obj(X)[0], y=A.snap_obj(y)[0], init=A.snap_obj(init if isinstance(init, np.ndarray) else None)[0])


def run_pairs(ctx, env, name, X, y, extra, rs, terms, descs, vsel=None):
    kw0 = dict(BASE, **extra)
    with Spy() as spy:
        base, rec0 = one_fit(X, y, kw0, spy)
        d0 = describe(name, X, y, extra)
        check_graph(ctx, base, rec0, d0)
        ref = graph_sig(base)
        n = X.shape[0]
        vs = variants(rs, n)
        if vsel is not None:
            vs = [vs[i] for i in vsel]
        for param, value in vs:
            kw = dict(kw0); kw[param] = value
            d = describe(name, X, y, extra, param, value)
            before = snap3(X, y, value if param == "init" else None)
            try:
                m, rec = one_fit(X, y, kw, spy)
            except Exception as e:
                ctx.count("variant_raised:%s=%s:%s" % (param, "array" if isinstance(value, np.ndarray) else value, type(e).__name__))
                continue
            after = snap3(X, y, value if param == "init" else None)
            sig = graph_sig(m)
            if sig != ref or not (np.array_equal(m.graph_.data, base.graph_.data) and np.array_equal(m.graph_.indices, base.graph_.indices)
                                  and np.array_equal(m.graph_.indptr, base.graph_.indptr)):
                diff = abs(m.graph_ - base.graph_)
                s = "UMAP.fit.graph_:stored_zero_or_n_epochs_dependence" if param == "n_epochs" else "UMAP.fit.graph_:depends_on_%s" % param
                ctx.fail(s, "graph_ differs from the base configuration's when only %s changes to %s (%d entries differ, max %g; nnz %d vs %d)"
                         % (param, "an array" if isinstance(value, np.ndarray) else value, diff.nnz, diff.max() if diff.nnz else 0, m.graph_.nnz, base.graph_.nnz), d)
            check_graph(ctx, m, rec, d)
            tags = [t for t, f in (("prune_writes", bool(rec and rec["weak"])), ("n_epochs<=10", param == "n_epochs" and not isinstance(value, list) and value is not None and value <= 10),
                                   ("n_epochs_list", isinstance(value, list)), ("init_array", isinstance(value, np.ndarray)), ("supervised", y is not None),
                                   ("sparse", sp.issparse(X)), ("densmap", bool(extra.get("densmap")))) if f]
            ctx.tag((name, param, repr(jsonable(value)), A.snap_obj(X)[1]), tags)
            ctx.count("scenario=" + name); ctx.count("param=" + param)
            terms.append(fit_case_term(env, X, y, kw, value if param == "init" else kw["init"], m, rec, before, after))
            descs.append(d)
        ctx.sample(dict(scenario=name, n=n, base=BASE, extra={k: jsonable(v) for k, v in extra.items()}, graph_nnz=int(base.graph_.nnz)), 3)
    return base


def refit_histories(ctx, rs):
    """one estimator object refitted after set_params of layout-stage hyperparameters only (scikit-learn protocol): graph_ must stay
    bit-identical from fit to fit and equal a fresh estimator's (nothing the layout stage did to the previous graph_ may leak)"""
    n = 40
    X = rs.normal(size=(n, 4)).astype(np.float32); X[:12] += 3
    y = (X[:, 0] > 1).astype(np.int64)
    for name, yy, extra in (("unsupervised", None, {}), ("supervised", y, {}), ("densmap", None, dict(densmap=True)), ("mix0.3", None, dict(set_op_mix_ratio=0.3))):
        est = umap.UMAP(n_neighbors=5, random_state=3, n_epochs=30, **extra)
        steps = [dict(), dict(n_epochs=5), dict(n_epochs=0, learning_rate=3.0), dict(n_epochs=[7, 3]), dict(n_epochs=40, init="random", min_dist=0.4),
                 dict(n_components=3, repulsion_strength=2.0, negative_sample_rate=2)]
        ref = None
        for i, st in enumerate(steps):
            d = dict(op="refit", scenario=name, step=i, set_params={k: jsonable(v) for k, v in st.items()}, X=X, y=yy)
            try:
                est.set_params(**st); est.fit(X, yy)
            except Exception as e:
                ctx.count("refit_raised:%s" % type(e).__name__); continue
            check_graph(ctx, est, None, d, "UMAP.fit(refit)")
            sig = graph_sig(est)
            ctx.tag(("refit", name, i), ["refit_same_estimator"])
            if ref is None: ref = sig
            elif sig != ref:
                ctx.fail("UMAP.fit(refit).graph_:depends_on_layout_history", "graph_ after set_params(%s) and refit differs from the first fit's" % st, d)
        fresh = umap.UMAP(n_neighbors=5, random_state=3, n_epochs=30, **extra).fit(X, yy)
        if ref is not None and graph_sig(fresh) != ref:
            ctx.fail("UMAP.fit(refit).graph_:differs_from_fresh_estimator", "graph_ of the refitted estimator differs from a fresh estimator's (%s)" % name, dict(op="refit", scenario=name, X=X, y=yy))


def aligned_mappers(ctx, rs):
    """AlignedUMAP keeps one fitted UMAP model per slice (mappers_): their graph_ is a fitted graph like any other -- no stored zeros,
    identical whatever n_epochs / learning_rate the alignment optimiser is run with"""
    import umap.aligned_umap as AU
    n = 60
    base = np.concatenate([rs.normal(size=(n // 3, 4)) * s_ + c_ for s_, c_ in ((0.2, 0.0), (1.0, 4.0), (3.0, 12.0))]).astype(np.float32)
    slices = [base[:45].copy(), base[10:55].copy(), base[15:60].copy()]
    rel = [{i + 10: i for i in range(35)}, {i + 5: i for i in range(40)}]
    sigs = {}
    for name, kw in (("default", {}), ("epochs30", dict(n_epochs=30)), ("epochs400_lr", dict(n_epochs=400, learning_rate=0.2)), ("min_dist", dict(n_epochs=30, min_dist=0.5))):
        d = dict(op="AlignedUMAP.fit", variant=name, kwargs=kw, slices=[s_.shape for s_ in slices])
        try:
            am = AU.AlignedUMAP(n_neighbors=12, random_state=5, **kw).fit(slices, relations=rel)
        except Exception as e:
            ctx.count("aligned_raised:%s" % type(e).__name__); continue
        for i_, mp in enumerate(am.mappers_):
            check_graph(ctx, mp, None, dict(d, slice=i_), "AlignedUMAP.mappers_[%d]" % i_)
            sigs.setdefault(i_, {})[name] = graph_sig(mp)
        ctx.tag(("aligned", name), ["aligned_mappers"])
    for i_, byname in sigs.items():
        if len(set(byname.values())) > 1:
            ctx.fail("AlignedUMAP.mappers_.graph_:depends_on_layout_hyperparameters", "graph_ of slice %d differs between alignment runs that change only n_epochs / learning_rate / min_dist: %s"
                     % (i_, sorted(byname)), dict(op="AlignedUMAP.fit", slice=i_, slices=[s_.shape for s_ in slices]))


def other_graph_producers(ctx, env, rs):
    """update() and the combination operators: result graphs hold no stored zeros and do not depend on n_epochs of the operands"""
    refit_histories(ctx, rs)
    aligned_mappers(ctx, rs)
    n = 36
    X = rs.normal(size=(n, 4)).astype(np.float32); X2 = rs.normal(size=(9, 4)).astype(np.float32)
    sigs = {}
    for ne in (0, 12, 40):
        m = umap.UMAP(n_neighbors=5, n_epochs=ne, random_state=3).fit(X)
        m.update(X2)
        d = dict(op="update", n_epochs=ne, X=X, X_new=X2)
        check_graph(ctx, m, None, d, "UMAP.update")
        sigs[ne] = graph_sig(m)
        ctx.tag(("update", ne), ["update"])
    if len(set(sigs.values())) != 1:
        ctx.fail("UMAP.update.graph_:depends_on_n_epochs", "updated graph_ differs between n_epochs 0 / 12 / 40", dict(op="update", X=X, X_new=X2))
    res = {}
    for ne in (11, 45):
        m1 = umap.UMAP(n_neighbors=5, n_epochs=ne, random_state=3).fit(X)
        m2 = umap.UMAP(n_neighbors=7, n_epochs=ne, random_state=4).fit(X[:, :3].copy())
        for opn, op in (("mul", lambda a, c: a * c), ("add", lambda a, c: a + c), ("sub", lambda a, c: a - c)):
            r = op(m1, m2)
            d = dict(op=opn, n_epochs=ne, X=X)
            check_graph(ctx, r, None, d, "UMAP.__%s__" % opn)
            res[(opn, ne)] = graph_sig(r)
            ctx.tag(("combine", opn, ne), ["combine"])
    for opn in ("mul", "add", "sub"):
        if res[(opn, 11)] != res[(opn, 45)]:
            ctx.fail("UMAP.__%s__.graph_:depends_on_n_epochs" % opn, "combined graph_ differs when the operands' n_epochs changes", dict(op=opn, X=X))


def parametric_elements(ctx, rs):
    """ParametricUMAP._fit_embed_data hands self.graph_ to get_graph_elements: it must not be modified by it"""
    try:
        gge = A.get_graph_elements_func()
    except Exception as e:
        ctx.notes.append("get_graph_elements could not be extracted: %s" % e); return
    M = np.triu(rs.random_sample((12, 12)) ** 3, 1).astype(np.float32); M[0, 1] = 1.0
    G = sp.csr_matrix(M + M.T); G.sum_duplicates()
    for ne in (5, 50):
        g = G.copy(); before = (A.sha(g.data), A.sha(g.indices), A.sha(g.indptr))
        gge(g, ne)
        after = (A.sha(g.data), A.sha(g.indices), A.sha(g.indptr))
        ctx.tag(("parametric", ne), ["parametric_prune"])
        if before != after or (g.data == 0).any():
            ctx.fail("parametric_umap.get_graph_elements:prunes_model_graph_in_place",
                     "the graph_ passed in is modified (%d stored zeros) for n_epochs=%d" % (int((g.data == 0).sum()), ne), dict(graph=G.todense(), n_epochs=ne))


def run(ctx):
    ctx.check_proofs(["prop/P_C08.v"])
    rng = ctx.rng
    rs = np.random.RandomState(rng.randrange(2 ** 31))
    env = A.probe_env()
    env["_facts"] = "(mkFacts %s)" % A.b(env["tocoo_shares"])
    ctx.extra["environment_facts"] = env
    # ---- what the source says now -> obligation re-proved for that source and the probed SciPy behaviour ------------------
    fx = A.source_fixes()
    ctx.extra["source_fixes"] = fx
    tv = lambda k: A.b(fx[k] is not False)
    text = (A.HDR + "Definition src : fixes := mkFixes %s %s %s %s.\nDefinition probed : facts := %s.\n" % (tv("tocoo"), tv("knn"), tv("sub"), tv("tail"), env["_facts"])
            + "Lemma C08_layout_keeps_graph_for_this_source : forallb (fun g => c08_all src probed g) all_gcfg = true.\nProof. vm_compute. reflexivity. Qed.\n"
            + "Eval vm_compute in map verdict_env [(probed, %s)].\n")
    ctx.obligations.append("gen/params_C08.v:C08_layout_keeps_graph_for_this_source")
    # canonical flags of graph_ for the kinds of model (probed facts vs the machine's predictions)
    Xp = rs.normal(size=(30, 4)).astype(np.float32)
    mu = umap.UMAP(n_neighbors=5, n_epochs=11, random_state=1).fit(Xp)
    mc = umap.UMAP(n_neighbors=5, n_epochs=11, random_state=1).fit(Xp, np.arange(30) % 3)
    mr = umap.UMAP(n_neighbors=5, n_epochs=11, random_state=1, target_metric="l2").fit(Xp, Xp[:, 0].astype(np.float64))
    m2 = umap.UMAP(n_neighbors=7, n_epochs=11, random_state=2).fit(Xp[:, :3].copy())
    mup = umap.UMAP(n_neighbors=5, n_epochs=11, random_state=1).fit(Xp); mup.update(rs.normal(size=(6, 4)).astype(np.float32))
    canon = [bool(x.graph_.has_canonical_format and x.graph_.format == "csr") for x in (mu, mc, mr, mu + m2, mu * m2, mu - m2, mup)]
    envobs = [env["tocoo_shares"], env["tocoo_copy_true_shares"]] + canon
    ctx.extra["environment_facts"]["graph_canonical"] = dict(zip(("unsupervised", "categorical", "continuous", "add", "mul", "sub", "updated"), canon))
    bl = ctx.coq_eval("params_C08", text % A.blist(envobs), what="layout stage keeps graph_ for the fixes found in the source and the probed SciPy facts")
    if bl is not None:
        ctx.discharged.append("gen/params_C08.v:C08_layout_keeps_graph_for_this_source")
        v = parse_zlist(bl[0]); ctx.traces += 1
        if v != [-1]:
            ctx.diff(dict(environment=envobs), "environment fact %s differs from the machine's input/prediction" % v)
    ctx.tag(("env",), ["environment"])
    if not env["check_array_identity_dense"] or not env["tocoo_keeps_canonical"]:
        ctx.notes.append("probed environment differs from the model's assumptions: %s" % env)
    # ---- the property relation -----------------------------------------------------------------------------------------
    quick = ctx.tier == "quick"
    names = ["dense", "dense_cat", "dense_cont", "densmap", "sparse", "sparse_cat", "mix_disc", "nndescent", "nndescent_hard"]
    if not quick:
        names += ["precomputed", "cosine", "cat_w09", "sparse_cont"]
    terms, descs = [], []
    for rep in range(1 if quick else 3):
        for name in names:
            n = rng.randint(30, 48) if quick else rng.randint(30, 120)
            X, y, extra = make_scenario(name, rs, n, rng.randint(3, 6))
            run_pairs(ctx, env, name, X, y, extra, rs, terms, descs)
    other_graph_producers(ctx, env, rs)
    parametric_elements(ctx, rs)
    # ---- correspondence ----------------------------------------------------------------------------------------------------
    shard = 120
    for s in range(0, len(terms), shard):
        text = A.HDR + "Definition cases : list (facts * gcfg * lcfg * list bool) := %s.\nEval vm_compute in map verdict_fit cases.\n" % clist(terms[s:s + shard])
        bl = ctx.coq_eval("cases_C08_%d" % (s // shard), text, what="machine predictions vs observed sharing / change / flags of graph_")
        if bl is None:
            continue
        v = parse_zlist(bl[0])
        if len(v) != len(terms[s:s + shard]):
            ctx.broken.append("C08 verdict list length mismatch"); continue
        names12 = ["X changed", "y changed", "init changed", "knn indices changed", "knn dists changed", "X shares _raw_data", "knn indices shared",
                   "knn dists shared", "init shares embedding_", "graph_ canonical", "graph_ holds stored zeros", "graph_ changed by the layout stage"]
        for off, code in enumerate(v):
            ctx.traces += 1
            if code != -1:
                ctx.diff(descs[s + off], names12[code] if 0 <= code < 12 else "machine stuck (%d)" % code)
    return ctx.finish(RULE, assumptions=[
        "SciPy's copy semantics (csr.tocoo shares its buffers unless copy=True and keeps the canonical flag; coo.sum_duplicates re-allocates iff not canonical; "
        "CSR arithmetic yields canonical matrices) and sklearn.check_array's identity on conforming input are probed per run and are inputs of the machine, not derived",
        "the programs of M_alias.v are a hand abstraction of the data flow; buffers inside sklearn / numba / pynndescent are invisible",
        "bit-identity of graph_ between two fits relies on the graph stage being deterministic for a fixed random_state (C06)"])


def replay(rep):
    from vp.common import Ctx
    c = rep.get("case") or (rep.get("diffs") or [{}])[0].get("case")
    if not c:
        return True
    ctx = Ctx("C08", "quick", 0)
    rs = np.random.RandomState(0)
    if c.get("op") in ("update", "mul", "add", "sub"):
        other_graph_producers(ctx, A.probe_env(), rs)
    elif "graph" in c:
        parametric_elements(ctx, rs)
    else:
        X = np.array(c["X"], dtype=np.float32)
        if c.get("sparse"):
            X = sp.csr_matrix(X)
        y = None if c.get("y") is None else np.array(c["y"])
        extra = dict(c.get("kwargs") or {})
        kw0 = dict(c.get("base") or BASE, **extra)
        with Spy() as spy:
            base, rec0 = one_fit(X, y, kw0, spy)
            check_graph(ctx, base, rec0, c)
            if "param" in c:
                value = c["value"]
                if c["param"] == "init" and isinstance(value, list):
                    value = np.array(value, dtype=c.get("value_dtype") or "float32", order=c.get("value_order", "C"))
                kw = dict(kw0); kw[c["param"]] = value
                m, rec = one_fit(X, y, kw, spy)
                check_graph(ctx, m, rec, c)
                if graph_sig(m) != graph_sig(base):
                    ctx.fail("UMAP.fit.graph_:depends_on_%s" % c["param"], "graph_ differs from the base configuration's", c)
    for f in ctx.oracle_fail:
        print("  ", f["signature"], f["summary"])
    return bool(ctx.oracle_fail)

"""Shared by c08.py / c09.py: deep snapshots, environment probes, attribute valuations of real calls, Coq rendering."""
import ast, hashlib, os
import numpy as np, scipy.sparse as sp
from sklearn.utils import check_array
from vp.common import REPO


# ---- snapshots --------------------------------------------------------------------------------------------
def sha(a):
    a = np.asarray(a)
    h = hashlib.sha256()
    h.update(str((a.dtype.str, a.shape)).encode())
    h.update(np.ascontiguousarray(a).tobytes())
    return h.hexdigest()[:16]


def sparse_parts(M):
    if M.format in ("csr", "csc", "bsr"):
        return {"data": M.data, "indices": M.indices, "indptr": M.indptr}
    if M.format == "coo":
        return {"data": M.data, "row": M.row, "col": M.col}
    return {"data": M.tocoo().data}


def logical_sha(M):
    """hash of the matrix *value*: multiset of (row, col, value) triplets incl. explicit zeros, independent of storage order"""
    c = M.tocoo(copy=True)
    o = np.lexsort((c.data, c.col, c.row))
    return sha(np.stack([c.row[o].astype(np.float64), c.col[o].astype(np.float64), c.data[o].astype(np.float64)])) + str(M.shape)


def snap_obj(x):
    """caller object -> (raw: dict part -> sha, logical sha)"""
    if x is None:
        return {}, None
    if sp.issparse(x):
        raw = {k: sha(v) for k, v in sparse_parts(x).items()}
        return raw, logical_sha(x)
    return {"array": sha(x)}, sha(x)


MODEL_ATTRS = ("embedding_", "_raw_data", "_sigmas", "_rhos", "_knn_indices", "_knn_dists")


def model_buffers(m):
    """the arrays currently bound to the protected attributes (references, for later re-hashing of the *same* buffers)"""
    out = {}
    g = getattr(m, "graph_", None)
    if g is not None:
        out["graph_.data"], out["graph_.indices"], out["graph_.indptr"] = g.data, g.indices, g.indptr
    for a in MODEL_ATTRS:
        v = getattr(m, a, None)
        if v is None:
            continue
        if sp.issparse(v):
            for k, arr in sparse_parts(v).items():
                out["%s.%s" % (a, k)] = arr
        elif isinstance(v, np.ndarray):
            out[a] = v
    return out


def snap_model(m):
    return {k: sha(v) for k, v in model_buffers(m).items()}


def hash_buffers(bufs):
    return {k: sha(v) for k, v in bufs.items()}


def changed_keys(a, b):
    return sorted(k for k in set(a) | set(b) if a.get(k) != b.get(k))


def shares(a, b):
    """do two caller / model objects share memory (any component)?"""
    if a is None or b is None:
        return False
    pa = list(sparse_parts(a).values()) if sp.issparse(a) else [np.asarray(a)] if isinstance(a, np.ndarray) else []
    pb = list(sparse_parts(b).values()) if sp.issparse(b) else [np.asarray(b)] if isinstance(b, np.ndarray) else []
    return any(np.shares_memory(x, y) for x in pa for y in pb)


# ---- environment facts (probed per run) -------------------------------------------------------------------
def probe_env():
    A = sp.random(7, 7, 0.5, format="csr", dtype=np.float32, random_state=3)
    A.sum_duplicates()
    X = np.arange(12, dtype=np.float32).reshape(4, 3)
    S = sp.csr_matrix(X)
    y = np.arange(4)
    f = {
        "tocoo_shares": bool(np.shares_memory(A.tocoo().data, A.data)),
        "tocoo_copy_true_shares": bool(np.shares_memory(A.tocoo(copy=True).data, A.data)),
        "tocoo_keeps_canonical": bool(A.tocoo().has_canonical_format == A.has_canonical_format),
        "check_array_identity_dense": check_array(X, dtype=np.float32, accept_sparse="csr", order="C") is X,
        "check_array_identity_csr": bool(np.shares_memory(check_array(S, dtype=np.float32, accept_sparse="csr", order="C").data, S.data)),
        "check_array_identity_y": check_array(y, ensure_2d=False) is y,
        "check_array_copies_f_order": not np.shares_memory(check_array(np.asfortranarray(X), dtype=np.float32, order="C"), X),
        "check_array_copies_f64": not np.shares_memory(check_array(X.astype(np.float64), dtype=np.float32, order="C"), X),
    }
    import numpy, scipy, sklearn, numba
    f["versions"] = dict(numpy=numpy.__version__, scipy=scipy.__version__, sklearn=sklearn.__version__, numba=numba.__version__)
    return f


# ---- what the source says (ast) ---------------------------------------------------------------------------
def _func(tree, name):
    for node in ast.walk(tree):
        if isinstance(node, ast.FunctionDef) and node.name == name:
            return node
    return None


def _calls(node, attr):
    return [c for c in ast.walk(node) if isinstance(c, ast.Call) and isinstance(c.func, ast.Attribute) and c.func.attr == attr]


def _copy_true(call):
    return any(k.arg == "copy" and isinstance(k.value, ast.Constant) and k.value.value is True for k in call.keywords)


def source_fixes():
    """which of the copy repairs the current source text carries (None = could not tell: fail-soft to True)"""
    out = {"tocoo": None, "knn": None, "sub": None, "tail": None, "parametric": None}
    try:
        src = open(os.path.join(REPO, "umap", "umap_.py")).read()
        tree = ast.parse(src)
        sse = _func(tree, "simplicial_set_embedding")
        first = [c for c in _calls(sse, "tocoo") if isinstance(c.func.value, ast.Name) and c.func.value.id == "graph"]
        out["tocoo"] = bool(first) and all(_copy_true(c) for c in first)
        gi = _func(tree, "general_simplicial_set_intersection")
        c1 = [c for c in _calls(gi, "tocoo") if isinstance(c.func.value, ast.Name) and c.func.value.id == "simplicial_set1"]
        out["sub"] = bool(c1) and all(_copy_true(c) for c in c1)
        fit = _func(tree, "fit")
        seg = ast.get_source_segment(src, fit)
        n_alias = seg.count("self._knn_indices = self.knn_indices")
        n_copy = seg.count("self._knn_indices = self._knn_indices.copy()") + seg.count("self._knn_indices = self.knn_indices.copy()")
        out["knn"] = n_copy >= max(n_alias, 1) if (n_alias or n_copy) else None
        tr = _func(tree, "transform")
        segt = ast.get_source_segment(src, tr)
        out["tail"] = "self.embedding_.astype(np.float32, copy=True)" in segt and "move_other=True" not in segt
    except Exception:
        pass
    try:
        srcp = open(os.path.join(REPO, "umap", "parametric_umap.py")).read()
        g = _func(ast.parse(srcp), "get_graph_elements")
        c = [c for c in _calls(g, "tocoo")]
        out["parametric"] = bool(c) and all(_copy_true(x) for x in c)
    except Exception:
        pass
    return out


def get_graph_elements_func():
    """umap.parametric_umap.get_graph_elements executed from its ast node (TensorFlow is not installed here)"""
    srcp = open(os.path.join(REPO, "umap", "parametric_umap.py")).read()
    node = _func(ast.parse(srcp), "get_graph_elements")
    ns = {"np": np}
    exec(compile(ast.Module([node], []), "<get_graph_elements>", "exec"), ns)
    return ns["get_graph_elements"]


# ---- attribute valuations ------------------------------------------------------------------------------------
def b(x):
    return "true" if x else "false"


def x_conforms(X, metric, env):
    want = np.uint8 if metric in ("bit_hamming", "bit_jaccard") else np.float32
    if sp.issparse(X):
        return bool(X.format == "csr" and X.dtype == want and env["check_array_identity_csr"])
    return bool(isinstance(X, np.ndarray) and X.dtype == want and X.flags.c_contiguous and env["check_array_identity_dense"])


def metric_class(metric):
    return "MPrecomputed" if metric == "precomputed" else "MBit" if metric in ("bit_hamming", "bit_jaccard") else "MNamed"


def gcfg_term(sparse, xconf, xsorted, mclass, knn, wide, disc, small, target, yconf):
    return "(mkG %s %s %s %s %s %s %s %s %s %s)" % (b(sparse), b(xconf), b(xsorted), mclass, b(knn), b(wide), b(disc), b(small), target, b(yconf))


def lcfg_term(init_kind, weak, is_list, embed):
    return "(mkL %s %s %s %s)" % (init_kind, b(weak), b(is_list), b(embed))


def init_kind(init):
    if isinstance(init, np.ndarray):
        return "(IArray %s)" % b(init.dtype == np.float32)
    return "IString"


def blist(xs):
    return "[" + "; ".join(b(x) for x in xs) + "]"


HDR = ("From Coq Require Import List Bool ZArith. From UV Require Import M_alias V_alias.\n"
       "Import ListNotations.\n")

"""C13 — sparse-input metrics (umap/sparse.py) agree with their dense counterparts (umap/distances.py)."""
import ast, itertools, math, os
import numpy as np, scipy.sparse as sp
from vp.coqrun import fl, clist, parse_zlist
from vp.common import REPO
from vp import link
import umap, umap.sparse as S, umap.distances as D

RTOL, ATOL = 1e-5, 1e-6
GRAPH_ATOL = 1e-4   # graph entries: float32 distance noise passes through the 1e-5-tolerance bandwidth search (cf. C02/C03: 4e-6..2e-5 observed)
RULE = ("pairs of canonical sparse rows (int32 indices, float32 data), n_features 1..40: Gaussian x mask, small integers, binary, one/both rows empty, "
        "identical supports, disjoint supports, proportional / identical rows, a stored value equal to the row mean at an index stored in both rows, cancelling coordinates (a_i = b_i, a_i = -b_i), "
        "constant full rows, non-negative copies for hellinger / count data for ll_dirichlet; exhaustive {0,1}^d pairs d<=4 (thorough: 5). Every key of "
        "sparse_named_distances is called as UMAP calls it (n_features iff the key is in sparse_need_n_features) and compared (a) inside Coq with the model of "
        "model/M_sparse.v in binary64 (rel 1e-5 / abs 1e-6; hellinger through its square) and (b) oracle: with named_distances[key] on the densified float32 vectors; "
        "arr_union/arr_intersect/sparse_sum/sparse_diff/sparse_mul are compared directly (indices exact); CSR-fit vs dense-fit graph_ on the exact path (same support, abs 1e-4). "
        "Non-trivial: any tag among empty/same_support/disjoint/mean_valued/cancel/constant/integer/binary/zero_dropped.")

# registry key -> model code (V_sparse.model_value); None = no closed model (oracle only)
KEY_CODE = {"euclidean": 0, "manhattan": 1, "l1": 1, "taxicab": 1, "chebyshev": 2, "linf": 2, "linfty": 2, "linfinity": 2, "minkowski": 3,
            "canberra": 4, "braycurtis": 5, "hamming": 6, "jaccard": 7, "dice": 8, "matching": 9, "kulsinski": 10, "rogerstanimoto": 11,
            "russellrao": 12, "sokalmichener": 13, "sokalsneath": 14, "cosine": 15, "correlation": 16, "hellinger": 17, "ll_dirichlet": None}
CODE_NAME = {0: "euclidean", 1: "manhattan", 2: "chebyshev", 3: "minkowski", 4: "canberra", 5: "braycurtis", 6: "hamming", 7: "jaccard", 8: "dice",
             9: "matching", 10: "kulsinski", 11: "rogerstanimoto", 12: "russellrao", 13: "sokalmichener", 14: "sokalsneath", 15: "cosine",
             16: "correlation", 17: "hellinger", 18: "correlation(orig)"}
# "correlation" -> 16 is the REPAIRED function (proposed_fixes/C13_sparse_correlation_*.diff).  If the repair is declined and the two
# known-finding entries are used instead, point it at 18 (sparse_correlation_orig, the unrepaired text) so the model mirrors the code.
MODEL_NEED_N = {"hamming", "matching", "kulsinski", "rogerstanimoto", "russellrao", "sokalmichener", "correlation"}
NONNEG_ONLY = {"hellinger", "ll_dirichlet"}
SKLEARN_SPARSE = ("euclidean", "manhattan", "cosine")     # sklearn.pairwise_distances accepts these for CSR input (exact path)
BINARY_KEYS = ["hamming", "jaccard", "dice", "matching", "kulsinski", "rogerstanimoto", "russellrao", "sokalmichener", "sokalsneath"]


# ---- translation tie (LINKING.md): functions of umap/sparse.py whose CURRENT text is translated to Gallina (py2coq) and proved
# equal to the model of M_sparse.v for all inputs (coq/link/L_sparse.v); function -> theorem.  `norm` is umap.utils.norm, which sparse.py
# imports (sparse_cosine / sparse_correlation call it): translated from the current umap/utils.py into the same generated file.
LINKED = {f: "src_%s_eq" % f for f in link.MODULES["sparse"]["functions"]}
NOT_TRANSLATED = {
    "arr_unique / arr_union / arr_intersect": "np.sort / np.concatenate / boolean-mask indexing are outside the py2coq subset: they are opaque function "
                                              "parameters of the translated kernels (the theorems hold for every function returning a long enough buffer / "
                                              "of the model's length); the real helpers are compared with the model's merges on every run (verdict_index)",
}


# ---- source tie ------------------------------------------------------------------------------------
def read_registry():
    """key -> registered function name, and the need_n_features tuple, from the CURRENT source text"""
    tree = ast.parse(open(os.path.join(REPO, "umap/sparse.py")).read())
    reg, need = None, None
    for node in tree.body:
        if isinstance(node, ast.Assign) and len(node.targets) == 1 and isinstance(node.targets[0], ast.Name):
            if node.targets[0].id == "sparse_named_distances" and isinstance(node.value, ast.Dict):
                reg = {}
                for k, v in zip(node.value.keys, node.value.values):
                    if isinstance(k, ast.Constant):
                        reg[k.value] = v.id if isinstance(v, ast.Name) else ast.dump(v)
            if node.targets[0].id == "sparse_need_n_features":
                try:
                    need = tuple(ast.literal_eval(node.value))
                except Exception:
                    need = None
    return reg, need


# ---- sparse rows -------------------------------------------------------------------------------------
def to_sparse(x):
    x = np.asarray(x, dtype=np.float32)
    ind = np.nonzero(x)[0].astype(np.int32)
    return ind, x[ind].astype(np.float32)


def svec_term(ind, data):
    return "[" + "; ".join("(%d%%nat, %s)" % (int(i), fl(float(v))) for i, v in zip(ind, data)) + "]"


def nlist_term(ind):
    return "[" + "; ".join("%d%%nat" % int(i) for i in ind) + "]"


def call_sparse(key, need_n, a, b, n, p=None):
    f = S.sparse_named_distances[key]
    args = [a[0].copy(), a[1].copy(), b[0].copy(), b[1].copy()]
    if key in need_n:
        args.append(n)
    if key == "minkowski" and p is not None:
        args.append(float(p))
    return float(f(*args))


def call_dense(key, x, y, p=None):
    f = D.named_distances[key]
    if key == "minkowski" and p is not None:
        return float(f(x.copy(), y.copy(), float(p)))
    return float(f(x.copy(), y.copy()))


def hellinger64(x, y):
    x = x.astype(np.float64); y = y.astype(np.float64)
    lx, ly = x.sum(), y.sum()
    if lx == 0 and ly == 0:
        return 0.0
    if lx == 0 or ly == 0:
        return 1.0
    return math.sqrt(max(0.0, 1.0 - np.sqrt(x * y).sum() / math.sqrt(lx * ly)))


def values_agree(key, s, d):
    if math.isnan(s) or math.isnan(d):
        return math.isnan(s) and math.isnan(d)
    if math.isinf(s) or math.isinf(d):
        return s == d
    if key == "hellinger":      # sqrt(1 - BC): compare the quantity the float32 rounding acts on
        return abs(s * s - d * d) <= 2 * ATOL + RTOL * abs(d * d)
    return abs(s - d) <= ATOL + RTOL * abs(d)


# ---- generators -------------------------------------------------------------------------------------
def rnd_vals(rng, npr, n, style):
    if style == "gauss":
        v = npr.normal(size=n) * 10 ** rng.uniform(-1, 1.5)
        v[np.abs(v) < 1e-3] = 1.0
        return v
    if style == "int":
        v = npr.randint(-3, 4, size=n).astype(float)
        v[v == 0] = 1.0
        return v
    return np.ones(n)


def gen_pair(rng, npr):
    n = rng.randint(1, 40)
    kind = rng.choice(["random", "random", "random", "empty_one", "empty_both", "same_support", "disjoint", "mean_valued", "mean_valued",
                       "cancel", "constant", "binary", "integer", "proportional"])
    style = rng.choice(["gauss", "int", "binary"]) if kind not in ("binary", "integer") else ("binary" if kind == "binary" else "int")
    dens = rng.choice([0.1, 0.3, 0.6, 0.9, 1.0])
    mx = npr.random(n) < dens
    my = npr.random(n) < rng.choice([0.1, 0.3, 0.6, 0.9, 1.0])
    x = rnd_vals(rng, npr, n, style) * mx
    y = rnd_vals(rng, npr, n, style) * my
    tags = {kind} if kind != "random" else set()
    if kind == "empty_one":
        if rng.random() < 0.5: x = np.zeros(n)
        else: y = np.zeros(n)
        if rng.random() < 0.4:      # against a constant full row
            c = float(rng.choice([1, 2, -3, 0.5]))
            if not x.any(): y = np.full(n, c)
            else: x = np.full(n, c)
            tags.add("constant")
        tags.add("empty")
    elif kind == "empty_both":
        x = np.zeros(n); y = np.zeros(n); tags.add("empty")
    elif kind == "same_support":
        y = rnd_vals(rng, npr, n, style) * mx
    elif kind == "disjoint":
        y = rnd_vals(rng, npr, n, style) * (~mx) * (npr.random(n) < 0.7)
    elif kind == "mean_valued" and n >= 2:
        x = npr.randint(-3, 5, size=n).astype(float) * mx
        y = npr.randint(-3, 5, size=n).astype(float) * my
        for v in ((x, y), (y, x)) if rng.random() < 0.5 else ((x, y),):
            u, w = v
            j = rng.randrange(n); k = rng.choice([t for t in range(n) if t != j])
            s_others = int(u.sum() - u[j]); r = s_others % (n - 1)
            u[k] -= r; q = (s_others - r) // (n - 1)
            if q == 0:
                u[k] += (n - 1); q = 1
            u[j] = q                     # u[j] == mean(u) over all n features
            if w[j] == 0: w[j] = float(rng.choice([1, 2, -1, 3]))   # index stored in both rows
        tags.add("integer")
    elif kind == "cancel":
        y = x.copy()
        flip = npr.random(n) < 0.4
        y[flip] = -y[flip]
        other = npr.random(n) < 0.2
        y[other] = rnd_vals(rng, npr, n, style)[other]
    elif kind == "proportional":
        y = x * float(rng.choice([2, 3, 0.5, 1]))
    elif kind == "constant":
        c = float(rng.choice([1, 2, -3, 0.5, 0.3]))
        x = np.full(n, c)
        if rng.random() < 0.5: y = np.full(n, float(rng.choice([1, -2, 0.25])))
    if style == "binary": tags.add("binary")
    if style == "int": tags.add("integer")
    x = x.astype(np.float32); y = y.astype(np.float32)
    sx, sy = x != 0, y != 0
    if kind == "random":
        if sx.any() and (sx == sy).all(): tags.add("same_support")
        if not (sx & sy).any() and sx.any() and sy.any(): tags.add("disjoint")
    if not sx.any() or not sy.any(): tags.add("empty")
    if ((x == y) & sx).any() or ((x == -y) & sx).any(): tags.add("zero_dropped")
    for u in (x, y):
        if n and u.any() and np.any((u != 0) & (u.astype(np.float64) == u.astype(np.float64).sum() / n)): tags.add("mean_valued")
    return n, x, y, tags


# ---- oracle ------------------------------------------------------------------------------------------
def classify(key, n, x, y, tags):
    """input class used in oracle signatures (computed from the inputs only)"""
    if key == "correlation":
        sx, sy = x != 0, y != 0
        if sx.any() != sy.any():
            return "empty_row"
        for u, v in ((x, y), (y, x)):
            m = u.astype(np.float64).sum() / n
            if np.any((u != 0) & (v != 0) & (u.astype(np.float64) == m)):
                return "mean_valued_entry"
    if "empty" in tags:
        return "empty_row"
    return "general"


def eval_pair(ctx, reg_keys, need_n, n, x, y, tags, keys=None, tagit=True):
    """run every applicable registry key on the pair; oracle vs dense; returns list of (code, p, value)"""
    a, b = to_sparse(x), to_sparse(y)
    obs = []
    nonneg = bool((x >= 0).all() and (y >= 0).all())
    for key in (keys or reg_keys):
        if key in NONNEG_ONLY and not nonneg:
            continue
        if key == "ll_dirichlet" and not (a[0].size and b[0].size and np.all(x == np.round(x)) and np.all(y == np.round(y))):
            continue      # count data with non-empty rows (the dense function divides by the row totals)
        ps = [None]
        if key == "minkowski":
            ps = [ctx.rng.choice([1.0, 1.5, 2.0, 3.0])]
        for p in ps:
            desc = dict(metric=key, n_features=n, x=x, y=y, p=p)
            try:
                s = call_sparse(key, need_n, a, b, n, p)
            except Exception as e:
                ctx.fail("sparse_%s:raises:%s" % (key, classify(key, n, x, y, tags)), "%s: %s" % (type(e).__name__, e), desc); continue
            try:
                d = call_dense(key, x, y, p)
            except Exception as e:
                ctx.notes.append("dense %s raised %s on a generated pair (C12's domain); pair skipped" % (key, type(e).__name__)) if len(ctx.notes) < 20 else None
                continue
            if key == "hellinger" and math.isnan(d):       # dense float32 rounding gives sqrt(-1e-8); not a sparse-side question
                ctx.count("hellinger_dense_nan"); d = hellinger64(x, y)
            if tagit:
                ctx.tag((key, n, x.tobytes(), y.tobytes(), p), sorted(tags))
            else:
                ctx.evaluations += 1
            ctx.count("metric_" + key)
            if not values_agree(key, s, d):
                cls = "sparse_nan" if (math.isnan(s) and not math.isnan(d)) else classify(key, n, x, y, tags)
                ctx.fail("sparse_%s:differs_from_dense:%s" % (key, cls), "sparse %r vs dense %r" % (s, d), dict(desc, sparse=s, dense=d))
            code = KEY_CODE.get(key)
            if code is not None:
                obs.append((code, 2.0 if p is None else p, s, key))
    return a, b, obs


def lld_domain_probe(ctx, need_n):
    """ll_dirichlet on the whole input class of the property (real values, empty rows), not only on count data.  Theorem C13_ll_dirichlet
    (T_sparse_lld.v) proves sparse = dense for non-empty rows whose stored values exceed 0.9 and whose coordinate products are 0 or exceed
    0.9 (count data: C13_ll_dirichlet_counts); C13_ll_dirichlet_refuted_small / _empty refute it outside (the dense text tests `> 0.9`
    where the sparse text tests `!= 0`; the dense text divides by the row totals).  A disagreement INSIDE the theorem's domain is a
    violation; the two refuted classes are recorded known findings, re-observed on every run."""
    if "ll_dirichlet" not in S.sparse_named_distances:
        return
    rs = np.random.RandomState(ctx.seed % 1000 + 3)
    pairs = [(np.array([0.5, 0.0]), np.array([0.0, 1.0])),            # the Coq witness lld_wit_a / lld_wit_b
             (np.array([0.0]), np.array([1.0]))]                      # lld_wit_c: one empty row
    for _ in range(10):
        d = int(rs.randint(2, 7))
        pool = [0.0, 0.0, 0.3, 0.5, 0.8, 1.0, 2.0, 3.0, 1.5]
        pairs.append((rs.choice(pool, size=d), rs.choice(pool, size=d)))
    for _ in range(6):                                                # inside the theorem's domain: values >= 1 (not only integers)
        d = int(rs.randint(2, 7))
        x = np.where(rs.rand(d) < 0.5, 0.0, 1.0 + rs.rand(d) * 3); y = np.where(rs.rand(d) < 0.5, 0.0, 1.0 + rs.rand(d) * 3)
        if x.sum() == 0: x[0] = 1.25
        if y.sum() == 0: y[-1] = 2.5
        pairs.append((x, y))
    for x, y in pairs:
        x = x.astype(np.float32); y = y.astype(np.float32)
        a, b = to_sparse(x), to_sparse(y)
        n = x.shape[0]
        empty = a[0].size == 0 or b[0].size == 0
        big = bool(np.all(a[1] > 0.9) and np.all(b[1] > 0.9))
        prod = x.astype(np.float64) * y.astype(np.float64)
        prod_ok = bool(np.all((prod == 0) | (prod > 0.9)))
        inside = (not empty) and big and prod_ok
        cls = "inside_the_theorems_domain" if inside else ("empty_row" if empty else "stored_value_or_product_at_most_0.9")
        desc = dict(metric="ll_dirichlet", n_features=n, x=x, y=y, input_class=cls)
        ctx.evaluations += 1
        ctx.tag(("lld_domain", x.tobytes(), y.tobytes()), ["ll_dirichlet_" + cls])
        try:
            sv = call_sparse("ll_dirichlet", need_n, a, b, n)
        except Exception as e:
            ctx.fail("sparse_ll_dirichlet:raises:" + cls, "%s: %s" % (type(e).__name__, e), desc); continue
        try:
            dv = call_dense("ll_dirichlet", x, y, None)
        except ZeroDivisionError as e:
            if empty:
                ctx.fail("ll_dirichlet:dense_raises_where_sparse_returns:empty_row", "dense ll_dirichlet raises ZeroDivisionError, sparse_ll_dirichlet returns %r" % sv, dict(desc, sparse=sv))
            else:
                ctx.fail("ll_dirichlet:dense_raises:" + cls, "ZeroDivisionError: %s" % e, desc)
            continue
        except Exception as e:
            ctx.fail("ll_dirichlet:dense_raises:" + cls, "%s: %s" % (type(e).__name__, e), desc); continue
        if not values_agree("ll_dirichlet", sv, dv):
            ctx.fail("sparse_ll_dirichlet:differs_from_dense:" + cls, "sparse %r vs dense %r" % (sv, dv), dict(desc, sparse=sv, dense=dv))


def helper_checks(ctx, n, x, y, hterms, hcases, iterms, icases):
    a, b = to_sparse(x), to_sparse(y)
    desc = dict(n_features=n, x=x, y=y)
    xd, yd = x.astype(np.float32), y.astype(np.float32)
    for op, (name, ref) in enumerate((("sparse_sum", xd + yd), ("sparse_diff", xd - yd), ("sparse_mul", xd * yd))):
        try:
            ri, rd = getattr(S, name)(a[0].copy(), a[1].copy(), b[0].copy(), b[1].copy())
        except Exception as e:
            ctx.fail("%s:raises" % name, "%s: %s" % (type(e).__name__, e), dict(desc, helper=name)); continue
        ctx.evaluations += 1
        ri = np.asarray(ri); rd = np.asarray(rd)
        dense = np.zeros(n, dtype=np.float32)
        ok_idx = ri.size == 0 or (ri.min() >= 0 and ri.max() < n)
        if ok_idx: dense[ri] = rd
        if not ok_idx or np.any(np.diff(ri) <= 0) or np.any(rd == 0):
            ctx.fail("%s:not_canonical" % name, "indices %r data %r" % (ri.tolist(), rd.tolist()), dict(desc, helper=name))
        elif not np.array_equal(dense, ref.astype(np.float32)):
            ctx.fail("%s:densify_mismatch" % name, "densified result %r, expected %r" % (dense.tolist(), ref.tolist()), dict(desc, helper=name))
        hterms.append("(%d%%Z, %s, %s, %s)" % (op, svec_term(*a), svec_term(*b), svec_term(ri, rd)))
        hcases.append(dict(desc, helper=name, out_ind=ri, out_data=rd))
    for op, (name, ref) in enumerate((("arr_union", np.union1d(a[0], b[0])), ("arr_intersect", np.intersect1d(a[0], b[0])))):
        try:
            r = np.asarray(getattr(S, name)(a[0].copy(), b[0].copy()))
        except Exception as e:
            ctx.fail("%s:raises" % name, "%s: %s" % (type(e).__name__, e), dict(desc, helper=name)); continue
        ctx.evaluations += 1
        if not np.array_equal(r, ref):
            ctx.fail("%s:wrong_set" % name, "%r, expected %r" % (r.tolist(), ref.tolist()), dict(desc, helper=name))
        iterms.append("(%d%%Z, %s, %s, %s)" % (op, nlist_term(a[0]), nlist_term(b[0]), nlist_term(r)))
        icases.append(dict(desc, helper=name, out=r))


HDR = ("From Coq Require Import List ZArith PrimFloat. From UV Require Import Num FNum M_sparse V_sparse.\n"
       "Import ListNotations. Open Scope float_scope.\n")


def run_metric_shards(ctx, prefix, terms, cases, shard=150):
    for s in range(0, len(terms), shard):
        text = HDR + ("Definition cases : list (nat * fvec * fvec * list (Z * float * float)) := %s.\n"
                      "Eval vm_compute in map (verdict_C13 %s %s) cases.\n"
                      "Eval vm_compute in map (verdict_C13_dense %s %s) cases.\n"
                      % (clist(terms[s:s + shard]), fl(RTOL), fl(ATOL), fl(RTOL), fl(ATOL)))
        blocks = ctx.coq_eval("%s_%d" % (prefix, s // shard), text, what="sparse metric models vs sparse_named_distances")
        if blocks is None:
            continue
        if len(blocks) < 2:
            ctx.broken.append("C13 %s: expected two verdict lists" % prefix); continue
        v, vd = parse_zlist(blocks[0]), parse_zlist(blocks[1])
        k = len(terms[s:s + shard])
        if len(v) != k or len(vd) != k:
            ctx.broken.append("C13 %s verdict list length mismatch" % prefix); continue
        for off, (c1, c2) in enumerate(zip(v, vd)):
            cs = cases[s + off]
            ctx.traces += len(cs["obs"])
            if c1 != -1:
                code = c1 % 100
                what = ("model vs implementation: %s" if c1 < 200 else "no model for code of %s") % CODE_NAME.get(code, code)
                ob = [o for o in cs["obs"] if o[0] == code]
                ctx.diff(dict(n_features=cs["n"], x=cs["x"], y=cs["y"], metric=ob[0][3] if ob else code, p=ob[0][1] if ob else None), what,
                         impl=ob[0][2] if ob else None)
            if c2 != -1:
                ctx.diff(dict(n_features=cs["n"], x=cs["x"], y=cs["y"]), "sparse model vs dense model (binary64): %s" % CODE_NAME.get(c2 % 100, c2))


def case_term(n, a, b, obs):
    return "(%d%%nat, %s, %s, [%s])" % (n, svec_term(*a), svec_term(*b), "; ".join("(%d%%Z, %s, %s)" % (c, fl(p), fl(v)) for c, p, v, _ in obs))


def graphs_agree(gs, gd):
    gs = sp.csr_matrix(gs); gd = sp.csr_matrix(gd)
    a, b = np.asarray(gs.todense(), dtype=np.float64), np.asarray(gd.todense(), dtype=np.float64)
    if a.shape != b.shape:
        return False, "shapes %s vs %s" % (a.shape, b.shape)
    if np.any((a != 0) != (b != 0)):
        i, j = np.argwhere((a != 0) != (b != 0))[0]
        return False, "support differs at (%d,%d): %r vs %r" % (i, j, a[i, j], b[i, j])
    if np.abs(a - b).max() > GRAPH_ATOL:
        return False, "entries differ by %g" % np.abs(a - b).max()
    return True, ""


def fit_pair(metric, X, k, force=False):
    kw = dict(metric=metric, n_neighbors=k, n_epochs=0, random_state=1, init="random")
    if force:
        kw["force_approximation_algorithm"] = True
    ms = umap.UMAP(**kw).fit(sp.csr_matrix(X))
    md = umap.UMAP(**kw).fit(X.copy())
    return ms, md


def gen_matrix(rng, npr, metric, empties=None):
    n = rng.randint(18, 36)
    if metric in SKLEARN_SPARSE:
        # CSR input is served by sklearn, dense input by umap's numba function: the two distance matrices differ in the last bits, so exact
        # ties (orthogonal rows at cosine distance exactly 1, ...) would be broken differently; keep the rows generic (few disjoint supports)
        d = rng.randint(10, 16); dens = rng.choice([0.7, 0.8, 0.9])
    else:
        d = rng.randint(6, 16); dens = rng.choice([0.3, 0.5, 0.7])
    X = npr.normal(size=(n, d)) * (npr.random((n, d)) < dens)
    if metric in SKLEARN_SPARSE:
        for i in range(n):
            if np.count_nonzero(X[i]) < 3:
                X[i] = npr.normal(size=d)
    if metric in ("hellinger", "braycurtis"):
        X = np.abs(X)
    if metric in BINARY_KEYS:
        X = (X != 0).astype(float)
    if metric == "ll_dirichlet":
        X = npr.poisson(1.2, size=(n, d)).astype(float)
    if empties is None:
        empties = rng.choice([0, 0, 1, 2, 3])
    for i in rng.sample(range(n), empties):
        X[i] = 0.0                           # all-zero (empty CSR) rows
    if metric == "ll_dirichlet":             # its dense twin divides by the row totals
        X[X.sum(axis=1) == 0, 0] = 1.0
    return X.astype(np.float32)


def fit_class(metric, X):
    """input class of a fit case (from the inputs only)"""
    nz = int((~X.any(axis=1)).sum())
    return "%s:%s" % (metric, "multiple_empty_rows" if nz >= 2 else "one_empty_row" if nz == 1 else "no_empty_row")


# ---- main --------------------------------------------------------------------------------------------
def run(ctx):
    ctx.check_proofs(["prop/P_C13.v"])
    # translation tie: Gallina regenerated from the current umap/sparse.py; link theorems src_f = (model value, ok = true) re-checked
    lres = link.check(ctx, "sparse", LINKED, NOT_TRANSLATED)
    # capstone corollaries (coq/link/K_sparse.v): the property statement between the two translated sources -- sparse metric of the current
    # sparse.py on canonical rows = dense metric of the current distances.py on the densified vectors (euclidean, manhattan, chebyshev,
    # hamming, jaccard, cosine, correlation; C13_src_correlation_model: the hypotheses on arr_union / arr_intersect hold for the model's merges;
    # C13_src_ll_dirichlet: on rows without empty row, stored values > 0.9 and coordinate-wise products 0 or > 0.9 -- the class of
    # P_C13.C13_ll_dirichlet; C13_src_ll_dirichlet_counts: count data (stored values >= 1) is in that class)
    for thm in ("C13_src_euclidean", "C13_src_manhattan", "C13_src_chebyshev", "C13_src_hamming", "C13_src_jaccard", "C13_src_cosine",
                "C13_src_correlation", "C13_src_correlation_model", "C13_src_ll_dirichlet", "C13_src_ll_dirichlet_counts",
                "C13_src_matching", "C13_src_kulsinski", "C13_src_rogers_tanimoto", "C13_src_sokal_michener", "C13_src_dice", "C13_src_sokal_sneath",
                "C13_src_minkowski", "C13_src_bray_curtis", "C13_src_russellrao", "C13_src_hellinger", "C13_src_canberra"):
        ob = "link:sparse:" + thm
        ctx.obligations.append(ob)
        bad = [a for a in lres.axioms.get(thm, []) if a not in link.coqrun.ALLOWED_AXIOMS and not ctx._primitive(a)]
        if lres.theorems.get(thm) is True and not bad:
            ctx.discharged.append(ob)
        else:
            ctx.broken.append("link[sparse]: corollary %s (translated sparse source = translated dense source on densified vectors) %s"
                              % (thm, ("uses axioms %s" % bad) if bad else (lres.theorems.get(thm) or "is missing")))
    rng = ctx.rng
    npr = np.random.RandomState(rng.randrange(2 ** 31))
    # (1) registries of the current source
    reg, need = read_registry()
    if reg is None or need is None:
        ctx.notes.append("sparse_named_distances / sparse_need_n_features could not be read with ast; using the imported objects")
        reg = {k: getattr(v, "__name__", str(v)) for k, v in S.sparse_named_distances.items()}
        need = tuple(S.sparse_need_n_features)
    ctx.extra["source_registry"] = reg
    ctx.extra["source_need_n_features"] = list(need)
    for key in reg:
        ob = "registry:sparse_named_distances[%s] has a model/verdict" % key
        ctx.obligations.append(ob)
        if key in KEY_CODE:
            ctx.discharged.append(ob)
        else:
            ctx.broken.append("sparse registry key %r (-> %s) has no model definition / verdict" % (key, reg[key]))
    ob = "registry:sparse_need_n_features = the model's n_features metrics"
    ctx.obligations.append(ob)
    if {k for k in need if k in KEY_CODE} == {k for k in MODEL_NEED_N if k in reg} and all(k in KEY_CODE for k in need):
        ctx.discharged.append(ob)
    else:
        ctx.broken.append("sparse_need_n_features %r differs from the model's %r" % (sorted(need), sorted(MODEL_NEED_N)))
    for k in KEY_CODE:
        if k not in reg:
            ctx.notes.append("model metric %r is no longer in sparse_named_distances" % k)
    reg_keys = [k for k in reg if k in S.sparse_named_distances and k in D.named_distances]
    for k in reg:
        if k not in D.named_distances:
            ctx.broken.append("sparse registry key %r has no dense counterpart in named_distances" % k)
    need_n = set(need)
    ctx.partial += ["ll_dirichlet: `sparse = dense on the densified rows` is proved (P_C13.C13_ll_dirichlet, K_sparse.C13_src_ll_dirichlet between the two translated sources, over R) "
                    "only for rows without an empty row whose stored values are > 0.9 and whose coordinate-wise products are 0 or > 0.9 (count data); outside that class the two "
                    "texts differ (C13_ll_dirichlet_refuted_small: rows (0.5, 0) / (0, 1) give 0 vs sqrt(2 log_single_beta(0.5)); C13_ll_dirichlet_refuted_empty: one empty row gives 1e8 vs "
                    "a division by the zero total); the oracle compares sparse-vs-dense on count data with non-empty rows only",
                    "arr_union / arr_intersect are modelled as the two-way merge they compute on sorted index arrays (np.sort + adjacent filter is not modelled); "
                    "compared exactly on canonical inputs every run",
                    "theorems are over R: float32 storage of intermediate arrays (sparse_sum output, shifted data) is observed within the tolerance, not modelled",
                    "pynndescent's own sparse metrics (approximate path for the metrics it implements) are outside the model"]
    # (2) generated pairs: metrics + helpers
    npairs = 150 if ctx.tier == "quick" else 2500
    terms, cases, hterms, hcases, iterms, icases = [], [], [], [], [], []
    for c in range(npairs):
        n, x, y, tags = gen_pair(rng, npr)
        ctx.count("n<=5" if n <= 5 else "n<=20" if n <= 20 else "n<=40")
        for t in tags: ctx.count("kind_" + t)
        ctx.sample(dict(n_features=n, x=x, y=y, tags=sorted(tags)), 3)
        a, b, obs = eval_pair(ctx, reg_keys, need_n, n, x, y, tags)
        if obs:
            terms.append(case_term(n, a, b, obs)); cases.append(dict(n=n, x=x, y=y, obs=obs))
        if not ((x >= 0).all() and (y >= 0).all()):       # non-negative copy for hellinger / ll_dirichlet
            xa, ya = np.abs(x), np.abs(y)
            keys = [k for k in reg_keys if k in NONNEG_ONLY]
            a2, b2, obs2 = eval_pair(ctx, reg_keys, need_n, n, xa, ya, tags | {"nonneg_copy"}, keys=keys)
            if obs2:
                terms.append(case_term(n, a2, b2, obs2)); cases.append(dict(n=n, x=xa, y=ya, obs=obs2))
        if c % 2 == 0 or ctx.tier != "quick":
            helper_checks(ctx, n, x, y, hterms, hcases, iterms, icases)
    run_metric_shards(ctx, "cases_C13_m", terms, cases)
    # (3) exhaustive binary pairs
    dmax = 4 if ctx.tier == "quick" else 5
    bkeys = [k for k in BINARY_KEYS + ["cosine", "correlation", "euclidean"] if k in reg_keys]
    bterms, bcases = [], []
    for d in range(1, dmax + 1):
        for xb in itertools.product((0.0, 1.0), repeat=d):
            for yb in itertools.product((0.0, 1.0), repeat=d):
                x = np.array(xb, dtype=np.float32); y = np.array(yb, dtype=np.float32)
                tags = {"binary", "exhaustive"}
                if not x.any() or not y.any(): tags.add("empty")
                a, b, obs = eval_pair(ctx, reg_keys, need_n, d, x, y, tags, keys=bkeys)
                bterms.append(case_term(d, a, b, obs)); bcases.append(dict(n=d, x=x, y=y, obs=obs))
        ctx.count("exhaustive_d=%d" % d, 4 ** d)
    run_metric_shards(ctx, "cases_C13_b", bterms, bcases, shard=200)
    # (4) helpers in Coq
    for s in range(0, len(hterms), 200):
        text = HDR + ("Definition cases : list (Z * fvec * fvec * fvec) := %s.\nEval vm_compute in map (verdict_helper %s %s) cases.\n"
                      % (clist(hterms[s:s + 200]), fl(1e-6), fl(0.0)))
        blocks = ctx.coq_eval("cases_C13_h_%d" % (s // 200), text, what="sparse_sum/diff/mul models vs implementation")
        if blocks is None: continue
        v = parse_zlist(blocks[0])
        if len(v) != len(hterms[s:s + 200]):
            ctx.broken.append("C13 helper verdict list length mismatch"); continue
        for off, code in enumerate(v):
            ctx.traces += 1
            if code != -1:
                ctx.diff(hcases[s + off], {1: "index array", 2: "values", 3: "unknown op"}.get(code, "?"))
    for s in range(0, len(iterms), 300):
        text = HDR + ("Definition cases : list (Z * list nat * list nat * list nat) := %s.\nEval vm_compute in map verdict_index cases.\n"
                      % clist(iterms[s:s + 300]))
        blocks = ctx.coq_eval("cases_C13_i_%d" % (s // 300), text, what="arr_union/arr_intersect models vs implementation")
        if blocks is None: continue
        v = parse_zlist(blocks[0])
        if len(v) != len(iterms[s:s + 300]):
            ctx.broken.append("C13 index verdict list length mismatch"); continue
        for off, code in enumerate(v):
            ctx.traces += 1
            if code != -1:
                ctx.diff(icases[s + off], "index set")
    # (5) CSR fit vs dense fit (exact path), plus kNN distances on the forced-approximation path where UMAP hands the sparse registry function to the search
    fit_metrics = [m for m in ["euclidean", "manhattan", "cosine", "correlation", "canberra", "chebyshev", "braycurtis", "hellinger", "jaccard", "hamming",
                               "dice", "russellrao", "kulsinski", "rogerstanimoto", "sokalsneath", "matching"] if m in reg_keys]
    nfit = 7 if ctx.tier == "quick" else 40
    order = fit_metrics[:]
    rng.shuffle(order)
    plan = [(m, e) for m, e in (("correlation", None), ("cosine", 2)) if m in order]      # always: the repaired metric; sklearn's sparse cosine
    plan += [(m, None) for m in order if m not in ("correlation",)]
    while len(plan) < nfit:
        plan.append((rng.choice(order), None))
    for metric, empties in plan[:nfit]:
        X = gen_matrix(rng, npr, metric, empties)
        k = rng.randint(3, 8)
        desc = dict(api="UMAP.fit", metric=metric, n_neighbors=k, X=X)
        try:
            ms, md = fit_pair(metric, X, k)
        except Exception as e:
            ctx.fail("UMAP.fit:raises:%s" % fit_class(metric, X), "%s: %s" % (type(e).__name__, e), desc); continue
        ok, why = graphs_agree(ms.graph_, md.graph_)
        ctx.tag(("fit", metric, X.tobytes(), k), ["csr_vs_dense_fit"])
        ctx.count("fit_" + fit_class(metric, X))
        if not ok:
            ctx.fail("UMAP.fit:csr_vs_dense_graph:%s" % fit_class(metric, X), why, desc)
    # the one registry key pynndescent has no sparse twin for: UMAP hands umap.sparse's function to the NN search (umap_.py:2634-2639)
    lld_domain_probe(ctx, need_n)
    if ctx.tier != "quick" and "ll_dirichlet" in reg_keys:
        X = gen_matrix(rng, npr, "ll_dirichlet", 0)
        X = np.vstack([X, X[: min(8, len(X))] * 2.0]).astype(np.float32)           # proportional rows (distance 0)
        desc = dict(api="UMAP.fit approx", metric="ll_dirichlet", X=X)
        try:
            ms = umap.UMAP(metric="ll_dirichlet", n_neighbors=5, n_epochs=0, random_state=1, init="random", force_approximation_algorithm=True).fit(sp.csr_matrix(X))
            f = D.named_distances["ll_dirichlet"]
            for i in range(X.shape[0]):
                bad = [(j, dd) for j, dd in zip(ms._knn_indices[i], ms._knn_dists[i]) if j >= 0 and not values_agree("ll_dirichlet", float(dd), float(f(X[i], X[j])))]
                if bad:
                    j, dd = bad[0]
                    ctx.fail("UMAP.fit:approx_knn_dist:ll_dirichlet", "kNN distance (%d,%d) %r vs dense %r" % (i, j, dd, f(X[i], X[j])), desc); break
        except Exception as e:
            ctx.fail("UMAP.fit:raises:ll_dirichlet", "%s: %s" % (type(e).__name__, e), desc)
        ctx.evaluations += 1
    return ctx.finish(RULE, assumptions=["float32 storage inside the compiled sparse kernels is observed, not modelled (rel %g / abs %g; hellinger compared through its square)" % (RTOL, ATOL),
                                           "inputs are canonical CSR rows (strictly increasing int32 indices, no stored zeros, float32 data >= 1e-3 in magnitude)",
                                           "ll_dirichlet is exercised on count data with non-empty rows only; the dense hellinger's float32 NaN (sqrt of -1e-8) is replaced by a float64 reference"])


def replay(rep):
    """re-run the stored case on the current tree; True iff it still fails"""
    from vp.common import Ctx
    c = rep.get("case") or (rep.get("diffs") or [{}])[0].get("case")
    if not c:
        return True
    ctx = Ctx("C13", "quick", 0)
    reg, need = read_registry()
    need_n = set(need if need is not None else S.sparse_need_n_features)
    if "metric" in c and "x" in c:
        x = np.array(c["x"], dtype=np.float32); y = np.array(c["y"], dtype=np.float32)
        key = c["metric"]
        if isinstance(key, int):
            key = CODE_NAME.get(key)
        ctx.rng.choice = lambda seq, _p=c.get("p"): _p if _p in seq else seq[0]
        eval_pair(ctx, [key], need_n, int(c["n_features"]), x, y, set(), keys=[key])
    elif "helper" in c:
        x = np.array(c["x"], dtype=np.float32); y = np.array(c["y"], dtype=np.float32)
        helper_checks(ctx, int(c["n_features"]), x, y, [], [], [], [])
    elif c.get("api", "") == "UMAP.fit approx":
        X = np.array(c["X"], dtype=np.float32)
        try:
            ms = umap.UMAP(metric=c["metric"], n_neighbors=5, n_epochs=0, random_state=1, init="random", force_approximation_algorithm=True).fit(sp.csr_matrix(X))
            f = D.named_distances[c["metric"]]
            for i in range(X.shape[0]):
                for j, dd in zip(ms._knn_indices[i], ms._knn_dists[i]):
                    if j >= 0 and not values_agree(c["metric"], float(dd), float(f(X[i], X[j]))):
                        ctx.fail("approx", "kNN distance (%d,%d) %r vs dense %r" % (i, j, dd, f(X[i], X[j])), {})
        except Exception as e:
            ctx.fail("approx", str(e), {})
    elif c.get("api", "").startswith("UMAP.fit"):
        X = np.array(c["X"], dtype=np.float32)
        try:
            ms, md = fit_pair(c["metric"], X, c.get("n_neighbors", 5))
            ok, why = graphs_agree(ms.graph_, md.graph_)
            if not ok:
                ctx.fail("fit", why, c)
        except Exception as e:
            ctx.fail("fit", str(e), c)
    else:
        return True
    for f in ctx.oracle_fail:
        print("  ", f["signature"], f["summary"])
    return bool(ctx.oracle_fail)

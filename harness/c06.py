"""C06 — a fixed random_state makes results bit-for-bit reproducible on any schedule."""
import ast, json, os, subprocess, sys, time
import numpy as np
from vp.coqrun import fl, zl, zlist, clist, parse_zlist
from vp.common import REPO, VERIF
import umap, umap.layouts as L, umap.umap_ as U

RULE = ("(a) selection logic: (random_state, n_jobs) grid -> n_jobs after fit / ValueError and the `parallel` argument reaching the kernel selector for fit, transform, update, "
        "vs resolve_jobs / parallel_flag in Coq (exact); (b) source scan (ast): every numba.prange loop of the package is classified own-cell / disjoint-chunk / guarded-racy and the "
        "racy ones must be compiled only under the `parallel` flag, every call site passing `self.random_state is None` or False; (c) schedule exploration: fresh subprocesses with "
        "NUMBA_NUM_THREADS in {1,2,4,16} (thorough: 8 values), plus processes that start with an unseeded fit (3 and 8 threads), each run seeded fits (exact / NN-descent, n_jobs -1/1/4, warm process, spectral/random/pca init, haversine output, densMAP) "
        "and report sha256 of graph_, embedding_, transform(Y); all digests must agree across processes, n_jobs and warm/fresh. Non-trivial: every subprocess configuration.")

GUARDED = {"_optimize_layout_euclidean_single_epoch", "_optimize_layout_euclidean_densmap_epoch_init", "_optimize_layout_aligned_euclidean_single_epoch",
           "_optimize_layout_generic_single_epoch", "_optimize_layout_inverse_single_epoch"}
FILES = ["umap/utils.py", "umap/distances.py", "umap/umap_.py", "umap/layouts.py", "umap/sparse.py", "umap/spectral.py", "umap/aligned_umap.py", "umap/validation.py"]


def is_prange(call):
    return isinstance(call, ast.Call) and ((isinstance(call.func, ast.Attribute) and call.func.attr == "prange") or (isinstance(call.func, ast.Name) and call.func.id == "prange"))


def classify_loop(loop, src):
    """own-cell: every array store inside the loop is indexed first by the loop variable (or by an inner prange/range variable of such a loop);
    disjoint-chunk: the row index ranges over [var*chunk, min(var*chunk+chunk, rows))"""
    var = loop.target.id if isinstance(loop.target, ast.Name) else None
    stores = []
    for node in ast.walk(loop):
        targets = []
        if isinstance(node, ast.Assign): targets = node.targets
        elif isinstance(node, ast.AugAssign): targets = [node.target]
        for t in targets:
            if isinstance(t, ast.Subscript):
                idx = t.slice
                first = idx.elts[0] if isinstance(idx, ast.Tuple) else idx
                stores.append((ast.unparse(t), ast.unparse(first), isinstance(node, ast.AugAssign)))
    def owns(t):
        idx = ast.parse(t, mode="eval").body.slice
        comps = idx.elts if isinstance(idx, ast.Tuple) else [idx]
        return any(isinstance(c, ast.Name) and c.id == var for c in comps)
    if all(owns(t) for t, _, _ in stores):
        return "own-cell", stores
    seg = ast.unparse(loop)
    if var and ("n = %s * chunk_size" % var) in seg and "chunk_end_n = min(n + chunk_size, row_size)" in seg and "for i in range(n, chunk_end_n)" in seg \
            and all(f == "i" for _, f, _ in stores):
        return "disjoint-chunk", stores
    return "racy", stores


def scan_source():
    loops = []
    for rel in FILES:
        path = os.path.join(REPO, rel)
        if not os.path.exists(path):
            continue
        src = open(path).read(); tree = ast.parse(src)
        for fn in ast.walk(tree):
            if isinstance(fn, ast.FunctionDef):
                for node in ast.walk(fn):
                    if isinstance(node, ast.For) and is_prange(node.iter):
                        # attribute the loop to its innermost enclosing function
                        inner = [f for f in ast.walk(fn) if isinstance(f, ast.FunctionDef) and f is not fn and any(n is node for n in ast.walk(f))]
                        if inner: continue
                        kind, stores = classify_loop(node, src)
                        loops.append(dict(file=rel, function=fn.name, line=node.lineno, kind=kind, stores=[s[0] for s in stores]))
    return loops


def parallel_args_in_umap():
    """how the `parallel` argument of the layout functions is fed in umap_.py: list of source snippets"""
    src = open(os.path.join(REPO, "umap/umap_.py")).read(); tree = ast.parse(src)
    found = []
    for node in ast.walk(tree):
        if isinstance(node, ast.Call):
            name = node.func.id if isinstance(node.func, ast.Name) else (node.func.attr if isinstance(node.func, ast.Attribute) else None)
            if name in ("optimize_layout_euclidean",):
                val = None
                for kw in node.keywords:
                    if kw.arg == "parallel": val = ast.unparse(kw.value)
                if val is None and len(node.args) >= 14: val = ast.unparse(node.args[13])
                found.append((name, node.lineno, val))
            if name in ("simplicial_set_embedding", "_fit_embed_data"):
                pass
    return found


def run(ctx):
    ctx.check_proofs(["prop/P_C06.v"])
    rng = ctx.rng
    quick = ctx.tier == "quick"
    # ---- (c) start the subprocesses first (they run while the rest is checked) --------------------------------------
    threads = [1, 2, 4, 16] if quick else [1, 2, 3, 4, 6, 8, 12, 16]
    seed = ctx.seed % 1000
    procs = []
    env0 = dict(os.environ)
    for t in threads:
        env = dict(env0, NUMBA_NUM_THREADS=str(t), OMP_NUM_THREADS=str(t))
        procs.append((t, subprocess.Popen([sys.executable, os.path.join(VERIF, "harness", "c06_worker.py"), str(seed), ctx.tier],
                                          stdout=subprocess.PIPE, stderr=subprocess.PIPE, text=True, env=env)))
    # processes whose first action is an unseeded fit + transform (anything cached or left behind by it must not leak into seeded results)
    for t in ([3, 8] if quick else [2, 3, 5, 8, 16]):
        env = dict(env0, NUMBA_NUM_THREADS=str(t), OMP_NUM_THREADS=str(t))
        procs.append((1000 + t, subprocess.Popen([sys.executable, os.path.join(VERIF, "harness", "c06_worker.py"), str(seed), ctx.tier, "warmfirst"],
                                                 stdout=subprocess.PIPE, stderr=subprocess.PIPE, text=True, env=env)))
    # ---- (a) selection logic ---------------------------------------------------------------------------------------------
    X = np.random.RandomState(5).normal(size=(30, 3)).astype(np.float32)
    grid = [(rs_, nj) for rs_ in (None, 7, np.random.RandomState(3)) for nj in (-2, -1, 0, 1, 4)]
    obs, terms = [], []
    sel = []
    orig_sel = L._get_optimize_layout_euclidean_single_epoch_fn
    def spy(parallel=False):
        sel.append(bool(parallel)); return orig_sel(parallel)
    L._get_optimize_layout_euclidean_single_epoch_fn = spy
    try:
        for rs_, nj in grid:
            seeded = rs_ is not None
            sel.clear()
            try:
                m = umap.UMAP(random_state=rs_, n_jobs=nj, n_epochs=3, n_neighbors=5).fit(X)
                after = int(m.n_jobs)
                m.transform(X[:4] + 0.01)
                m.update(X[:6] * 1.01)
                kernels = list(sel)
            except ValueError:
                after, kernels = None, []
            desc = dict(random_state=repr(rs_), n_jobs=nj, n_jobs_after=after, parallel_flags=kernels)
            ctx.tag(("sel", repr(rs_), nj), ["seeded" if seeded else "unseeded"])
            # oracle: seeded => one job and the serial kernel everywhere
            if seeded and after is not None and (after != 1 or any(kernels)):
                ctx.fail("fit:seeded_not_serial", "random_state=%r n_jobs=%d -> n_jobs %r, parallel kernel requested %s" % (rs_, nj, after, kernels), desc)
            obs.append((seeded, nj, after, kernels)); 
            terms.append("(%s, %s%%Z)" % ("true" if seeded else "false", zl(nj)))
    finally:
        L._get_optimize_layout_euclidean_single_epoch_fn = orig_sel
    text = ("From Coq Require Import List ZArith Bool. From UV Require Import M_sgd M_repro.\nImport ListNotations.\n"
            "Eval vm_compute in map (fun p => match resolve_jobs (fst p) (snd p) with None => (-99)%%Z | Some j => j end) %s.\n"
            "Eval vm_compute in map (fun p => if parallel_flag (fst p) then 1%%Z else 0%%Z) %s.\n" % (clist(terms), clist(terms)))
    bl = ctx.coq_eval("cases_C06_sel", text, what="resolve_jobs / parallel_flag vs fit")
    if bl is not None:
        rj, pf = parse_zlist(bl[0]), parse_zlist(bl[1])
        for (seeded, nj, after, kernels), j, p in zip(obs, rj, pf):
            ctx.traces += 1
            if (after if after is not None else -99) != j:
                ctx.diff(dict(seeded=seeded, n_jobs=nj, impl_n_jobs=after), "n_jobs after validation", j, after)
            if after is not None and any(k != bool(p) for k in kernels):
                ctx.diff(dict(seeded=seeded, n_jobs=nj, impl_parallel=kernels), "kernel selection flag", p, kernels)
            if after is not None and len(kernels) < 3:
                ctx.diff(dict(seeded=seeded, n_jobs=nj, impl_parallel=kernels), "fewer layout runs observed than fit+transform+update")
    # ---- (b) source scan ----------------------------------------------------------------------------------------------------
    loops = scan_source()
    ctx.extra["prange_loops"] = loops
    ctx.obligations.append("source: every prange loop is own-cell / disjoint-chunk (C06_prange, C06_chunks) or guarded by the parallel flag")
    bad = [l for l in loops if l["kind"] == "racy" and l["function"] not in GUARDED and not l["function"].startswith("trustworthiness")]
    calls = parallel_args_in_umap()
    ctx.extra["parallel_call_sites"] = calls
    badcalls = [c for c in calls if c[2] not in ("self.random_state is None", "False", "parallel")]
    if bad or badcalls or not loops:
        ctx.broken.append("source scan: racy prange loop outside the guarded kernels %s / unguarded parallel call site %s" % (bad, badcalls))
    else:
        ctx.discharged.append(ctx.obligations[-1])
    # the racy kernels must only ever be compiled with parallel taken from the flag
    lsrc = open(os.path.join(REPO, "umap/layouts.py")).read()
    ctx.obligations.append("source: layouts.py compiles the racy kernels only under parallel=<flag>")
    import re
    par_true = [m.start() for m in re.finditer(r"parallel\s*=\s*True", lsrc)]
    ok_sites = lsrc.count("_nb_optimize_layout_euclidean_single_epoch_parallel = numba.njit(") == 1
    # allowed: the one named parallel kernel, and the `parallel=True` *default* of optimize_layout_aligned_euclidean
    allowed = len(par_true) <= 2
    if ok_sites and allowed: ctx.discharged.append(ctx.obligations[-1])
    else: ctx.broken.append("layouts.py: unexpected unconditional parallel=True compile sites (%d)" % len(par_true))
    # ---- (c) collect the subprocess digests -----------------------------------------------------------------------------------
    results = {}
    for t, p in procs:
        try:
            so, se = p.communicate(timeout=1500)
        except subprocess.TimeoutExpired:
            p.kill(); ctx.broken.append("subprocess with %d threads timed out" % t); continue
        line = [l for l in so.splitlines() if l.startswith("RESULT ")]
        if not line:
            ctx.broken.append("subprocess with %d threads failed: %s" % (t, se[-400:])); continue
        results[t] = json.loads(line[0][7:])
    ref_t = min(results) if results else None
    for t, r in results.items():
        for cfg, dig in r.items():
            if cfg in ("threads", "warmfirst"): continue
            ctx.tag(("sched", t, cfg), ["threads=%d%s" % (t % 1000, "_after_unseeded_fit" if t >= 1000 else ""), cfg])
            ctx.traces += 1
            refd = results[ref_t][cfg]
            for key in ("graph", "embedding", "transform"):
                if key in dig and dig[key] != refd.get(key):
                    ctx.fail("seeded_fit:%s_differs_across_thread_counts:%s" % (key, cfg), "%s digest with %d threads%s differs from %d threads" % (key, t % 1000, " (process started with an unseeded fit)" if t >= 1000 else "", ref_t),
                             dict(config=cfg, threads=[ref_t, t], seed=seed, digests=[refd.get(key), dig[key]], how="python harness/c06_worker.py %d %s under NUMBA_NUM_THREADS" % (seed, ctx.tier)))
            if "transform_after_inverse" in dig and dig["transform_after_inverse"] != dig["transform"]:
                ctx.fail("seeded_transform:changed_by_an_inverse_transform_call:%s" % cfg, "transform of the same data differs after an inverse_transform call on the model (threads %d)" % t,
                         dict(config=cfg, threads=t, seed=seed, history="fit; transform(Y); inverse_transform(E); transform(Y)"))
            if "transform_again" in dig and dig["transform_again"] != dig["transform"]:
                ctx.fail("seeded_transform:not_repeatable:%s" % cfg, "two transform calls on the same data differ (threads %d)" % t, dict(config=cfg, threads=t, seed=seed))
        # within a process: n_jobs and warm/fresh must not matter
        for a_, b_ in (("exact_spectral_jobs-1", "exact_spectral_jobs4_warm"), ("nndescent_jobs1", "nndescent_jobs-1"),
                       ) + tuple(("degenerate_component_affinities_rs%d" % s_, "degenerate_component_affinities_rs%d_again" % s_) for s_ in (42, 1, 2, 3)):
            if a_ in r and b_ in r:
                for key in ("graph", "embedding", "transform"):
                    if r[a_].get(key) != r[b_].get(key):
                        ctx.fail("seeded_fit:%s_depends_on_n_jobs_or_warmup" % key, "%s vs %s differ in %s (threads %d)" % (a_, b_, key, t), dict(configs=[a_, b_], threads=t, seed=seed))
    ctx.sample(dict(threads=sorted(results), configs=[k for k in (results.get(ref_t) or {}) if k != "threads"], digests=results.get(ref_t)), 1)
    ctx.partial.append("actual thread interleavings, numba reduction chunking, LLVM vectorisation, BLAS/ARPACK and pynndescent internals are runtime behaviour: explored by subprocess hashes, not proved")
    ctx.partial.append("the theorems cover the selection logic, the RNG derivation and data-race freedom of the own-cell prange loops (shape checked on the source by ast)")
    return ctx.finish(RULE, assumptions=["a digest mismatch between two processes is a violation; equality over the sampled thread counts is exploration, not proof"])

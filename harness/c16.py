"""C16 — categorical supervision only re-weights existing edges, symmetrically by label."""
import ast, inspect, math, os
import numpy as np, scipy.sparse as sp
from fractions import Fraction
from vp.coqrun import fl, zlist, flist, clist, parse_zlist
from vp import srcparams, link
from vp.common import REPO
import umap, umap.umap_ as U

ATOL = 1e-6            # model (binary64) vs implementation (float32 sparse arithmetic)
OTOL = 1e-5            # oracle tolerance (float32 rounding x10 margin)
WEIGHTS = (0.0, 0.3, 0.5, 0.9, 1.0, 0.95)     # 0.95: exp(-2.5/0.05) ~ 2e-22, tiny but representable in float32
RULE = ("point clouds (n 20..50, 2..5 dims, blobs, scale 0.1..100, metric euclidean/manhattan/cosine, n_neighbors 3..10) -> unsupervised "
        "graph G of UMAP(n_epochs=0).fit(X); label vectors with 1..6 classes, 0..60% unlabelled (-1), single-class and all-unlabelled "
        "vectors; target_weight in {0,.3,.5,.9,1}.  Implementation: fast_intersection, reset_local_connectivity, "
        "discrete_metric_simplicial_set_intersection and UMAP(target_weight=w, n_epochs=0).fit(X, y).graph_; Coq evaluates attenuate / "
        "rowmax_normalise / resym / supervised on G and compares every entry (abs 1e-6, same support); renamed labels must give "
        "bit-identical graphs.  Non-trivial: the case has a cross-label edge, an unlabelled sample, w = 1, or a vertex isolated by supervision.")


# ---- constants of the current source (the 'regenerated from source' leg) -----------------------------
def source_constants():
    """far_dist = C * (1.0 / (1.0 - self.target_weight)) / far_dist = BIG in UMAP.fit, unknown_dist default"""
    out = {}
    try:
        src = open(os.path.join(REPO, "umap/umap_.py")).read()
        tree = ast.parse(src)
        for node in ast.walk(tree):
            if isinstance(node, ast.FunctionDef) and node.name == "fit":
                for sub in ast.walk(node):
                    if isinstance(sub, ast.Assign) and len(sub.targets) == 1 and isinstance(sub.targets[0], ast.Name) and sub.targets[0].id == "far_dist":
                        v = sub.value
                        if isinstance(v, ast.Constant):
                            out["far_big"] = float(v.value)
                        elif isinstance(v, ast.BinOp) and isinstance(v.op, ast.Mult) and isinstance(v.left, ast.Constant):
                            out["far_coeff"] = float(v.left.value)
                            out["far_expr"] = ast.get_source_segment(src, v)
        d = srcparams.func_defaults("umap/umap_.py", "discrete_metric_simplicial_set_intersection")
        if "unknown_dist" in d:
            out["unknown_dist"] = float(d["unknown_dist"])
    except Exception as e:  # fail-soft
        out["error"] = repr(e)
    return out


def far_of(w):
    """the property text's far distance"""
    return 2.5 * (1.0 / (1.0 - w)) if w < 1.0 else 1.0e12


def par_eval(ctx, jobs, workers=None):
    """compile several generated files concurrently (each is its own coqc process); jobs = [(name, text, what)];
    returns the Eval blocks per job, in order (None where the file did not compile)"""
    from concurrent.futures import ThreadPoolExecutor
    workers = workers or int(os.environ.get("VERIF_COQ_JOBS", "4"))
    if not jobs:
        return []
    with ThreadPoolExecutor(max_workers=max(1, workers)) as ex:
        return list(ex.map(lambda j: ctx.coq_eval(j[0], j[1], what=j[2]), jobs))


# ---- generators -------------------------------------------------------------------------------------
def gen_case(rng, npr):
    n = rng.randint(20, 50)
    dim = rng.randint(2, 5)
    scale = 10 ** rng.uniform(-1, 2)
    nblob = rng.randint(1, 4)
    centers = npr.normal(size=(nblob, dim)) * 3
    blob = npr.randint(0, nblob, size=n)
    X = (centers[blob] + npr.normal(size=(n, dim))) * scale
    k = rng.randint(3, 10)
    metric = rng.choice(["euclidean", "euclidean", "manhattan", "cosine"])
    kind = rng.choice(["classes", "classes", "classes", "classes", "by_blob", "single", "all_unknown", "singletons"])
    if kind == "single":
        y = np.full(n, rng.randint(0, 5), dtype=np.int64)
    elif kind == "all_unknown":
        y = np.full(n, -1, dtype=np.int64)
    elif kind == "by_blob":
        y = blob.astype(np.int64)
    elif kind == "singletons":      # a few samples carry a label nobody else has: ALL their edges are cross-label edges
        y = blob.astype(np.int64)
        for j_, i_ in enumerate(rng.sample(range(n), rng.randint(2, 5))): y[i_] = 100 + j_
    else:
        y = npr.randint(0, rng.randint(1, 6), size=n).astype(np.int64)
    if kind != "all_unknown":
        frac = rng.choice([0.0, 0.0, 0.1, 0.3, 0.6])
        y = y.copy(); y[npr.random(n) < frac] = -1
    w = rng.choice(WEIGHTS)
    return dict(n=n, k=k, metric=metric, w=w, X=X, y=y, kind=kind)


def gen_renaming(rng, y):
    """an injective relabelling of the classes that keeps -1 and maps nothing else to -1"""
    classes = sorted(set(int(v) for v in y if v != -1))
    style = rng.choice(["permute", "shift", "scatter", "negative", "large", "large"])
    if style == "permute":
        img = classes[:]; rng.shuffle(img)
    elif style == "shift":
        off = rng.randint(1, 1000); img = [c + off for c in classes]
    elif style == "negative":
        img = [-(c + 2) for c in classes]
    elif style == "large":      # consecutive class ids far above 2^24 (dates, hashes): distinct only when labels are kept as integers
        base = rng.choice([20240101, 10 ** 9 + 7, 2 ** 40 + 3, 2 ** 53 - 1000])
        img = [base + c for c in range(len(classes))]; rng.shuffle(img)
    else:
        img = rng.sample(range(0, 100000), len(classes))
    pi = dict(zip(classes, img)); pi[-1] = -1
    return np.array([pi[int(v)] for v in y], dtype=np.int64), style


def fit_graph(case, y=None, w=None):
    kw = dict(n_neighbors=case["k"], metric=case["metric"], n_epochs=0, init="random", random_state=1)
    if y is None:
        return umap.UMAP(**kw).fit(case["X"]).graph_
    return umap.UMAP(target_weight=w, **kw).fit(case["X"], y).graph_


def canon(G):
    G = sp.csr_matrix(G, copy=True)
    G.sum_duplicates()
    return G


def coo_term(M):
    M = sp.coo_matrix(M)
    return "(%s, %s, %s)" % (zlist(M.row.tolist()), zlist(M.col.tolist()), flist(M.data.tolist()))


def same_bits(A, B):
    A, B = canon(A), canon(B)
    return (A.shape == B.shape and np.array_equal(A.indptr, B.indptr) and np.array_equal(A.indices, B.indices)
            and np.array_equal(A.data.view(np.uint32), B.data.view(np.uint32)))


# ---- the oracle: the property text, in float64, on the implementation's graphs ---------------------------
def expected_graph(G0, y, w):
    g = np.asarray(G0.todense(), dtype=np.float64)
    yy = np.asarray(y)
    unk = (yy[:, None] == -1) | (yy[None, :] == -1)
    differ = (yy[:, None] != yy[None, :]) & ~unk
    f = np.where(unk, math.exp(-1.0), np.where(differ, math.exp(-far_of(w)), 1.0))
    a = g * f                                           # attenuation relative to same-label edges
    m = a.max(axis=1); m[m == 0] = 1.0
    nrm = a / m[:, None]                                # renormalisation: strongest edge of every sample -> 1
    return nrm + nrm.T - nrm * nrm.T                    # symmetric fuzzy union


def oracle(ctx, S, G0, y, w, desc, where):
    n = len(y)
    fails = []
    S = canon(S)
    if S.shape != (n, n):
        fails.append(("shape", "graph shape %s for %d samples" % (S.shape, n)))
        for sig, msg in fails: ctx.fail("%s:%s" % (where, sig), msg, desc)
        return False
    s = np.asarray(S.todense(), dtype=np.float64)
    g0 = np.asarray(G0.todense(), dtype=np.float64)
    data = S.data.astype(np.float64)
    if not np.all(np.isfinite(data)):
        fails.append(("nonfinite", "non-finite stored entry"))
    elif len(data) and (data.min() <= 0 or data.max() > 1 + OTOL):
        fails.append(("range", "stored entry outside (0,1]: min %r max %r" % (float(data.min()), float(data.max()))))
    if np.abs(s - s.T).max() > OTOL:
        fails.append(("symmetry", "asymmetric by %g" % np.abs(s - s.T).max()))
    extra = (s != 0) & (g0 == 0)
    if extra.any():
        i, j = np.argwhere(extra)[0]
        fails.append(("support", "edge (%d,%d) = %r is not an edge of the unsupervised graph" % (i, j, float(s[i, j]))))
    deg = (s != 0).sum(axis=1)
    rmax = s.max(axis=1)
    bad = (deg > 0) & (rmax < 1 - OTOL)
    if bad.any():
        i = int(np.argwhere(bad)[0][0])
        fails.append(("unit_edge", "sample %d has %d edges, strongest %r < 1" % (i, int(deg[i]), float(rmax[i]))))
    yy = np.asarray(y)
    known = yy != -1
    cross = known[:, None] & known[None, :] & (yy[:, None] != yy[None, :])
    if w >= 1.0 and ((s != 0) & cross).any():
        i, j = np.argwhere((s != 0) & cross)[0]
        fails.append(("w1_cross_edge", "target_weight=1 but edge (%d,%d)=%r joins labels %r and %r" % (i, j, float(s[i, j]), int(yy[i]), int(yy[j]))))
    want = expected_graph(G0, y, w)
    d = np.abs(want - s)
    if d.max() > OTOL:
        i, j = np.unravel_index(d.argmax(), d.shape)
        cls = "cross" if cross[i, j] or cross.any() else ("unknown" if (~known).any() else "same")
        fails.append(("attenuation", "entry (%d,%d) = %r; attenuating G by exp(-2.5/(1-w)) [cross] / exp(-1) [unlabelled], renormalising and "
                      "symmetrising gives %r (w=%r, labels %r/%r, %s)" % (i, j, float(s[i, j]), float(want[i, j]), w, int(yy[i]), int(yy[j]), cls)))
    if ((want > 1e-30) & (s == 0)).any():
        i, j = np.argwhere((want > 1e-30) & (s == 0))[0]
        fails.append(("missing_edge", "edge (%d,%d) should survive with strength %r but is absent" % (i, j, float(want[i, j]))))
    for sig, msg in fails:
        ctx.fail("%s:%s" % (where, sig), msg, desc)
    return not fails


def run_case(ctx, case, rng, unknown_default, collect=True):
    """implementation calls + oracle for one case; returns the Coq term (or None)"""
    X, y, w, n = case["X"], case["y"], case["w"], case["n"]
    desc = dict(n=n, k=case["k"], metric=case["metric"], w=w, X=X, y=y)
    try:
        G0 = canon(fit_graph(case))
    except Exception as e:
        ctx.fail("UMAP.fit:raises", "%s: %s" % (type(e).__name__, e), desc); return None
    far = far_of(w)
    coo = G0.tocoo(copy=True)
    vals = coo.data.copy()
    try:
        U.fast_intersection(coo.row, coo.col, vals, y, unknown_default, far)
        att = sp.coo_matrix((vals.copy(), (coo.row.copy(), coo.col.copy())), shape=G0.shape)
        att.eliminate_zeros()
        R = canon(U.reset_local_connectivity(att.copy()))
        D = canon(U.discrete_metric_simplicial_set_intersection(G0.copy(), y, far_dist=far))
        F = canon(fit_graph(case, y, w))
    except Exception as e:
        ctx.fail("UMAP.fit(X,y):raises", "%s: %s" % (type(e).__name__, e), desc); return None
    # kernel-level ratio clause (float64 statement on fast_intersection's output)
    v0 = coo.data.astype(np.float64)
    yi, yj = y[coo.row], y[coo.col]
    fac = np.where((yi == -1) | (yj == -1), math.exp(-1.0), np.where(yi != yj, math.exp(-far), 1.0))
    if np.any(np.abs(vals.astype(np.float64) - v0 * fac) > 1e-6 * v0 * fac + 1e-44):
        p = int(np.argmax(np.abs(vals.astype(np.float64) - v0 * fac) - 1e-6 * v0 * fac))
        ctx.fail("fast_intersection:ratio", "edge (%d,%d) labels %r/%r: %r -> %r, expected factor %r" % (coo.row[p], coo.col[p], int(yi[p]), int(yj[p]), float(v0[p]), float(vals[p]), float(fac[p])), desc)
    oracle(ctx, F, G0, y, w, desc, "UMAP.fit(X,y).graph_")
    oracle(ctx, D, G0, y, w, desc, "discrete_metric_simplicial_set_intersection")
    # label renaming: bit-identical graphs
    if case["kind"] != "all_unknown":
        for _ in range(2):
            y2, style = gen_renaming(rng, y)
            try:
                F2 = fit_graph(case, y2, w)
            except Exception as e:
                ctx.fail("UMAP.fit(X,renamed y):raises", "%s: %s" % (type(e).__name__, e), dict(desc, y_renamed=y2)); continue
            ctx.evaluations += 1
            ctx.count("renaming_" + style)
            if not same_bits(F, F2):
                ctx.fail("UMAP.fit(X,y).graph_:renaming", "graph changes under the label renaming (%s)" % style, dict(desc, y_renamed=y2))
    # bookkeeping
    g0 = np.asarray(G0.todense()); f = np.asarray(F.todense())
    known = y != -1
    cross = known[:, None] & known[None, :] & (y[:, None] != y[None, :])
    tags = [t for t, c in (("cross_edge", bool(((g0 != 0) & cross).any())), ("unlabelled", bool((~known).any())), ("w1", w >= 1.0),
                           ("w0", w == 0.0), ("isolated_by_supervision", bool((((g0 != 0).sum(1) > 0) & ((f != 0).sum(1) == 0)).any())),
                           ("single_class", case["kind"] == "single"), ("all_unlabelled", case["kind"] == "all_unknown")) if c]
    ctx.tag((X.tobytes(), y.tobytes(), w, case["k"], case["metric"]), tags)
    ctx.count("w=%s" % w); ctx.count("labels_" + case["kind"]); ctx.count("n<=35" if n <= 35 else "n>35"); ctx.count("metric_" + case["metric"])
    ctx.sample(dict(n=n, k=case["k"], metric=case["metric"], w=w, y=y, nnz_unsupervised=int(G0.nnz), nnz_supervised=int(F.nnz)), 3)
    if not collect:
        return None
    term = "(%d%%nat, %s, %s, %s, %s, %s, %s, %s)" % (n, coo_term(G0), zlist(y.tolist()), fl(w), flist(vals.tolist()),
                                                      coo_term(R), coo_term(D), coo_term(F))
    return term, desc


def unique_probe(ctx, rng, npr):
    """unique=True with a categorical target: the graph lives on the de-duplicated rows (np.unique order) and must be re-weighted with
    the labels OF THOSE rows, i.e. equal the supervised graph of a fit on the de-duplicated data with the correspondingly selected labels"""
    for rep in range(3 if ctx.tier == "quick" else 12):
        n0 = rng.randint(24, 40); dim = rng.randint(2, 4)
        nblob = rng.randint(2, 4)
        centers = npr.normal(size=(nblob, dim)) * 4
        blob = npr.randint(0, nblob, size=n0)
        X0 = np.round((centers[blob] + npr.normal(size=(n0, dim))) * 4) / 4          # exactly representable rows
        y0 = npr.randint(0, rng.randint(2, 5), size=n0).astype(np.int64)
        y0[npr.random(n0) < rng.choice([0.0, 0.2])] = -1
        dup = npr.choice(n0, size=rng.randint(4, 9), replace=False)
        X = np.vstack([X0, X0[dup]]).astype(np.float32); y = np.concatenate([y0, y0[dup]])
        perm = npr.permutation(len(y)); X, y = X[perm], y[perm]
        # rows of X0 may coincide by chance: make labels a function of the row
        seen = {}
        for i, r in enumerate(X.tolist()):
            y[i] = seen.setdefault(tuple(r), y[i])
        w = rng.choice([0.5, 0.5, 0.9, 1.0]); k = rng.randint(4, 9)
        kw = dict(n_neighbors=k, n_epochs=0, init="random", random_state=1, target_weight=w)
        desc = dict(api="UMAP(unique=True).fit(X, y)", X=X, y=y, k=k, w=w)
        try:
            m = umap.UMAP(unique=True, **kw).fit(X, y)
            index = np.unique(X, axis=0, return_index=True)[1]
            ref = umap.UMAP(**kw).fit(X[index], y[index])
        except Exception as e:
            ctx.fail("UMAP.fit(X,y,unique):raises", "%s: %s" % (type(e).__name__, e), desc); continue
        A, B = canon(m.graph_), canon(ref.graph_)
        ctx.evaluations += 1
        ctx.tag(("unique_probe", X.tobytes(), y.tobytes(), w, k), ["unique_with_duplicate_rows"])
        if A.shape != B.shape:
            ctx.fail("UMAP.fit(X,y,unique).graph_:shape", "graph_ has shape %r for %d distinct rows" % (A.shape, len(index)), desc); continue
        Dm = abs(A - B)
        if (Dm.max() if Dm.nnz else 0.0) > 1e-6 or ((A != 0) != (B != 0)).nnz:
            ctx.fail("UMAP.fit(X,y,unique).graph_:labels_misaligned", "with unique=True the supervised graph differs from the supervised graph of the de-duplicated "
                     "data with the labels of those rows: max |diff| %.3g" % (Dm.max() if Dm.nnz else 0.0), desc)


def refit_probe(ctx, rng, npr):
    """one estimator object fitted repeatedly: with labels, then without, then with other labels / another target_weight -- every fit
    must give the graph a fresh estimator gives (no supervised state may survive a refit)"""
    for rep in range(2 if ctx.tier == "quick" else 8):
        case = gen_case(rng, npr)
        if case["kind"] == "all_unknown": case["y"] = npr.randint(0, 3, size=case["n"]).astype(np.int64)
        X, y, w = case["X"], case["y"], case["w"]
        y2, _ = gen_renaming(rng, np.roll(y, 3))
        w2 = rng.choice([v for v in WEIGHTS if v != w])
        kw = dict(n_neighbors=case["k"], metric=case["metric"], n_epochs=0, init="random", random_state=1)
        desc = dict(api="refit of one estimator", n=case["n"], k=case["k"], metric=case["metric"], w=w, w2=w2, X=X, y=y, y2=y2)
        try:
            est = umap.UMAP(target_weight=w, **kw)
            g1 = canon(est.fit(X, y).graph_)
            g2 = canon(est.fit(X).graph_)
            est.set_params(target_weight=w2)
            g3 = canon(est.fit(X, y2).graph_)
            f1 = canon(umap.UMAP(target_weight=w, **kw).fit(X, y).graph_)
            f2 = canon(umap.UMAP(target_weight=w, **kw).fit(X).graph_)
            f3 = canon(umap.UMAP(target_weight=w2, **kw).fit(X, y2).graph_)
        except Exception as e:
            ctx.fail("UMAP.fit(refit):raises", "%s: %s" % (type(e).__name__, e), desc); continue
        ctx.evaluations += 3
        ctx.tag(("refit", X.tobytes(), y.tobytes(), w, w2), ["refit_same_estimator"])
        for what, a, b in (("first fit (X, y)", g1, f1), ("refit without y", g2, f2), ("refit with other labels and target_weight", g3, f3)):
            if not same_bits(a, b):
                ctx.fail("UMAP.fit(refit).graph_:differs_from_fresh_estimator", "%s: graph differs from the graph of a fresh estimator with the same arguments" % what, desc); break


def _phase(ctx, name, t0):
    import time
    ctx.extra.setdefault("phase_s", {})[name] = round(time.time() - t0, 1)
    return time.time()


def run(ctx):
    import time
    t0 = time.time()
    ctx.check_proofs(["prop/P_C16.v"])
    # translation tie: fast_intersection regenerated from the current source; link theorem: for every COO matrix, label array
    # and pair of distances the translated source rescales each stored value exactly as the model's attenuate does
    # fast_metric_intersection (the metric-valued twin): translated for metric_args=() with `metric` an opaque function; link theorem over
    # every Num and every metric function: each stored value is multiplied by exp(-(scale * metric(space[i], space[j])))
    link.check(ctx, "umap_sup", {"fast_intersection": "src_fast_intersection_eq", "fast_metric_intersection": "src_fast_metric_intersection_eq"},
               {"reset_local_connectivity": "SciPy / scikit-learn calls (normalize, transpose, multiply): outside the py2coq subset",
                "discrete_metric_simplicial_set_intersection": "SciPy COO object manipulation: outside the py2coq subset"})
    t0 = _phase(ctx, "proofs", t0)
    rng = ctx.rng
    npr = np.random.RandomState(rng.randrange(2 ** 31))
    # source constants -> proof obligation that they are the ones the theorems speak about
    C = source_constants()
    ctx.extra["source_params"] = C
    if not {"far_coeff", "far_big", "unknown_dist"} <= set(C):
        ctx.notes.append("source constants could not be extracted (%s); obligation params_C16 checked on the committed defaults" % C.get("error", sorted(C)))
    c25 = Fraction(C.get("far_coeff", 2.5)).limit_denominator(10 ** 9)
    big = Fraction(C.get("far_big", 1e12)).limit_denominator(10 ** 9)
    unk = Fraction(C.get("unknown_dist", 1.0)).limit_denominator(10 ** 9)
    ob = ("From Coq Require Import Reals Lra. From UV Require Import Num M_supervised.\nOpen Scope R_scope.\n"
          "Lemma params_ok : c25 RNum = %d / %d /\\ cbig RNum = %d / %d /\\ unknown_dist RNum = %d / %d.\n"
          "Proof. unfold c25, cbig, unknown_dist; cbn. repeat split; lra. Qed.\n"
          % (c25.numerator, c25.denominator, big.numerator, big.denominator, unk.numerator, unk.denominator))
    ctx.obligations.append("gen/params_C16.v:params_ok")
    if ctx.coq_eval("params_C16", ob, what="far_dist coefficient 2.5, far_dist 1e12 at target_weight 1, unknown_dist 1 in the current source") is not None:
        ctx.discharged.append("gen/params_C16.v:params_ok")
    try:
        unknown_default = float(inspect.signature(U.discrete_metric_simplicial_set_intersection).parameters["unknown_dist"].default)
    except Exception:
        unknown_default = 1.0
    t0 = _phase(ctx, "obligations", t0)
    ncases = 60 if ctx.tier == "quick" else 600
    terms, cases = [], []
    for c in range(ncases):
        case = gen_case(rng, npr)
        if c < len(WEIGHTS):
            case["w"] = WEIGHTS[c]                      # every weight at least once
        elif c < len(WEIGHTS) + 3:                      # singleton classes at weights whose far factor is tiny but not zero
            case = gen_case(rng, npr)
            while case["kind"] != "singletons": case = gen_case(rng, npr)
            case["w"] = (0.95, 0.9, 0.96)[c - len(WEIGHTS)]
        out = run_case(ctx, case, rng, unknown_default)
        if out is not None:
            terms.append(out[0]); cases.append(out[1])
    unique_probe(ctx, rng, npr)
    refit_probe(ctx, rng, npr)
    t0 = _phase(ctx, "implementation+oracle", t0)
    shard = 15
    hdr = ("From Coq Require Import List ZArith PrimFloat. From UV Require Import Num FNum M_supervised V_supervised.\n"
           "Import ListNotations. Open Scope float_scope.\n")
    names = {1: "fast_intersection values", 2: "reset_local_connectivity", 3: "discrete_metric_simplicial_set_intersection",
             4: "UMAP.fit(X,y).graph_", 5: "stored zero / non-positive entry", 9: "malformed case (index out of range)"}
    jobs = []
    for s in range(0, len(terms), shard):
        text = hdr + ("Definition cases : list case_C16 := %s.\nEval vm_compute in map (verdict_C16 %s) cases.\n"
                      % (clist(terms[s:s + shard]), fl(ATOL)))
        jobs.append(("cases_C16_%d" % (s // shard), text, "attenuate / rowmax_normalise / resym / supervised vs the implementation"))
    for s, blocks in zip(range(0, len(terms), shard), par_eval(ctx, jobs)):
        if blocks is None:
            continue
        v = parse_zlist(blocks[0])
        if len(v) != len(terms[s:s + shard]):
            ctx.broken.append("C16 verdict list has %d entries for %d cases" % (len(v), len(terms[s:s + shard]))); continue
        for off, code in enumerate(v):
            ctx.traces += 1
            if code != -1:
                ctx.diff(cases[s + off], names.get(code, "code %d" % code))
    _phase(ctx, "coq_correspondence", t0)
    ctx.notes.append("range clause: theorem C16 states 0 <= s i j <= 1 for every position; stored (non-zero) entries are therefore in (0,1]; "
                     "that the implementation stores no zero is checked by the verdict function and the oracle")
    ctx.notes.append("target_weight = 1: theorem C16_w1 assumes the far factor is 0; C16_far_factor_underflows shows the binary64 value of exp(-1e12) is 0 "
                     "(over R it is positive) -- the place where a float fact replaces a real one")
    return ctx.finish(RULE, assumptions=[
        "float32 sparse arithmetic of SciPy / scikit-learn normalize is observed, not modelled (tolerance %g)" % ATOL,
        "the unsupervised graph G is taken from the implementation (C01/C02 tie it to their models)",
        "target_weight so close to 1 that exp(-2.5/(1-w)) leaves the float32 range (w > ~0.97) is outside the generated grid",
        "non-categorical target metrics and string labels are not modelled"])


def replay(rep):
    """re-run the oracle on the stored case against the current tree; True iff it still fails"""
    from vp.common import Ctx
    import random
    c = rep.get("case") or (rep.get("diffs") or [{}])[0].get("case")
    if not c:
        return True
    case = dict(n=c["n"], k=c["k"], metric=c["metric"], w=float(c["w"]), X=np.array(c["X"], dtype=np.float64),
                y=np.array(c["y"], dtype=np.int64), kind="replay")
    ctx = Ctx("C16", "quick", 0)
    run_case(ctx, case, random.Random(0), 1.0, collect=False)
    if "y_renamed" in c:
        F = fit_graph(case, case["y"], case["w"]); F2 = fit_graph(case, np.array(c["y_renamed"], dtype=np.int64), case["w"])
        if not same_bits(F, F2):
            ctx.fail("renaming", "graph changes under the stored renaming", c)
    for f in ctx.oracle_fail:
        print("  ", f["signature"], f["summary"])
    return bool(ctx.oracle_fail)

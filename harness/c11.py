"""C11 — update(X2) yields the graph a fresh fit on the stacked data would, and the model stays usable."""
import ast, math, os, time
import numpy as np, scipy.sparse as sp
from sklearn.metrics import pairwise_distances
from vp.coqrun import fl, zl, flist, zlist, clist, parse_zlist
from vp import srcparams, link
import umap, umap.umap_ as U, umap.distances as UD

GTOL = 1e-5        # update graph vs fresh-fit graph (same float32 code on the same table: expected identical)
MTOL = 5e-3        # Coq graph model (binary64 bandwidth search) vs implementation (float32 search): C01's strength tolerance, twice
IRTOL, IATOL = 1e-5, 1e-7
RULE = ("(a) init_update called directly on random tables (2..8 old rows, 1..6 new rows, 1..4 components, 1..6 index columns; new rows start at zero or not; "
        "rows without any old neighbour, repeated indices, -1 entries) vs M_update.init_update in binary64 (rel 1e-5) and vs the float64 mean of the old "
        "neighbours' rows; (b) fit(X1); update(X2)[; update(X3)] vs fit(vstack) for 25..60 points, metrics euclidean/manhattan/cosine/hamming, "
        "set_op_mix_ratio 1/0.5, classes plain / far group / n1 <= n_neighbors / active disconnection distance / two batches: graphs entrywise (abs 1e-5, "
        "same support), _n_neighbors, embedding shape and finiteness, a follow-up transform and a follow-up update; Coq recomputes _n_neighbors after every "
        "step (verdict_k, exact) and, for the smaller cases, the whole graph from the distance table of the stacked data through update_chain + the C01/C02 "
        "graph stage (verdict_graph, abs 5e-3, entries decided by argsort ties skipped).  Non-trivial: any class other than plain euclidean.")


# ---- facts about the text of update(), read from the current source ------------------------------------
def source_flags(ctx=None):
    """re_resolve: update() assigns self._n_neighbors; cut_on_update: update() mentions self._disconnection_distance"""
    try:
        tree = ast.parse(open(os.path.join(srcparams.REPO, "umap/umap_.py")).read())
        node = None
        for cls in tree.body:
            if isinstance(cls, ast.ClassDef) and cls.name == "UMAP":
                for f in cls.body:
                    if isinstance(f, ast.FunctionDef) and f.name == "update":
                        node = f
        rr = cut = False
        for n in ast.walk(node):
            if isinstance(n, ast.Assign) and any(isinstance(t, ast.Attribute) and t.attr == "_n_neighbors" for t in n.targets):
                rr = True
            if isinstance(n, ast.Attribute) and n.attr == "_disconnection_distance":
                cut = True
        return (rr, cut), True
    except Exception as e:
        if ctx is not None:
            ctx.notes.append("could not read update() from the source (%s); assuming the repaired behaviour" % e)
        return (True, True), False


def bl(b):
    return "true" if b else "false"


# ---- (a) init_update ------------------------------------------------------------------------------------
def gen_init(rng):
    n_orig, n_new = rng.randint(2, 8), rng.randint(1, 6)
    D, k = rng.randint(1, 4), rng.randint(1, 6)
    n = n_orig + n_new
    tbl = np.zeros((n, D), np.float32)
    tbl[:n_orig] = [[rng.randint(-4096, 4096) / 256.0 for _ in range(D)] for _ in range(n_orig)]
    zero_start = rng.random() < 0.7
    if not zero_start:
        tbl[n_orig:] = [[rng.randint(-1024, 1024) / 256.0 for _ in range(D)] for _ in range(n_new)]
    idx = np.zeros((n, k), np.int64)
    tags = set()
    neg = rng.random() < 0.15
    for i in range(n):
        style = rng.random()
        if i >= n_orig and style < 0.2:
            row = [rng.randrange(n_orig, n) for _ in range(k)]; tags.add("no_old_neighbour")
        elif style < 0.35:
            row = [rng.randrange(n_orig) for _ in range(k)]; tags.add("all_old")
        else:
            row = [rng.randrange(n) for _ in range(k)]
        if neg and i >= n_orig and rng.random() < 0.5:
            row[rng.randrange(k)] = -1; tags.add("negative_index")
        idx[i] = row
    for i in range(n_orig, n):
        if len(set(idx[i].tolist())) < k: tags.add("repeated_index")
    if not zero_start: tags.add("nonzero_start")
    if D > 1: tags.add("D>1")
    return dict(table=tbl, n_orig=n_orig, indices=idx), sorted(tags)


def impl_init(case):
    t = case["table"].copy()
    try:
        U.init_update(t, case["n_orig"], case["indices"].copy())
    except ZeroDivisionError:
        return None, "ZeroDivisionError"
    except Exception as e:
        return None, type(e).__name__
    return t, None


def oracle_init(ctx, case, out, err, where="init_update"):
    tbl, n0, idx = case["table"].astype(np.float64), case["n_orig"], case["indices"]
    n, D = tbl.shape
    desc = dict(kind="init_update", table=case["table"], n_orig=n0, indices=idx)
    far = [i for i in range(n0, n) if not any(0 <= j < n0 for j in idx[i])]
    if err is not None:
        ctx.fail("%s:raises:%s" % (where, "no_old_neighbour" if far and err == "ZeroDivisionError" else err),
                 "init_update raised %s; rows without an old neighbour: %s" % (err, far), desc)
        return
    if not np.array_equal(out[:n0].astype(np.float64), tbl[:n0]):
        ctx.fail("%s:old_rows_modified" % where, "rows below n_original_samples were changed", desc)
    for i in range(n0, n):
        olds = [j for j in idx[i] if 0 <= j < n0]
        got = out[i].astype(np.float64)
        if not np.all(np.isfinite(got)):
            ctx.fail("%s:nonfinite" % where, "row %d is not finite: %r" % (i, got.tolist()), desc); continue
        if not olds:
            if not np.array_equal(got, tbl[i]):
                ctx.fail("%s:row_without_old_neighbour_changed" % where, "row %d has no old neighbour but changed from %r to %r" % (i, tbl[i].tolist(), got.tolist()), desc)
            continue
        want = (tbl[i] + tbl[olds].sum(axis=0)) / len(olds)
        if not np.allclose(got, want, rtol=IRTOL, atol=1e-6):
            cls = "other"
            if np.allclose(got, (tbl[i] + tbl[olds].sum(axis=0)) / (len(olds) * D), rtol=IRTOL, atol=1e-6) and D > 1:
                cls = "divided_by_n_components"
            elif any(j < 0 for j in idx[i]):
                cls = "negative_index_counted"
            ctx.fail("%s:not_mean_of_old_neighbours:%s" % (where, cls),
                     "row %d: got %r, the mean of its %d old neighbours' rows%s is %r" % (i, got.tolist(), len(olds), "" if not tbl[i].any() else " (plus its start value)", want.tolist()), desc)


def init_term(case, out):
    t = clist(["[" + "; ".join(fl(x) for x in r) + "]" for r in case["table"].tolist()])
    ix = clist([zlist(r) for r in case["indices"].tolist()])
    o = "None" if out is None else "(Some %s)" % clist(["[" + "; ".join(fl(x) for x in r) + "]" for r in out.tolist()])
    return "(%s, %d%%nat, %s, %s)" % (t, case["n_orig"], ix, o)


# ---- (b) update vs fresh fit ---------------------------------------------------------------------------
METRICS = ["euclidean", "manhattan", "cosine", "hamming"]


def gen_update(rng, npr, tier, force_class=None):
    metric = rng.choice(METRICS + ["euclidean"])
    n = rng.randint(25, 60 if tier == "thorough" else 48)
    d = rng.randint(3, 6) if metric != "hamming" else rng.randint(10, 16)
    cls = force_class or rng.choice(["plain", "plain", "far", "n1_le_k", "disc", "two_batches", "far_two", "bounded_far", "tiny_stack"])
    k = rng.randint(3, 10)
    if cls == "n1_le_k":
        n1 = rng.randint(6, 12); k = rng.randint(n1, n1 + 4)
    else:
        n1 = rng.randint(max(k + 2, n // 3), n - 4)
    sizes = [n1, n - n1]
    if cls in ("two_batches", "far_two") and n - n1 >= 6:
        b = rng.randint(2, n - n1 - 2); sizes = [n1, b, n - n1 - b]
    far = cls in ("far", "far_two")
    if metric == "hamming":
        X = (npr.random(size=(n, d)) < 0.3).astype(np.float32)
        if far:
            X[n1:] = (npr.random(size=(n - n1, d)) < 0.9).astype(np.float32)
    elif metric == "cosine":
        X = np.abs(npr.normal(size=(n, d))) + 0.05
        if far:
            X[n1:, : d // 2 + 1] *= -1
    else:
        X = npr.normal(size=(n, d)) * 10 ** rng.uniform(-1, 1.3)
        if far:
            X[n1:] += 100 * np.abs(X).max()
    if cls == "bounded_far":
        # a metric with a preset disconnection distance (its maximum), disconnection_distance left at None, and a new group of fewer than
        # n_neighbors samples on a disjoint support: every old-new distance is exactly the maximum
        metric = rng.choice(["hellinger", "jaccard"]); d = 12; k = rng.randint(6, 9); n1 = rng.randint(k + 3, 24); g = rng.randint(3, k - 1)
        n = n1 + g; sizes = [n1, g]
        X = np.zeros((n, d))
        if metric == "hellinger":
            X[:n1, :6] = npr.random(size=(n1, 6)) + 0.05; X[n1:, 6:] = npr.random(size=(g, 6)) + 0.05
        else:
            X[:n1, :6] = npr.random(size=(n1, 6)) < 0.6; X[n1:, 6:] = npr.random(size=(g, 6)) < 0.6
            X[:n1, 0] = 1; X[n1:, 6] = 1
            for i_ in range(n): X[i_, rng.randrange(1, 6) + (6 if i_ >= n1 else 0)] = (i_ % 2)   # avoid identical rows as far as cheap
    if cls == "tiny_stack":
        # the stacked data stay no larger than n_neighbors for two updates
        metric = rng.choice(["euclidean", "manhattan"]); k = 15; d = 4
        # either the stack stays below n_neighbors for two updates, or one update lands EXACTLY on n_neighbors samples (the boundary of
        # fit's truncation rule n <= n_neighbors)
        gen_update.tiny = getattr(gen_update, "tiny", -1) + 1
        sizes = [[6, 5, 3, 12], [10, 5, 4], [9, 6, 8], [5, 3, 7, 6]][gen_update.tiny % 4]; n = sum(sizes); n1 = sizes[0]
        X = npr.normal(size=(n, d))
    sparse = False
    if cls == "sparse_special":
        # CSR input with a metric scikit-learn cannot evaluate on sparse data (fit / transform take umap's own fallback paths)
        gen_update.sps = getattr(gen_update, "sps", -1) + 1
        metric = ["minkowski", "chebyshev", "canberra", "braycurtis"][gen_update.sps % 4]; sparse = True
        X = np.abs(npr.normal(size=(n, d))) * (npr.random(size=(n, d)) < 0.7) + 0.0
        X[X.sum(axis=1) == 0, 0] = 1.0
    unseeded = False
    if cls == "sparse_cosine_jobs":
        # CSR input with a metric scikit-learn evaluates on sparse data by name, an UNSEEDED model (so n_jobs is not forced to 1) and n_jobs = 2
        metric = "cosine"; sparse = True; unseeded = True
        X = np.abs(npr.normal(size=(n, max(d, 6)))) * (npr.random(size=(n, max(d, 6))) < 0.7) + 0.0
        X[X.sum(axis=1) == 0, 0] = 1.0
    X = X.astype(np.float32)
    p = dict(n_neighbors=k, metric=metric, n_epochs=11, random_state=rng.randrange(1000), set_op_mix_ratio=rng.choice([1.0, 1.0, 0.5]))
    if unseeded:
        p["random_state"] = None; p["n_jobs"] = 2
    if metric == "minkowski":       # a keyword argument of the metric must reach every distance computation (fit, update, transform)
        p["metric_kwds"] = {"p": rng.choice([3.0, 1.5])}
    if cls == "disc":
        Dm = pairwise_distances(X, metric=UD.named_distances[metric], **p.get("metric_kwds", {}))
        kth = np.sort(Dm, axis=1)[:, min(k, n - 1) - 1]
        p["disconnection_distance"] = float(np.quantile(kth, rng.uniform(0.6, 0.95)))
    return dict(X=X, sizes=sizes, params=p, cls=cls, sparse=sparse)


def as_input(case, A):
    return sp.csr_matrix(A) if case.get("sparse") else A.copy()


def disc_of(p):
    d = p.get("disconnection_distance")
    return float(getattr(U, "DISCONNECTION_DISTANCES", {}).get(p["metric"], np.inf)) if d is None else float(d)


def gdiff(A, B):
    A, B = sp.csr_matrix(A), sp.csr_matrix(B)
    if A.shape != B.shape:
        return float("inf"), -1
    D = abs(A - B)
    return (float(D.max()) if D.nnz else 0.0), int(((A != 0) != (B != 0)).sum())


def isolated(G):
    return int((np.asarray(sp.csr_matrix(G).sum(axis=1)).ravel() == 0).sum())


def run_update_case(case):
    """the implementation calls; returns a dict of observations (exceptions are recorded, not raised)"""
    X, sizes, p = case["X"], case["sizes"], case["params"]
    ob = dict(ks=[], err=None)
    cuts = np.cumsum(sizes)
    m = umap.UMAP(**p).fit(as_input(case, X[: cuts[0]]))
    ob["ks"].append(int(m._n_neighbors)); ob["iso_first"] = isolated(m.graph_)
    for a, b in zip(cuts[:-1], cuts[1:]):
        nan_rows = int(np.isnan(m.embedding_).any(axis=1).sum())
        try:
            m.update(as_input(case, X[a:b]))
        except Exception as e:
            ob["err"] = (type(e).__name__, str(e)[:200], int(b), nan_rows); break
        ob["ks"].append(int(m._n_neighbors))
        if b < cuts[-1]:      # intermediate stage of a multi-batch history: compare with a fresh fit on the data stacked so far
            fi = umap.UMAP(**p).fit(as_input(case, X[:b]))
            ob.setdefault("steps", []).append((int(b), gdiff(m.graph_, fi.graph_), int(m._n_neighbors), int(fi._n_neighbors)))
    f = umap.UMAP(**p).fit(as_input(case, X))
    ob["k_fresh"] = int(f._n_neighbors)
    ob["model"], ob["fresh"] = m, f
    return ob


def classify(case):
    X, sizes, p = case["X"], case["sizes"], case["params"]
    if any(c <= p["n_neighbors"] for c in np.cumsum(sizes)[:-1]):
        return "n1_le_n_neighbors"
    disc = disc_of(p)
    Dm = pairwise_distances(X, metric=UD.named_distances[p["metric"]], **p.get("metric_kwds", {}))
    if np.any(Dm >= disc):
        return "disconnection_cut_active"
    return "other"


def oracle_update(ctx, case, ob, Ynew):
    X, sizes, p = case["X"], case["sizes"], case["params"]
    n, nc = X.shape[0], 2
    desc = dict(kind="update", X=X, sizes=sizes, params=p, cls=case["cls"])
    far = "far" in case["cls"]
    if ob["err"]:
        name, msg, upto, nan_rows = ob["err"]
        sub = ":no_old_neighbour" if name == "ZeroDivisionError" else ":nan_rows_of_isolated_vertices_in_embedding" if (name == "ValueError" and nan_rows and "NaN" in msg) else ""
        ctx.fail("update:raises:%s%s" % (name, sub), "update of rows up to %d raised %s: %s (class %s; %d NaN rows in the embedding before the call)"
                 % (upto, name, msg, case["cls"], nan_rows), desc)
        return False
    m, f = ob["model"], ob["fresh"]
    ok = True
    for (upto, (mx_, sup_), k_u, k_f) in ob.get("steps", []):
        if mx_ > GTOL or sup_ != 0 or k_u != k_f:
            ctx.fail("update:graph_differs_at_intermediate_stage:%s" % classify(case),
                     "after the update that brought the data to %d rows the graph differs from a fresh fit on those rows: max |diff| %.3g, %d entries in only one, n_neighbors %d vs %d"
                     % (upto, mx_, sup_, k_u, k_f), desc)
            ok = False
    mx, sup = gdiff(m.graph_, f.graph_)
    if mx > GTOL or sup != 0:
        ctx.fail("update:graph_differs:%s" % classify(case),
                 "graph after update differs from the fresh fit's: max |diff| %.3g, %d entries present in only one (n_neighbors used %s vs %d)" % (mx, sup, ob["ks"], ob["k_fresh"]), desc)
        ok = False
    if ob["ks"][-1] != ob["k_fresh"]:
        ctx.fail("update:n_neighbors_differs:%s" % classify(case), "_n_neighbors after update is %d, a fresh fit uses %d" % (ob["ks"][-1], ob["k_fresh"]), desc)
        ok = False
    E = m.embedding_
    iso = ob["iso_first"] + isolated(f.graph_)
    if E.shape != (n, nc):
        ctx.fail("update:embedding_shape", "embedding has shape %r for %d samples" % (E.shape, n), desc); ok = False
    elif iso == 0 and not np.all(np.isfinite(E)):
        ctx.fail("update:embedding_nonfinite%s" % (":far_group" if far else ""), "%d non-finite embedding rows after update" % int((~np.isfinite(E).all(axis=1)).sum()), desc); ok = False
    # stays usable: transform and a further update behave as on the fresh model
    try:
        # the neighbour graph transform builds for new points depends on the training data and the graph-stage parameters only:
        # it must be the fresh model's (read through the public transform_mode attribute; restored afterwards)
        if iso == 0 and ok:
            tm_m, tm_f = m.transform_mode, f.transform_mode
            try:
                m.transform_mode = f.transform_mode = "graph"
                g1, g2 = m.transform(as_input(case, Ynew)), f.transform(as_input(case, Ynew))
            finally:
                m.transform_mode, f.transform_mode = tm_m, tm_f
            mxg, supg = gdiff(g1, g2)
            if mxg > 1e-4 or supg != 0:
                ctx.fail("update:followup_transform_graph_differs", "the neighbour graph transform builds for new points after update differs from the fresh model's: "
                         "max |diff| %.3g, %d entries in only one" % (mxg, supg), desc); ok = False
        t1, t2 = m.transform(as_input(case, Ynew)), f.transform(as_input(case, Ynew))
        if t1.shape != t2.shape or t1.shape != (Ynew.shape[0], nc):
            ctx.fail("update:followup_transform_shape", "transform after update returned %r, on the fresh model %r" % (t1.shape, t2.shape), desc); ok = False
        elif iso == 0 and not np.all(np.isfinite(t1)) and np.all(np.isfinite(t2)):
            ctx.fail("update:followup_transform_nonfinite", "transform after update returned non-finite rows", desc); ok = False
        if iso == 0 and ok:
            tr = m.transform(as_input(case, X))
            if tr.shape != (n, nc) or not np.array_equal(tr, m.embedding_, equal_nan=True):
                ctx.fail("update:followup_transform_training_data", "transform(stacked data) after update returned shape %r, not the embedding" % (tr.shape,), desc); ok = False
    except Exception as e:
        ctx.fail("update:followup_transform_raises:%s" % type(e).__name__, "transform after update raised %s: %s" % (type(e).__name__, e), desc); ok = False
    return ok


def followup_update(ctx, case, ob, extra):
    X, p = case["X"], case["params"]
    desc = dict(kind="update", X=np.vstack([X, extra]), sizes=case["sizes"] + [extra.shape[0]], params=p, cls=case["cls"] + "+followup")
    m = ob["model"]
    try:
        m.update(as_input(case, extra))
    except Exception as e:
        ctx.fail("update:followup_update_raises:%s" % type(e).__name__, "a further update raised %s: %s" % (type(e).__name__, e), desc); return
    f = umap.UMAP(**p).fit(as_input(case, np.vstack([X, extra])))
    mx, sup = gdiff(m.graph_, f.graph_)
    if mx > GTOL or sup != 0:
        ctx.fail("update:graph_differs:%s" % classify(dict(case, X=desc["X"], sizes=desc["sizes"])),
                 "graph after a further update differs from the fresh fit's: max |diff| %.3g, %d support differences" % (mx, sup), desc)


def coo_term(M):
    M = sp.coo_matrix(M)
    return "[" + "; ".join("(%d%%nat, %d%%nat, %s)" % (i, j, fl(v)) for i, j, v in zip(M.row.tolist(), M.col.tolist(), M.data.tolist())) + "]"


def graph_term(case, ob, flags, P):
    X, sizes, p = case["X"], case["sizes"], case["params"]
    D = pairwise_distances(X, metric=UD.named_distances[p["metric"]], **p.get("metric_kwds", {})).astype(np.float32)
    disc = disc_of(p)
    dterm = "None" if not np.isfinite(disc) else "(Some %s)" % fl(disc)
    G = sp.csr_matrix(ob["model"].graph_); G.sum_duplicates()
    rows = clist(["[" + "; ".join(fl(x) for x in r) + "]" for r in D.tolist()])
    return ("(%s, %s, %d%%nat, %s, %s, %d%%nat, %s, mkUcode %s %s, %d%%nat, [%s]%%nat, %s, %s)"
            % (fl(P["SMOOTH_K_TOLERANCE"]), fl(P["MIN_K_DIST_SCALE"]), P["n_iter"], fl(p["set_op_mix_ratio"]), fl(MTOL), p["n_neighbors"], dterm,
               bl(flags[0]), bl(flags[1]), sizes[0], "; ".join(str(s) for s in sizes[1:]), rows, coo_term(G)))


def k_term(case, ob, flags):
    return "(%d, %s, %d, [%s], [%s], %d)" % (case["params"]["n_neighbors"], bl(flags[0]), case["sizes"][0], "; ".join(str(s) for s in case["sizes"][1:]),
                                           "; ".join(str(k) for k in ob["ks"]), ob["k_fresh"])


def few_threads():
    """tiny inputs: numba's parallel kernels on all cores only add scheduling latency (x15 on a busy machine); results do not depend on it"""
    import numba
    numba.set_num_threads(max(1, min(2, numba.get_num_threads())))


def run(ctx):
    gen_update.tiny = -1; gen_update.sps = -1
    few_threads()
    ctx.check_proofs(["prop/P_C11.v"])
    # translation tie: init_update regenerated from the current source (py2coq); link theorem (coq/link/L_update.v): for every
    # rectangular table, every rectangular index array with as many rows and every 0 <= n_original_samples <= rows, over every Num,
    # the in-place loop of the source returns exactly M_update.init_update (reads of `current_init[indices[i, j], d]` only hit the
    # first n_original_samples rows, which the loop never writes)
    link.check(ctx, "umap_update", {"init_update": "src_init_update_eq"})
    flags, ok = source_flags(ctx)
    ctx.extra["source_flags"] = dict(update_re_resolves_n_neighbors=flags[0], update_applies_disconnection_distance=flags[1], read_from_source=ok)
    if not all(flags):
        ctx.partial.append("the current source of update() leaves hypotheses of C11_graph to the data (re_resolve=%s, cut_on_update=%s): "
                           "equality is then proved only for n1 > n_neighbors / an inactive disconnection distance (C11_graph_refuted_* otherwise)" % flags)
    P = srcparams.module_constants("umap/umap_.py", {"SMOOTH_K_TOLERANCE", "MIN_K_DIST_SCALE"})
    P = {"SMOOTH_K_TOLERANCE": 1e-5, "MIN_K_DIST_SCALE": 1e-3, **P}
    P["n_iter"] = srcparams.func_defaults("umap/umap_.py", "smooth_knn_dist").get("n_iter", 64)
    rng = ctx.rng
    npr = np.random.RandomState(rng.randrange(2 ** 31))
    hdr = ("From Coq Require Import List ZArith Bool PrimFloat. From UV Require Import Num FNum M_union M_update V_update.\n"
           "Import ListNotations. Open Scope float_scope.\n")
    # ---- (a) init_update
    n_init = 150 if ctx.tier == "quick" else 3000
    terms, cases = [], []
    for _ in range(n_init):
        case, tags = gen_init(rng)
        out, err = impl_init(case)
        ctx.tag(("init", case["table"].tobytes(), case["indices"].tobytes(), case["n_orig"]), tags)
        ctx.count("init_update"); ctx.sample(dict(kind="init_update", table=case["table"], n_orig=case["n_orig"], indices=case["indices"], out=out), 1)
        oracle_init(ctx, case, out, err)
        terms.append(init_term(case, out)); cases.append(dict(kind="init_update", table=case["table"], n_orig=case["n_orig"], indices=case["indices"], out=out, err=err))
    for s in range(0, len(terms), 150):
        text = hdr + ("Definition cases : list (list (list float) * nat * list (list Z) * option (list (list float))) := %s.\n"
                      "Eval vm_compute in map (verdict_init %s %s) cases.\n" % (clist(terms[s:s + 150]), fl(IRTOL), fl(IATOL)))
        blocks = ctx.coq_eval("cases_C11_init_%d" % (s // 150), text, what="M_update.init_update vs umap_.init_update")
        if blocks is None:
            continue
        v = parse_zlist(blocks[0])
        if len(v) != len(terms[s:s + 150]):
            ctx.broken.append("C11 init verdict list length mismatch"); continue
        for off, code in enumerate(v):
            ctx.traces += 1
            if code != -1:
                what = {-2: "the implementation raised", -3: "shape"}.get(code) or "row %d%s" % (code // 10, " (= the pre-repair formula: mean / n_components)" if code % 10 == 2 else "")
                ctx.diff(cases[s + off], what)
    # ---- (b) update vs fresh fit
    n_upd = 36 if ctx.tier == "quick" else 600
    n_graph = 8 if ctx.tier == "quick" else 60
    max_graph_n = 44 if ctx.tier == "quick" else 60
    forced = ["plain", "far", "n1_le_k", "disc", "two_batches", "far_two", "bounded_far", "bounded_far", "tiny_stack", "tiny_stack", "sparse_special", "sparse_special", "sparse_cosine_jobs"]
    kterms, kcases, gterms, gcases = [], [], [], []
    for c in range(n_upd):
        case = gen_update(rng, npr, ctx.tier, forced[c] if c < len(forced) else None)
        X, sizes, p = case["X"], case["sizes"], case["params"]
        desc = dict(kind="update", X=X, sizes=sizes, params=p, cls=case["cls"])
        try:
            ob = run_update_case(case)
        except Exception as e:
            ctx.fail("fit:raises:%s" % type(e).__name__, "fit raised %s: %s" % (type(e).__name__, e), desc); continue
        tags = [t for t, f in ((case["cls"], case["cls"] != "plain"), ("metric_" + p["metric"], p["metric"] != "euclidean"), ("mix0.5", p["set_op_mix_ratio"] != 1.0)) if f]
        ctx.tag(("update", X.tobytes(), tuple(sizes), tuple(sorted(p.items()))), tags)
        ctx.count("update_" + case["cls"]); ctx.count("metric_" + p["metric"])
        ctx.sample(dict(kind="update", sizes=sizes, params=p, cls=case["cls"], n_neighbors_after_each_step=ob["ks"], n_neighbors_fresh=ob["k_fresh"]), 3)
        Ynew = (X[: 3] + (X[3: 6] - X[: 3]) * 0.25).astype(np.float32) if p["metric"] != "hamming" else X[[0, 5, 9]].copy()
        good = oracle_update(ctx, case, ob, Ynew)
        if ob["err"] is None:
            kterms.append(k_term(case, ob, flags)); kcases.append(desc)
            if len(gterms) < n_graph and X.shape[0] <= max_graph_n and (c < len(forced) or rng.random() < 0.5):
                gterms.append(graph_term(case, ob, flags, P)); gcases.append(desc)
            if good and c % 3 == 0:
                extra = (X[: 4] + (X[4: 8] - X[: 4]) * 0.5).astype(np.float32) if p["metric"] != "hamming" else X[[1, 2, 3]].copy()
                followup_update(ctx, case, ob, extra); ctx.evaluations += 1
    if kterms:
        text = hdr + ("Definition cases : list (nat * bool * nat * list nat * list nat * nat) := %s%%nat.\nEval vm_compute in map verdict_k cases.\n" % clist(kterms))
        blocks = ctx.coq_eval("cases_C11_k", text, what="resolve_k / update_chain vs _n_neighbors after each step")
        if blocks is not None:
            v = parse_zlist(blocks[0])
            if len(v) != len(kterms):
                ctx.broken.append("C11 k verdict list length mismatch")
            else:
                for code, cs in zip(v, kcases):
                    ctx.traces += 1
                    if code != -1:
                        ctx.diff(cs, "_n_neighbors of the fresh fit" if code == 100 else "_n_neighbors after step %d" % code)
    for s in range(0, len(gterms), 4):
        text = hdr + ("Definition cases : list (float * float * nat * float * float * nat * option float * ucode * nat * list nat * list (list float) * coo FNum) := %s.\n"
                      "Eval vm_compute in map verdict_graph cases.\n" % clist(gterms[s:s + 4]))
        blocks = ctx.coq_eval("cases_C11_graph_%d" % (s // 4), text, what="update_chain + graph stage vs graph_ after update")
        if blocks is None:
            continue
        v = parse_zlist(blocks[0])
        if len(v) != len(gterms[s:s + 4]):
            ctx.broken.append("C11 graph verdict list length mismatch"); continue
        for off, code in enumerate(v):
            ctx.traces += 1
            if code != -1:
                n = gcases[s + off]["X"].shape[0]
                ctx.diff(gcases[s + off], "graph entry (%d,%d)" % divmod(code, n))
    return ctx.finish(RULE, assumptions=["the distance table is taken from the implementation's metric functions (C12); the model says which table / n_neighbors / cut the graph stage gets",
                                           "float32 bandwidth search vs binary64: model graph compared at abs %g; update-vs-fit graphs at abs %g" % (MTOL, GTOL),
                                           "embedding values are not compared (C07); finiteness is required only when no vertex is isolated by a disconnection distance (C04)",
                                           "dense input, n < 4096 (small-data branch)"])


def replay(rep):
    """re-run the stored case on the current tree; True iff the oracle still objects (for a replay without an oracle signature:
    iff the Coq verdict on the re-observed case still differs from -1)"""
    few_threads()
    from vp.common import Ctx
    from vp import coqrun
    c = rep.get("case") or (rep.get("diffs") or [{}])[0].get("case")
    if not c:
        return True
    ctx = Ctx("C11", "quick", 0)
    hdr = ("From Coq Require Import List ZArith Bool PrimFloat. From UV Require Import Num FNum M_union M_update V_update.\n"
           "Import ListNotations. Open Scope float_scope.\n")
    evals = []
    if c.get("kind") == "init_update":
        case = dict(table=np.array(c["table"], np.float32), n_orig=c["n_orig"], indices=np.array(c["indices"], np.int64))
        out, err = impl_init(case)
        oracle_init(ctx, case, out, err)
        evals.append("Eval vm_compute in map (verdict_init %s %s) [%s].\n" % (fl(IRTOL), fl(IATOL), init_term(case, out)))
    else:
        case = dict(X=np.array(c["X"], np.float32), sizes=list(c["sizes"]), params=dict(c["params"]), cls=c.get("cls", "").replace("+followup", ""))
        ob = run_update_case(case)
        X = case["X"]
        Ynew = (X[: 3] + (X[3: 6] - X[: 3]) * 0.25).astype(np.float32) if case["params"]["metric"] != "hamming" else X[[0, 5, 9]].copy()
        oracle_update(ctx, case, ob, Ynew)
        if ob["err"] is None:
            flags, _ = source_flags()
            P = {"SMOOTH_K_TOLERANCE": 1e-5, "MIN_K_DIST_SCALE": 1e-3, **srcparams.module_constants("umap/umap_.py", {"SMOOTH_K_TOLERANCE", "MIN_K_DIST_SCALE"})}
            P["n_iter"] = srcparams.func_defaults("umap/umap_.py", "smooth_knn_dist").get("n_iter", 64)
            evals.append("Eval vm_compute in map verdict_k [%s]%%nat.\n" % k_term(case, ob, flags))
            if X.shape[0] <= 60:
                evals.append("Eval vm_compute in map verdict_graph [%s].\n" % graph_term(case, ob, flags, P))
    for f in ctx.oracle_fail:
        print("  ", f["signature"], f["summary"])
    want = rep.get("signature")
    if want:
        return any(f["signature"] == want for f in ctx.oracle_fail)
    if ctx.oracle_fail:
        return True
    ok, so, se, _ = coqrun.run_gen("replay_C11", hdr + "".join(evals), 600)
    v = [parse_zlist(b) for b in coqrun.eval_blocks(so)] if ok else [[0]]
    print("   model-vs-implementation verdicts on the re-observed case:", v)
    return any(x != [-1] for x in v)

"""Run inside a fresh subprocess (NUMBA_NUM_THREADS set by the parent): seeded fits under several
configurations; prints one JSON line {config: {graph, embedding, transform}} of sha256 digests."""
import sys, json, hashlib, warnings
warnings.filterwarnings("ignore")
import numpy as np


def h(a):
    a = np.ascontiguousarray(a)
    return hashlib.sha256(a.tobytes() + str(a.shape).encode() + str(a.dtype).encode()).hexdigest()[:20]


def hg(g):
    g = g.tocsr(); g.sort_indices()
    return hashlib.sha256(g.data.tobytes() + g.indices.tobytes() + g.indptr.tobytes()).hexdigest()[:20]


def main():
    seed, tier = int(sys.argv[1]), sys.argv[2]
    import umap, numba
    rs = np.random.RandomState(seed)
    X = rs.normal(size=(140, 5)).astype(np.float32); X[:50] += 4
    Xl = rs.normal(size=(260, 6)).astype(np.float32); Xl[:100] += 3
    Y = rs.normal(size=(12, 5)).astype(np.float32); Yl = rs.normal(size=(9, 6)).astype(np.float32)
    out = {"threads": numba.get_num_threads()}
    if len(sys.argv) > 3 and sys.argv[3] == "warmfirst":
        # the very first thing this process does is an unseeded (parallel-kernel) fit and transform
        w = umap.UMAP(n_epochs=5).fit(Xl[:90]); w.transform(Yl)
        out["warmfirst"] = True
    def rec(name, data, new, **kw):
        m = umap.UMAP(random_state=kw.pop("random_state", seed + 11), n_epochs=kw.pop("n_epochs", 25), **kw).fit(data)
        r = {"graph": hg(m.graph_), "embedding": h(m.embedding_), "n_jobs_after": m.n_jobs}
        if new is not None:
            r["transform"] = h(m.transform(new)); r["transform_again"] = h(m.transform(new))
            if kw.get("output_metric", "euclidean") == "euclidean" and not kw.get("densmap"):
                # other calls on the fitted model in between (they draw their own random numbers) must not change what transform returns
                r["inverse"] = h(m.inverse_transform(m.embedding_[:4] + 0.01))
                r["transform_after_inverse"] = h(m.transform(new))
        out[name] = r
    rec("exact_spectral_jobs-1", X, Y, n_jobs=-1)
    # warm process: an unrelated unseeded (parallel) fit first, then the same seeded fit with another n_jobs
    umap.UMAP(n_epochs=5).fit(Xl[:80])
    rec("exact_spectral_jobs4_warm", X, Y, n_jobs=4)
    rec("nndescent_jobs1", Xl, Yl, n_jobs=1, force_approximation_algorithm=True, n_neighbors=10)
    rec("nndescent_jobs-1", Xl, Yl, n_jobs=-1, force_approximation_algorithm=True, n_neighbors=10)
    rec("random_init_haversine", X, Y, init="random", output_metric="haversine", n_jobs=-1)
    # the seed 0 is an integer random_state like any other (it is falsy in Python), also as a numpy integer
    rec("nndescent_seed0", Xl, Yl, random_state=0, n_jobs=-1, force_approximation_algorithm=True, n_neighbors=10)
    rec("nndescent_seed_np0", Xl, None, random_state=np.int64(0), n_jobs=3, force_approximation_algorithm=True, n_neighbors=10)
    rec("densmap", X, None, densmap=True, n_jobs=-1)
    rec("pca_init", X, Y, init="pca", n_jobs=2)
    # many graph components (8 well separated clusters, small n_neighbors): the spectral initialisers lay the components out with a
    # separate eigenproblem; nothing there may draw from NumPy's global generator (which differs from process to process)
    rc = np.random.RandomState(seed + 5)
    Xc = np.concatenate([rc.normal(size=(22, 4)) * 0.3 + rc.normal(size=4) * 30 for _ in range(8)]).astype(np.float32)
    np.random.seed(None)          # the global generator is in an arbitrary, process-specific state
    np.random.random_sample(int.from_bytes(__import__("os").urandom(1), "little") + 1)
    rec("many_components_spectral", Xc, None, n_neighbors=6, n_jobs=-1)
    rec("many_components_tswspectral", Xc, None, n_neighbors=6, n_jobs=1, init="tswspectral")
    # init="pca" on a wide matrix (more than 500 rows, fewer than 10 rows per feature: scikit-learn's automatic solver choice then
    # prefers a randomized solver, which must be seeded by the model's random_state and not by the process-specific global generator)
    Xw = rc.normal(size=(640, 96)).astype(np.float32); Xw[:200] += 2
    rec("pca_init_wide", Xw, Xw[:7] + np.float32(0.1), init="pca", n_jobs=-1, n_epochs=15)
    # components so far apart that every affinity between their centroids underflows to zero: the eigenproblem that places the
    # components is then completely degenerate (any orthonormal basis solves it); the choice must still be a function of the seed
    Xd = np.concatenate([rc.normal(size=(30, 4)) * 0.3 + c * 40 for c in range(5)]).astype(np.float32)
    # (whether an iterative eigensolver has to restart from a fresh random vector depends on its start vector, i.e. on the seed: several seeds)
    for s_ in (42, 1, 2, 3):
        rec("degenerate_component_affinities_rs%d" % s_, Xd, None, random_state=s_, n_neighbors=6, n_jobs=-1)
        rec("degenerate_component_affinities_rs%d_again" % s_, Xd, None, random_state=s_, n_neighbors=6, n_jobs=1)
    if tier == "thorough":
        rec("cosine_exact", X, Y, metric="cosine", n_jobs=-1)
        rec("supervised", X, None, n_jobs=-1) if False else None
        m = umap.UMAP(random_state=seed + 11, n_epochs=20, n_jobs=-1).fit(X, y=(X[:, 0] > 0).astype(int))
        out["supervised"] = {"graph": hg(m.graph_), "embedding": h(m.embedding_)}
        rec("nndescent_cosine", Xl, Yl, n_jobs=3, force_approximation_algorithm=True, metric="cosine")
    print("RESULT " + json.dumps(out))


if __name__ == "__main__":
    main()

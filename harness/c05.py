"""C05 — fit_transform returns one finite row per sample for every valid input."""
import warnings
import numpy as np, scipy.sparse as sp
from vp.coqrun import fl, zl, flist, zlist, clist, parse_zlist
import umap
from umap.utils import csr_unique

RULE = ("end-to-end grid (oracle): init in {spectral, random, pca, tswspectral, array, array with duplicate rows, array with a constant column} x metric sample x dense/sparse x "
        "n in {n_components+2, 5, 8, 30} x n_neighbors in {2,5,15,40} (often > n) x n_components 1..3 x n_epochs {0,1,11} x learning_rate {1, 1e-9} x unique {F,T} with duplicate rows, "
        "data kinds gauss / duplicates / constant column / integer / binary / one feature; asserts dtype float32, shape, finiteness off the isolated set, identical rows for identical "
        "samples under unique.  Correspondence: rescale of user inits via n_epochs=0 fits, (index, inverse) of csr_unique / np.unique vs check_unique, _n_neighbors vs resolve_k, all evaluated in Coq. "
        "Preconditions respected: more than n_components+1 (distinct, when unique) samples; pca init only when scikit-learn defines it (n_components <= min(n, n_features); sparse: n_components < n_features). Non-trivial: any non-default tag.")

METRICS = ["euclidean", "manhattan", "cosine", "hamming", "chebyshev", "correlation", "jaccard", "canberra", "braycurtis"]


def make_data(rng, npr, kind, n, d):
    X = npr.normal(size=(n, d))
    if kind == "dups": X[n // 2:] = X[: n - n // 2]
    if kind == "constcol": X[:, 0] = 1.5
    if kind == "ints": X = np.round(X * 2)
    if kind == "binary": X = (X > 0).astype(float)
    if kind == "rank1":      # one varying feature, all others constant (exactly representable, so centring gives exact zeros)
        X[:, 1:] = np.array([1.0, 2.0, -7.0, 0.0, 0.5])[: max(d - 1, 0)]
        if rng.random() < 0.5 and d > 1: X = X[:, ::-1].copy()
    if kind == "pairs":      # well separated mutual-nearest-neighbour pairs (2-vertex components for n_neighbors = 2)
        c = np.repeat(npr.normal(size=((n + 1) // 2, d)) * 50, 2, axis=0)[:n]
        X = c + npr.normal(size=(n, d)) * 0.01
    if kind == "iso_binary":  # binary rows; the last two rows own a private feature each (at the maximal jaccard / dice / ... distance from every other row)
        d = max(d, 6)
        X = np.zeros((n, d))
        X[: n - 2, : d - 2] = (npr.uniform(size=(n - 2, d - 2)) < 0.6)
        X[: n - 2, 0] = 1.0
        X[n - 2, d - 2] = 1.0; X[n - 1, d - 1] = 1.0
    if kind == "outlier":     # one sample far beyond any disconnection distance a caller would pass
        X[n - 1] += 1000.0
    return X.astype(np.float32)


def distinct_rows(X):
    return len({tuple(r) for r in np.asarray(X).tolist()})


def check_output(ctx, e, X, n, nc, m, desc, where):
    if not isinstance(e, np.ndarray) or e.dtype != np.float32 or e.shape != (n, nc):
        ctx.fail("%s:shape_or_dtype" % where, "got %s %s, expected float32 (%d,%d)" % (getattr(e, "dtype", type(e)), getattr(e, "shape", None), n, nc), desc)
        return
    g = m.graph_
    iso = None
    if getattr(m, "unique", False) and hasattr(m, "_unique_inverse_"):
        # graph_ is over the distinct rows in np.unique's (sorted) order, also when nothing was duplicated
        iso = (np.asarray(g.sum(axis=1)).ravel() == 0)[np.asarray(m._unique_inverse_).ravel()]
    elif g.shape[0] == n:
        iso = np.asarray(g.sum(axis=1)).ravel() == 0
    bad = ~np.all(np.isfinite(e), axis=1)
    if iso is not None: bad = bad & ~iso
    if bad.any():
        ctx.fail("%s:nonfinite_row" % where, "%d non-isolated rows are not finite" % int(bad.sum()), desc)


def run(ctx):
    warnings.filterwarnings("ignore")
    ctx.check_proofs(["prop/P_C05.v"])
    rng = ctx.rng
    npr = np.random.RandomState(rng.randrange(2 ** 31))
    quick = ctx.tier == "quick"
    hdr = ("From Coq Require Import List ZArith PrimFloat. From UV Require Import Num FNum M_pipeline V_sgd V_pipeline.\n"
           "Import ListNotations. Open Scope float_scope.\n")
    # ---- oracle grid ---------------------------------------------------------------------------------------------------
    rterms, rcases = [], []
    # directed corners run on every seed (each is a combination the random grid reaches only rarely)
    forced = [dict(kind="rank1", init="pca", nc=2, n=12, d=3, nn=5, metric="euclidean"),
              dict(kind="rank1", init="pca", nc=2, n=40, d=2, nn=15, metric="euclidean"),
              dict(kind="rank1", init="pca", nc=3, n=20, d=3, nn=5, metric="euclidean"),
              dict(kind="rank1", init="pca", nc=1, n=9, d=4, nn=5, metric="euclidean"),
              dict(kind="rank1", init="spectral", nc=2, n=12, d=3, nn=5, metric="manhattan"),
              dict(kind="pairs", init="spectral", nc=1, n=8, d=3, nn=2, metric="euclidean"),
              dict(kind="pairs", init="spectral", nc=1, n=4, d=2, nn=2, metric="euclidean"),
              dict(kind="pairs", init="spectral", nc=2, n=10, d=3, nn=2, metric="euclidean"),
              dict(kind="pairs", init="tswspectral", nc=1, n=8, d=3, nn=2, metric="euclidean"),
              dict(kind="constcol", init="pca", nc=2, n=10, d=3, nn=5, metric="euclidean"),
              dict(kind="dups", init="spectral", nc=2, n=9, d=2, nn=3, metric="euclidean", unique=True, sparse=True),
              dict(kind="binary", init="random", nc=1, n=12, d=5, nn=40, metric="jaccard"),
              # isolated samples (single-vertex graph components) under every initialiser: all other rows must stay finite
              dict(kind="iso_binary", init="spectral", nc=2, n=20, d=8, nn=5, metric="jaccard"),
              dict(kind="iso_binary", init="spectral", nc=1, n=14, d=8, nn=4, metric="jaccard", sparse=True),
              dict(kind="iso_binary", init="tswspectral", nc=2, n=16, d=7, nn=4, metric="dice"),
              dict(kind="outlier", init="spectral", nc=2, n=25, d=3, nn=5, metric="euclidean", disc=20.0),
              dict(kind="outlier", init="spectral", nc=3, n=18, d=4, nn=4, metric="manhattan", disc=30.0),
              dict(kind="outlier", init="pca", nc=2, n=25, d=3, nn=5, metric="euclidean", disc=20.0),
              dict(kind="outlier", init="random", nc=2, n=25, d=3, nn=5, metric="euclidean", disc=20.0)]
    ntrials = 70 if quick else 700
    for trial in range(ntrials + len(forced)):
        fc = forced[trial - ntrials] if trial >= ntrials else None
        nc = rng.choice([1, 2, 3]); n = max(rng.choice([nc + 2, 5, 8, 30]), nc + 2); d = rng.choice([1, 2, 5])
        kind = rng.choice(["gauss", "dups", "constcol", "ints", "binary", "rank1", "pairs"])
        if fc: nc, n, d, kind = fc["nc"], fc["n"], fc["d"], fc["kind"]
        X = make_data(rng, npr, kind, n, d)
        sparse = rng.random() < 0.3
        metric = rng.choice(METRICS)
        init = rng.choice(["spectral", "random", "pca", "tswspectral", "array", "array_dups", "array_const"])
        unique = rng.random() < 0.3
        kw = dict(n_components=nc, n_neighbors=rng.choice([2, 5, 15, 40]), n_epochs=rng.choice([0, 1, 11]), learning_rate=rng.choice([1.0, 1e-9, 1.0]),
                  metric=metric, random_state=rng.randrange(100))
        if fc:
            sparse, metric, init, unique = fc.get("sparse", False), fc["metric"], fc["init"], fc.get("unique", False)
            kw.update(n_neighbors=fc["nn"], metric=metric)
            if "disc" in fc: kw["disconnection_distance"] = fc["disc"]
        nd = distinct_rows(X)
        if unique and (init.startswith("array") or nd <= nc + 1):
            unique = False     # init arrays are per input row; below nc+2 distinct rows the size precondition fails (probed separately)
        kw["unique"] = unique
        n_fit = nd if unique else n
        if init == "pca" and (nc > min(n_fit, d) or (sparse and (d < 2 or nc >= d))):
            init = "spectral"  # PCA / TruncatedSVD are undefined there (scikit-learn raises): not a valid configuration
        if init == "array": kw["init"] = npr.normal(size=(n, nc)).astype(np.float32)
        elif init == "array_dups":
            a = npr.normal(size=(n, nc)).astype(np.float32); a[1] = a[0]; kw["init"] = a
        elif init == "array_const":
            a = npr.normal(size=(n, nc)).astype(np.float32); a[:, 0] = 2.0; kw["init"] = a
        else: kw["init"] = init
        # container / dtype / layout of the input rotate with the trial: the same values are the same data
        if sparse:
            fmt = ["csr32", "csr64", "csc", "coo", "lil"][trial % 5]
            D = {"csr32": lambda: sp.csr_matrix(X), "csr64": lambda: sp.csr_matrix(X.astype(np.float64)), "csc": lambda: sp.csc_matrix(X),
                 "coo": lambda: sp.coo_matrix(X), "lil": lambda: sp.lil_matrix(X)}[fmt]()
        else:
            fmt = ["c32", "f64", "fortran32", "list", "int64" if kind in ("ints", "binary") else "c32", "noncontiguous"][trial % 6]
            D = {"c32": lambda: X, "f64": lambda: X.astype(np.float64), "fortran32": lambda: np.asfortranarray(X), "list": lambda: X.tolist(),
                 "int64": lambda: X.astype(np.int64), "noncontiguous": lambda: np.repeat(X, 2, axis=1)[:, ::2]}[fmt]()
        desc = dict(X=X, sparse=sparse, input_format=fmt, data_kind=kind, init_kind=init, **{k: v for k, v in kw.items()})
        if fc and "disc" in fc: desc["disconnection_distance"] = fc["disc"]
        tags = [t for t, f in ((kind, kind != "gauss"), ("isolated_samples", kind in ("iso_binary", "outlier")), ("init_" + init, init != "spectral"), ("sparse", sparse), ("unique", unique), ("n<=k", n_fit <= kw["n_neighbors"]),
                               ("tiny_n", n == nc + 2), ("epochs0", kw["n_epochs"] == 0), ("lr~0", kw["learning_rate"] < 1), ("one_feature", d == 1)) if f]
        ctx.tag(("grid", trial), tags + ["input_" + fmt]); ctx.count("init_" + init); ctx.count("metric_" + metric); ctx.count("input_" + fmt)
        try:
            m = umap.UMAP(**kw); e = m.fit_transform(D)
        except Exception as ex:
            ctx.fail("fit_transform:raises:%s" % type(ex).__name__, "%s: %s" % (type(ex).__name__, str(ex)[:200]), desc); continue
        check_output(ctx, e, X, n, nc, m, desc, "fit_transform")
        if unique and isinstance(e, np.ndarray) and e.shape[0] == n:
            rows = {}
            for i, r in enumerate(X.tolist()):
                rows.setdefault(tuple(r), []).append(i)
            for idxs in rows.values():
                if len(idxs) > 1 and not all(np.array_equal(e[idxs[0]], e[j], equal_nan=True) for j in idxs[1:]):
                    ctx.fail("fit_transform:unique_identical_samples_differ", "identical input rows %s got different embeddings" % idxs[:3], desc); break
        if trial < 1: ctx.sample(dict(desc, output_head=e[:3] if isinstance(e, np.ndarray) else None), 1)
        # correspondence: with n_epochs = 0 and a duplicate-free user init, embedding_ is exactly the rescaled init
        if init in ("array", "array_const") and kw["n_epochs"] == 0 and isinstance(e, np.ndarray) and e.shape == (n, nc) and np.all(np.isfinite(e)):
            # (isolated samples legitimately carry NaN rows: such cases are left to the oracle above)
            rterms.append("(%s, %s)" % ("[" + "; ".join(flist(kw["init"][:, c]) for c in range(nc)) + "]", "[" + "; ".join(flist(e[:, c]) for c in range(nc)) + "]"))
            rcases.append(desc)
    # extra rescale cases (cheap, n_epochs = 0)
    for c in range(12 if quick else 60):
        n = rng.randint(5, 12); nc = rng.choice([1, 2, 3])
        a = (npr.normal(size=(n, nc)) * 10 ** rng.uniform(-3, 3)).astype(np.float32)
        if rng.random() < 0.5: a[:, rng.randrange(nc)] = np.float32(rng.choice([0.0, 2.0, -7.5]))
        X = npr.normal(size=(n, 3)).astype(np.float32)
        e = umap.UMAP(init=a, n_epochs=0, n_components=nc, n_neighbors=3, random_state=0).fit_transform(X)
        desc = dict(X=X, init=a, n_epochs=0, n_components=nc, n_neighbors=3)
        ctx.tag(("rescale", c), ["rescale"] + (["constant_axis"] if np.any(a.max(0) == a.min(0)) else []))
        # oracle: every axis in [0,10], finite; non-constant axes span exactly [0,10]
        if not np.all(np.isfinite(e)) or e.min() < -1e-4 or e.max() > 10 + 1e-4:
            ctx.fail("fit_transform:init_rescale_range", "rescaled init outside [0,10] or not finite: min %r max %r" % (e.min(), e.max()), desc)
        rterms.append("(%s, %s)" % ("[" + "; ".join(flist(a[:, c_]) for c_ in range(nc)) + "]", "[" + "; ".join(flist(e[:, c_]) for c_ in range(nc)) + "]"))
        rcases.append(desc)
    bl = ctx.coq_eval("cases_C05_rescale", hdr + "Eval vm_compute in map (verdict_rescale 2e-6) %s.\n" % clist(rterms), what="rescale vs fit(init=array, n_epochs=0)")
    if bl is not None:
        for off, code in enumerate(parse_zlist(bl[0])):
            ctx.traces += 1
            if code != -1: ctx.diff(rcases[off], "rescaled initial layout")
    # ---- unique bookkeeping: csr_unique and np.unique vs the contract ------------------------------------------------------
    uterms, ucases = [], []
    for c in range(40 if quick else 300):
        n = rng.randint(2, 12); d = rng.randint(1, 5)
        X = np.round(npr.normal(size=(n, d)) * rng.choice([1, 2])).astype(np.float32)
        style = rng.random()
        if style < 0.4:
            for _ in range(rng.randint(1, n)): X[rng.randrange(n)] = X[rng.randrange(n)]
        if style > 0.7: X[X == 0] = 1.0       # all rows with the same number of stored elements
        sparse = rng.random() < 0.6
        unsorted = sparse and rng.random() < 0.5
        try:
            if sparse:
                M = sp.csr_matrix(X)
                if unsorted:      # same matrix, stored entries of each row in a random order (as produced by e.g. A @ B)
                    ind, dat = M.indices.copy(), M.data.copy()
                    for r_ in range(n):
                        lo_, hi_ = M.indptr[r_], M.indptr[r_ + 1]
                        pm = npr.permutation(hi_ - lo_)
                        ind[lo_:hi_] = ind[lo_:hi_][pm]; dat[lo_:hi_] = dat[lo_:hi_][pm]
                    M = sp.csr_matrix((dat, ind, M.indptr.copy()), shape=M.shape)
                index, inverse, counts = csr_unique(M)
            else:
                index, inverse, counts = np.unique(X, return_index=True, return_inverse=True, return_counts=True, axis=0)[1:4]
            index = np.asarray(index).ravel().tolist(); inverse = np.asarray(inverse).ravel().tolist()
        except Exception as ex:
            ctx.fail("csr_unique:raises", "%s: %s" % (type(ex).__name__, ex), dict(X=X, sparse=sparse)); continue
        desc = dict(X=X, sparse=sparse, index=index, inverse=inverse)
        ctx.tag(("unique", c), ["unique_tables"] + (["equal_nnz_rows"] if style > 0.7 else []) + (["unsorted_csr"] if unsorted else []) + (["has_duplicates"] if distinct_rows(X) < n else []))
        # oracle
        ok = len(inverse) == n and all(0 <= p < len(index) for p in inverse) and all(np.array_equal(X[index[inverse[i]]], X[i]) for i in range(n)) \
            and len({tuple(X[i].tolist()) for i in index}) == len(index) == distinct_rows(X)
        if not ok:
            ctx.fail("csr_unique:contract" if sparse else "np.unique:contract", "index/inverse do not reconstruct the rows", desc)
        rows = "[" + "; ".join(zlist([int(v) for v in r]) for r in X.tolist()) + "]"
        uterms.append("(%s, [%s]%%nat, [%s]%%nat)" % (rows, "; ".join(str(int(v)) for v in index), "; ".join(str(int(v)) for v in inverse)))
        ucases.append(desc)
    bl = ctx.coq_eval("cases_C05_unique", hdr + "Eval vm_compute in map verdict_unique %s.\n" % clist(uterms), what="check_unique on csr_unique / np.unique tables")
    if bl is not None:
        for off, code in enumerate(parse_zlist(bl[0])):
            ctx.traces += 1
            if code != -1: ctx.diff(ucases[off], "(index, inverse) contract")
    # ---- n_neighbors resolution ----------------------------------------------------------------------------------------------
    kterms, kcases = [], []
    for c in range(14 if quick else 60):
        n = rng.choice([1, 2, 3, 4, 6, 9, 15]); k = rng.choice([2, 3, 5, 8, 15, 40])
        X = npr.normal(size=(n, 3)).astype(np.float32)
        with warnings.catch_warnings(record=True) as w:
            warnings.simplefilter("always")
            try:
                m = umap.UMAP(n_neighbors=k, n_epochs=0, init="random", random_state=0).fit(X)
                got = int(getattr(m, "_n_neighbors", -1)) if n > 1 else -1
            except Exception as ex:
                if n >= 4: ctx.fail("fit:raises:%s" % type(ex).__name__, str(ex)[:200], dict(n=n, n_neighbors=k))
                continue
        warned = any("n_neighbors is larger" in str(x.message) for x in w)
        ctx.tag(("k", n, k), ["resolve_k"] + (["truncated"] if n <= k else []))
        if n >= 2 and warned != (n <= k):
            ctx.fail("fit:n_neighbors_truncation_warning", "warning %s for n=%d k=%d" % (warned, n, k), dict(n=n, n_neighbors=k))
        kterms.append("(%d%%nat, %d%%nat, %s%%Z)" % (n, k, zl(got))); kcases.append(dict(n=n, n_neighbors=k, impl=got))
    bl = ctx.coq_eval("cases_C05_k", hdr + "Eval vm_compute in map verdict_resolve %s.\n" % clist(kterms), what="resolve_k vs _n_neighbors")
    if bl is not None:
        for off, code in enumerate(parse_zlist(bl[0])):
            ctx.traces += 1
            if code != -1: ctx.diff(kcases[off], "resolved n_neighbors")
    # ---- unique=True on CSR input whose duplicate rows store their entries in different orders --------------------------------
    for c in range(3 if quick else 15):
        n = rng.randint(8, 14); d = rng.randint(3, 6)
        Xu = np.round(npr.normal(size=(n, d)) * 2).astype(np.float32); Xu[Xu == 0] = 1.0
        for _ in range(3): Xu[rng.randrange(n)] = Xu[rng.randrange(n)]
        if distinct_rows(Xu) <= 4: continue
        M = sp.csr_matrix(Xu); ind, dat = M.indices.copy(), M.data.copy()
        for r_ in range(n):
            lo_, hi_ = M.indptr[r_], M.indptr[r_ + 1]; pm = npr.permutation(hi_ - lo_)
            ind[lo_:hi_] = ind[lo_:hi_][pm]; dat[lo_:hi_] = dat[lo_:hi_][pm]
        M = sp.csr_matrix((dat, ind, M.indptr.copy()), shape=M.shape)
        desc = dict(X=Xu, sparse="csr with unsorted indices", unique=True, n_neighbors=3)
        ctx.tag(("unsorted_unique", c), ["unique", "unsorted_csr"])
        try:
            e = umap.UMAP(unique=True, n_neighbors=3, n_epochs=2, random_state=0).fit_transform(M)
        except Exception as ex:
            ctx.fail("fit_transform:raises:%s" % type(ex).__name__, "%s: %s" % (type(ex).__name__, str(ex)[:200]), desc); continue
        if not (isinstance(e, np.ndarray) and e.shape == (n, 2)):
            ctx.fail("fit_transform:shape_or_dtype", "shape %s" % (getattr(e, "shape", None),), desc); continue
        groups = {}
        for i, r in enumerate(Xu.tolist()): groups.setdefault(tuple(r), []).append(i)
        for idxs in groups.values():
            if len(idxs) > 1 and not all(np.array_equal(e[idxs[0]], e[j], equal_nan=True) for j in idxs[1:]):
                ctx.fail("fit_transform:unique_identical_samples_differ", "identical input rows %s got different embeddings (unsorted CSR)" % idxs[:3], desc); break
    # ---- probe of the recorded finding: unique=True with no more than n_components+1 distinct rows ------------------------------
    for nd in (1, 2):
        X = np.repeat(npr.normal(size=(nd, 3)).astype(np.float32), 5, axis=0)
        desc = dict(X=X, unique=True, n_components=2, distinct_rows=nd)
        try:
            e = umap.UMAP(unique=True, n_epochs=1, random_state=0).fit_transform(X)
            if not (isinstance(e, np.ndarray) and e.shape == (len(X), 2) and np.all(np.isfinite(e))):
                ctx.fail("fit_transform:unique:distinct_rows<=n_components+1", "result %s for %d input rows" % (getattr(e, "shape", None), len(X)), desc)
        except Exception as ex:
            ctx.fail("fit_transform:unique:distinct_rows<=n_components+1", "%s: %s" % (type(ex).__name__, str(ex)[:120]), desc)
        ctx.tag(("probe", nd), ["degenerate_unique_probe"])
    ctx.partial.append("finiteness is a floating-point notion: proved are the absence of invalid real operations in rescale / SGD denominators, the clip bound per move, "
                       "the unique/inverse contract and n_neighbors resolution; spectral / PCA / TruncatedSVD initialisers and NumPy's unique are external and only observed")
    return ctx.finish(RULE, assumptions=["configurations scikit-learn itself rejects (pca init with n_components > min(n, n_features); TruncatedSVD with n_components >= n_features) are not generated"])

"""C12 — every named dense metric computes its mathematical definition."""
import ast, itertools, math, os
from concurrent.futures import ThreadPoolExecutor
import numpy as np
import scipy.spatial.distance as SD
import scipy.special
from vp.coqrun import clist, parse_zlist, parse_flist
from vp import srcparams, link
from vp.common import REPO
import umap.distances as D

RULE = ("vector pairs, d 1..64 (float32-valued): Gaussian (scales 1e-3..1e3), integer-valued, binary, shared zeros, one all-zero, "
        "both all-zero, identical, negative, ties in |x-y|, proportional, constant, near-identical; non-negative / count / "
        "probability vectors (hellinger, symmetric_kl, ll_dirichlet); unit-ball points (poincare); latitude/longitude pairs incl. "
        "poles and antipodes (haversine); parameters p in {1,1.5,2,3}, random positive weights, variances, SPD inverse covariance; "
        "all pairs of {0,1}^d, d<=4 (thorough 5) for the binary family.  Every registry key of named_distances (aliases included, "
        "discrete target metrics excluded) is called on copies as named_distances[name](x, y, *params), (y, x) and (x, x); "
        "pairwise_special_metric on small matrices.  Coq evaluates the model d_<metric> (binary64) on the same literals and compares "
        "with tolerance; the oracle compares with SciPy / an independent float64 formula and states the axioms, the bounds and "
        "argument immutability.  Non-trivial: any pair that is not a plain Gaussian draw (a special-value kind or structural tag).")

# registry key -> (function name it must be bound to, model tag = Coq definition d_<...>)
COVER = {
    "euclidean": ("euclidean", "M_euclidean"), "l2": ("euclidean", "M_euclidean"),
    "manhattan": ("manhattan", "M_manhattan"), "taxicab": ("manhattan", "M_manhattan"), "l1": ("manhattan", "M_manhattan"),
    "chebyshev": ("chebyshev", "M_chebyshev"), "linfinity": ("chebyshev", "M_chebyshev"),
    "linfty": ("chebyshev", "M_chebyshev"), "linf": ("chebyshev", "M_chebyshev"),
    "minkowski": ("minkowski", "M_minkowski"), "poincare": ("poincare", "M_poincare"),
    "seuclidean": ("standardised_euclidean", "M_seuclidean"), "standardised_euclidean": ("standardised_euclidean", "M_seuclidean"),
    "wminkowski": ("weighted_minkowski", "M_wminkowski"), "weighted_minkowski": ("weighted_minkowski", "M_wminkowski"),
    "mahalanobis": ("mahalanobis", "M_mahalanobis"),
    "canberra": ("canberra", "M_canberra"), "cosine": ("cosine", "M_cosine"), "correlation": ("correlation", "M_correlation"),
    "hellinger": ("hellinger", "M_hellinger"), "haversine": ("haversine", "M_haversine"),
    "braycurtis": ("bray_curtis", "M_braycurtis"), "ll_dirichlet": ("ll_dirichlet", "M_ll_dirichlet"),
    "symmetric_kl": ("symmetric_kl", "M_symmetric_kl"),
    "hamming": ("hamming", "M_hamming"), "jaccard": ("jaccard", "M_jaccard"), "dice": ("dice", "M_dice"),
    "matching": ("matching", "M_matching"), "kulsinski": ("kulsinski", "M_kulsinski"),
    "rogerstanimoto": ("rogers_tanimoto", "M_rogerstanimoto"), "russellrao": ("russellrao", "M_russellrao"),
    "sokalsneath": ("sokal_sneath", "M_sokalsneath"), "sokalmichener": ("sokal_michener", "M_sokalmichener"),
    "yule": ("yule", "M_yule"),
}
# registry functions outside the translator's subset (fail-closed; they are tied by the correspondence only)
NOT_TRANSLATED = {}   # every registry metric is translated (ll_dirichlet with its helpers approx_log_Gamma / log_beta / log_single_beta, symmetric_kl)
LINK_HELPERS = ("approx_log_Gamma", "log_beta", "log_single_beta")   # scalar helpers of ll_dirichlet: translated and linked too
ROBUST_LINK = ("euclidean", "manhattan", "minkowski", "standardised_euclidean")   # also linked up to the ring laws (over R)
DISCRETE_DEFAULT = ("categorical", "hierarchical_categorical", "ordinal", "count", "string")
BINARY = ("hamming", "jaccard", "dice", "matching", "kulsinski", "rogerstanimoto", "russellrao", "sokalsneath", "sokalmichener", "yule")
# upper bounds stated by the property ("within its bounds when bounded"); braycurtis only on non-negative data
BOUNDS = {"M_cosine": 2.0, "M_correlation": 2.0, "M_hellinger": 1.0, "M_jaccard": 1.0, "M_dice": 1.0, "M_hamming": 1.0,
          "M_matching": 1.0, "M_rogerstanimoto": 1.0, "M_sokalmichener": 1.0, "M_russellrao": 1.0, "M_kulsinski": 1.0,
          "M_sokalsneath": 1.0, "M_yule": 2.0, "M_haversine": math.pi}
TOL_CLASS = {"M_mahalanobis": 1, "M_poincare": 1, "M_hellinger": 2, "M_ll_dirichlet": 2, "M_haversine": 3}
# which pair classes a metric's domain contains
DOMAIN = {"M_hellinger": ("nonneg", "counts"), "M_symmetric_kl": ("nonneg", "counts"), "M_ll_dirichlet": ("counts",),
          "M_poincare": ("ball",), "M_haversine": ("latlon",)}
GENERAL_CLASSES = ("real", "nonneg", "counts", "ball", "latlon")


# ---- literals -------------------------------------------------------------------------------------------------
def fl(x):
    """Python float -> exact, short Coq PrimFloat literal"""
    x = float(x)
    if math.isnan(x):
        return "nan"
    if math.isinf(x):
        return "infinity" if x > 0 else "neg_infinity"
    if x == 0:
        return "(-0)" if math.copysign(1, x) < 0 else "0"
    if x == int(x) and abs(x) < 2 ** 40:
        return "(%d)" % int(x) if x < 0 else "%d" % int(x)
    h = x.hex()
    neg = h.startswith("-")
    if neg:
        h = h[1:]
    mant, ex = h.split("p")
    if "." in mant:
        mant = mant.rstrip("0").rstrip(".")
    h = mant + "p" + ex
    return "(-" + h + ")" if neg else h


def flist(xs):
    return "[" + "; ".join(fl(v) for v in xs) + "]"


# ---- source tie -------------------------------------------------------------------------------------------------
def registry_ast(dict_name):
    """{key: bound function name} of a module-level dict literal in umap/distances.py, read from the current source"""
    tree = ast.parse(open(os.path.join(REPO, "umap/distances.py")).read())
    for node in tree.body:
        if isinstance(node, ast.Assign) and len(node.targets) == 1 and isinstance(node.targets[0], ast.Name) \
                and node.targets[0].id == dict_name and isinstance(node.value, ast.Dict):
            out = {}
            for k, v in zip(node.value.keys, node.value.values):
                if isinstance(k, ast.Constant) and isinstance(k.value, str):
                    out[k.value] = v.id if isinstance(v, ast.Name) else ast.dump(v)
            return out
    return None


def source_tie(ctx):
    """per-run obligations: every input-data metric name has a model definition; every key is bound to the function
    the model was written for (so aliases point at the same function)"""
    reg = registry_ast("named_distances")
    disc = srcparams.module_constants("umap/distances.py", {"DISCRETE_METRICS"}).get("DISCRETE_METRICS")
    if reg is None or disc is None:
        ctx.notes.append("registry / DISCRETE_METRICS could not be read with ast; using the runtime objects")
        reg = {k: getattr(v, "__name__", str(v)) for k, v in D.named_distances.items()}
        disc = tuple(getattr(D, "DISCRETE_METRICS", DISCRETE_DEFAULT))
    ctx.extra["registry"] = reg
    ctx.extra["discrete_metrics_excluded"] = list(disc)
    names = [k for k in reg if k not in disc]
    ob = "source:named_distances_keys_covered_by_model"
    ctx.obligations.append(ob)
    unknown = [k for k in names if k not in COVER]
    if unknown:
        ctx.broken.append("named_distances has input-data metric(s) with no model definition: %s" % ", ".join(unknown))
    else:
        ctx.discharged.append(ob)
    gone = [k for k in COVER if k not in reg]
    if gone:
        ctx.notes.append("model definitions whose registry key no longer exists: %s" % ", ".join(gone))
    ob = "source:registry_keys_bound_to_modelled_function"
    ctx.obligations.append(ob)
    wrong = [(k, reg[k], COVER[k][0]) for k in names if k in COVER and reg[k] != COVER[k][0]]
    rt = []
    for k in names:
        if k in COVER and k in D.named_distances:
            f = getattr(D, COVER[k][0], None)
            if f is None or D.named_distances[k] is not f:
                rt.append(k)
    if set(D.named_distances) != set(reg):
        ctx.broken.append("runtime named_distances keys differ from the source text's: %s" % sorted(set(D.named_distances) ^ set(reg)))
    if wrong or rt:
        ctx.broken.append("registry key bound to another function than the modelled one: %s" %
                          (", ".join("%s -> %s (model: %s)" % w for w in wrong) or ", ".join(rt)))
    else:
        ctx.discharged.append(ob)
    return [k for k in names if k in COVER and k in D.named_distances]


# ---- generators -------------------------------------------------------------------------------------------------
def f32(a):
    return np.asarray(a, dtype=np.float32)


def gen_real_pair(rng, npr, d, kind):
    scale = 10 ** rng.uniform(-3, 3)
    if kind == "gaussian":
        x, y = npr.normal(size=d) * scale, npr.normal(size=d) * scale
    elif kind == "integer":
        x, y = npr.randint(-4, 5, size=d), npr.randint(-4, 5, size=d)
    elif kind == "binary":
        q = rng.choice([0.2, 0.5, 0.8])
        x, y = (npr.random(d) < q) * 1.0, (npr.random(d) < q) * 1.0
    elif kind == "shared_zeros":
        x, y = npr.normal(size=d), npr.normal(size=d)
        z = npr.random(d) < 0.4
        x[z] = 0; y[z] = 0
        x[npr.random(d) < 0.2] = 0; y[npr.random(d) < 0.2] = 0
    elif kind == "one_zero":
        x, y = npr.normal(size=d) * scale, np.zeros(d)
        if rng.random() < 0.5:
            x, y = y, x
    elif kind == "both_zero":
        x, y = np.zeros(d), np.zeros(d)
    elif kind == "identical":
        x = npr.normal(size=d) * scale if rng.random() < 0.6 else npr.randint(-3, 4, size=d) * 1.0
        y = x.copy()
    elif kind == "negative":
        x, y = -np.abs(npr.normal(size=d)) * scale, -np.abs(npr.normal(size=d)) * scale
    elif kind == "ties":            # |x_i - y_i| takes few distinct values (several coordinates attain the maximum)
        x = npr.randint(-8, 9, size=d) * 0.25
        y = x + npr.choice([-1.0, 1.0, 0.5, -0.5, 0.0], size=d)
    elif kind == "proportional":
        x = npr.normal(size=d) * scale
        y = x * rng.choice([2.0, 3.0, 0.5, -1.0, -2.0, 7.0])
    elif kind == "constant":        # constant vectors (correlation's conventions); values keep the mean exact
        x = np.full(d, float(rng.randint(-3, 3)))
        y = np.full(d, float(rng.randint(-3, 3))) if rng.random() < 0.5 else npr.randint(-4, 5, size=d) * 1.0
        if rng.random() < 0.5:
            x, y = y, x
    elif kind == "near":
        x = npr.normal(size=d) * scale
        y = x.copy()
        y[rng.randrange(d)] += scale * 10 ** rng.uniform(-4, -1)
    elif kind == "nonneg_bin_counts":   # small non-negative integers with many zeros
        x, y = npr.poisson(0.7, size=d) * 1.0, npr.poisson(0.7, size=d) * 1.0
    else:
        raise ValueError(kind)
    return f32(x), f32(y)


REAL_KINDS = ["gaussian", "gaussian", "integer", "binary", "binary", "shared_zeros", "one_zero", "both_zero", "identical",
              "negative", "ties", "proportional", "constant", "near", "nonneg_bin_counts"]


def gen_nonneg_pair(rng, npr, d, kind):
    """returns (x, y, cls) with cls in nonneg / counts"""
    if kind == "uniform":
        return f32(npr.random(d)), f32(npr.random(d)), "nonneg"
    if kind == "prob":
        x, y = npr.dirichlet(np.ones(d) * 0.5), npr.dirichlet(np.ones(d) * 0.5)
        return f32(x), f32(y), "nonneg"
    if kind == "sparse_nonneg":
        x, y = npr.random(d), npr.random(d)
        x[npr.random(d) < 0.5] = 0; y[npr.random(d) < 0.5] = 0
        return f32(x), f32(y), "nonneg"
    if kind == "one_zero":
        x, y = npr.random(d) + 0.01, np.zeros(d)
        if rng.random() < 0.5:
            x, y = y, x
        return f32(x), f32(y), "nonneg"
    if kind == "both_zero":
        return f32(np.zeros(d)), f32(np.zeros(d)), "nonneg"
    if kind == "proportional":
        x = npr.random(d) if rng.random() < 0.5 else npr.randint(0, 9, size=d) * 1.0
        if x.sum() == 0:
            x[0] = 1.0
        y = x * rng.choice([2.0, 3.0, 0.5, 7.0])
        cls = "counts" if np.all(x == np.round(x)) and np.all(y == np.round(y)) else "nonneg"
        return f32(x), f32(y), cls
    if kind == "identical_nonneg":
        x = npr.random(d)
        return f32(x), f32(x), "nonneg"
    # count vectors with positive totals (ll_dirichlet's domain)
    hi = rng.choice([3, 6, 20, 60])
    x, y = npr.randint(0, hi + 1, size=d) * 1.0, npr.randint(0, hi + 1, size=d) * 1.0
    if kind == "counts_sparse":
        x[npr.random(d) < 0.5] = 0; y[npr.random(d) < 0.5] = 0
    if kind == "counts_identical":
        y = x.copy()
    if kind == "counts_near":
        y = x.copy(); y[rng.randrange(d)] += 1
    if kind == "counts_large":
        x, y = x + 5, y + 5
    if x.sum() == 0:
        x[rng.randrange(d)] = 1.0
    if y.sum() == 0:
        y[rng.randrange(d)] = 2.0
    if kind == "counts_identical":
        y = x.copy()
    return f32(x), f32(y), "counts"


NONNEG_KINDS = ["uniform", "prob", "sparse_nonneg", "one_zero", "both_zero", "proportional", "identical_nonneg",
                "counts", "counts", "counts_sparse", "counts_identical", "counts_near", "counts_large"]


def gen_ball_pair(rng, npr, d, kind):
    def pt(rmax=0.95):
        v = npr.normal(size=d)
        return v / max(np.linalg.norm(v), 1e-12) * rng.uniform(0, rmax)
    x, y = pt(), pt()
    if kind == "identical":
        y = x.copy()
    elif kind == "origin":
        y = np.zeros(d)
    elif kind == "both_origin":
        x, y = np.zeros(d), np.zeros(d)
    elif kind == "boundary":
        x = x / max(np.linalg.norm(x), 1e-12) * 0.995
    x, y = f32(x), f32(y)
    for v in (x, y):      # float32 rounding must not leave the open ball
        while float(np.sum(v.astype(np.float64) ** 2)) >= 0.9999:
            v *= np.float32(0.99)
    return x, y


BALL_KINDS = ["random", "random", "identical", "origin", "both_origin", "boundary"]


def gen_latlon_pair(rng, npr, kind):
    def pt():
        return np.array([rng.uniform(-math.pi / 2, math.pi / 2), rng.uniform(-math.pi, math.pi)])
    x, y = pt(), pt()
    if kind == "identical":
        y = x.copy()
    elif kind == "same_lat":
        y[0] = x[0]
    elif kind == "same_lon":
        y[1] = x[1]
    elif kind == "poles":
        x[0], y[0] = 1.5707963, -1.5707963
    elif kind == "antipodal":
        y = np.array([-x[0], x[1] - math.pi if x[1] > 0 else x[1] + math.pi])
    elif kind == "near":
        y = x + npr.normal(size=2) * 1e-3
    x, y = f32(x), f32(y)
    lim = np.float32(1.5707963)      # largest float32 below pi/2: cos stays non-negative
    x[0] = min(max(x[0], -lim), lim); y[0] = min(max(y[0], -lim), lim)
    return x, y


LATLON_KINDS = ["random", "random", "identical", "same_lat", "same_lon", "poles", "antipodal", "near"]


def gen_params(rng, npr, d, default_z):
    p = rng.choice([1.0, 1.5, 2.0, 3.0])
    w = npr.random(d) * rng.choice([1.0, 10.0]) + 0.05
    V = (npr.random(d) + 0.1) * 10 ** rng.uniform(-1, 1)
    VI = None
    if d <= 10:
        A = npr.normal(size=(d, d + 2))
        VI = A @ A.T / (d + 2) + 0.1 * np.eye(d)
        VI = (VI + VI.T) / 2
    return dict(p=p, z=default_z, w=w, V=V, VI=VI)


def call_args(tag, P):
    if tag == "M_minkowski":
        return (P["p"],)
    if tag == "M_seuclidean":
        return (P["V"],)
    if tag == "M_wminkowski":
        return (P["w"], P["p"])
    if tag == "M_mahalanobis":
        return (P["VI"],)
    if tag == "M_symmetric_kl":
        return (P["z"],)
    return ()


# ---- oracle: independent float64 statement ------------------------------------------------------------------------
def _counts(x, y):
    a, b = x != 0, y != 0
    return int(np.sum(a & b)), int(np.sum(a & ~b)), int(np.sum(~a & b)), int(np.sum(~a & ~b))


def _lld_ref(x, y):
    """ll_dirichlet has no closed textbook form: float64 transcription of the documented approximation"""
    def alg(v):
        return 0.0 if v == 1 else v * math.log(v) - v + 0.5 * math.log(2 * math.pi / v) + 1 / (12 * v)

    def lb(a_, b_):
        a, b = min(a_, b_), max(a_, b_)
        if b < 5:
            return -math.log(b) + sum(math.log(i) - math.log(b + i) for i in range(1, int(a)))
        return alg(a_) + alg(b_) - alg(a_ + b_)

    def lsb(v):
        return math.log(2) * (-2 * v + 0.5) + 0.5 * math.log(2 * math.pi / v) + 0.125 / v
    n1, n2 = float(x.sum()), float(y.sum())
    log_b = sum(lb(a, b) for a, b in zip(x, y) if a * b > 0.9)
    s1 = sum(lsb(a) for a in x if a > 0.9)
    s2 = sum(lsb(b) for b in y if b > 0.9)
    v = (log_b - lb(n1, n2) - (s2 - lsb(n2))) / n2 + (log_b - lb(n2, n1) - (s1 - lsb(n1))) / n1
    return math.sqrt(v) if v > 0 else 0.0


def reference(tag, x32, y32, P):
    """(value, source) — the textbook definition in float64 with UMAP's documented conventions for degenerate arguments;
    SciPy where SciPy defines the metric and the arguments are not degenerate, cross-checked against the plain formula"""
    x, y = x32.astype(np.float64), y32.astype(np.float64)
    n = len(x)
    sp = None
    with np.errstate(all="ignore"):
        if tag == "M_euclidean":
            f = math.sqrt(float(np.sum((x - y) ** 2))); sp = SD.euclidean(x, y)
        elif tag == "M_manhattan":
            f = float(np.sum(np.abs(x - y))); sp = SD.cityblock(x, y)
        elif tag == "M_chebyshev":
            f = float(np.max(np.abs(x - y))); sp = SD.chebyshev(x, y)
        elif tag == "M_minkowski":
            f = float(np.sum(np.abs(x - y) ** P["p"])) ** (1 / P["p"]); sp = SD.minkowski(x, y, P["p"])
        elif tag == "M_seuclidean":
            f = math.sqrt(float(np.sum((x - y) ** 2 / P["V"]))); sp = SD.seuclidean(x, y, P["V"])
        elif tag == "M_wminkowski":
            f = float(np.sum(P["w"] * np.abs(x - y) ** P["p"])) ** (1 / P["p"]); sp = SD.minkowski(x, y, P["p"], P["w"])
        elif tag == "M_mahalanobis":
            dd = x - y
            f = math.sqrt(max(float(dd @ P["VI"] @ dd), 0.0)); sp = SD.mahalanobis(x, y, P["VI"])
        elif tag == "M_canberra":
            den = np.abs(x) + np.abs(y)
            f = float(np.sum(np.where(den > 0, np.abs(x - y) / np.where(den > 0, den, 1), 0.0))); sp = SD.canberra(x, y)
        elif tag == "M_braycurtis":
            den = float(np.sum(np.abs(x + y)))
            f = float(np.sum(np.abs(x - y))) / den if den > 0 else 0.0
            sp = SD.braycurtis(x, y) if den > 0 else None
        elif tag == "M_cosine":
            nx, ny = float(x @ x), float(y @ y)
            if nx == 0 and ny == 0:
                f = 0.0
            elif nx == 0 or ny == 0:
                f = 1.0
            else:
                f = 1 - float(x @ y) / math.sqrt(nx * ny); sp = SD.cosine(x, y)
        elif tag == "M_correlation":
            cx, cy = x - x.mean(), y - y.mean()
            kx, ky = bool(np.all(x == x[0])), bool(np.all(y == y[0]))
            if kx and ky:
                f = 0.0
            elif kx or ky:
                f = 1.0
            else:
                f = 1 - float(cx @ cy) / math.sqrt(float(cx @ cx) * float(cy @ cy)); sp = SD.correlation(x, y)
        elif tag == "M_hellinger":
            sx, sy = float(x.sum()), float(y.sum())
            if sx == 0 and sy == 0:
                f = 0.0
            elif sx == 0 or sy == 0:
                f = 1.0
            else:   # Hellinger distance of the normalised vectors: sqrt(1 - BC) = ||sqrt p - sqrt q|| / sqrt 2
                f = float(np.linalg.norm(np.sqrt(x / sx) - np.sqrt(y / sy))) / math.sqrt(2)
        elif tag == "M_haversine":
            a = math.sin((x[0] - y[0]) / 2) ** 2 + math.cos(x[0]) * math.cos(y[0]) * math.sin((x[1] - y[1]) / 2) ** 2
            f = 2 * math.asin(math.sqrt(min(max(a, 0.0), 1.0)))
        elif tag == "M_poincare":
            dl = 2 * float(np.sum((x - y) ** 2)) / ((1 - float(x @ x)) * (1 - float(y @ y)))
            f = math.acosh(1 + dl)
        elif tag == "M_symmetric_kl":
            p = (x + P["z"]) / np.sum(x + P["z"]); q = (y + P["z"]) / np.sum(y + P["z"])
            f = float(np.sum(scipy.special.rel_entr(p, q)) + np.sum(scipy.special.rel_entr(q, p))) / 2
        elif tag == "M_ll_dirichlet":
            f = _lld_ref(x, y)
        elif tag == "M_hamming":
            f = float(np.sum(x != y)) / n; sp = SD.hamming(x, y)
        else:
            tt, tf, ft, ff = _counts(x, y)
            bx, by = x != 0, y != 0
            nne = tf + ft
            if tag == "M_jaccard":
                f = nne / (tt + nne) if tt + nne else 0.0; sp = SD.jaccard(bx, by)
            elif tag == "M_matching":
                f = nne / n; sp = SD.hamming(bx, by)
            elif tag == "M_dice":
                f = nne / (2 * tt + nne) if nne else 0.0; sp = SD.dice(bx, by) if nne else None
            elif tag == "M_kulsinski":
                f = (nne - tt + n) / (nne + n) if nne else 0.0
            elif tag in ("M_rogerstanimoto", "M_sokalmichener"):
                f = 2 * nne / (n + nne); sp = SD.rogerstanimoto(bx, by)
            elif tag == "M_russellrao":
                f = (n - tt) / n if nne else 0.0; sp = SD.russellrao(bx, by) if nne else None
            elif tag == "M_sokalsneath":
                f = nne / (0.5 * tt + nne) if nne else 0.0; sp = SD.sokalsneath(bx, by) if nne else None
            elif tag == "M_yule":
                f = 2.0 * tf * ft / (tt * ff + tf * ft) if tf and ft else 0.0; sp = SD.yule(bx, by) if tf and ft else None
            else:
                raise KeyError(tag)
    if sp is not None and math.isfinite(float(sp)):
        return float(sp), f
    return f, f


def close(tag, got, want):
    c = TOL_CLASS.get(tag, 0)
    if math.isnan(got) or math.isnan(want):
        return False
    if c == 2:
        return got >= 0 and abs(got * got - want * want) <= 1e-5 + 1e-4 * want * want
    if c == 3 and want > 2.5 and abs(math.sin(got / 2) ** 2 - math.sin(want / 2) ** 2) <= 2e-6:
        return True       # near the antipode the arcsine is ill-conditioned: compare the haversines
    return abs(got - want) <= 1e-6 + (1e-4 if c == 1 else 1e-5) * abs(want)


def input_class(x, y):
    if np.array_equal(x, y):
        return "identical"
    if not x.any() or not y.any():
        return "all_zero"
    nz = x != 0
    if np.array_equal(nz, y != 0):
        r = y[nz].astype(np.float64) / x[nz].astype(np.float64)
        if np.allclose(r, r[0], rtol=1e-6, atol=0):
            return "proportional"
    return "generic"


class Obs:
    """implementation values for one (name, pair)"""
    __slots__ = ("v", "v_yx", "v_xx", "v_yy", "mutated", "err")


def observe(name, x, y, args):
    f = D.named_distances[name]
    o = Obs(); o.err = None; o.mutated = False
    o.v = o.v_yx = o.v_xx = o.v_yy = float("nan")
    try:
        a, b = x.copy(), y.copy()
        ar = tuple(v.copy() if isinstance(v, np.ndarray) else v for v in args)
        o.v = float(f(a, b, *ar))
        if a.tobytes() != x.tobytes() or b.tobytes() != y.tobytes() or any(
                isinstance(v, np.ndarray) and v.tobytes() != w.tobytes() for v, w in zip(ar, args)):
            o.mutated = True
        o.v_yx = float(f(y.copy(), x.copy(), *args))
        o.v_xx = float(f(x.copy(), x.copy(), *args))
        o.v_yy = float(f(y.copy(), y.copy(), *args))
    except Exception as e:   # noqa
        o.err = "%s: %s" % (type(e).__name__, e)
    return o


def oracle(ctx, name, tag, x, y, P, o, kind):
    """the property text, stated on the implementation's outputs; returns False iff a clause fails"""
    cls = input_class(x, y)
    desc = dict(metric=name, x=x, y=y, kind=kind, params={k: v for k, v in P.items() if v is not None and k in
                {"M_minkowski": ("p",), "M_seuclidean": ("V",), "M_wminkowski": ("w", "p"), "M_mahalanobis": ("VI",),
                 "M_symmetric_kl": ("z",)}.get(tag, ())})
    n0 = len(ctx.oracle_fail)

    def fail(clause, msg, with_cls=True):
        ctx.fail("%s:%s%s" % (name, clause, ":" + cls if with_cls else ""), "%s %s" % (name, msg), dict(desc, clause=clause))
        ctx.oracle_fail[-1]["_raw"] = (name, tag, x, y, P, kind)
    if o.err is not None:
        fail("raises", "raised %s" % o.err)
        return False
    if o.mutated:
        fail("mutates_arguments", "modified its arguments in place (x, y or a parameter array differ after the call)", with_cls=False)
    c2 = TOL_CLASS.get(tag, 0) == 2
    vals = (("d(x,y)", o.v), ("d(y,x)", o.v_yx), ("d(x,x)", o.v_xx), ("d(y,y)", o.v_yy))
    if any(math.isnan(v) for _, v in vals):
        which = [k for k, v in vals if math.isnan(v)]
        if not (math.isnan(o.v) or math.isnan(o.v_yx)):
            cls = "identical"        # only the self-distances are NaN
        fail("nan", "returned NaN for %s" % ", ".join(which))
        return False
    want, alt = reference(tag, x, y, P)
    if not close(tag, alt, want) and not close(tag, want, alt):
        ctx.broken.append("oracle inconsistency for %s: SciPy %r vs formula %r" % (name, want, alt))
    if not close(tag, o.v, want):
        fail("value", "returned %r, its definition gives %r" % (o.v, want))
    if not (close(tag, o.v_yx, o.v) or close(tag, o.v, o.v_yx)):
        fail("asymmetric", "d(x,y)=%r but d(y,x)=%r" % (o.v, o.v_yx))
    neg_tol = 1e-6
    if min(o.v, o.v_yx, o.v_xx, o.v_yy) < -neg_tol:
        fail("negative", "returned a negative distance %r" % min(o.v, o.v_yx, o.v_xx, o.v_yy))
    for k, v in (("d(x,x)", o.v_xx), ("d(y,y)", o.v_yy)):
        if (v * v > 1e-5) if c2 else (abs(v) > 1e-6):
            fail("identity", "%s = %r, not 0" % (k, v))
            break
    B = BOUNDS.get(tag)
    if tag == "M_braycurtis" and np.all(x >= 0) and np.all(y >= 0):
        B = 1.0
    if B is not None and max(o.v, o.v_yx) > B + 1e-6:
        fail("bound", "returned %r, above its bound %r" % (max(o.v, o.v_yx), B))
    return len(ctx.oracle_fail) == n0


# ---- Coq terms ------------------------------------------------------------------------------------------------------
HDR = ("From Coq Require Import List ZArith PrimFloat. From UV Require Import Num FNum M_metrics V_metrics.\n"
       "Import ListNotations. Open Scope float_scope.\n")


def params_term(P, used):
    w = flist(P["w"]) if "w" in used else "[]"
    V = flist(P["V"]) if "V" in used else "[]"
    VI = "[" + "; ".join(flist(r) for r in P["VI"]) + "]" if "VI" in used and P["VI"] is not None else "[]"
    return "(mkP %s %s %s %s %s)" % (fl(P["p"]), fl(P["z"]), w, V, VI)


def case_term(x, y, P, entries):
    used = set()
    for tag, _ in entries:
        used |= {"M_seuclidean": {"V"}, "M_wminkowski": {"w"}, "M_mahalanobis": {"VI"}}.get(tag, set())
    outs = "[" + "; ".join("(%s, %s)" % (tag, fl(v)) for tag, v in entries) + "]"
    return "(%s, %s, %s, %s)" % (params_term(P, used), flist(x.tolist()), flist(y.tolist()), outs)


def selftest_trig(ctx):
    """software sin / cos / arcsin of V_metrics.v against Python's math (evaluation leg only)"""
    r = np.random.RandomState(12345)
    xs = list(r.uniform(-7, 7, 120)) + [0.0, math.pi / 2, -math.pi, 1e-9, 3.0]
    us = list(r.uniform(-1, 1, 120)) + [0.0, 1.0, -1.0, 1e-9, 0.999999]
    text = HDR + ("Eval vm_compute in map f_sin %s.\nEval vm_compute in map f_cos %s.\nEval vm_compute in map f_asin %s.\n"
                  % (flist(xs), flist(xs), flist(us)))
    ob = "gen/selftest_C12_trig.v:software_trig_matches_math"
    ctx.obligations.append(ob)
    blocks = ctx.coq_eval("selftest_C12_trig", text, what="software sin/cos/asin self-test")
    if blocks is None or len(blocks) != 3:
        return
    worst = 0.0
    for blk, fn, args in zip(blocks, (math.sin, math.cos, math.asin), (xs, xs, us)):
        got = parse_flist(blk)
        if len(got) != len(args):
            ctx.broken.append("trig self-test: output length mismatch"); return
        worst = max(worst, max(abs(g - fn(a)) for g, a in zip(got, args)))
    ctx.extra["trig_selftest_max_abs_err"] = worst
    if worst > 1e-12:
        ctx.broken.append("software trig of V_metrics.v deviates from math by %g" % worst)
    else:
        ctx.discharged.append(ob)


# ---- main -------------------------------------------------------------------------------------------------------------
def applicable(tag, cls, d, P):
    if tag in DOMAIN:
        return cls in DOMAIN[tag]
    if tag == "M_mahalanobis":
        return P["VI"] is not None
    return True


def run(ctx):
    ctx.check_proofs(["prop/P_C12.v"])
    names = source_tie(ctx)
    # translation tie: Gallina regenerated from the current umap/distances.py; link theorems src_f = d_f re-checked
    fns = sorted({COVER[k][0] for k in names if COVER[k][0] not in NOT_TRANSLATED})
    if "ll_dirichlet" in fns:
        fns += list(LINK_HELPERS)      # its scalar helpers are translated functions with link theorems of their own
    lres = link.check(ctx, "distances", {fn: ("src_%s_eq" % fn, "src_%s_eqR" % fn) if fn in ROBUST_LINK else "src_%s_eq" % fn for fn in fns},
                      NOT_TRANSLATED)
    # capstone corollaries (coq/link/K_distances.v): the P_C12 statements restated about the translated source itself
    caps = sorted(t for t in lres.theorems if t.startswith("C12_src_"))
    ob = "link:distances:capstone_corollaries_present"
    ctx.obligations.append(ob)
    if len(caps) >= 20: ctx.discharged.append(ob)
    else: ctx.broken.append("link[distances]: only %d capstone corollaries C12_src_* found in K_distances.v" % len(caps))
    for t in caps:
        ob = "link:distances:" + t
        ctx.obligations.append(ob)
        if lres.theorems[t] is True and all(a in link.coqrun.ALLOWED_AXIOMS or ctx._primitive(a) for a in lres.axioms.get(t, [])):
            ctx.discharged.append(ob)
        else:
            ctx.broken.append("link[distances]: corollary %s (P_C12 statement about the translated source) %s" % (t, lres.theorems[t]))
    src_ready = lres.ok and not any("E_distances" in e for e in lres.errors)
    link_broken = any(b.startswith("link[") for b in ctx.broken)
    dz = srcparams.func_defaults("umap/distances.py", "symmetric_kl").get("z", 1e-11)
    ctx.extra["symmetric_kl_default_z"] = dz
    selftest_trig(ctx)
    rng = ctx.rng
    npr = np.random.RandomState(rng.randrange(2 ** 31))
    quick = ctx.tier == "quick"
    n_real, n_nonneg, n_ball, n_latlon = (260, 150, 40, 40) if quick else (3000, 1500, 400, 400)

    pairs = []   # (cls, kind, x, y, P)
    def dim():
        return rng.choice([1, 1, 2, 2, 3, 4, 5, 8, 16, 33, 64]) if rng.random() < 0.5 else rng.randint(1, 64)
    for i in range(n_real):
        d = dim(); kind = REAL_KINDS[i % len(REAL_KINDS)]
        x, y = gen_real_pair(rng, npr, d, kind)
        pairs.append(("real", kind, x, y, gen_params(rng, npr, d, dz)))
    for i in range(n_nonneg):
        d = dim(); kind = NONNEG_KINDS[i % len(NONNEG_KINDS)]
        x, y, cls = gen_nonneg_pair(rng, npr, d, kind)
        P = gen_params(rng, npr, d, dz)
        if rng.random() < 0.3:
            P["z"] = rng.choice([1e-3, 1e-6, 0.5])
        pairs.append((cls, kind, x, y, P))
    for i in range(n_ball):
        d = dim(); kind = BALL_KINDS[i % len(BALL_KINDS)]
        x, y = gen_ball_pair(rng, npr, d, kind)
        pairs.append(("ball", kind, x, y, gen_params(rng, npr, d, dz)))
    for i in range(n_latlon):
        kind = LATLON_KINDS[i % len(LATLON_KINDS)]
        x, y = gen_latlon_pair(rng, npr, kind)
        pairs.append(("latlon", kind, x, y, gen_params(rng, npr, 2, dz)))
    # exhaustive {0,1}^d pairs for the binary family
    dmax = 4 if quick else 5
    binpairs = []
    for d in range(1, dmax + 1):
        vecs = [f32(v) for v in itertools.product((0.0, 1.0), repeat=d)]
        for x in vecs:
            for y in vecs:
                binpairs.append(("bin", "exhaustive_d%d" % d, x, y, dict(p=2.0, z=dz, w=None, V=None, VI=None)))
    ctx.extra["exhaustive_binary_pairs"] = len(binpairs)

    terms, meta = [], []    # meta[i] = (pair desc, [(name, tag, value, oracle_ok)])
    for cls, kind, x, y, P in pairs + binpairs:
        d = len(x)
        entries, info = [], []
        for name in names:
            tag = COVER[name][1]
            if cls == "bin":
                if name not in BINARY:
                    continue
            elif not applicable(tag, cls, d, P):
                continue
            o = observe(name, x, y, call_args(tag, P))
            ok = oracle(ctx, name, tag, x, y, P, o, kind)
            if o.err is None:
                entries.append((tag, o.v)); info.append((name, tag, o.v, ok))
        tags = []
        if cls != "bin":
            if kind != "gaussian":
                tags.append(cls + ":" + kind)
            if d == 1: tags.append("d=1")
            if np.any((x == 0) & (y == 0)): tags.append("shared_zero_coord")
            if np.any((x == 0) != (y == 0)): tags.append("zero_in_one_only")
            ad = np.abs(x.astype(np.float64) - y.astype(np.float64))
            if d > 1 and np.sum(ad == ad.max()) > 1: tags.append("tie_at_max")
            ctx.count("cls_" + cls); ctx.count("d<=4" if d <= 4 else "d<=16" if d <= 16 else "d<=64")
            if "M_minkowski" in [t for t, _ in entries]: ctx.count("p=%s" % P["p"])
            ctx.sample(dict(cls=cls, kind=kind, x=x, y=y, values={n: v for n, _, v, _ in info[:6]}), 3)
        else:
            tags.append("exhaustive_binary")
            ctx.count("cls_bin_exhaustive")
        ctx.tag((cls, x.tobytes(), y.tobytes(), P["p"], P["z"]), tags)
        ctx.evaluations += 4 * len(info) - 1     # d(x,y), d(y,x), d(x,x), d(y,y) per name (tag() counted one)
        if entries:
            terms.append(case_term(x, y, P, entries))
            meta.append((dict(cls=cls, kind=kind, x=x, y=y, params={k: v for k, v in P.items() if v is not None}), info))

    # haversine's error class: dimension <> 2 raises ValueError (model: None)
    if "haversine" in names:
        ob = "impl:haversine_rejects_dimension_not_2"
        ctx.obligations.append(ob)
        try:
            D.named_distances["haversine"](f32([0.1, 0.2, 0.3]), f32([0.1, 0.2, 0.4]))
            ctx.fail("haversine:accepts_wrong_dimension", "haversine accepted 3-dimensional input", dict(metric="haversine", x=[0.1, 0.2, 0.3], y=[0.1, 0.2, 0.4], clause="dimension"))
        except ValueError:
            ctx.discharged.append(ob)
        except Exception as e:   # noqa
            ctx.broken.append("haversine on 3-d input raised %s instead of ValueError" % type(e).__name__)

    special_pairwise(ctx, names, rng, npr, dz, terms, meta)

    # ---- correspondence inside Coq, sharded and compiled in parallel
    shard = 120
    jobs = [(s // shard, terms[s:s + shard]) for s in range(0, len(terms), shard)]

    def compile_shard(job):
        k, ts = job
        text = HDR + "Definition cases : list case_C12 := %s.\nEval vm_compute in map verdict_C12 cases.\n" % clist(ts)
        if src_ready:
            text = text.replace("Import ListNotations.", "From UVS Require Import E_distances.\nImport ListNotations.", 1)
            text += "Eval vm_compute in map verdict_src_C12 cases.\n"
            if link_broken:
                text += "Eval vm_compute in map verdict_src_vs_model cases.\n"
            return k, link.coq_eval(ctx, lres, "cases_C12_%d" % k, text, what="d_<metric> and translated source (binary64) vs named_distances[name]")
        return k, ctx.coq_eval("cases_C12_%d" % k, text, what="d_<metric> (binary64) vs named_distances[name]")
    with ThreadPoolExecutor(max_workers=int(os.environ.get("VERIF_JOBS", "8"))) as ex:
        results = list(ex.map(compile_shard, jobs))
    bad = []
    for k, blocks in results:
        if blocks is None:
            continue
        v = parse_zlist(blocks[0])
        n_here = len(jobs[k][1])
        if len(v) != n_here:
            ctx.broken.append("C12 verdict list of shard %d has %d entries for %d cases" % (k, len(v), n_here)); continue
        for off, code in enumerate(v):
            desc, info = meta[k * shard + off]
            ctx.traces += len(info)
            if code != -1:
                bad.append((k * shard + off, code))
        if src_ready and len(blocks) > 1:
            vs = parse_zlist(blocks[1])
            for off, code in enumerate(vs[:n_here]):
                desc, info = meta[k * shard + off]
                ctx.extra["translated_source_evaluations"] = ctx.extra.get("translated_source_evaluations", 0) + len(info)
                if code != -1 and 0 <= code < len(info):
                    name, tag, v, ok = info[code]
                    if ok and (k * shard + off, code) not in bad:
                        ctx.diff(dict(desc, metric=name), "%s: TRANSLATED SOURCE src_%s (binary64) vs implementation" % (name, COVER[name][0]), impl=v)
            if link_broken and len(blocks) > 2:
                for off, code in enumerate(parse_zlist(blocks[2])[:n_here]):
                    desc, info = meta[k * shard + off]
                    if code != -1 and 0 <= code < len(info):
                        name, tag, v, ok = info[code]
                        key = "link_counterexample_" + COVER[name][0]
                        if key not in ctx.extra:
                            ctx.extra[key] = dict(desc, metric=name, note="translated source and hand-written model differ on this input", impl=v)
                            ctx.diff(dict(desc, metric=name), "%s: translated source differs from the model d_%s on this input" % (name, tag[2:]), impl=v)
    # disagreements: fetch the model's values for the report (one small extra file)
    if bad:
        text = HDR + "Definition cases : list case_C12 := %s.\nEval vm_compute in map values_C12 cases.\n" % clist([terms[i] for i, _ in bad[:40]])
        blocks = ctx.coq_eval("cases_C12_values", text, what="model values of the disagreeing cases")
        mvals = None
        if blocks:
            import re
            mvals = [parse_flist(b) for b in re.findall(r"\[([^\[\]]*)\]", blocks[0])]
        for j, (i, code) in enumerate(bad):
            desc, info = meta[i]
            name, tag, v, ok = info[code] if 0 <= code < len(info) else ("?", "?", None, True)
            if not ok:
                # the oracle already reported this very evaluation as a property failure (with its input as replay)
                ctx.extra["model_disagreements_also_reported_by_oracle"] = ctx.extra.get("model_disagreements_also_reported_by_oracle", 0) + 1
                continue
            mv = None
            if mvals is not None and j < len(mvals) and code < len(mvals[j]):
                mv = mvals[j][code]
            ctx.diff(dict(desc, metric=name), "%s: model d_%s vs implementation" % (name, tag[2:]), model=mv, impl=v)
    shrink_failures(ctx)
    partial_notes(ctx)
    return ctx.finish(RULE, assumptions=[
        "tolerances: rel 1e-5 / abs 1e-6; mahalanobis, poincare (float32 accumulators) rel 1e-4; hellinger and ll_dirichlet are compared on their "
        "squares (rel 1e-4 / abs 1e-5): the value is the square root of a difference that cancels, so rounding of the radicand is what float rounding means there",
        "ll_dirichlet has no closed textbook form: its reference is a float64 transcription of the documented approximation; its domain is count vectors with positive totals",
        "float32 products / fastmath re-association of the compiled kernels are observed, not modelled",
        "the software sin/cos/asin used on the Coq evaluation leg are self-tested against math on every run"])


def special_pairwise(ctx, names, rng, npr, dz, terms, meta):
    """pairwise_special_metric: matrix entries equal the registry function on the rows; X is not modified"""
    quick = ctx.tier == "quick"
    for name in ("hellinger", "ll_dirichlet", "symmetric_kl", "poincare"):
        if name not in names:
            continue
        tag = COVER[name][1]
        for rep in range(1 if quick else 4):
            n = rng.randint(3, 6); d = rng.randint(2, 12)
            if name == "poincare":
                X = np.stack([gen_ball_pair(rng, npr, d, "random")[0] for _ in range(n)])
            else:
                X = f32(npr.randint(0, 9, size=(n, d)) + 1.0 * (npr.random((n, d)) < 0.3))
                X[X.sum(axis=1) == 0, 0] = 1.0
            X0 = X.copy()
            P = dict(p=2.0, z=dz, w=None, V=None, VI=None)
            desc = dict(api="pairwise_special_metric", metric=name, X=X0)
            try:
                M = np.asarray(D.pairwise_special_metric(X, metric=name), dtype=np.float64)
                Xb = X0.copy()
                M2 = np.asarray(D.pairwise_special_metric(Xb, Xb[:2].copy(), metric=name), dtype=np.float64)
            except Exception as e:   # noqa
                ctx.fail("pairwise_special_metric:%s:raises" % name, "%s: %s" % (type(e).__name__, e), desc); continue
            ctx.evaluations += n * n
            if X.tobytes() != X0.tobytes() or Xb.tobytes() != X0.tobytes():
                ctx.fail("pairwise_special_metric:%s:mutates_arguments" % name, "pairwise_special_metric(metric=%r) modified X in place" % name, desc)
            if M.shape != (n, n) or M2.shape != (n, 2):
                ctx.fail("pairwise_special_metric:%s:shape" % name, "shape %s / %s" % (M.shape, M2.shape), desc); continue
            if np.isnan(M).any() or np.isnan(M2).any():
                ctx.fail("pairwise_special_metric:%s:nan" % name, "NaN entries in the distance matrix", desc); continue
            if np.any(np.diag(M) != 0) or np.abs(M - M.T).max() > 0:
                ctx.fail("pairwise_special_metric:%s:not_symmetric_zero_diagonal" % name, "matrix not symmetric with zero diagonal", desc)
            okm = True
            for i in range(n):
                for j in range(n):
                    want, _ = reference(tag, X0[i], X0[j], P)
                    if i != j and not close(tag, float(M[i, j]), want):
                        okm = False
                        ctx.fail("pairwise_special_metric:%s:value" % name, "entry (%d,%d) = %r, definition gives %r" % (i, j, M[i, j], want), desc)
                    if j < 2 and not (close(tag, float(M2[i, j]), want) or (i == j and TOL_CLASS.get(tag) == 2 and M2[i, j] ** 2 < 1e-5)):
                        okm = False
                        ctx.fail("pairwise_special_metric:%s:value_xy" % name, "X-vs-Y entry (%d,%d) = %r, definition gives %r" % (i, j, M2[i, j], want), desc)
            ctx.tag(("pairwise", name, X0.tobytes()), ["pairwise_special_metric"])
            ctx.count("pairwise_special_metric")
            for i in range(n):
                for j in range(i + 1, n):
                    terms.append(case_term(X0[i], X0[j], P, [(tag, float(M[i, j]))]))
                    meta.append((dict(api="pairwise_special_metric", metric=name, x=X0[i], y=X0[j], params=dict(z=dz)), [(name, tag, float(M[i, j]), okm)]))
    # larger inputs (any size-dependent routing inside the pairwise driver must not change the values): 70..200 rows, entries compared
    # with the registry function on sampled pairs, symmetry and zero diagonal on the whole matrix, X-vs-Y form as well
    for name in ("hellinger", "poincare"):
        if name not in names:
            continue
        for n in ((150,) if quick else (70, 129, 150, 200)):
            d = rng.randint(3, 8)
            if name == "poincare":
                X = np.stack([gen_ball_pair(rng, npr, d, "random")[0] for _ in range(n)])
            else:
                X = f32(npr.randint(0, 9, size=(n, d)) + 1.0 * (npr.random((n, d)) < 0.3)); X[X.sum(axis=1) == 0, 0] = 1.0
            X0 = X.copy()
            desc = dict(api="pairwise_special_metric", metric=name, rows=n, X=X0[:6], note="first 6 of %d rows shown; generated from the run's seed" % n)
            try:
                M = np.asarray(D.pairwise_special_metric(X, metric=name), dtype=np.float64)
                M2 = np.asarray(D.pairwise_special_metric(X, X[:5].copy(), metric=name), dtype=np.float64)
            except Exception as e:   # noqa
                ctx.fail("pairwise_special_metric:%s:raises" % name, "%s: %s" % (type(e).__name__, e), desc); continue
            ctx.evaluations += 400
            ctx.tag(("pairwise_large", name, n), ["pairwise_special_metric", "pairwise_many_rows"])
            f = D.named_distances[name]
            bad = None
            if M.shape != (n, n) or M2.shape != (n, 5): bad = "shape %s / %s" % (M.shape, M2.shape)
            elif np.abs(M - M.T).max() > 1e-6: bad = "not symmetric (max |D - D^T| = %.3g)" % np.abs(M - M.T).max()
            elif np.abs(np.diag(M)).max() > 1e-3: bad = "diagonal not zero"
            else:
                for _ in range(400):
                    i_, j_ = rng.randrange(n), rng.randrange(n)
                    want = float(f(X0[i_], X0[j_]))
                    if abs(M[i_, j_] - want) > 1e-5 + 1e-4 * abs(want) and not (i_ == j_ and M[i_, j_] ** 2 < 1e-5):
                        bad = "entry (%d,%d) = %r, the registry function on the two rows gives %r" % (i_, j_, M[i_, j_], want); break
                    if j_ < 5 and abs(M2[i_, j_] - want) > 1e-5 + 1e-4 * abs(want) and not (i_ == j_ and M2[i_, j_] ** 2 < 1e-5):
                        bad = "X-vs-Y entry (%d,%d) = %r, the registry function gives %r" % (i_, j_, M2[i_, j_], want); break
            if X.tobytes() != X0.tobytes(): bad = (bad or "") + " X modified in place"
            if bad:
                ctx.fail("pairwise_special_metric:%s:many_rows" % name, "%d rows: %s" % (n, bad), desc)
    # the callable path (sklearn pairwise_distances around a jitted closure with the keyword values): SEQUENCES of calls with the same
    # metric and parameter names but different parameter values (a value must not survive from an earlier call), incl. array-valued ones
    n, d = 4, 5
    X = f32(npr.normal(size=(n, d))); X0 = X.copy()
    X64 = X0.astype(np.float64)
    def mink(p):
        return lambda a, b: float(np.sum(np.abs(a - b) ** p)) ** (1.0 / p)
    def wmink(w, p):
        return lambda a, b: float(np.sum(w * np.abs(a - b) ** p)) ** (1.0 / p)
    def seuc(V):
        return lambda a, b: float(np.sqrt(np.sum((a - b) ** 2 / V)))
    def maha(VI):
        return lambda a, b: float(np.sqrt((a - b) @ VI @ (a - b)))
    w1, w2 = np.abs(npr.normal(size=d)) + 0.5, np.abs(npr.normal(size=d)) + 0.5
    V1, V2 = np.abs(npr.normal(size=d)) + 0.5, np.abs(npr.normal(size=d)) * 3 + 0.5
    A1, A2 = npr.normal(size=(d, d)), npr.normal(size=(d, d))
    VI1, VI2 = A1 @ A1.T + np.eye(d), A2 @ A2.T + np.eye(d)
    seqs = [("minkowski", [({"p": 3.0}, mink(3.0)), ({"p": 1.0}, mink(1.0)), ({"p": 3.0}, mink(3.0))]),
            ("wminkowski", [({"w": w1, "p": 2.0}, wmink(w1, 2.0)), ({"w": w2, "p": 2.0}, wmink(w2, 2.0)), ({"w": w2, "p": 3.0}, wmink(w2, 3.0))]),
            ("seuclidean", [({"sigma": V1}, seuc(V1)), ({"sigma": V2}, seuc(V2))]),
            ("mahalanobis", [({"vinv": VI1}, maha(VI1)), ({"vinv": VI2}, maha(VI2))])]
    for name, calls in seqs:
        if name not in names:
            continue
        for step, (kw, ref) in enumerate(calls):
            desc = dict(api="pairwise_special_metric(callable)", metric=name, X=X0, kwds={k: v for k, v in kw.items()}, call_number_in_sequence=step + 1)
            try:
                M = np.asarray(D.pairwise_special_metric(X, metric=D.named_distances[name], kwds=dict(kw)), dtype=np.float64)
            except Exception as e:   # noqa
                ctx.fail("pairwise_special_metric:callable:raises", "%s: %s" % (type(e).__name__, e), desc); break
            if X.tobytes() != X0.tobytes():
                ctx.fail("pairwise_special_metric:callable:mutates_arguments", "X modified", desc)
            ctx.evaluations += n * n
            bad = False
            for i_ in range(n):
                for j_ in range(n):
                    want = ref(X64[i_], X64[j_])
                    if abs(M[i_, j_] - want) > 1e-5 + 1e-4 * want and not bad:
                        bad = True
                        ctx.fail("pairwise_special_metric:callable:value" + (":later_call" if step else ""),
                                 "%s call %d of a sequence: entry (%d,%d) = %r, definition with THESE parameters gives %r" % (name, step + 1, i_, j_, M[i_, j_], want), desc)
            ctx.tag(("pairwise_callable", name, step, X0.tobytes()), ["pairwise_special_metric_callable"] + (["repeated_call_new_parameter_values"] if step else []))

def _drop(P, i):
    Q = dict(P)
    for k in ("w", "V"):
        if Q.get(k) is not None:
            Q[k] = np.delete(Q[k], i)
    if Q.get("VI") is not None:
        Q["VI"] = np.delete(np.delete(Q["VI"], i, axis=0), i, axis=1)
    return Q


def shrink_failures(ctx):
    """per failure signature: report the smallest failing pair, greedily dropping coordinates while the same clause still fails"""
    from vp.common import Ctx
    best = {}
    for f in ctx.oracle_fail:
        raw = f.get("_raw")
        if raw is None:
            continue
        if f["signature"] not in best or len(raw[2]) < len(best[f["signature"]]["_raw"][2]):
            best[f["signature"]] = f
    front = []
    for sig, f in list(best.items())[:16]:
        name, tag, x, y, P, kind = f["_raw"]
        cur = f
        if tag != "M_haversine":
            i = len(x) - 1
            while i >= 0 and len(x) > 1:
                x2, y2, P2 = np.delete(x, i), np.delete(y, i), _drop(P, i)
                c2 = Ctx(ctx.prop, ctx.tier, ctx.seed)
                oracle(c2, name, tag, x2, y2, P2, observe(name, x2, y2, call_args(tag, P2)), kind)
                hit = [g for g in c2.oracle_fail if g["signature"] == sig]
                if hit:
                    x, y, P, cur = x2, y2, P2, hit[0]
                i -= 1
        front.append(cur)
    ctx.oracle_fail[:0] = front


def partial_notes(ctx):
    ctx.partial += PARTIAL


PARTIAL = [
    "ll_dirichlet: only symmetry is proved (C12_ll_dirichlet_partial); non-negativity holds by the clamp of the repaired code; d(x,x) = 0 is not a theorem "
    "of the documented Stirling-type approximation (over R the radicand of d(x,x) is slightly negative for counts < 5) and is only observed, up to rounding, on the implementation",
    "triangle inequalities are proved for euclidean, manhattan, chebyshev, hamming (and minkowski at p = 1, 2 through C12_minkowski_p1/p2) only: "
    "no Minkowski inequality for general p, none for seuclidean / wminkowski / mahalanobis (would need positive weights / positive-definite VI)",
    "canberra <= n and the metric-specific upper bounds of unbounded metrics are not stated; poincare/symmetric_kl/hellinger theorems hold on their stated domains only",
    "float rounding (float32 storage, float32 products inside the kernels, fastmath) is not modelled: theorems are over R, the tie is the per-run correspondence",
]


# ---- replay -------------------------------------------------------------------------------------------------------------
def _arr(v):
    def cv(t):
        return {"nan": float("nan"), "inf": float("inf"), "-inf": float("-inf")}.get(t, t) if isinstance(t, str) else t
    if isinstance(v, list):
        return np.array([[cv(t) for t in r] if isinstance(r, list) else cv(r) for r in v], dtype=np.float64)
    return v


def replay(rep):
    """re-run the stored case on the current tree; True iff it still fails"""
    from vp.common import Ctx
    ctx = Ctx("C12", "quick", 0)
    c = rep.get("case")
    if c is None and rep.get("diffs"):
        # a correspondence disagreement: recompute the implementation value and compare with the stored model value
        dd = rep["diffs"][0]; c = dd["case"]; name = c["metric"]; tag = COVER[name][1]
        P = {k: _arr(v) for k, v in c.get("params", {}).items()}
        P = dict(dict(p=2.0, z=1e-11, w=None, V=None, VI=None), **P)
        o = observe(name, f32(c["x"]), f32(c["y"]), call_args(tag, P))
        mv = dd.get("model")
        mv = float("nan") if mv in (None, "nan") else float(mv)
        print("   %s: implementation %r, model %r" % (name, o.v, mv))
        return not close(tag, o.v, mv)
    if c is None:
        # a broken obligation: the registry tie can be re-checked here; a broken Coq build / theorem needs the full check
        source_tie(ctx)
        for b in ctx.broken:
            print("  ", b)
        stored = rep.get("broken") or []
        tie_only = stored and all(b.startswith(("named_distances has", "registry key", "runtime named_distances")) for b in stored)
        return bool(ctx.broken) if tie_only else True
    if str(c.get("api", "")).startswith("pairwise_special_metric"):
        X = f32(c["X"]); X0 = X.copy(); name = c["metric"]
        if "callable" in c["api"]:
            M = np.asarray(D.pairwise_special_metric(X, metric=D.named_distances[name], kwds={"p": c.get("p", 3.0)}))
        else:
            M = np.asarray(D.pairwise_special_metric(X, metric=name), dtype=np.float64)
        tag = COVER[name][1]; P = dict(p=c.get("p", 2.0), z=1e-11, w=None, V=None, VI=None)
        bad = X.tobytes() != X0.tobytes() or bool(np.isnan(M).any())
        for i in range(len(X0)):
            for j in range(len(X0)):
                if i != j and not close(tag, float(M[i, j]), reference(tag, X0[i], X0[j], P)[0]):
                    bad = True
        return bad
    name = c["metric"]
    if name not in D.named_distances or name not in COVER:
        print("   metric %r is not registered / not modelled" % name); return True
    tag = COVER[name][1]
    P = dict(p=2.0, z=1e-11, w=None, V=None, VI=None)
    P.update({k: _arr(v) for k, v in c.get("params", {}).items()})
    x, y = f32(_arr(c["x"])), f32(_arr(c["y"]))
    if c.get("clause") == "dimension":
        try:
            D.named_distances[name](x, y); return True
        except ValueError:
            return False
    o = observe(name, x, y, call_args(tag, P))
    oracle(ctx, name, tag, x, y, P, o, c.get("kind", "replay"))
    for f in ctx.oracle_fail:
        print("  ", f["signature"], f["summary"])
    return bool(ctx.oracle_fail)

"""C04 — disconnection distance: no edge at or beyond it; isolated <=> NaN row <=> disconnected_vertices; far transform rows are NaN."""
import math, os, json, time
import numpy as np, scipy.sparse as sp
from vp.coqrun import fl, zl, flist, zlist, blist, clist, parse_zlist
from vp import srcparams
import umap, umap.umap_ as U
from umap.utils import disconnected_vertices

VTOL = 5e-3      # graph values model vs implementation (two strengths, each within the C01 tolerance 2e-3)
BAND = 1e-5      # relative half-width around t inside which float32 / float64 distance rounding may decide either way
GAP = 1e-4       # thresholds drawn from quantiles sit in the middle of a gap of at least this relative width
METRIC_MAX = {"cosine": 2.0, "correlation": 2.0, "hellinger": 1.0, "jaccard": 1.0, "dice": 1.0, "bit_jaccard": 1.0}   # mathematical maxima
RULE = ("datasets n 15..40 with a main cluster, 0-2 planted far groups and 0-3 far singletons; kinds {euclidean, cosine, jaccard, hellinger dense input; "
        "euclidean / jaccard sparse input; precomputed dense; precomputed sparse (all / part of the entries stored); euclidean with force_approximation_algorithm}; "
        "disconnection_distance at the {5,30,60,95}% quantiles of the pairwise distances (middle of a gap), above the maximum, None (table default / inf), and for "
        "precomputed input exactly equal to a stored distance; set_op_mix_ratio in {0,.5,1}; init spectral/random; then transform of near / far / mixed / all-far batches. "
        "Coq: stored-edge predicate, NaN / disconnected_vertices masks from the model's row sums, and (pairwise-distinct exact paths) the whole graph of graph_cut. "
        "Non-trivial: a cut removed an entry, a vertex is isolated, most are isolated, threshold equals a distance, default table threshold active, far transform row.")

KINDS = ["euclidean", "cosine", "jaccard", "hellinger", "pre_dense", "pre_sparse", "pre_sparse_part", "approx", "sp_euclidean", "sp_jaccard",
         "knn_euclidean", "knn_jaccard"]      # knn_*: the caller supplies exact kNN tables (precomputed_knn) that list neighbours at / beyond t
QS = [0.05, 0.30, 0.60, 0.95, "above", "default", "tie"]


# ---------------------------------------------------------------------------------------------------
# independent float64 distances (on the float32 values fit works with)
def pdist64(metric, X, Y=None):
    X = np.asarray(X, dtype=np.float32).astype(np.float64)
    Y = X if Y is None else np.asarray(Y, dtype=np.float32).astype(np.float64)
    if metric == "euclidean":
        return np.sqrt(((X[:, None, :] - Y[None, :, :]) ** 2).sum(-1))
    if metric == "cosine":
        nx, ny = np.sqrt((X * X).sum(1)), np.sqrt((Y * Y).sum(1))
        return 1.0 - (X @ Y.T) / (nx[:, None] * ny[None, :])
    if metric == "jaccard":
        a, b = (X != 0), (Y != 0)
        inter = (a[:, None, :] & b[None, :, :]).sum(-1).astype(np.float64)
        union = (a[:, None, :] | b[None, :, :]).sum(-1).astype(np.float64)
        return np.where(union == 0, 0.0, (union - inter) / np.where(union == 0, 1, union))
    if metric == "hellinger":
        s = np.sqrt(X[:, None, :] * Y[None, :, :]).sum(-1)
        l = np.sqrt(X.sum(1)[:, None] * Y.sum(1)[None, :])
        return np.sqrt(np.maximum(0.0, 1.0 - s / l))
    raise ValueError(metric)


def base_metric(kind):
    return {"euclidean": "euclidean", "cosine": "cosine", "jaccard": "jaccard", "hellinger": "hellinger", "pre_dense": "euclidean",
            "pre_sparse": "euclidean", "pre_sparse_part": "euclidean", "approx": "euclidean", "sp_euclidean": "euclidean", "sp_jaccard": "jaccard",
            "knn_euclidean": "euclidean", "knn_jaccard": "jaccard"}[kind]


def gen_points(rng, npr, metric):
    """main cluster + planted far groups + far singletons, rows shuffled; returns (X, labels)"""
    n = rng.randint(15, 40)
    n_single = rng.choice([0, 1, 1, 2, 3])
    gsizes = [rng.randint(2, 5) for _ in range(rng.choice([0, 1, 1, 2]))]
    while n - n_single - sum(gsizes) < 8:
        n += 3
    n_main = n - n_single - sum(gsizes)
    lab = [0] * n_main
    for g, s in enumerate(gsizes):
        lab += [1 + g] * s
    lab += [10 + s for s in range(n_single)]
    if metric == "euclidean":
        dim = rng.randint(2, 5)
        scale = 10 ** rng.uniform(-1, 1.5)
        X = npr.normal(size=(n, dim))
        for l in sorted(set(lab) - {0}):
            v = npr.normal(size=dim); v /= np.linalg.norm(v)
            off = rng.uniform(15, 60) if l < 10 else rng.uniform(80, 400)
            for i in range(n):
                if lab[i] == l:
                    X[i] = X[i] * (0.5 if l < 10 else 1.0) + v * off
        X = X * scale
    elif metric == "cosine":
        dim = rng.randint(3, 6)
        u = npr.normal(size=dim); u /= np.linalg.norm(u)
        X = np.zeros((n, dim))
        dirs = {0: u}
        for l in sorted(set(lab) - {0}):
            w = npr.normal(size=dim); w /= np.linalg.norm(w)
            dirs[l] = -u + 0.3 * w if l == 1 else w - 2.0 * max(0.0, float(w @ u)) * u
        for i in range(n):
            X[i] = (dirs[lab[i]] / np.linalg.norm(dirs[lab[i]]) + 0.25 * npr.normal(size=dim)) * rng.uniform(0.5, 3.0)
    else:  # jaccard (binary) / hellinger (non-negative): disjoint feature blocks make far groups exactly maximal
        blocks, col = {}, 0
        for l in sorted(set(lab)):
            w = 12 if l == 0 else (6 if l < 10 else rng.randint(1, 2))
            blocks[l] = (col, col + w); col += w
        dim = col + rng.randint(0, 3)
        X = np.zeros((n, dim))
        for i in range(n):
            a, b = blocks[lab[i]]
            while True:
                on = npr.random(b - a) < 0.55
                if on.sum() >= min(2, b - a):
                    break
            X[i, a:b] = on * (1.0 if metric == "jaccard" else npr.gamma(2.0, 1.0, size=b - a) + 0.05)
        if lab.count(0) and rng.random() < 0.5:   # a few bridges so that groups are far but not always maximal
            for l in sorted(set(lab) - {0}):
                if l < 10 and rng.random() < 0.5:
                    i = lab.index(l); a, b = blocks[0]
                    X[i, a + rng.randrange(b - a)] = 1.0 if metric == "jaccard" else 0.3
    perm = list(range(n)); rng.shuffle(perm)
    X = X[perm]; lab = [lab[p] for p in perm]
    return np.asarray(X, dtype=np.float32).astype(np.float64), lab


def offdiag(D):
    n = D.shape[0]
    return D[~np.eye(n, dtype=bool)]


def pick_t(D, q):
    """a float32-representable threshold in the middle of a gap (>= GAP relative) near quantile q of the pairwise distances"""
    v = np.unique(offdiag(D))
    if len(v) < 2:
        return None
    pos = int(round(q * (len(v) - 2)))
    for delta in range(len(v)):
        for p in (pos + delta, pos - delta):
            if 0 <= p < len(v) - 1 and v[p + 1] - v[p] > GAP * max(v[p + 1], 1e-12):
                return float(np.float32((v[p] + v[p + 1]) / 2))
    return None


def make_case(rng, npr, kind, qsel):
    metric = base_metric(kind)
    X, lab = gen_points(rng, npr, metric)
    n = X.shape[0]
    D = pdist64(metric, X)
    np.fill_diagonal(D, 0.0)
    pre = kind.startswith("pre_")
    if pre:
        D = np.asarray(D, dtype=np.float32).astype(np.float64)   # the matrix is the input: exactly these values
        D = np.minimum(D, D.T)
    k = rng.randint(3, 8)
    case = dict(kind=kind, metric="precomputed" if pre else metric, base=metric, X=X, D=D, labels=lab, k=k,
                r=rng.choice([0.0, 0.5, 1.0, 1.0]), init=rng.choice(["spectral", "random"]), lc=rng.choice([1, 1, 1, 2]),
                n_epochs=rng.choice([12, 15, 30]), seed=rng.randint(0, 10 ** 6), exact_t=False, q=str(qsel))
    if qsel == "default":
        t = None
    elif qsel == "above":
        t = float(np.float32(offdiag(D).max() * 1.5 + 1.0))
    elif qsel == "tie":
        if pre:   # threshold exactly equal to the nearest-neighbour distance of some sample: that sample must become isolated
            nn = np.sort(D, axis=1)[:, 1]
            cand = [i for i in range(n) if (nn < nn[i]).sum() >= 4] or [int(np.argsort(nn)[min(4, n - 1)])]
            i = rng.choice(cand)
            t = float(nn[i]); case["exact_t"] = True
        elif metric in ("jaccard", "hellinger"):
            t = 1.0; case["exact_t"] = True     # user value equal to the metric's maximum
        else:
            t = pick_t(D, 0.5)
    else:
        t = pick_t(D, qsel)
    if t is None and qsel != "default":
        t = float(np.float32(offdiag(D).max() * 1.5 + 1.0))
    # a threshold that isolates every sample is outside the property's quantifier ("none, some or most"): keep >= 4 connected
    nn = np.sort(D, axis=1)[:, 1]
    te = t if t is not None else METRIC_MAX.get(case["metric"], math.inf)
    if (nn < te * (1 - 2 * BAND)).sum() < 4 and t is not None:
        t = pick_t(D, 0.5) or float(np.float32(offdiag(D).max() * 1.5 + 1.0)); case["exact_t"] = False; case["q"] += "->0.5"
    case["t"] = t
    if kind == "pre_sparse_part":   # keep a symmetric pattern with at least k+2 entries per row
        keep = np.zeros((n, n), bool)
        m = min(n - 1, k + rng.randint(2, 6))
        order = np.argsort(D, axis=1)
        for i in range(n):
            keep[i, order[i, 1:m + 1]] = True
        case["keep"] = keep | keep.T
    return case


def t_effective(case):
    if case["t"] is not None:
        return float(case["t"])
    return METRIC_MAX.get(case["metric"], math.inf)


def fit_input(case):
    kind = case["kind"]
    if kind == "pre_dense":
        return case["D"].copy()
    if kind == "pre_sparse":
        return sp.csr_matrix(case["D"])
    if kind == "pre_sparse_part":
        return sp.csr_matrix(np.where(case["keep"], case["D"], 0.0))
    if kind.startswith("sp_"):
        return sp.csr_matrix(case["X"])
    return case["X"].copy()


def do_fit(case):
    kw = dict(n_neighbors=case["k"], metric=case["metric"], set_op_mix_ratio=case["r"], n_epochs=case["n_epochs"], init=case["init"],
              random_state=case["seed"], local_connectivity=case["lc"], disconnection_distance=case["t"])
    if case["kind"] == "approx":
        kw["force_approximation_algorithm"] = True
    if case["kind"].startswith("knn_"):
        # exact tables computed by the caller (self first, then the other samples by distance, ties by index), as float32 / int64 arrays
        D, n, k = case["D"], case["D"].shape[0], case["k"]
        idx = np.empty((n, k), dtype=np.int64)
        for i in range(n):
            idx[i] = [i] + [int(j) for j in np.argsort(D[i], kind="stable") if j != i][:k - 1]
        dist = np.take_along_axis(D, idx, axis=1).astype(np.float32)
        case["knn_tables"] = (idx.copy(), dist.copy())
        kw["precomputed_knn"] = (idx, dist)
    return umap.UMAP(**kw).fit(fit_input(case))


def case_desc(case, extra=None):
    d = {k: case[k] for k in ("kind", "metric", "base", "k", "r", "init", "lc", "n_epochs", "seed", "t", "exact_t", "q")}
    d["X"] = case["X"]; d["labels"] = case["labels"]
    if case["kind"].startswith("pre_"):
        d["D"] = case["D"]
    if "keep" in case:
        d["keep"] = case["keep"].astype(int)
    if extra:
        d.update(extra)
    return d


def exact_source(case):
    """distances the implementation sees are exactly the ones the oracle holds (or equal t only structurally)"""
    return case["kind"].startswith("pre_") or case["base"] in ("jaccard", "hellinger")


def in_band(case, d, t):
    if not math.isfinite(t):
        return False
    if d == t and exact_source(case):
        return False
    return abs(d - t) <= BAND * max(1.0, abs(t))


# ---------------------------------------------------------------------------------------------------
def oracle_fit(ctx, case, G, emb, dv):
    """the property text, in float64, on the implementation's outputs; returns (iso mask, band_used)"""
    D, t, n = case["D"], t_effective(case), case["D"].shape[0]
    desc = case_desc(case)
    Gc = sp.coo_matrix(G)
    for i, j, v in zip(Gc.row.tolist(), Gc.col.tolist(), Gc.data.tolist()):
        if v == 0:
            continue
        if case["kind"] == "pre_sparse_part" and not case["keep"][i, j]:
            ctx.fail("UMAP.fit.graph_:edge_between_unlisted_pair", "edge (%d,%d) although the sparse matrix stores no distance there" % (i, j), desc); continue
        d = float(D[i, j])
        if d >= t and not in_band(case, d, t):
            ctx.fail("UMAP.fit.graph_:edge_at_or_beyond_disconnection_distance", "edge (%d,%d) of weight %r joins samples at distance %r >= %r" % (i, j, v, d, t), desc)
            break
    iso = np.asarray(abs(G).sum(axis=1)).ravel() == 0
    allnan = np.isnan(emb).all(axis=1)
    anynan = np.isnan(emb).any(axis=1)
    if emb.shape[0] != n:
        ctx.fail("UMAP.fit.embedding_:row_count", "%d rows for %d samples" % (emb.shape[0], n), desc)
        return iso, False
    if not np.array_equal(allnan, iso):
        i = int(np.argwhere(allnan != iso)[0, 0])
        ctx.fail("UMAP.fit.embedding_:nan_rows_ne_isolated", "sample %d: has edge = %s but all-NaN row = %s" % (i, not iso[i], bool(allnan[i])), desc)
    if not np.array_equal(anynan, allnan):
        i = int(np.argwhere(anynan != allnan)[0, 0])
        ctx.fail("UMAP.fit.embedding_:partially_nan_row", "sample %d: row %r" % (i, emb[i].tolist()), desc)
    if not np.all(np.isfinite(emb[~iso])):
        i = int(np.argwhere(~np.isfinite(emb).all(axis=1) & ~iso)[0, 0])
        ctx.fail("UMAP.fit.embedding_:connected_row_not_finite", "sample %d has an edge but row %r" % (i, emb[i].tolist()), desc)
    if not (np.asarray(dv).dtype == bool and np.array_equal(np.asarray(dv), iso)):
        ctx.fail("disconnected_vertices:ne_isolated", "disconnected_vertices reports %r, vertices without edges are %r" % (np.flatnonzero(dv).tolist(), np.flatnonzero(iso).tolist()), desc)
    # which samples must be isolated: with r > 0 and the exact neighbour search, exactly those at or beyond t from every other sample
    # (the nearest other sample is always a kNN member with strength 1, local_connectivity >= 1)
    band = False
    if case["r"] > 0 and case["kind"] not in ("approx", "pre_sparse_part", "supervised"):
        Dm = D + np.where(np.eye(n, dtype=bool), np.inf, 0.0)
        near = [float(x) for x in Dm.min(axis=1)]
        for i in range(n):
            if in_band(case, near[i], t):
                band = True; continue
            want = bool(near[i] >= t)
            if want != bool(iso[i]):
                ctx.fail("UMAP.fit.graph_:isolated_set", "sample %d: nearest other sample at %r, disconnection distance %r, has edge = %s" % (i, near[i], t, not iso[i]), desc)
                break
    return iso, band


def new_points(rng, npr, case, nnear, nfar):
    """points for transform: perturbed training points (near) and points beyond t from everything (far); returns list of (row, class)"""
    X, metric, t = case["X"], case["base"], t_effective(case)
    n, dim = X.shape
    out = []
    for _ in range(nnear):
        i = rng.randrange(n)
        if metric in ("jaccard",):
            y = X[i].copy(); j = rng.randrange(dim); y[j] = 1.0 - y[j]
            if y.sum() == 0: y[j] = 1.0
        elif metric == "hellinger":
            y = X[i] * (1.0 + 0.05 * npr.random(dim))
        else:
            y = X[i] + 0.02 * npr.normal(size=dim) * (np.abs(X).mean() + 1e-9)
        out.append(y)
    for _ in range(nfar):
        if metric == "euclidean":
            v = npr.normal(size=dim); v /= np.linalg.norm(v)
            y = X.mean(0) + v * (np.abs(X).max() * 4 + (t if math.isfinite(t) else 0) * 3 + 1.0)
        elif metric == "cosine":
            y = -X[np.argsort(np.linalg.norm(X, axis=1))[n // 2]] + 0.05 * npr.normal(size=dim)
        else:   # a support disjoint from every training sample when a free column exists, otherwise a rare column
            y = np.zeros(dim); free = np.flatnonzero((X != 0).sum(0) == 0)
            y[free[0] if len(free) else int(np.argmin((X != 0).sum(0)))] = 1.0
        out.append(y)
    order = list(range(len(out))); rng.shuffle(order)
    return np.asarray([out[o] for o in order], dtype=np.float32).astype(np.float64)


def oracle_transform(ctx, case, model, Y, iso, what):
    """far rows all-NaN, clean near rows finite, no partially NaN row; returns (Dnew, per-row class codes for Coq) or None"""
    t = t_effective(case)
    pre = case["kind"] == "pre_dense"
    Dn = pdist64(case["base"], Y, case["X"])
    if pre:
        Dn = np.asarray(Dn, dtype=np.float32).astype(np.float64)
    desc = case_desc(case, dict(Y=Y, what=what))
    far = Dn.min(axis=1) >= t
    banded = np.array([in_band(case, d, t) for d in Dn.min(axis=1)])
    try:
        E = model.transform(np.asarray(Dn if pre else Y, dtype=np.float32))
    except Exception as e:
        if far.all() and not banded.any():
            ctx.fail("UMAP.transform:raises:all_points_disconnected", "%s: %s (every new point is at or beyond %r from all training samples; all-NaN rows required)"
                     % (type(e).__name__, str(e)[:120], t), desc)
        else:
            ctx.fail("UMAP.transform:raises", "%s: %s" % (type(e).__name__, str(e)[:160]), desc)
        return None
    E = np.asarray(E)
    if E.shape[0] != Y.shape[0]:
        ctx.fail("UMAP.transform:row_count", "%d rows for %d points" % (E.shape[0], Y.shape[0]), desc); return None
    k = case["k"]
    codes = []
    for p in range(Y.shape[0]):
        alln, anyn = bool(np.isnan(E[p]).all()), bool(np.isnan(E[p]).any())
        order = np.argsort(Dn[p], kind="stable")[: k + 1]
        dd = Dn[p][order]
        poisoned = any(dd[q] < t and iso[order[q]] for q in range(k))
        tie = any(dd[q + 1] - dd[q] <= 1e-5 * max(dd[q + 1], 1e-12) for q in range(k))
        if banded[p] or any(in_band(case, d, t) for d in dd[:k]):
            codes.append(9); continue
        if far[p]:
            ctx.count("transform_far_rows")
            if not alln:
                ctx.fail("UMAP.transform:far_point_not_nan", "new point %d is at distance >= %r from every training sample (nearest %r) but its row is %r" % (p, t, float(Dn[p].min()), E[p].tolist()), desc)
        elif anyn and not alln:
            ctx.fail("UMAP.transform:partially_nan_row", "new point %d: row %r" % (p, E[p].tolist()), desc)
        elif not poisoned and case["kind"] != "approx":
            ctx.count("transform_near_rows")
            if anyn:
                ctx.fail("UMAP.transform:near_point_nan", "new point %d has training samples within %r (nearest %r, none of them isolated) but its row is NaN" % (p, t, float(Dn[p].min())), desc)
        else:
            ctx.count("transform_rows_with_isolated_neighbour" if poisoned else "transform_near_rows_approx")
        codes.append(9 if (poisoned or tie or case["kind"] == "approx") else (1 if alln else (2 if anyn else 0)))
    return Dn, codes


# ---------------------------------------------------------------------------------------------------
def distinct_rows(case):
    """after the cut, are the first k+1 finite entries of every row separated (kNN set and order well defined)?"""
    D, t, k = case["D"], t_effective(case), case["k"]
    for i in range(D.shape[0]):
        row = np.sort(D[i][D[i] < t]) if case["kind"] != "pre_sparse" else np.sort(np.delete(D[i], i)[np.delete(D[i], i) < t])
        row = row[: k + 1]
        if any(in_band(case, d, t) for d in D[i]):
            return False
        if np.any(np.diff(row) <= 1e-5 * np.maximum(row[1:], 1e-12)):
            return False
    return True


def mat_term(D):
    return "[" + ";\n   ".join(flist(np.asarray(r, dtype=np.float32).astype(np.float64).tolist()) for r in D) + "]"


def coo_term(M):
    M = sp.coo_matrix(M)
    return "[" + "; ".join("(%d%%nat, %d%%nat, %s)" % (i, j, fl(v)) for i, j, v in zip(M.row.tolist(), M.col.tolist(), M.data.tolist())) + "]"


def fit_term(case, mode, G, emb, dv, niter):
    lc = float(case["lc"]); index = int(math.floor(lc)); interp = lc - index
    cfg = "(mkCfg FNum %d%%nat %d%%nat %s %d%%nat %s %s)" % (case["k"], niter, fl(math.log2(case["k"])), index, fl(interp), fl(case["r"]))
    return "(mkFit %s %s %s\n  %s\n  %s\n  %s %s %s)" % (zl(mode), cfg, fl(t_effective(case)), mat_term(case["D"]), coo_term(G),
                                                    blist(np.isnan(emb).all(axis=1).tolist()), blist(np.isnan(emb).any(axis=1).tolist()), blist(np.asarray(dv).tolist()))


def tr_term(case, Dn, codes, iso, niter):
    k = case["k"]
    lc = max(0.0, float(case["lc"]) - 1.0); index = int(math.floor(lc)); interp = lc - index
    rows = []
    for p in range(Dn.shape[0]):
        order = np.argsort(Dn[p], kind="stable")[:k]
        rows.append("[" + "; ".join("(%s, %s%%Z)" % (fl(float(np.float32(Dn[p][o]))), zl(int(o))) for o in order) + "]")
    return "(mkTr %s %d%%nat %s %d%%nat %s %s\n  %s\n  %s)" % (fl(t_effective(case)), niter, fl(math.log2(k)), index, fl(interp), blist(iso.tolist()),
                                                        clist(rows), zlist(codes))


def read_table():
    try:
        return srcparams.module_constants("umap/umap_.py", {"DISCONNECTION_DISTANCES"}).get("DISCONNECTION_DISTANCES")
    except Exception:
        return None


def params_obligation(ctx):
    """the source's DISCONNECTION_DISTANCES table must give every bounded metric its maximum (re-proved on the current values)"""
    from fractions import Fraction
    tab = read_table()
    name = "gen/params_C04.v:disconnection_defaults_are_metric_maxima"
    ctx.obligations.append(name)
    if tab is None:
        ctx.notes.append("DISCONNECTION_DISTANCES could not be extracted; obligation checked on the committed defaults")
        tab = dict(METRIC_MAX)
    ctx.extra["DISCONNECTION_DISTANCES"] = tab
    need = {"cosine": "max_cosine", "correlation": "max_correlation", "hellinger": "max_hellinger", "jaccard": "max_jaccard", "dice": "max_dice"}
    missing = [m for m in need if m not in tab]
    extra = [m for m in tab if m not in need and m != "bit_jaccard"]
    conj = []
    for m, c in need.items():
        if m in tab:
            f = Fraction(tab[m]).limit_denominator(10 ** 9)
            conj.append("(%d / %d = %s)%%R" % (f.numerator, f.denominator, c))
    if "bit_jaccard" in tab:
        f = Fraction(tab["bit_jaccard"]).limit_denominator(10 ** 9)
        conj.append("(%d / %d = max_jaccard)%%R" % (f.numerator, f.denominator))
    text = ("From Coq Require Import Reals Lra.\nFrom UV Require Import T_disconnect.\n"
            "Lemma disconnection_defaults_are_metric_maxima : %s.\nProof. unfold max_cosine, max_correlation, max_hellinger, max_jaccard, max_dice. repeat split; lra. Qed.\n"
            % " /\\ ".join(conj or ["True"]))
    ok = ctx.coq_eval("params_C04", text, what="each DISCONNECTION_DISTANCES entry of the current source equals the proven maximum of its metric") is not None
    if missing or extra:
        ok = False
        ctx.broken.append("DISCONNECTION_DISTANCES: bounded metrics without default %s; entries for metrics with no proven maximum %s" % (missing, extra))
    if ok:
        ctx.discharged.append(name)


def run_case(ctx, rng, npr, case, P, terms, cases, tr_terms, tr_cases):
    desc = case_desc(case)
    n, t = case["D"].shape[0], t_effective(case)
    try:
        m = do_fit(case)
        G = m.graph_.tocsr(); G.sum_duplicates()
        emb = np.asarray(m.embedding_); dv = disconnected_vertices(m)
    except Exception as e:
        ctx.fail("UMAP.fit:raises", "%s: %s" % (type(e).__name__, str(e)[:160]), desc)
        return
    iso, band = oracle_fit(ctx, case, G, emb, dv)
    ncut = int((offdiag(case["D"]) >= t).sum())
    tags = [tg for tg, f in (("cut_active", ncut > 0), ("isolated", iso.any()), ("most_isolated", iso.sum() * 2 > n), ("cut_but_none_isolated", ncut > 0 and not iso.any()),
                             ("t_equals_a_distance", case["exact_t"]), ("table_default", case["t"] is None and math.isfinite(t)), ("r0", case["r"] == 0),
                             ("sparse_input", case["kind"] in ("pre_sparse", "pre_sparse_part", "sp_euclidean", "sp_jaccard")), ("approx", case["kind"] == "approx"), ("precomputed_knn_tables", case["kind"].startswith("knn_"))) if f]
    ctx.tag((case["kind"], case["X"].tobytes(), case["k"], case["r"], str(case["t"])), tags)
    ctx.count("kind_" + case["kind"]); ctx.count("q_" + case["q"]); ctx.count("r=%s" % case["r"]); ctx.count("isolated_fraction_%d0%%" % int(10 * iso.sum() / n))
    ctx.sample(dict(kind=case["kind"], n=n, k=case["k"], r=case["r"], t=case["t"], t_effective=t, isolated=np.flatnonzero(iso).tolist(), edges=int(G.nnz), cut_entries=ncut), 6)
    full = case["kind"] in ("euclidean", "cosine", "hellinger", "jaccard", "pre_dense", "pre_sparse", "sp_euclidean", "sp_jaccard") and distinct_rows(case) and not band
    mode = 2 if not full else (1 if case["kind"] == "pre_sparse" else 0)
    ctx.count("coq_mode_%d" % mode)
    terms.append(fit_term(case, mode, G, emb, dv, P["n_iter"])); cases.append(desc)
    # transform
    if case["kind"] in ("pre_sparse", "pre_sparse_part", "sp_euclidean", "sp_jaccard") or case["kind"].startswith("knn_"):
        return
    batches = [("mixed", 3, 2), ("near", 3, 0)]
    if math.isfinite(t):
        batches.append(("all_far", 0, 2))
    for what, nn, nf in batches:
        Y = new_points(rng, npr, case, nn, nf)
        res = oracle_transform(ctx, case, m, Y, iso, what)
        ctx.evaluations += 1
        if res is not None and what != "all_far":
            Dn, codes = res
            if any(c != 9 for c in codes):
                tr_terms.append(tr_term(case, Dn, codes, iso, P["n_iter"])); tr_cases.append(case_desc(case, dict(Y=Y, what=what)))
            if 1 in codes:
                ctx.tag(("tr", case["X"].tobytes(), Y.tobytes()), ["transform_far_row"])


def weak_case(rng, npr, r, n_epochs):
    """a tight blob plus one or two moderately far outliers, n_neighbors = n - 1 (everybody is everybody's neighbour) and a small
    set_op_mix_ratio: the outliers keep edges in graph_, all far weaker than w_max / n_epochs (the layout stage prunes them
    from its private copy), so they are NOT isolated and must get finite rows"""
    n0 = rng.randint(8, 12); nout = rng.choice([1, 2])
    X = npr.normal(size=(n0 + nout, 2)) * 0.3
    ang = rng.uniform(0, 2 * math.pi)
    for o in range(nout):     # on opposite sides of the blob: never each other's nearest neighbour
        X[n0 + o] = np.array([math.cos(ang + o * math.pi), math.sin(ang + o * math.pi)]) * rng.uniform(8.0, 14.0)
    X = X.astype(np.float32)
    D = pdist64("euclidean", X); np.fill_diagonal(D, 0.0)
    return dict(kind="euclidean", metric="euclidean", base="euclidean", X=X, D=D, labels=[0] * n0 + [1] * nout, k=n0 + nout - 1,
                r=r, init=rng.choice(["spectral", "random"]), lc=1, n_epochs=n_epochs, seed=rng.randint(0, 10 ** 6), exact_t=False, q="weak", t=None)


def run_weak_cases(ctx, rng, npr):
    for r, ne in ([(0.0, 30), (0.001, 200), (0.0, None)] if ctx.tier == "quick" else [(0.0, 30), (0.001, 200), (0.0, None), (0.0005, None), (0.0, 12), (0.002, 500)] * 3):
        case = weak_case(rng, npr, r, ne)
        desc = case_desc(case)
        try:
            m = do_fit(case)
            G = m.graph_.tocsr(); G.sum_duplicates()
            emb = np.asarray(m.embedding_); dv = disconnected_vertices(m)
        except Exception as e:
            ctx.fail("UMAP.fit:raises", "%s: %s" % (type(e).__name__, str(e)[:160]), desc); continue
        iso, _ = oracle_fit(ctx, case, G, emb, dv)
        eff = ne if ne is not None else 500
        wmax = G.data.max() if G.nnz else 0.0
        rowmax = np.asarray(G.max(axis=1).todense()).ravel()
        weak_only = (~iso) & (rowmax < wmax / eff)
        ctx.tag(("weak", case["X"].tobytes(), r, ne), ["r_small"] + (["vertex_with_only_weak_edges"] if weak_only.any() else []))
        ctx.count("weak_attached_case")
        ctx.extra.setdefault("weak_cases", []).append(dict(r=r, n_epochs=ne, isolated=np.flatnonzero(iso).tolist(), strongest_edge_of_last_rows=[float(v) for v in rowmax[-2:]],
                                                          w_max=float(wmax), weak_only=np.flatnonzero(weak_only).tolist()))


def run_supervised_cases(ctx, rng, npr):
    """categorical target with target_weight = 1 (edges between different known labels vanish): a sample all of whose neighbours carry
    another label loses every edge in graph_ -- it is isolated in the FITTED graph and must get an all-NaN row and be reported by
    disconnected_vertices, like a sample isolated by the disconnection distance"""
    for rep in range(2 if ctx.tier == "quick" else 8):
        n = rng.randint(30, 44); k = rng.randint(4, 7)
        X = (npr.normal(size=(n, 3)) + np.where(np.arange(n)[:, None] < n // 2, 0.0, 6.0)).astype(np.float32)
        y = (np.arange(n) >= n // 2).astype(np.int64)
        flip = rng.sample(range(n), 2)
        y[flip] = 1 - y[flip]
        if rep % 2: y[rng.sample([i for i in range(n) if i not in flip], 3)] = -1
        D = pdist64("euclidean", X); np.fill_diagonal(D, 0.0)
        r = [1.0, 0.3][rep % 2]
        case = dict(kind="supervised", metric="euclidean", base="euclidean", X=X, D=D, labels=y.tolist(), k=k, r=r, init=rng.choice(["spectral", "random"]),
                    lc=1, n_epochs=rng.choice([12, 30]), seed=rng.randint(0, 10 ** 6), exact_t=False, q="supervised", t=None)
        desc = case_desc(case, dict(y=y, target_weight=1.0))
        try:
            m = umap.UMAP(n_neighbors=k, set_op_mix_ratio=r, n_epochs=case["n_epochs"], init=case["init"], random_state=case["seed"], target_weight=1.0).fit(X.copy(), y.copy())
            G = m.graph_.tocsr(); G.sum_duplicates()
            emb = np.asarray(m.embedding_); dv = disconnected_vertices(m)
        except Exception as e:
            ctx.fail("UMAP.fit:raises", "%s: %s (supervised, target_weight=1)" % (type(e).__name__, str(e)[:160]), desc); continue
        iso, _ = oracle_fit(ctx, case, G, emb, dv)
        ctx.tag(("supervised", X.tobytes(), y.tobytes(), r), ["supervised_target_weight_1"] + (["isolated_by_supervision"] if iso.any() else []))
        ctx.count("supervised_case")


def run(ctx):
    T0 = time.time(); ctx.check_proofs(["prop/P_C04.v"]); ctx.extra["timing_s"] = {"proofs": round(time.time() - T0, 1)}
    P = srcparams.module_constants("umap/umap_.py", {"SMOOTH_K_TOLERANCE", "MIN_K_DIST_SCALE"})
    dflt = srcparams.func_defaults("umap/umap_.py", "smooth_knn_dist")
    P = {"SMOOTH_K_TOLERANCE": 1e-5, "MIN_K_DIST_SCALE": 1e-3, **P, "n_iter": dflt.get("n_iter", 64)}
    ctx.extra["source_params"] = P
    params_obligation(ctx)
    rng = ctx.rng
    npr = np.random.RandomState(rng.randrange(2 ** 31))
    plan = []
    if ctx.tier == "quick":
        must = {"pre_dense": "tie", "pre_sparse": "tie", "pre_sparse_part": "tie", "jaccard": "default", "hellinger": "tie", "sp_jaccard": "default",
                "cosine": "default", "euclidean": 0.30, "approx": 0.30, "sp_euclidean": 0.05,
                "knn_euclidean": 0.30, "knn_jaccard": "default"}     # the case each path is most sensitive to, every run
        for kind in KINDS:
            qs = [q for q in QS if q != must[kind]]; rng.shuffle(qs)
            plan += [(kind, must[kind])] + [(kind, q) for q in qs[:2]]
    else:
        for rep in range(4):
            plan += [(kind, q) for kind in KINDS for q in QS]
    terms, cases, tr_terms, tr_cases = [], [], [], []
    for kind, q in plan:
        case = make_case(rng, npr, kind, q)
        run_case(ctx, rng, npr, case, P, terms, cases, tr_terms, tr_cases)
    run_weak_cases(ctx, rng, npr)
    run_supervised_cases(ctx, rng, npr)
    ctx.extra["timing_s"]["implementation_and_oracle"] = round(time.time() - T0 - ctx.extra["timing_s"]["proofs"], 1)
    hdr = ("From Coq Require Import List ZArith PrimFloat. From UV Require Import Num FNum M_knn M_disconnect V_disconnect.\n"
           "Import ListNotations. Open Scope float_scope.\n")
    shard = 8
    kinds = {1: "stored edge at or beyond t", 2: "all-NaN mask vs zero row sum", 3: "partially NaN row", 4: "disconnected_vertices vs zero row sum",
             5: "edge the model does not have", 6: "model edge missing", 7: "edge weight", 8: "model's isolated set vs NaN mask"}
    for s in range(0, len(terms), shard):
        text = hdr + "Definition cases : list fit_obs := %s.\nEval vm_compute in map (verdict_C04 %s %s %s) cases.\n" % (
            clist(terms[s:s + shard]), fl(P["SMOOTH_K_TOLERANCE"]), fl(P["MIN_K_DIST_SCALE"]), fl(VTOL))
        blocks = ctx.coq_eval("cases_C04_%d" % (s // shard), text, what="graph_cut / masks vs UMAP.fit")
        if blocks is None:
            continue
        v = parse_zlist(blocks[0])
        if len(v) != len(terms[s:s + shard]):
            ctx.broken.append("C04 verdict list length mismatch"); continue
        for off, code in enumerate(v):
            ctx.traces += 1
            if code != -1:
                kd, rest = divmod(code, 10 ** 6)
                ctx.diff(cases[s + off], "%s at (%d,%d)" % (kinds.get(kd, "?"), rest // 1000, rest % 1000))
    for s in range(0, len(tr_terms), 40):
        text = hdr + "Definition cases : list tr_obs := %s.\nEval vm_compute in map (verdict_C04_tr %s %s) cases.\n" % (
            clist(tr_terms[s:s + 40]), fl(P["SMOOTH_K_TOLERANCE"]), fl(P["MIN_K_DIST_SCALE"]))
        blocks = ctx.coq_eval("cases_C04_tr_%d" % (s // 40), text, what="init_row (new_row ...) vs UMAP.transform")
        if blocks is None:
            continue
        v = parse_zlist(blocks[0])
        if len(v) != len(tr_terms[s:s + 40]):
            ctx.broken.append("C04 transform verdict list length mismatch"); continue
        for off, code in enumerate(v):
            ctx.traces += 1
            if code != -1:
                kd, rest = divmod(code, 10 ** 6)
                ctx.diff(tr_cases[s + off], "transform row %d: %s" % (rest // 1000, {10: "NaN-ness differs from the model", 11: "partially NaN row", 12: "row count"}.get(kd, "?")))
    ctx.extra["timing_s"]["total"] = round(time.time() - T0, 1)
    ctx.partial.append("finiteness of non-isolated rows rests on C05/C07 (clip-bounded moves) and on observation here; NN-descent recall is observed only")
    ctx.partial.append("fit-time layout (shared array, move_other=true): only the frame part of nan_never_spreads applies (a vertex without edges is never written); "
                       "non-interference is proved for the transform-style kernel (separate reference layout), in fit the NaN rows are assigned after the optimisation")
    ctx.partial.append("the dense path (cut the matrix, then take k nearest) and the kNN-table paths (take k nearest, then cut) are modelled separately; their equality is observed, not proved")
    return ctx.finish(RULE, assumptions=["distances of named metrics are recomputed in float64 by the harness; thresholds are placed in gaps (>= %g relative) so that float32 rounding cannot decide an edge; "
                                           "exact equality of a distance and the threshold is exercised with precomputed input and with the structural maxima of jaccard / hellinger" % GAP,
                                           "new points whose in-range neighbours include an isolated (NaN) training sample are not compared (their rows may legitimately be NaN)",
                                           "a disconnection distance that isolates every sample is outside the property's quantifier (fit raises there) and is not generated"])


def replay(rep):
    """re-run the stored case on the current tree; True iff the oracle still fails"""
    from vp.common import Ctx
    c = rep.get("case") or (rep.get("diffs") or [{}])[0].get("case")
    if not c:
        return True
    def num(x):
        return math.inf if x == "inf" else (-math.inf if x == "-inf" else (math.nan if x == "nan" else x))
    def arr(x):
        return np.array([[num(v) for v in r] for r in x], dtype=np.float64)
    case = dict(kind=c["kind"], metric=c["metric"], base=c["base"], k=c["k"], r=c["r"], init=c["init"], lc=c["lc"], n_epochs=c["n_epochs"], seed=c["seed"],
                t=None if c["t"] is None else num(c["t"]), exact_t=c["exact_t"], q=c["q"], X=arr(c["X"]), labels=c["labels"])
    case["D"] = arr(c["D"]) if "D" in c else pdist64(case["base"], case["X"])
    np.fill_diagonal(case["D"], 0.0)
    if "keep" in c:
        case["keep"] = np.array(c["keep"], dtype=bool)
    ctx = Ctx("C04", "quick", 0)
    try:
        m = do_fit(case)
        G = m.graph_.tocsr(); G.sum_duplicates()
        iso, _ = oracle_fit(ctx, case, G, np.asarray(m.embedding_), disconnected_vertices(m))
        if "Y" in c:
            oracle_transform(ctx, case, m, arr(c["Y"]), iso, c.get("what", "replay"))
    except Exception as e:
        ctx.fail("UMAP.fit:raises", "%s: %s" % (type(e).__name__, e), c)
    for f in ctx.oracle_fail:
        print("  ", f["signature"], f["summary"])
    want = rep.get("signature")
    return any(f["signature"] == want for f in ctx.oracle_fail) if want else bool(ctx.oracle_fail)

"""C03 — the graph depends on the data only through the chosen metric's distances."""
import math
import numpy as np, scipy.sparse as sp
from vp.coqrun import fl, zl, flist, clist, parse_zlist
from vp import srcparams
import umap, umap.umap_ as U
import umap.distances as dist

TOL_PRE = 1e-4     # named metric vs precomputed (float32 vs float64 distance rounding, observed ~4e-6)
TOL_PERM = 1e-5    # sample permutation
TOL_FEAT = 1e-4    # feature permutation / translation (Euclidean)
TOL_SCALE = 2e-3   # rescaling of all distances (two calibrations inside the C01 tolerance band)
TOL_MODEL = 4e-3   # model graph vs implementation graph (two strengths, each within the C01 strength tolerance 2e-3)
RULE = ("for each metric name accepted by UMAP.fit on dense data (keys of umap.distances.named_distances and of pynndescent's registry as imported by umap_.py, "
        "minus those needing special data, listed in the evidence) with kwds for minkowski / wminkowski / seuclidean / mahalanobis: random data n 20..40 whose rows have "
        "pairwise-distinct distances (binary metrics: distinct among the k+2 nearest); fit(metric=m) vs fit(metric='precomputed') on the registry function's float64 distances "
        "(same support, abs 1e-4), both vs graph_of_dist evaluated in Coq (abs 4e-3), sample permutation (abs 1e-5), distances x {1e-3,13,1e4,2^-27,2^27} (abs 2e-3), "
        "Euclidean feature permutation / translation (abs 1e-4), data rescaling for homogeneous metrics.  quick: euclidean (twice) + 17 names drawn with the seed (one with kwds, one binary, one on positive data guaranteed); thorough: all. "
        "Non-trivial: every case (each relates at least two fits); tags record kwds / data class / relation kinds.")

SKIP = {
    "categorical": "discrete label metric (scalar arguments)", "ordinal": "discrete label metric (scalar arguments)", "count": "discrete label metric (scalar arguments)",
    "hierarchical_categorical": "needs a category hierarchy", "string": "string data",
    "ll_dirichlet": "self-distance is NaN / non-zero (C12 finding): the matrix of its distances is not accepted as precomputed input",
    "bit_hamming": "bit-packed uint8 data", "bit_jaccard": "bit-packed uint8 data",
    "kantorovich": "needs a cost matrix", "wasserstein": "needs a cost matrix", "sinkhorn": "needs a cost matrix",
    "dot": "not a distance (negative values)", "inner_product": "not a distance (negative values)", "alternative_dot": "not a distance", "alternative_cosine": "not a distance",
    "tsss": "self-distance NaN", "true_angular": "self-distance is float32 max",
    "alternative_jaccard": "unbounded -log transform of jaccard (infinite for disjoint rows)", "alternative_hellinger": "unbounded -log transform",
}
TRUE_METRIC_MAXIMA = {"correlation": 2, "cosine": 2, "hellinger": 1, "jaccard": 1, "bit_jaccard": 1, "dice": 1}
BINARY = {"hamming", "jaccard", "dice", "matching", "kulsinski", "rogerstanimoto", "russellrao", "sokalsneath", "sokalmichener", "yule"}
POSITIVE = {"hellinger", "symmetric_kl", "jensen_shannon", "jensen-shannon", "symmetric-kl", "symmetric_kullback_liebler", "braycurtis", "canberra",
            "kantorovich_1d", "kantorovich-1d", "wasserstein_1d", "wasserstein-1d", "circular_kantorovich", "circular_wasserstein"}
HOMOGENEOUS = {"euclidean", "l2", "manhattan", "taxicab", "l1", "chebyshev", "linfinity", "linfty", "linf", "minkowski"}
SLOW = {"spearmanr", "circular_kantorovich", "circular_wasserstein", "kantorovich_1d", "kantorovich-1d", "wasserstein_1d", "wasserstein-1d"}   # thorough tier only (JIT 2-8 s each)
KWD = {"minkowski", "wminkowski", "weighted_minkowski", "seuclidean", "standardised_euclidean", "mahalanobis"}


def registry():
    reg = dict(getattr(U, "pynn_named_distances", {}))
    reg.update(dist.named_distances)          # fit looks in umap.distances first
    return reg


def accepted_names():
    return sorted(n for n in registry() if n not in SKIP)


def data_class(m):
    if m in BINARY: return "binary"
    if m in POSITIVE: return "positive"
    if m == "haversine": return "haversine"
    if m == "poincare": return "poincare"
    return "real"


def gen_data(rng, npr, m, n, signed=False):
    cls = data_class(m)
    if signed and cls == "positive":
        cls = "real"          # braycurtis / canberra are defined (and unbounded / bounded by dim) on mixed-sign data as well
    if cls == "binary":
        # binary metrics take few distinct values (hamming: multiples of 1/dim): many features and row densities away from 1/2
        # spread the distances enough for the k+2 nearest of every row to be pairwise distinct after a few draws
        dim = rng.randint(3000, 6000)
        p = np.where(npr.random(n) < 0.5, npr.uniform(0.04, 0.35, n), npr.uniform(0.65, 0.96, n))
        X = (npr.random((n, dim)) < p[:, None]).astype(np.float32)
    elif cls == "positive":
        dim = rng.randint(4, 8)
        X = (npr.gamma(2.0, 1.0, size=(n, dim)) + 0.1).astype(np.float32)
    elif cls == "haversine":
        X = np.c_[npr.uniform(-1.4, 1.4, n), npr.uniform(-3.0, 3.0, n)].astype(np.float32)
    elif cls == "poincare":
        X = (npr.normal(size=(n, 3)) * 0.25).astype(np.float32)
        X /= np.maximum(1.0, np.linalg.norm(X, axis=1, keepdims=True) / 0.9)
    else:
        dim = rng.randint(3, 8) if m != "spearmanr" else rng.randint(40, 80)     # rank correlation takes few values in low dimension
        X = (npr.normal(size=(n, dim)) * 10 ** rng.uniform(-1, 1.5)).astype(np.float32)
    return X


def gen_kwds(rng, npr, m, dim):
    if m == "minkowski":
        return {"p": rng.choice([1.5, 3.0, 4.0])}
    if m in ("wminkowski", "weighted_minkowski"):
        kw = {"w": npr.uniform(0.5, 2.0, dim), "p": rng.choice([1.5, 3.0])}
        return kw if rng.random() < 0.5 else {"p": kw["p"], "w": kw["w"]}     # dict order must not matter
    if m in ("seuclidean", "standardised_euclidean"):
        return {"sigma": npr.uniform(0.5, 2.0, dim)}
    if m == "mahalanobis":
        a = npr.normal(size=(dim, dim))
        return {"vinv": a @ a.T / dim + np.eye(dim)}
    return {}


def pairwise(f, X, kw):
    n = X.shape[0]
    D = np.zeros((n, n), dtype=np.float64)
    for i in range(n):
        for j in range(n):
            D[i, j] = f(X[i], X[j], **kw)
    return D


def rows_distinct(D, k, whole):
    """every row: sorted entries separated by a relative gap > 1e-5 (all of them, or the first k+2)"""
    for i in range(D.shape[0]):
        if not np.all(np.isfinite(D[i])) or np.any(D[i] < 0):      # (russellrao, kulsinski, ... have non-zero self-distances: allowed)
            return False
        r = np.sort(D[i])
        if not whole:
            r = r[: k + 2]
        if np.any(np.diff(r) <= 1e-5 * np.maximum(r[1:], 1e-30)):
            return False
    return True


def fit_graph(data, metric, k, r, lc, kw=None, **extra):
    m = umap.UMAP(n_neighbors=k, metric=metric, metric_kwds=kw or None, set_op_mix_ratio=r, local_connectivity=lc, n_epochs=0, init="random",
                  random_state=1, **extra).fit(data)
    g = m.graph_.tocsr(); g.sum_duplicates(); g.eliminate_zeros()
    return g


def compare(ga, gb, tol):
    """(same support?, max abs difference, first differing pair)"""
    a, b = np.asarray(ga.todense(), dtype=np.float64), np.asarray(gb.todense(), dtype=np.float64)
    sup = (a != 0) != (b != 0)
    diff = np.abs(a - b)
    where = tuple(int(x) for x in (np.argwhere(sup)[0] if (sup.any() and diff.max() <= tol) else np.unravel_index(diff.argmax(), diff.shape)))
    return (not sup.any()), float(diff.max()), where


def coo_term(M):
    M = sp.coo_matrix(M)
    return "[" + "; ".join("(%d%%nat, %d%%nat, %s)" % (i, j, fl(v)) for i, j, v in zip(M.row.tolist(), M.col.tolist(), M.data.tolist())) + "]"


def mat_term(D):
    return "[" + ";\n   ".join(flist(np.asarray(r, dtype=np.float32).astype(np.float64).tolist()) for r in D) + "]"


def kw_desc(kw):
    return {k: (np.asarray(v).tolist() if hasattr(v, "__len__") else v) for k, v in kw.items()}


def make_case(rng, npr, m, reg, signed=False):
    for attempt in range(200):
        n = rng.randint(20, 40)
        k = rng.randint(3, 9)
        if data_class(m) == "binary":
            n, k = rng.randint(20, 26), rng.randint(3, 4)
        if signed:
            n = rng.randint(22, 30); k = rng.randint(n // 2, n - 4)     # wide neighbourhoods: kNN distances of mixed-sign data exceed 1
        X = gen_data(rng, npr, m, n, signed)
        kw = gen_kwds(rng, npr, m, X.shape[1])
        try:
            D = pairwise(reg[m], X, kw)
        except Exception as e:
            return dict(metric=m, X=X, kw=kw, error="%s: %s" % (type(e).__name__, str(e)[:120]))
        D = np.where(np.eye(n, dtype=bool), 0.0, D) if np.all(np.abs(np.diag(D)) < 1e-6) else D
        # the metrics whose maximum is their default disconnection distance -- fixed HERE (the mathematical maxima), not read from the
        # implementation's table: an entry added there must not make the generator avoid the very data that exposes it
        bound = TRUE_METRIC_MAXIMA.get(m)
        if bound is not None and D.max() >= bound * (1 - 1e-6):
            continue   # the named metric's default disconnection distance would cut an entry the precomputed fit keeps: C04's subject
        if rows_distinct(D, k, data_class(m) != "binary"):
            return dict(metric=m, X=X, kw=kw, D=D, n=n, k=k, r=rng.choice([1.0, 1.0, 0.5, 0.0]), lc=rng.choice([1, 1, 2, 1.5, 2.25]))
    return dict(metric=m, X=X, kw=kw, error="no data set with pairwise-distinct distances found in 200 draws")


def desc_of(case, **extra):
    d = dict(metric=case["metric"], metric_kwds=kw_desc(case["kw"]), X=case["X"], k=case.get("k"), r=case.get("r"), lc=case.get("lc"))
    d.update(extra)
    return d


def relations(ctx, rng, npr, case, reg):
    """all impl-vs-impl relations of the property on one data set; returns (G_named, G_pre) or None"""
    m, X, kw, D, n, k, r, lc = (case[x] for x in ("metric", "X", "kw", "D", "n", "k", "r", "lc"))
    try:
        g_named = fit_graph(X, m, k, r, lc, kw)
    except Exception as e:
        ctx.fail("UMAP.fit:raises:%s" % m, "%s: %s" % (type(e).__name__, str(e)[:160]), desc_of(case)); return None
    try:
        g_pre = fit_graph(D, "precomputed", k, r, lc)
    except Exception as e:
        ctx.fail("UMAP.fit:precomputed_raises:%s" % m, "%s: %s" % (type(e).__name__, str(e)[:160]), desc_of(case)); return None
    same, md, w = compare(g_named, g_pre, TOL_PRE)
    if not same or md > TOL_PRE:
        ctx.fail("UMAP.fit:named_vs_precomputed:%s" % m, "metric=%r%s and metric='precomputed' on its distances differ at %s: %s (max abs difference %.3g)"
                 % (m, " kwds %s" % sorted(kw) if kw else "", w, "support" if not same else "weights", md), desc_of(case, relation="named_vs_precomputed"))
    # sample permutation
    perm = list(range(n)); rng.shuffle(perm); perm = np.array(perm)
    for what, data, met, kws, base in (("named", X[perm], m, kw, g_named), ("precomputed", D[perm][:, perm], "precomputed", None, g_pre)):
        try:
            gp = fit_graph(data, met, k, r, lc, kws)
        except Exception as e:
            ctx.fail("UMAP.fit:raises:%s" % m, "%s: %s (permuted samples)" % (type(e).__name__, str(e)[:160]), desc_of(case, perm=perm)); continue
        same, md, w = compare(gp, base[perm][:, perm], TOL_PERM)
        ctx.evaluations += 1
        if not same or md > TOL_PERM:
            ctx.fail("UMAP.fit:sample_permutation", "%s fit of the permuted samples is not the permuted graph at %s (%s, max abs difference %.3g), metric %s"
                     % (what, w, "support" if not same else "weights", md, m), desc_of(case, relation="sample_permutation_" + what, perm=perm))
    # rescaling all distances
    for c in (1e-3, 13.0, 1e4, 2.0 ** -27, 2.0 ** 27):   # the powers of two reach the limits of the bandwidth search budget
        try:
            gs = fit_graph(D * c, "precomputed", k, r, lc)
        except Exception as e:
            ctx.fail("UMAP.fit:precomputed_raises:%s" % m, "%s: %s (distances x %g)" % (type(e).__name__, str(e)[:160], c), desc_of(case, factor=c)); continue
        # values only: when log2(k) is not attainable (e.g. k=4, local_connectivity=2) any bandwidth below a bound is calibrated, and an
        # edge of weight ~1e-7 may underflow to an absent entry after rescaling; such differences are far inside the tolerance
        same, md, w = compare(gs, g_pre, TOL_SCALE)
        ctx.evaluations += 1
        if not same: ctx.count("scaling_support_differs_below_tolerance")
        if md > TOL_SCALE:
            ctx.fail("UMAP.fit:distance_scaling", "graph changes at %s (max abs difference %.3g) when all distances are multiplied by %g"
                     % (w, md, c), desc_of(case, relation="distance_scaling", factor=c))
    if m in HOMOGENEOUS:
        c = rng.choice([1e-2, 30.0])
        gs = fit_graph(X * np.float32(c), m, k, r, lc, kw)
        same, md, w = compare(gs, g_named, TOL_SCALE)
        ctx.evaluations += 1
        if md > TOL_SCALE:
            ctx.fail("UMAP.fit:data_scaling", "graph of %s changes at %s (max abs difference %.3g) when the data are multiplied by %g" % (m, w, md, c),
                     desc_of(case, relation="data_scaling", factor=c))
    if m in ("euclidean", "l2"):
        fp = list(range(X.shape[1])); rng.shuffle(fp)
        gf = fit_graph(X[:, fp], m, k, r, lc)
        same, md, w = compare(gf, g_named, TOL_FEAT)
        ctx.evaluations += 1
        if not same or md > TOL_FEAT:
            ctx.fail("UMAP.fit:feature_permutation", "Euclidean graph changes at %s (max abs difference %.3g) under a permutation of the features" % (w, md),
                     desc_of(case, relation="feature_permutation", feature_perm=fp))
        # translation: data and shift on a dyadic grid (multiples of 2^-G, all magnitudes below 2^(22-G)) so that X + shift is EXACT in float32 --
        # otherwise the rounding of the float32 sum perturbs the data (relative 6e-8 of the shifted magnitude), which a fractional
        # local_connectivity and a small bandwidth amplify to more than the tolerance (seed 6: 1.2e-4): that is not a translation
        shift64 = npr.normal(size=X.shape[1]) * float(np.abs(X).mean()) * rng.choice([1.0, 5.0])
        top = float(np.abs(X).max() + np.abs(shift64).max())
        G = 22 - int(np.ceil(np.log2(max(top, 1e-30)))) - 1
        Xq = np.round(X.astype(np.float64) * 2.0 ** G) / 2.0 ** G
        sq = np.round(shift64 * 2.0 ** G) / 2.0 ** G
        Xa, Xb = Xq.astype(np.float32), (Xq + sq).astype(np.float32)
        if np.array_equal(Xa.astype(np.float64), Xq) and np.array_equal(Xb.astype(np.float64), Xq + sq) and len(np.unique(Xa, axis=0)) == len(Xa):
            ga, gt = fit_graph(Xa, m, k, r, lc), fit_graph(Xb, m, k, r, lc)
            same, md, w = compare(gt, ga, TOL_FEAT)
            ctx.evaluations += 1
            if not same or md > TOL_FEAT:
                ctx.fail("UMAP.fit:translation", "Euclidean graph changes at %s (max abs difference %.3g) under an (exactly representable) translation of the data" % (w, md),
                         desc_of(dict(case, X=Xa), relation="translation", shift=sq.astype(np.float32)))
        else:
            ctx.count("translation_skipped_not_exactly_representable")
    return g_named, g_pre


def kwd_sequences(ctx, rng, npr, reg, names):
    """the same named metric fitted repeatedly in one process with DIFFERENT metric_kwds values, on dense and on CSR input (the sparse
    small-data path reaches umap's own pairwise fallback): every fit must equal the precomputed fit on its own distances"""
    # "seuclidean:V" / "mahalanobis:VI": the array keyword under SciPy's name (UMAP passes keyword VALUES positionally to its own metric,
    # so any name is accepted; names its registry does not know take the generic pairwise fallback also for dense input)
    ALT = {"V": "sigma", "VI": "vinv"}
    for mk in ("minkowski", "wminkowski", "seuclidean", "seuclidean:V", "mahalanobis", "mahalanobis:VI"):
        m, _, alt = mk.partition(":")
        if m not in names:
            continue
        n, k = rng.randint(24, 34), rng.randint(4, 7)
        X = gen_data(rng, npr, m, n)
        dim = X.shape[1]
        if m == "mahalanobis":
            def spd(scale):
                a = npr.normal(size=(dim, dim)) * scale
                return a @ a.T / dim + np.eye(dim)
            kws = [{alt or "vinv": spd(1.0)}, {alt or "vinv": spd(3.0)}, {alt or "vinv": np.eye(dim)}]
        elif alt:
            kws = [{alt: (np.abs(npr.normal(size=dim)) + 0.3)}, {alt: (np.abs(npr.normal(size=dim)) * 3 + 0.3)}, {alt: np.ones(dim)}]
        elif m == "minkowski":
            kws = [{"p": 3.0}, {"p": 1.5}, {"p": 3.0}]
        elif m == "wminkowski":
            kws = [{"w": (np.abs(npr.normal(size=dim)) + 0.3), "p": 2.0}, {"w": (np.abs(npr.normal(size=dim)) * 3 + 0.3), "p": 2.0}]
        else:
            kws = [{"sigma": (np.abs(npr.normal(size=dim)) + 0.3)}, {"sigma": (np.abs(npr.normal(size=dim)) * 3 + 0.3)}]
        for sparse in (False, True):
            for step, kw in enumerate(kws):
                case = dict(metric=m, X=X, kw=kw, n=n, k=k, r=1.0, lc=1)
                try:
                    D = pairwise(reg[m], X, {ALT.get(a_, a_): v_ for a_, v_ in kw.items()})
                    D = np.where(np.eye(n, dtype=bool), 0.0, D)
                    g_pre = fit_graph(D, "precomputed", k, 1.0, 1)
                except Exception as e:
                    ctx.notes.append("kwd sequence %s: reference not computable (%s)" % (m, type(e).__name__)); break
                try:
                    g_named = fit_graph(sp.csr_matrix(X) if sparse else X, m, k, 1.0, 1, kw)
                except Exception as e:
                    if sparse:
                        ctx.count("csr_input_not_accepted_" + m); break
                    ctx.fail("UMAP.fit:raises:%s" % m, "%s: %s" % (type(e).__name__, str(e)[:160]), desc_of(case)); break
                same, md, w = compare(g_named, g_pre, TOL_PRE)
                ctx.evaluations += 1
                ctx.tag(("kwseq", m, sparse, step, X.tobytes()), ["kwds", "repeated_fit_new_kwds"] + (["csr_input"] if sparse else []))
                if not same or md > TOL_PRE:
                    ctx.fail("UMAP.fit:named_vs_precomputed:%s:repeated_fit_new_kwds" % m,
                             "fit number %d with metric=%r on %s input and kwds %s differs from the precomputed fit on ITS distances at %s (max abs difference %.3g)"
                             % (step + 1, m, "CSR" if sparse else "dense", kw_desc(kw), w, md), desc_of(case, relation="named_vs_precomputed", sparse_input=sparse, fit_number=step + 1))


def run(ctx):
    ctx.check_proofs(["prop/P_C03.v"])
    P = srcparams.module_constants("umap/umap_.py", {"SMOOTH_K_TOLERANCE", "MIN_K_DIST_SCALE"})
    dflt = srcparams.func_defaults("umap/umap_.py", "smooth_knn_dist")
    P = {"SMOOTH_K_TOLERANCE": 1e-5, "MIN_K_DIST_SCALE": 1e-3, **P, "n_iter": dflt.get("n_iter", 64)}
    ctx.extra["source_params"] = P
    rng = ctx.rng
    npr = np.random.RandomState(rng.randrange(2 ** 31))
    reg = registry()
    names = accepted_names()
    ctx.extra["metric_names_accepted"] = names
    ctx.extra["metric_names_skipped"] = {n: SKIP[n] for n in sorted(reg) if n in SKIP}
    if ctx.tier == "quick":
        fast = [n for n in names if n not in SLOW and n != "euclidean"]
        pick = ["euclidean", rng.choice(sorted(KWD & set(fast))), rng.choice(sorted(BINARY & set(fast))), rng.choice(sorted((POSITIVE - SLOW) & set(fast)))]
        rest = [n for n in fast if n not in pick]
        rng.shuffle(rest)
        plan = pick + rest[:14]
        plan += ["euclidean"]          # a second Euclidean data set (feature permutation / translation)
        plan += [("braycurtis", "signed"), ("canberra", "signed")]     # mixed-sign data, wide neighbourhoods (distances beyond 1)
    else:
        plan = names * 3 + ["euclidean", "l2"] * 6 + [("braycurtis", "signed"), ("canberra", "signed")] * 4
    ctx.extra["metrics_this_run"] = plan
    terms, cases = [], []
    for m in plan:
        signed = isinstance(m, tuple)
        if signed: m = m[0]
        if m not in names: continue
        case = make_case(rng, npr, m, reg, signed)
        if "error" in case:      # not a property failure: the harness could not build an admissible input for this name
            ctx.notes.append("no admissible data set for metric %s: %s" % (m, case["error"])); ctx.count("generator_gave_up"); continue
        res = relations(ctx, rng, npr, case, reg)
        tags = ["metric_" + m, "data_" + ("signed" if signed else data_class(m))] + (["kwds"] if case["kw"] else []) + (["r<1"] if case["r"] < 1 else []) + (["lc2"] if case["lc"] == 2 else [])
        ctx.tag((m, case["X"].tobytes(), case["k"], case["r"]), tags)
        ctx.count("n<=30" if case["n"] <= 30 else "n>30"); ctx.count("k=%d" % case["k"]); ctx.count("class_" + data_class(m))
        ctx.sample(dict(metric=m, kwds=sorted(case["kw"]), n=case["n"], dim=int(case["X"].shape[1]), k=case["k"], r=case["r"], lc=case["lc"],
                        dist_min=float(np.delete(case["D"], range(0, case["n"] ** 2, case["n"] + 1)).min()), dist_max=float(case["D"].max())), 8)
        if res is None:
            continue
        lc = float(case["lc"]); index = int(math.floor(lc)); interp = lc - index
        cfg = "(mkCfg FNum %d%%nat %d%%nat %s %d%%nat %s %s)" % (case["k"], P["n_iter"], fl(math.log2(case["k"])), index, fl(interp), fl(case["r"]))
        terms.append("(mkDist %s\n  %s\n  [%s;\n   %s])" % (cfg, mat_term(case["D"]), coo_term(res[0]), coo_term(res[1])))
        cases.append(desc_of(case, relation="model"))
    kwd_sequences(ctx, rng, npr, reg, names)
    hdr = ("From Coq Require Import List ZArith PrimFloat. From UV Require Import Num FNum M_knn V_knn.\n"
           "Import ListNotations. Open Scope float_scope.\n")
    shard = 8
    for s in range(0, len(terms), shard):
        text = hdr + "Definition cases : list dist_obs := %s.\nEval vm_compute in map (verdict_C03 %s %s %s) cases.\n" % (
            clist(terms[s:s + shard]), fl(P["SMOOTH_K_TOLERANCE"]), fl(P["MIN_K_DIST_SCALE"]), fl(TOL_MODEL))
        blocks = ctx.coq_eval("cases_C03_%d" % (s // shard), text, what="graph_of_dist D vs fit(metric=m) and fit(metric='precomputed')")
        if blocks is None:
            continue
        v = parse_zlist(blocks[0])
        if len(v) != len(terms[s:s + shard]):
            ctx.broken.append("C03 verdict list length mismatch"); continue
        for off, code in enumerate(v):
            ctx.traces += 1
            if code != -1:
                kd, rest = divmod(code, 10 ** 6)
                ctx.diff(cases[s + off], "%s graph: %s at (%d,%d)" % (("named-metric", "precomputed")[min(kd // 10, 1)],
                         {1: "edge the model does not have", 2: "model edge missing", 3: "edge weight"}.get(kd % 10, "?"), rest // 1000, rest % 1000))
    ctx.partial.append("graph_perm_equivariant for the whole pipeline (kNN + bandwidth search + union) is proved in its parts: knn_equivariant (rows pairwise distinct) and "
                       "graph_relabel on the assembled matrix; the bandwidth stage's invariance under reordering of the rows is observed (oracle), not proved")
    ctx.partial.append("'named metric == precomputed' is definitional in the model (both are graph_of_dist); its content is the dispatch in fit, decided by the correspondence and the oracle")
    return ctx.finish(RULE, assumptions=["D_m is computed by calling the registry function of the name pairwise in float64 on the float32 data (C12 ties that function to its definition)",
                                           "data sets whose distances reach a bounded metric's default disconnection distance are not generated here (C04's subject)",
                                           "metric names skipped, with reasons: " + "; ".join("%s (%s)" % (n, SKIP[n]) for n in sorted(reg) if n in SKIP)])


def replay(rep):
    from vp.common import Ctx
    import random
    c = rep.get("case") or (rep.get("diffs") or [{}])[0].get("case")
    if not c:
        return True
    reg = registry()
    m = c["metric"]
    kw = {k: (np.asarray(v, dtype=np.float64) if isinstance(v, list) else v) for k, v in (c.get("metric_kwds") or {}).items()}
    X = np.asarray(c["X"], dtype=np.float32)
    ctx = Ctx("C03", "quick", 0)
    try:
        D = pairwise(reg[m], X, kw)
        case = dict(metric=m, X=X, kw=kw, D=D, n=X.shape[0], k=c["k"], r=c["r"], lc=c["lc"])
        relations(ctx, random.Random(0), np.random.RandomState(0), case, reg)
    except Exception as e:
        ctx.fail("replay:raises", "%s: %s" % (type(e).__name__, e), c)
    for f in ctx.oracle_fail:
        print("  ", f["signature"], f["summary"])
    want = rep.get("signature")
    return any(f["signature"] == want for f in ctx.oracle_fail) if want else bool(ctx.oracle_fail)

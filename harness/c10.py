"""C10 — transform honours its contract at every point of a model's history."""
import ast, copy, hashlib, os, time
import numpy as np, scipy.sparse as sp
from vp.coqrun import clist, parse_zlist
from vp import srcparams, link
import umap

RULE = ("every call history up to length L over {transform(current training data), transform(first training data), "
        "transform(new A), transform(new B), inverse_transform(2 points), update(2 rows)} is executed on a fitted 30-point model "
        "(depth-first, the model is deep-copied at every branching so each history runs on exactly the state its prefix left): "
        "exact/embedding L=3 (thorough 4, and 5 over the four transform/update ops, plus empty-input and version-1 ops at L=2), exact/graph L=3 (4); "
        "forced NN-descent/embedding: quick = five long histories (6-18 calls, each on a fresh fit, every prefix checked; a new index state costs 1-3 s), "
        "thorough = all histories L=3 as well; thorough also unseeded exact L=2 and NN-descent/graph L=2; plus two histories that transform other data with "
        "exactly as many rows as the training set. "
        "Observed per call: error class, result shape, `result equals the stored embedding_/graph_`, sha256 of the result; Coq runs "
        "M_history.step over the same history and compares exactly (verdict_C10).  Non-trivial history: contains an update, hits the "
        "shortcut, repeats a transform input, or ends in an error.")

N1, NF, NC, KNN, NEP = 30, 4, 2, 5, 30


# ---- facts about the text of update(), read from the current source ------------------------------------
def source_flags(ctx=None):
    """refresh_key: update() assigns self._input_hash; graph_guard: update() raises under a test on transform_mode;
    stack_in_order: update() does not adopt the search index's (tree-ordered) copy of the data as _raw_data."""
    try:
        tree = ast.parse(open(os.path.join(srcparams.REPO, "umap/umap_.py")).read())
        node = None
        for cls in tree.body:
            if isinstance(cls, ast.ClassDef) and cls.name == "UMAP":
                for f in cls.body:
                    if isinstance(f, ast.FunctionDef) and f.name == "update":
                        node = f
        refresh = guard = False
        in_order = True
        for n in ast.walk(node):
            if isinstance(n, ast.Assign):
                for t in n.targets:
                    if isinstance(t, ast.Attribute) and t.attr == "_input_hash":
                        refresh = True
                    if (isinstance(t, ast.Attribute) and t.attr == "_raw_data" and isinstance(n.value, ast.Attribute) and n.value.attr == "_raw_data"
                            and isinstance(n.value.value, ast.Attribute) and n.value.value.attr == "_knn_search_index"):
                        in_order = False
            if isinstance(n, ast.If) and any(isinstance(a, ast.Attribute) and a.attr == "transform_mode" for a in ast.walk(n.test)):
                if any(isinstance(b, ast.Raise) for b in ast.walk(n)):
                    guard = True
        return (refresh, guard, in_order), True
    except Exception as e:  # fail-soft: the repaired behaviour
        if ctx is not None:
            ctx.notes.append("could not read update() from the source (%s); assuming the repaired behaviour" % e)
        return (True, True, True), False


# ---- data ---------------------------------------------------------------------------------------------
def tiny_models_probe(ctx, data):
    """models in the n_neighbors >= n_samples corner whose training set passes through n_neighbors - 1, n_neighbors and n_neighbors + 1 rows
    by update(): after every step transform returns one row per row of Y (new data, the current training data), repeatably"""
    rs = np.random.RandomState(77)
    for kbig in (12, 9):
        X = rs.normal(size=(kbig + 1, NF)).astype(np.float32)
        Y = data["Ya"][:3].copy() + np.float32(0.05)
        n0 = kbig - 4
        desc = dict(model="n_neighbors=%d fitted on %d rows, then update() with 3, 1, 1 rows" % (kbig, n0), X=X, Y=Y)
        try:
            m = umap.UMAP(n_neighbors=kbig, n_epochs=NEP, n_components=NC, random_state=11, transform_seed=5).fit(X[:n0].copy())
        except Exception as e:
            ctx.fail("transform:raises:tiny_model", "fit: %s: %s" % (type(e).__name__, e), desc); continue
        have = n0
        for step, add in enumerate([0, 3, 1, 1]):
            try:
                if add:
                    m.update(X[have:have + add].copy()); have += add
                outs = [("new", m.transform(Y.copy())), ("new", m.transform(Y.copy())), ("train", m.transform(X[:have].copy()))]
            except Exception as e:
                ctx.fail("transform:raises:tiny_model", "after %d update(s), %d training rows, n_neighbors=%d: %s: %s" % (step, have, kbig, type(e).__name__, str(e)[:120]), desc); break
            ctx.evaluations += 3
            ctx.tag(("tiny_model", kbig, step), ["tiny_model_n_neighbors_ge_n_samples"] + (["training_rows_eq_n_neighbors"] if have == kbig else []))
            for what, o in outs:
                n_in = have if what == "train" else Y.shape[0]
                if o.shape != (n_in, NC):
                    ctx.fail("transform:rows:tiny_model", "transform(%s) returned shape %r for %d input rows (%d training rows, n_neighbors=%d)" % (what, o.shape, n_in, have, kbig), desc); break
            if not np.array_equal(outs[0][1], outs[1][1], equal_nan=True):
                ctx.fail("transform:not_repeatable:tiny_model", "seeded model: transform(new) returned different bytes for the same input (%d training rows)" % have, desc)
            if not np.array_equal(outs[2][1], m.embedding_, equal_nan=True):
                ctx.fail("transform:not_stored_result:current_training_data:tiny_model", "transform(current training data) did not return embedding_ (%d training rows)" % have, desc)


def make_data(seed):
    rs = np.random.RandomState(seed)
    d = dict(X1=rs.normal(size=(N1, NF)), Ya=rs.normal(size=(3, NF)), Yb=rs.normal(size=(2, NF)),
             U=[rs.normal(size=(2, NF)) + 0.1 * j for j in range(6)])
    d = {k: (np.asarray(v, dtype=np.float32) if k != "U" else [np.asarray(u, dtype=np.float32) for u in v]) for k, v in d.items()}
    return d


def fit_base(cfg, data):
    return umap.UMAP(n_neighbors=KNN, n_epochs=NEP, n_components=NC, random_state=(11 if cfg["seeded"] else None), transform_seed=5,
                     force_approximation_algorithm=cfg["approx"], transform_mode=("graph" if cfg["graph"] else "embedding")).fit(data["X1"].copy())


def digest(a):
    if sp.issparse(a):
        a = sp.csr_matrix(a); a.sum_duplicates(); a.sort_indices()
        return hashlib.sha256(repr(a.shape).encode() + a.indptr.tobytes() + a.indices.tobytes() + a.data.tobytes()).hexdigest()
    a = np.ascontiguousarray(a)
    return hashlib.sha256(repr((a.shape, str(a.dtype))).encode() + a.tobytes()).hexdigest()


def same_as_stored(out, m, graph):
    st = getattr(m, "graph_" if graph else "embedding_", None)
    if st is None:
        return False
    if out is st:
        return True
    if out.shape != st.shape:
        return False
    if graph:
        return (sp.csr_matrix(out) != sp.csr_matrix(st)).nnz == 0
    return bool(np.array_equal(out, st, equal_nan=True))


class Book:
    """the oracle's own record of a history (independent of the Coq model)"""
    def __init__(self, cfg, data):
        self.cfg, self.data = cfg, data
        self.versions = [data["X1"]]        # training data after each *successful* update
        self.mver = [0]                     # the model's version number of each entry of `versions`
        self.model_version = 0              # number of times _raw_data was replaced
        self.n_upd = 0                      # updates attempted (successful or not)
        self.seen = {}                      # data key -> sha256 since the last successful update
        self.hclass = {}                    # sha256 -> small integer
        self.fails = []                     # (signature, summary)

    def clone(self):
        b = copy.copy(self)
        b.versions, b.seen, b.hclass, b.fails, b.mver = list(self.versions), dict(self.seen), dict(self.hclass), list(self.fails), list(self.mver)
        return b

    def cls(self, h):
        return self.hclass.setdefault(h, len(self.hclass) + 1)


def op_term(op):
    k = op[0]
    if k == "TT": return "TransformTrain"
    if k == "TO": return "(TransformOldTrain %d)" % op[1]
    if k == "TN": return "(TransformNew %d %d)" % (op[1], op[2])
    if k == "INV": return "(Inverse %d)" % op[1]
    if k == "UPD": return "(Update %d)" % op[1]
    raise ValueError(op)


def model_op(book, op):
    """the call in the model's vocabulary: training data are named by the model's version numbering (a version is created whenever
    _raw_data is replaced, even by an update that then raises), so the term always denotes the data actually passed"""
    if op[0] == "TT":
        v = book.mver[-1]
        return ("TT",) if v == book.model_version else ("TO", v)
    if op[0] == "TO":
        return ("TO", book.mver[op[1]])
    return op


TIMES = {}
PENDING = []      # (history length, signature, summary, case): reported shortest history first


def apply_op(m, book, op):
    t0 = time.time()
    try:
        return _apply_op(m, book, op)
    finally:
        k = "%s:%s" % (book.cfg["name"], op[0])
        a = TIMES.setdefault(k, [0, 0.0]); a[0] += 1; a[1] += time.time() - t0


def _apply_op(m, book, op):
    """run one call on the model; returns the observation (err, rows, cols, stored, hashclass) and lets the oracle judge it"""
    cfg, data = book.cfg, book.data
    graph = cfg["graph"]
    kind = op[0]
    after = ":after_update" if book.n_upd else ""
    if kind in ("TT", "TO", "TN"):
        if kind == "TT":
            Y, key, what = book.versions[-1], ("train", len(book.versions) - 1), "current_training_data"
        elif kind == "TO":
            v = op[1]
            Y, key = book.versions[v], ("train", v)
            what = "current_training_data" if v == len(book.versions) - 1 else "old_training_data"
        else:
            if op[2] >= 4:      # other data with as many rows as the training set: a shifted copy of it
                Y = (book.versions[-1][: op[1]] + np.float32(0.25)).astype(np.float32)
                key, what = ("shifted", op[2], len(book.versions) - 1), "new_data_shaped_like_training_data"
            else:
                Y = {1: data["Ya"], 2: data["Yb"]}.get(op[2], np.zeros((op[1], NF), np.float32))[: op[1]]
                key, what = ("new", op[2]), "new_data"
        n_train = book.versions[-1].shape[0]
        # the same values in another dtype / memory layout are the same data (float32 -> float64 is exact): rotate through
        # C/float32, Fortran/float32, C/float64, Fortran/float64 copies of the argument
        book.n_tr = getattr(book, "n_tr", 0) + 1
        lay = book.n_tr % 4
        Yarg = [Y.copy(), np.asfortranarray(Y), Y.astype(np.float64), np.asfortranarray(Y.astype(np.float64))][lay] if Y.shape[0] else Y.copy()
        if lay: what_layout = ":" + ["", "fortran_float32", "float64", "fortran_float64"][lay]
        else: what_layout = ""
        try:
            out = m.transform(Yarg)
        except Exception as e:
            if Y.shape[0] == 0 and isinstance(e, ValueError):
                return (1, 0, 0, False, 0)
            book.fails.append(("transform:raises:%s%s" % (what, after), "transform(%s, %d rows) raised %s: %s" % (what, Y.shape[0], type(e).__name__, e)))
            return (1 if isinstance(e, ValueError) else 2, 0, 0, False, 0)
        if Y.shape[0] == 0:
            book.fails.append(("transform:accepts_empty", "transform of 0 rows returned %r" % (out.shape,)))
        rows, cols = out.shape
        stored = same_as_stored(out, m, graph)
        h = digest(out)
        want_cols = n_train if graph else NC
        if rows != Y.shape[0]:
            book.fails.append(("transform:rows:%s%s" % (what, after), "transform(%s) returned %d rows for %d input rows (training set now %d rows)" % (what, rows, Y.shape[0], n_train)))
        if cols != want_cols:
            book.fails.append(("transform:cols:%s%s%s" % (what, ":graph_mode" if graph else "", after), "transform(%s) returned %d columns, expected %d" % (what, cols, want_cols)))
        if what == "current_training_data" and not stored:
            book.fails.append(("transform:not_stored_result:current_training_data%s%s" % (what_layout, after),
                               "transform(current training data%s, %d rows) did not return the model's %s" % (what_layout.replace(":", " as "), Y.shape[0], "graph_" if graph else "embedding_")))
        if cfg["seeded"]:
            if key in book.seen and book.seen[key] != h:
                book.fails.append(("transform:not_repeatable:%s%s" % (what, after), "seeded model: transform(%s) returned different bytes for the same input" % what))
            book.seen.setdefault(key, h)
        return (0, rows, cols, stored, book.cls(h))
    if kind == "INV":
        k = op[1]
        if graph or k == 0:
            Z = np.zeros((k, NC), np.float32)
        else:
            E = m.embedding_
            Z = np.stack([(E[j] + E[j + 1] + E[j + 2]) / 3.0 for j in range(k)]).astype(np.float32)
        try:
            out = m.inverse_transform(Z)
        except Exception as e:
            if isinstance(e, ValueError) and (graph or k == 0):
                return (1, 0, 0, False, 0)          # documented refusal
            book.fails.append(("inverse_transform:raises%s" % after, "inverse_transform(%d points) raised %s: %s" % (k, type(e).__name__, e)))
            return (1 if isinstance(e, ValueError) else 2, 0, 0, False, 0)
        rows, cols = out.shape
        if (rows, cols) != (k, NF):
            book.fails.append(("inverse_transform:shape%s" % after, "inverse_transform(%d points) returned shape %r, expected (%d, %d)" % (k, out.shape, k, NF)))
        if not np.all(np.isfinite(out)):
            book.fails.append(("inverse_transform:nonfinite%s" % after, "inverse_transform returned non-finite values"))
        return (0, rows, cols, False, book.cls(digest(out)))
    if kind == "UPD":
        k = op[1]
        B = book.data["U"][min(book.n_upd, len(book.data["U"]) - 1)][:k] if k else np.zeros((0, NF), np.float32)
        n_before = m._raw_data.shape[0]
        try:
            m.update(B.copy())
        except Exception as e:
            if k:
                book.n_upd += 1
            changed = m._raw_data.shape[0] != n_before
            if changed:
                book.model_version += 1
                book.fails.append(("update:raises_after_mutation%s" % (":graph_mode" if graph else ""),
                                   "update(%d rows) raised %s after replacing the training data (%d -> %d rows): %s" % (k, type(e).__name__, n_before, m._raw_data.shape[0], e)))
            elif not (isinstance(e, ValueError) and (graph or k == 0)):
                book.fails.append(("update:raises", "update(%d rows) raised %s: %s" % (k, type(e).__name__, e)))
            return (1 if isinstance(e, ValueError) else 2, 0, 0, False, 0)
        book.n_upd += 1
        book.model_version += 1
        book.versions.append(np.vstack([book.versions[-1], B])); book.mver.append(book.model_version)
        book.seen = {}
        R = m._raw_data
        if R.shape != book.versions[-1].shape or not np.array_equal(np.asarray(R), book.versions[-1]):
            book.fails.append(("update:raw_data_not_stacked_in_order%s" % (":nndescent" if cfg["approx"] else ""),
                               "after update(%d rows) _raw_data (shape %r) is not the previous training data stacked over the new rows "
                               "(same rows in another order: %s)" % (k, R.shape, sorted(map(tuple, np.asarray(R).tolist())) == sorted(map(tuple, book.versions[-1].tolist())))))
        E = getattr(m, "embedding_", None)
        n_tot = book.versions[-1].shape[0]
        if E is None or E.shape != (n_tot, NC):
            book.fails.append(("update:embedding_shape", "after update the embedding has shape %r, expected (%d, %d)" % (getattr(E, "shape", None), n_tot, NC)))
        elif not np.all(np.isfinite(E)):
            book.fails.append(("update:embedding_nonfinite", "after update the embedding has non-finite rows"))
        return (0,) + tuple(E.shape if E is not None else (0, 0)) + (False, 0)
    raise ValueError(op)


def obs_term(o):
    return "(mkObs %d %d %d %s %d)" % (o[0], o[1], o[2], "true" if o[3] else "false", o[4])


def tags_of(hist, obs):
    t = set()
    if any(o[0] == "UPD" for o in hist): t.add("update")
    if any(b[3] for b in obs): t.add("shortcut")
    if any(b[0] for b in obs): t.add("error")
    tr = [o for o in hist if o[0] in ("TT", "TO", "TN")]
    if len(set(tr)) < len(tr): t.add("repeat")
    seen_upd = False
    for o in hist:
        if o[0] == "UPD": seen_upd = True
        elif seen_upd and o[0] in ("TT", "TO"): t.add("train_after_update")
    return sorted(t)


def explore(ctx, cfg, data, base, ops, depth, allow, records, flags):
    """depth-first over all histories; every node (= history) is recorded"""
    def rec(m, book, hist, obs, mhist):
        if len(hist) >= depth:
            return
        for op in ops:
            if op[0] == "TO" and op[1] > len(book.versions) - 1:
                continue                      # that version does not exist (yet)
            if not allow(hist + [op]):
                continue
            m2, b2 = copy.deepcopy(m), book.clone()
            nf = len(b2.fails)
            mop = model_op(b2, op)
            o = apply_op(m2, b2, op)
            h2, o2, mh2 = hist + [op], obs + [o], mhist + [mop]
            case = dict(config=cfg, history=[list(x) for x in h2], data_seed=data["seed"], observed=[list(x) for x in o2])
            for sig, msg in b2.fails[nf:]:
                PENDING.append((len(h2), sig, "%s  [history %s]" % (msg, " ; ".join(op_term(x).strip("()") for x in h2)), case))
            ctx.tag((tuple(sorted(cfg.items())), tuple(h2)), tags_of(h2, o2))
            ctx.count("len=%d" % len(h2)); ctx.count("last=" + op[0]); ctx.count("cfg=" + cfg["name"])
            if len(h2) == 3 and "update" in tags_of(h2, o2):
                ctx.sample(case, 3)
            records.append((cfg, mh2, o2, case))
            rec(m2, b2, h2, o2, mh2)
    rec(base, Book(cfg, data), [], [], [])


def bl(b):
    return "true" if b else "false"


def coq_case(cfg, hist, obs, flags):
    tr = "[" + "; ".join("(%s, %s)" % (op_term(o), obs_term(b)) for o, b in zip(hist, obs)) + "]"
    return "(%d, %d, %d, %s, %s, %s, mkCode %s %s %s, %s)" % (N1, NF, NC, bl(cfg["graph"]), bl(cfg["seeded"]), bl(cfg["approx"]),
                                                             bl(flags[0]), bl(flags[1]), bl(flags[2]), tr)


def run_paths(ctx, cfg, data, paths, records):
    """a few long histories, each on a freshly fitted model; every prefix is a recorded history"""
    seen = set()
    for path in paths:
        m, book = fit_base(cfg, data), Book(cfg, data)
        hist, mhist, obs = [], [], []
        for op in path:
            if op[0] == "TO" and op[1] > len(book.versions) - 1:
                continue
            if op[0] == "TN" and op[2] >= 4 and op[1] != book.versions[-1].shape[0]:
                continue                      # "same shape as the training set" only makes sense when it is
            nf = len(book.fails)
            mop = model_op(book, op)
            o = apply_op(m, book, op)
            hist, mhist, obs = hist + [op], mhist + [mop], obs + [o]
            if tuple(hist) in seen:
                continue
            seen.add(tuple(hist))
            case = dict(config=cfg, history=[list(x) for x in hist], data_seed=data["seed"], observed=[list(x) for x in obs])
            for sig, msg in book.fails[nf:]:
                PENDING.append((len(hist), sig, "%s  [history %s]" % (msg, " ; ".join(op_term(x).strip("()") for x in hist)), case))
            ctx.tag((tuple(sorted(cfg.items())), tuple(hist)), tags_of(hist, obs))
            ctx.count("len=%d" % min(len(hist), 9)); ctx.count("last=" + op[0]); ctx.count("cfg=" + cfg["name"])
            records.append((cfg, mhist, obs, case))


def same_shape_paths():
    TT, TO0, TNa, TNb, INV, UPD = STD
    return [[("TN", N1, 4), TT, ("TN", N1, 4)], [UPD, ("TN", N1 + 2, 5), TT, TO0, ("TN", N1 + 2, 5)]]


def nnd_paths(rng):
    TT, TO0, TNa, TNb, INV, UPD = STD
    fixed = [[TT, TO0, TNa, TNb, TNa, INV, UPD, TO0, TT, TNa, TNa, TNb, INV, TT, UPD, TO0, TT, TNb],
             [UPD, TT, UPD, TO0, TT, TNa],
             [TNa, UPD, TNa, TNb, INV, TT, TO0]]
    rnd = [[rng.choice(STD) for _ in range(6)] for _ in range(2)]
    return fixed + rnd


STD = [("TT",), ("TO", 0), ("TN", 3, 1), ("TN", 2, 2), ("INV", 2), ("UPD", 2)]


def plans(tier):
    every = lambda h: True
    P = []
    if tier == "quick":
        P.append((dict(name="exact", approx=False, graph=False, seeded=True), STD, 3, every))
        P.append((dict(name="exact_graph", approx=False, graph=True, seeded=True), STD, 3, every))
        P.append((dict(name="nndescent", approx=True, graph=False, seeded=True), "paths", 0, None))
        P.append((dict(name="exact", approx=False, graph=False, seeded=True), "same_shape", 0, None))
        P.append((dict(name="exact_graph", approx=False, graph=True, seeded=True), "same_shape", 0, None))
    else:
        P.append((dict(name="exact", approx=False, graph=False, seeded=True), "same_shape", 0, None))
        P.append((dict(name="exact_graph", approx=False, graph=True, seeded=True), "same_shape", 0, None))
        EXT = STD + [("TO", 1), ("TN", 0, 3), ("INV", 0), ("UPD", 0)]
        SLIM = [("TT",), ("TO", 0), ("TN", 3, 1), ("UPD", 2)]
        P.append((dict(name="exact", approx=False, graph=False, seeded=True), STD, 4, every))
        P.append((dict(name="exact_ext", approx=False, graph=False, seeded=True), EXT, 2, every))
        P.append((dict(name="exact_len5", approx=False, graph=False, seeded=True), SLIM, 5, every))
        P.append((dict(name="exact_graph", approx=False, graph=True, seeded=True), STD, 4, lambda h: len(h) < 4 or any(o[0] in ("TN", "TO") for o in h)))
        P.append((dict(name="nndescent", approx=True, graph=False, seeded=True), STD, 3, every))
        P.append((dict(name="nndescent", approx=True, graph=False, seeded=True), "paths", 0, None))
        P.append((dict(name="nndescent_graph", approx=True, graph=True, seeded=True), STD, 2, every))
        P.append((dict(name="exact_unseeded", approx=False, graph=False, seeded=False), STD, 2, every))
    return P


def few_threads():
    """tiny inputs: numba's parallel kernels on all cores only add scheduling latency (x15 on a busy machine); results do not depend on it"""
    import numba
    numba.set_num_threads(max(1, min(2, numba.get_num_threads())))


def unique_models_probe(ctx, data):
    """models fitted with unique=True on data that really contain duplicate rows (graph_ then has fewer vertices than training rows):
    the transform contract is unchanged -- rows, columns, the training-data shortcut, repeatability, also after an inverse_transform"""
    X1 = data["X1"]
    Xd = np.vstack([X1, X1[3:9], X1[5:7]]).astype(np.float32)
    for approx in (False, True):
        desc = dict(model="unique=True, %d training rows of which %d are repeats; %s neighbours" % (Xd.shape[0], 8, "approximate" if approx else "exact"), X=Xd)
        try:
            m = umap.UMAP(n_neighbors=KNN, n_epochs=NEP, n_components=NC, random_state=11, transform_seed=5, unique=True,
                          force_approximation_algorithm=approx).fit(Xd.copy())
            e0 = m.embedding_.copy()
            calls = [("train", Xd.copy()), ("train_float64", Xd.astype(np.float64)), ("new", data["Ya"][:4].copy()), ("new", data["Ya"][:4].copy())]
            outs = []
            for what, Y in calls:
                outs.append((what, m.transform(Y)))
            try:
                m.inverse_transform(e0[:3] + np.float32(0.01))
            except Exception:
                pass
            outs.append(("new_after_inverse", m.transform(data["Ya"][:4].copy())))
            outs.append(("train_after_inverse", m.transform(Xd.copy())))
        except Exception as e:
            ctx.fail("transform:raises:unique_model", "%s: %s" % (type(e).__name__, e), desc); continue
        ctx.evaluations += len(outs)
        ctx.tag(("unique_model", approx), ["unique_model_with_duplicate_rows"])
        news = [o for w, o in outs if w.startswith("new")]
        for what, o in outs:
            n_in = Xd.shape[0] if what.startswith("train") else data["Ya"][:4].shape[0]
            if o.shape != (n_in, NC):
                ctx.fail("transform:rows:unique_model", "transform(%s) returned shape %r for %d input rows" % (what, o.shape, n_in), desc); break
            if what.startswith("train") and not np.array_equal(o, m.embedding_, equal_nan=True):
                ctx.fail("transform:not_stored_result:current_training_data:unique_model", "transform(%s) did not return the model's embedding_ (max abs difference %.3g)"
                         % (what, float(np.nanmax(np.abs(o - m.embedding_)))), desc); break
        if news and not all(np.array_equal(news[0], o) for o in news[1:]):
            ctx.fail("transform:not_repeatable:unique_model", "seeded model: transform(new) returned different bytes for the same input", desc)
        if not np.array_equal(e0, m.embedding_, equal_nan=True):
            ctx.fail("transform:embedding_changed:unique_model", "embedding_ changed during read-only calls", desc)


def run(ctx):
    few_threads()
    ctx.check_proofs(["prop/P_C10.v"])
    # translation tie: init_transform (the initial placement of the new points) regenerated from the current source (py2coq); link
    # theorem (coq/link/L_transform.v): over every Num, for every rectangular (indices, weights) pair of the same shape and every
    # embedding, the triple loop returns M_transform.init_transform_model: result[i][d] = left fold over j of acc + w[i][j] * E[idx[i][j]][d]
    # from 0; capstone init_transform_convex (over R): non-negative weights summing to 1 place every coordinate between the
    # neighbours' minimum and maximum of that coordinate
    link.check(ctx, "umap_transform", {"init_transform": "src_init_transform_eq"})
    flags, ok = source_flags(ctx)
    ctx.extra["source_flags"] = dict(update_refreshes_input_hash=flags[0], update_refuses_graph_mode_up_front=flags[1],
                                     update_keeps_raw_data_in_sample_order=flags[2], read_from_source=ok)
    if all(flags):
        ob = ("From UV Require Import M_history T_history.\nLemma code_ok : repaired (fresh %d %d %d Embedding true true (mkCode true true true)).\n"
              "Proof. repeat split; auto. Qed.\n" % (N1, NF, NC))
        ctx.obligations.append("gen/params_C10.v:code_ok")
        if ctx.coq_eval("params_C10", ob, what="update() as read from the source meets the hypothesis `repaired` of C10_contract") is not None:
            ctx.discharged.append("gen/params_C10.v:code_ok")
    else:
        ctx.partial.append("the current source of update() does not meet the hypothesis `fitted` of C10_contract/C10_invariant "
                           "(refresh_key=%s, graph_guard=%s, stack_in_order=%s): the model then follows the C10_refuted_* statements" % flags)
    data_seed = ctx.rng.randrange(2 ** 31)
    data = make_data(data_seed); data["seed"] = data_seed
    records = []
    for cfg, ops, depth, allow in plans(ctx.tier):
        t0 = time.time()
        try:
            base = fit_base(cfg, data)
        except Exception as e:
            ctx.broken.append("fit of the base model %s failed: %s: %s" % (cfg["name"], type(e).__name__, e)); continue
        n0 = len(records)
        if ops == "paths":
            run_paths(ctx, cfg, data, nnd_paths(ctx.rng), records)
        elif ops == "same_shape":
            run_paths(ctx, cfg, data, same_shape_paths(), records)
        else:
            explore(ctx, cfg, data, base, ops, depth, allow, records, flags)
        ctx.notes.append("%s: %d histories in %.0fs" % (cfg["name"], len(records) - n0, time.time() - t0))
    unique_models_probe(ctx, data)
    tiny_models_probe(ctx, data)
    for _, sig, msg, case in sorted(PENDING, key=lambda t: t[0]):
        ctx.fail(sig, msg, case)
    del PENDING[:]
    ctx.extra["seconds_per_call_kind"] = {k: [v[0], round(v[1], 1)] for k, v in sorted(TIMES.items())}
    shard = 150
    for s in range(0, len(records), shard):
        part = records[s:s + shard]
        text = ("From Coq Require Import List Arith Bool ZArith. From UV Require Import M_history V_history.\nImport ListNotations.\n"
                "Definition cases : list (nat * nat * nat * bool * bool * bool * code * list (op * obs)) := %s.\n"
                "Eval vm_compute in map verdict_C10 cases.\n" % clist([coq_case(c, h, o, flags) for c, h, o, _ in part]))
        blocks = ctx.coq_eval("cases_C10_%d" % (s // shard), text, what="M_history.step vs observed call histories")
        if blocks is None:
            continue
        v = parse_zlist(blocks[0])
        if len(v) != len(part):
            ctx.broken.append("C10 verdict list has %d entries for %d cases" % (len(v), len(part))); continue
        for code, (cfg, hist, obs, case) in zip(v, part):
            ctx.traces += 1
            if code != -1:
                field = {1: "error class", 2: "rows", 3: "columns", 4: "stored-result flag", 5: "repeat identity"}.get(code % 10, "?")
                ctx.diff(case, "call %d (%s): %s" % (code // 10, op_term(hist[code // 10]).strip("()"), field))
    return ctx.finish(RULE, assumptions=["distinct data tags denote distinct contents; joblib.hash is treated as collision-free",
                                           "numerical content of the outputs is not modelled (C07/C04); pynndescent's index update is observed only through shapes",
                                           "n_components < 8 (inverse_transform's elif chain skips its graph-mode refusal at >= 8 components)",
                                           "deep copies of the model (copy.deepcopy) stand for the state a history prefix leaves"])


def replay(rep):
    """re-run the stored history on a freshly fitted model of the current tree; True iff the oracle still objects (for a replay
    without an oracle signature: iff the Coq verdict on the re-observed history still differs from -1)"""
    few_threads()
    from vp.common import Ctx
    from vp import coqrun
    c = rep.get("case") or (rep.get("diffs") or [{}])[0].get("case")
    if not c:
        return True
    cfg = c["config"]
    data = make_data(c["data_seed"]); data["seed"] = c["data_seed"]
    ctx, records = Ctx("C10", "quick", 0), []
    del PENDING[:]
    run_paths(ctx, cfg, data, [[tuple(op) for op in c["history"]]], records)
    fails = [(sig, msg) for _, sig, msg, _ in PENDING]
    del PENDING[:]
    for sig, msg in fails:
        print("  ", sig, msg)
    want = rep.get("signature")
    if want:
        return any(sig == want for sig, _ in fails)
    if fails or not records:
        return True
    flags, _ = source_flags()
    cfg_, hist, obs, _ = records[-1]
    text = ("From Coq Require Import List Arith Bool ZArith. From UV Require Import M_history V_history.\nImport ListNotations.\n"
            "Eval vm_compute in map verdict_C10 [%s].\n" % coq_case(cfg_, hist, obs, flags))
    ok, so, se, _ = coqrun.run_gen("replay_C10", text, 300)
    v = parse_zlist(coqrun.eval_blocks(so)[0]) if ok and coqrun.eval_blocks(so) else [0]
    print("   model-vs-implementation verdict on the re-observed history:", v)
    return v != [-1]

"""C02 — the fitted graph is a well-formed fuzzy union of the directed neighbourhoods."""
import numpy as np, scipy.sparse as sp
from vp.coqrun import fl, zl, clist, parse_zlist
import umap, umap.umap_ as U

ATOL = 2e-6
RULE = ("random point clouds / precomputed distance matrices -> kNN tables (n 3..22, k 2..8, optional -1/inf holes, "
        "duplicated points, ties) x set_op_mix_ratio in {0,.25,.5,1,random} x local_connectivity; implementation "
        "fuzzy_simplicial_set called with apply_set_operations False (directed strengths A) and True (graph G); "
        "Coq evaluates graph r A on every (i,j) and compares with G.  Non-trivial: graph has a one-way edge, a mutual edge, "
        "a hole, or r strictly inside (0,1).")


def coo_term(M):
    M = sp.coo_matrix(M)
    return "[" + "; ".join("(%d%%nat, %d%%nat, %s)" % (i, j, fl(v)) for i, j, v in zip(M.row.tolist(), M.col.tolist(), M.data.tolist())) + "]"


def gen_case(rng, npr):
    n = rng.randint(3, 22)
    k = rng.randint(2, min(8, n))
    dim = rng.randint(1, 5)
    scale = 10 ** rng.uniform(-2, 3)
    X = npr.normal(size=(n, dim)) * scale
    kind = rng.random()
    if kind < 0.2:  # duplicated points
        for _ in range(rng.randint(1, 3)):
            X[rng.randrange(n)] = X[rng.randrange(n)]
    elif kind < 0.35:  # integer grid -> ties
        X = np.round(X / scale * 2)
    D = np.sqrt(((X[:, None, :] - X[None, :, :]) ** 2).sum(-1))
    idx = np.argsort(D, axis=1, kind="stable")[:, :k].astype(np.int64)
    dist = np.take_along_axis(D, idx, axis=1).astype(np.float32)
    holes = rng.random() < 0.3
    if holes:  # disconnect the farthest entries of some rows
        t = float(np.quantile(dist[:, 1:], rng.uniform(0.5, 0.95)))
        far = dist >= t
        far[:, 0] = False
        idx = idx.copy(); idx[far] = -1
        dist = dist.copy(); dist[far] = np.inf
    r = rng.choice([0.0, 0.25, 0.5, 1.0, round(rng.random(), 3)])
    lc = rng.choice([1.0, 1.0, 0.0, 2.0, 1.5]) if k > 2 else 1.0
    return dict(n=n, k=k, X=X, idx=idx, dist=dist, r=r, lc=lc, holes=holes)


def impl(case):
    rs = np.random.RandomState(0)
    A, _, _ = U.fuzzy_simplicial_set(case["X"], case["k"], rs, "euclidean", knn_indices=case["idx"].copy(),
                                     knn_dists=case["dist"].copy(), set_op_mix_ratio=case["r"],
                                     local_connectivity=case["lc"], apply_set_operations=False)
    G, _, _ = U.fuzzy_simplicial_set(case["X"], case["k"], rs, "euclidean", knn_indices=case["idx"].copy(),
                                     knn_dists=case["dist"].copy(), set_op_mix_ratio=case["r"],
                                     local_connectivity=case["lc"], apply_set_operations=True)
    return A, G


def oracle_graph(ctx, G, A, idx, r, case_desc, where, atol=ATOL):
    """direct statement of the property on the implementation's output"""
    n = G.shape[0]
    Gc = sp.coo_matrix(G)
    Gd = np.asarray(G.todense(), dtype=np.float64)
    fails = []
    if G.shape != (n, n) or n != len(idx):
        fails.append(("shape", "graph shape %s for %d samples" % (G.shape, len(idx))))
    if not np.all(np.isfinite(Gc.data)):
        fails.append(("nonfinite", "non-finite stored entry"))
    if np.any(Gc.data <= 0) or np.any(Gc.data > 1 + 1e-6):
        fails.append(("range", "stored entry outside (0,1]: min %r max %r" % (Gc.data.min(), Gc.data.max())))
    if np.any(np.diag(Gd) != 0):
        fails.append(("diagonal", "non-empty diagonal"))
    if np.abs(Gd - Gd.T).max() > atol:
        fails.append(("symmetry", "asymmetric by %g" % np.abs(Gd - Gd.T).max()))
    nb = np.zeros((n, n), bool)
    for i in range(n):
        for j in idx[i]:
            if j >= 0 and j != i:
                nb[i, j] = True
    sup = (Gd != 0)
    if np.any(sup & ~(nb | nb.T)):
        i, j = np.argwhere(sup & ~(nb | nb.T))[0]
        fails.append(("support", "edge (%d,%d) joins no kNN pair" % (i, j)))
    if A is not None:
        a = np.asarray(A.todense(), dtype=np.float64)
        b = a.T
        want = r * (a + b - a * b) + (1 - r) * a * b
        if np.abs(want - Gd).max() > atol:
            i, j = np.unravel_index(np.abs(want - Gd).argmax(), want.shape)
            fails.append(("formula", "entry (%d,%d): %r, formula gives %r (a=%r b=%r r=%r)" % (i, j, Gd[i, j], want[i, j], a[i, j], b[i, j], r)))
        if r == 1 and np.any(Gd < np.maximum(a, b) - atol):
            fails.append(("union_ge_max", "r=1 entry below max(a,b)"))
        if r == 0 and np.any(Gd > np.minimum(a, b) + atol):
            fails.append(("inter_le_min", "r=0 entry above min(a,b)"))
        if np.any((want > atol) & ~sup):
            fails.append(("missing", "formula non-zero but entry absent"))
    for sig, msg in fails:
        ctx.fail("%s:%s" % (where, sig), msg, case_desc)
    return not fails


def run(ctx):
    ctx.check_proofs(["prop/P_C02.v"])
    rng = ctx.rng
    npr = np.random.RandomState(rng.randrange(2 ** 31))
    ncases = 300 if ctx.tier == "quick" else 3000
    cases, terms = [], []
    for c in range(ncases):
        case = gen_case(rng, npr)
        try:
            A, G = impl(case)
        except Exception as e:  # the graph stage must not raise on valid tables
            ctx.fail("fuzzy_simplicial_set:raises", "%s: %s" % (type(e).__name__, e), {k: case[k] for k in ("n", "k", "r", "lc", "idx", "dist")})
            continue
        desc = dict(n=case["n"], k=case["k"], r=case["r"], lc=case["lc"], knn_indices=case["idx"], knn_dists=case["dist"])
        a = np.asarray(A.todense()); oneway = bool(np.any((a != 0) & (a.T == 0))); mutual = bool(np.any((a != 0) & (a.T != 0)))
        tags = [t for t, f in (("oneway", oneway), ("mutual", mutual), ("holes", case["holes"]), ("r_interior", 0 < case["r"] < 1),
                               ("r0", case["r"] == 0), ("lc!=1", case["lc"] != 1)) if f]
        ctx.tag((case["idx"].tobytes(), case["dist"].tobytes(), case["r"], case["lc"]), tags)
        ctx.count("n=%d" % case["n"]); ctx.count("k=%d" % case["k"]); ctx.count("r=%s" % case["r"])
        ctx.sample(desc, 2)
        oracle_graph(ctx, G.tocsr(), A.tocsr(), case["idx"], case["r"], desc, "fuzzy_simplicial_set")
        Gc = G.tocsr(); Gc.sum_duplicates()
        Ac = A.tocsr(); Ac.sum_duplicates()
        terms.append("(%s, %d%%nat, %s, %s)" % (fl(case["r"]), case["n"], coo_term(Ac), coo_term(Gc)))
        cases.append(desc)
    # monotonicity in r on a grid (oracle, impl vs impl)
    for c in range(20 if ctx.tier == "quick" else 100):
        case = gen_case(rng, npr)
        prev = None
        for r in (0.0, 0.25, 0.5, 0.75, 1.0):
            case["r"] = r
            _, G = impl(case)
            g = np.asarray(G.todense(), dtype=np.float64)
            if prev is not None and np.any(g < prev - ATOL):
                ctx.fail("fuzzy_simplicial_set:monotone_r", "entry decreases when r grows to %s" % r,
                         dict(n=case["n"], k=case["k"], knn_indices=case["idx"], knn_dists=case["dist"], r=r))
            prev = g
        ctx.evaluations += 1
    # correspondence in Coq, sharded
    shard = 100
    for s in range(0, len(terms), shard):
        text = ("From Coq Require Import List ZArith PrimFloat. From UV Require Import Num FNum M_union V_union.\n"
                "Import ListNotations. Open Scope float_scope.\n"
                "Definition cases : list (float * nat * coo FNum * coo FNum) := %s.\n"
                "Eval vm_compute in map (verdict_C02 %s) cases.\n" % (clist(terms[s:s + shard]), fl(ATOL)))
        blocks = ctx.coq_eval("cases_C02_%d" % (s // shard), text, what="graph r A vs implementation graph")
        if blocks is None:
            continue
        v = parse_zlist(blocks[0])
        if len(v) != len(terms[s:s + shard]):
            ctx.broken.append("C02 verdict list has %d entries for %d cases" % (len(v), len(terms[s:s + shard])))
            continue
        for off, code in enumerate(v):
            ctx.traces += 1
            if code != -1:
                cs = cases[s + off]
                what = "stored zero" if code == -2 else "entry (%d,%d)" % divmod(code, cs["n"])
                ctx.diff(cs, what)
    # public API: fit(...).graph_ on dense / sparse / precomputed inputs with several metrics
    api_cases = 15 if ctx.tier == "quick" else 80
    for c in range(api_cases):
        n = rng.randint(12, 40); k = rng.randint(2, 10); dim = rng.randint(2, 6)
        X = npr.normal(size=(n, dim)) * 10 ** rng.uniform(-1, 2)
        r = rng.choice([0.0, 0.3, 1.0]); lc = rng.choice([1, 1, 2])
        kind = ["dense", "sparse", "precomputed", "precomputed_sparse", "knn_tables"][c % 5]
        metric = rng.choice(["euclidean", "manhattan", "cosine", "chebyshev"])
        data = X
        if kind == "sparse":
            Xs = X.copy(); Xs[npr.random(Xs.shape) < 0.4] = 0; data = sp.csr_matrix(Xs)
        if kind in ("precomputed", "precomputed_sparse"):
            data = np.sqrt(((X[:, None] - X[None]) ** 2).sum(-1)); metric = "precomputed"
        if kind == "precomputed_sparse":      # scipy-sparse symmetric distance matrix (zero diagonal not stored): its own branch of fit
            data = sp.csr_matrix(data.astype(np.float32)); r = rng.choice([0.0, 0.5, 1.0]); lc = rng.choice([1, 2, 0.5]) if k > 3 else 1
        extra = {}
        if kind == "knn_tables":
            # user-supplied exact kNN tables (self in column 0) with exactly k or MORE than k columns: the graph lives on the k-neighbourhoods
            metric = "euclidean"; n = max(n, k + 8)
            if X.shape[0] < n: X = npr.normal(size=(n, dim)) * 10 ** rng.uniform(-1, 2)
            data = X.astype(np.float32)
            Dk = np.sqrt(((data.astype(np.float64)[:, None] - data.astype(np.float64)[None]) ** 2).sum(-1))
            width = [k + 3, min(2 * k, n), k + 1, k][(c // 5) % 4]
            order = np.argsort(Dk, axis=1, kind="stable")[:, :width]
            for i in range(n):      # the sample itself first
                if order[i, 0] != i: order[i] = [i] + [j for j in order[i].tolist() if j != i][: width - 1]
            extra["precomputed_knn"] = (order.astype(np.int64), np.take_along_axis(Dk, order, axis=1).astype(np.float32))
        desc = dict(api="UMAP.fit", n=n, k=k, r=r, lc=lc, kind=kind, metric=metric, X=X)
        if extra: desc["precomputed_knn_columns"] = int(extra["precomputed_knn"][0].shape[1])
        try:
            m = umap.UMAP(n_neighbors=k, set_op_mix_ratio=r, local_connectivity=lc, metric=metric, n_epochs=0,
                          random_state=1, init="random", **extra).fit(data)
        except Exception as e:
            ctx.fail("UMAP.fit:raises", "%s: %s" % (type(e).__name__, e), desc); continue
        # independent float64 distances; neighbour relation "within the k smallest of the row (ties allowed)"
        from sklearn.metrics import pairwise_distances
        Xd = np.asarray(data.todense()) if sp.issparse(data) else data
        D = Xd.astype(np.float64) if metric == "precomputed" else pairwise_distances(Xd.astype(np.float32).astype(np.float64), metric=metric)
        rs = np.random.RandomState(0)
        if kind == "precomputed_sparse":
            # neighbours are taken among the stored (off-diagonal) entries: the k nearest *other* samples
            Do = D + np.diag(np.full(n, np.inf)); order = np.argsort(Do, axis=1, kind="stable")[:, :k]
            kd = np.take_along_axis(Do, order, axis=1).astype(np.float32)
            idx = [order[i].tolist() for i in range(n)]
            A, _, _ = U.fuzzy_simplicial_set(D.astype(np.float32), k, rs, "precomputed", knn_indices=order.astype(np.int64), knn_dists=kd,
                                             set_op_mix_ratio=r, local_connectivity=float(lc), apply_set_operations=False)
        else:
            kth = np.sort(D, axis=1)[:, m._n_neighbors - 1]
            idx = [[j for j in range(n) if D[i, j] <= kth[i] * (1 + 1e-5) + 1e-12] for i in range(n)]
            A, _, _ = U.fuzzy_simplicial_set(D.astype(np.float32), m._n_neighbors, rs, "precomputed",
                                             set_op_mix_ratio=r, local_connectivity=float(lc), apply_set_operations=False)
        # the directed strengths are re-derived from independently computed distances: float32 rounding of those distances moves the
        # calibrated bandwidths a little, hence the looser tolerance than for the table-level cases above
        oracle_graph(ctx, m.graph_.tocsr(), A.tocsr() if metric in ("precomputed", "euclidean", "manhattan", "chebyshev") else None,
                     idx, r, desc, "UMAP.fit.graph_", atol=2e-5 if metric == "precomputed" else 2e-4)
        ctx.tag(("api", c, n, k, r, kind, metric), ["api_" + kind])
        ctx.count("api_" + kind)
    return ctx.finish(RULE, assumptions=["float32 sparse arithmetic of SciPy is observed, not modelled (tolerance %g)" % ATOL,
                                           "directed strengths A are taken from the implementation (C01 ties them to the model)"])

"""C19 — AlignedUMAP relates consecutive datasets consistently in both directions."""
import itertools, math
import numpy as np
from vp.coqrun import zl, zlist, clist, parse_zlist
from vp import srcparams
import umap.aligned_umap as A

ORTH_TOL = 1e-5        # ||R^T R - I||_F  (property tolerance; float32 SVD measured <= 1.3e-6 on the unchanged tree)
DIST_RTOL = 1e-5       # pairwise distances, relative to the largest distance (measured <= 4.6e-7)
RULE = ("exhaustive: every sequence of non-empty injective partial maps on {0,1,2} for 2..3 datasets (thorough: ..4) x window in {1,2} "
        "(+ window 0 on a subset); random longer sequences (3..8 datasets, <= 7 samples, window 0..4, shuffled item order, 15% non-injective); "
        "malformed stream (empty dictionary / empty sequence -> ValueError).  expand_relations tensor vs model `expand`, exact, compared in Coq. "
        "Oracle: forward/backward composition, round trip and end conditions recomputed from the dictionaries; procrustes_align on random anchors "
        "(float32/float64, d 1..5, 0..many anchors): orthogonal and distance preserving; AlignedUMAP.fit on 3 and 4 small slices. "
        "Non-trivial: a forward relation into the last dataset, a multi-step composition, a partial / permuting map, a non-injective map, an error.")


# ---------------------------------------------------------------------------------------------------
def partial_injections(s):
    """all non-empty injective partial maps {0..s-1} -> {0..s-1}, as item lists in key order"""
    out = []
    for r in range(1, s + 1):
        for keys in itertools.combinations(range(s), r):
            for vals in itertools.permutations(range(s), r):
                out.append(list(zip(keys, vals)))
    return out


def call_expand(items_seq, w):
    """-> (status, shape, flat list, array)   status 0 ok / 1 ValueError / 2 IndexError / 3 other"""
    dicts = [dict(it) for it in items_seq]
    try:
        T = A.expand_relations(dicts, w)
    except ValueError:
        return 1, (0, 0, 0), [], None
    except IndexError:
        return 2, (0, 0, 0), [], None
    except Exception:
        return 3, (0, 0, 0), [], None
    T = np.asarray(T)
    if T.ndim != 3:
        return 3, (0, 0, 0), [], None
    return 0, tuple(int(x) for x in T.shape), [int(x) for x in T.reshape(-1)], T


def follow(dicts, idxs, k):
    m = k
    for r in idxs:
        if m < 0:
            return -1
        m = dicts[r].get(m, -1)
    return m


def oracle_tensor(ctx, items_seq, w, T, injective=True):
    """the property text evaluated directly on the tensor, from the relation dictionaries"""
    desc = dict(relations=[[list(p) for p in it] for it in items_seq], window=w)
    dicts = [dict(it) for it in items_seq]
    L = len(dicts)
    D = L + 1
    S = max(max(max(d.keys()), max(d.values())) for d in dicts) + 1
    fails = []
    if T.shape != (D, 2 * w + 1, S) or not np.issubdtype(T.dtype, np.integer):
        ctx.fail("expand_relations:shape", "tensor shape %s dtype %s, expected %s" % (T.shape, T.dtype, (D, 2 * w + 1, S)), desc)
        return False
    inv = [{v: k for k, v in d.items()} for d in dicts]
    for i in range(D):
        for k in range(S):
            if T[i, w, k] != -1:
                fails.append(("centre", "centre column entry [%d,%d,%d] = %d" % (i, w, k, T[i, w, k])))
            for t in range(1, w + 1):
                want = follow(dicts, range(i, i + t), k) if i + t <= D - 1 else -1
                got = int(T[i, w + t, k])
                if got != want:
                    if want >= 0 and got == -1 and i + t == D - 1:
                        fails.append(("forward_dropped:last_dataset",
                                      "sample %d of dataset %d is related to sample %d of the last dataset %d (offset +%d) but the tensor has -1" % (k, i, want, i + t, t)))
                    else:
                        fails.append(("forward_wrong", "T[%d,%d,%d] = %d, composition of relations %d..%d gives %d" % (i, w + t, k, got, i, i + t - 1, want)))
                if injective:
                    wantb = follow(inv, range(i - 1, i - t - 1, -1), k) if i - t >= 0 else -1
                    gotb = int(T[i, w - t, k])
                    if gotb != wantb:
                        fails.append(("backward_wrong", "T[%d,%d,%d] = %d, composition of inverse relations %d..%d gives %d" % (i, w - t, k, gotb, i - 1, i - t, wantb)))
                    # round trips on the tensor itself
                    if got >= 0 and not (i + t <= D - 1 and got < S and int(T[i + t, w - t, got]) == k):
                        fails.append(("roundtrip", "dataset %d sample %d -> dataset %d sample %d forward, but not backward" % (i, k, i + t, got)))
                    if gotb >= 0 and not (i - t >= 0 and gotb < S and int(T[i - t, w + t, gotb]) == k):
                        fails.append(("roundtrip_back", "dataset %d sample %d -> dataset %d sample %d backward, but not forward" % (i, k, i - t, gotb)))
    if w >= 1:
        for r, d in enumerate(dicts):
            for k, m in d.items():
                end = "last" if r == L - 1 else ("first" if r == 0 else "inner")
                if int(T[r, w + 1, k]) != m:
                    fails.append(("relation_dropped:forward:%s" % end, "item %d->%d of relation %d is missing forward in dataset %d (got %d)" % (k, m, r, r, T[r, w + 1, k])))
                if injective and int(T[r + 1, w - 1, m]) != k:
                    fails.append(("relation_dropped:backward:%s" % end, "item %d->%d of relation %d is missing backward in dataset %d (got %d)" % (k, m, r, r + 1, T[r + 1, w - 1, m])))
    seen = set()
    for sig, msg in fails:
        if sig not in seen:
            seen.add(sig)
            ctx.fail("expand_relations:" + sig, msg, desc)
    return not fails


def case_tags(items_seq, w, injective=True):
    dicts = [dict(it) for it in items_seq]
    L = len(dicts)
    tags = []
    if w >= 1 and L >= 1:
        tags.append("fwd_into_last")          # relation L-1 always has an item -> a forward entry into the last dataset
    if w >= 2 and L >= 2 and any(follow(dicts, (r, r + 1), k) >= 0 for r in range(L - 1) for k in dicts[r]):
        tags.append("two_step")
    if any(any(k != v for k, v in d.items()) for d in dicts):
        tags.append("permuting")
    S = max(max(max(d.keys()), max(d.values())) for d in dicts) + 1
    if any(len(d) < S for d in dicts):
        tags.append("partial")
    if not injective:
        tags.append("noninjective")
    return tags


def coq_case(items_seq, w, status, shape, flat):
    ds = "[" + "; ".join("[" + "; ".join("(%d,%d)" % (k, v) for k, v in it) + "]" for it in items_seq) + "]"
    return "(%s, %d, %s, (%d,%d,%d), %s)" % (ds, w, zl(status) + "%Z", shape[0], shape[1], shape[2], zlist(flat))


def gen_random(rng, allow_noninj=True):
    L = rng.randint(2, 7)
    s = rng.randint(2, 7)
    w = rng.choice([0, 1, 2, 3, 4])
    injective = True
    seq = []
    for _ in range(L):
        r = rng.randint(1, s)
        keys = rng.sample(range(s), r)
        if allow_noninj and rng.random() < 0.15 and r >= 2:
            vals = [rng.randrange(s) for _ in range(r)]
            if len(set(vals)) < r:
                injective = False
        else:
            vals = rng.sample(range(s), r)
        seq.append(list(zip(keys, vals)))     # item order = random insertion order
    return seq, w, injective


# ---------------------------------------------------------------------------------------------------
def procrustes_case(rng, npr):
    d = rng.choice([1, 2, 2, 3, 5])
    n1, n2 = rng.randint(4, 30), rng.randint(4, 30)
    a = min(rng.choice([0, 1, max(d - 1, 0), d, 2 * d, min(n1, n2)]), n1, n2)
    dt = rng.choice(["float32", "float32", "float64"])
    scale = rng.choice([1.0, 10.0, 10.0, 100.0])
    base = (npr.normal(size=(n1, d)) * scale).astype(dt)
    E = np.vstack([np.eye(d), npr.normal(size=(n2, d)) * scale]).astype(dt)   # first d rows = identity: out[:d] is R itself
    anchors = np.vstack([npr.choice(n1, a, replace=False), npr.choice(n2 + d, a, replace=False)]).astype(np.int64)
    return dict(d=d, dtype=dt, base=base, to_align=E, anchors=anchors)


def oracle_procrustes(ctx, c):
    from scipy.spatial.distance import pdist
    desc = dict(d=c["d"], dtype=c["dtype"], base=c["base"], to_align=c["to_align"], anchors=c["anchors"])
    try:
        out = A.procrustes_align(c["base"].copy(), c["to_align"].copy(), c["anchors"].copy())
    except Exception as e:
        ctx.fail("procrustes_align:raises", "%s: %s" % (type(e).__name__, e), desc)
        return False
    out = np.asarray(out, dtype=np.float64)
    E = c["to_align"].astype(np.float64)
    d = c["d"]
    ok = True
    if out.shape != E.shape or not np.all(np.isfinite(out)):
        ctx.fail("procrustes_align:shape_or_nonfinite", "output shape %s finite %s" % (out.shape, bool(np.all(np.isfinite(out)))), desc)
        return False
    R = out[:d]
    dev = float(np.linalg.norm(R.T @ R - np.eye(d)))
    if dev > ORTH_TOL:
        ctx.fail("procrustes_align:not_orthogonal", "||R^T R - I|| = %g > %g" % (dev, ORTH_TOL), desc); ok = False
    lin = float(np.abs(E @ R - out).max()) / max(1.0, float(np.abs(E).max()))
    if lin > 1e-5:
        ctx.fail("procrustes_align:not_linear", "output is not to_align @ R (rel. deviation %g)" % lin, desc); ok = False
    p0, p1 = pdist(E), pdist(out)
    rel = float(np.abs(p0 - p1).max()) / max(1.0, float(p0.max()))
    if rel > DIST_RTOL:
        ctx.fail("procrustes_align:distances_changed", "a pairwise distance changes by %g (relative to the largest distance)" % rel, desc); ok = False
    return ok


# ---------------------------------------------------------------------------------------------------
def fit_case(rng, npr, n_slices):
    dim = rng.randint(3, 6)
    sizes = [rng.randint(24, 36) for _ in range(n_slices)]
    pool = npr.normal(size=(max(sizes), dim))
    Xs = [(pool[:n] + 0.05 * npr.normal(size=(n, dim))).astype(np.float32) for n in sizes]
    rels = []
    for i in range(n_slices - 1):
        common = min(sizes[i], sizes[i + 1])
        keep = [j for j in range(1, common) if rng.random() < 0.8 or j == common - 1]      # sample 0 is left out of the identity part
        items = [[j, j] for j in keep]
        # kernel precondition (see notes): the dictionaries mention the largest sample index of every dataset
        if sizes[i] > sizes[i + 1]:
            items.append([sizes[i] - 1, 0])
        elif sizes[i + 1] > sizes[i]:
            items.append([0, sizes[i + 1] - 1])
        rng.shuffle(items)
        rels.append(items)
    return dict(sizes=sizes, dim=dim, Xs=Xs, relations=rels, window=rng.choice([1, 2, 3]), n_components=rng.choice([2, 2, 3]),
                seed=rng.randrange(1000))


def oracle_fit(ctx, c):
    desc = dict(sizes=c["sizes"], dim=c["dim"], relations=c["relations"], window=c["window"], n_components=c["n_components"], seed=c["seed"], Xs=c["Xs"])
    rel = [dict((int(k), int(v)) for k, v in it) for it in c["relations"]]
    try:
        m = A.AlignedUMAP(n_neighbors=5, n_epochs=10, n_components=c["n_components"], alignment_window_size=c["window"],
                          random_state=c["seed"]).fit([np.asarray(x, dtype=np.float32) for x in c["Xs"]], relations=rel)
        embs = list(m.embeddings_)
    except Exception as e:
        ctx.fail("AlignedUMAP.fit:raises", "%s: %s" % (type(e).__name__, e), desc)
        return False
    ok = True
    if len(embs) != len(c["sizes"]):
        ctx.fail("AlignedUMAP.fit:count", "%d embeddings for %d datasets" % (len(embs), len(c["sizes"])), desc); return False
    for i, (e, n) in enumerate(zip(embs, c["sizes"])):
        e = np.asarray(e)
        if e.shape != (n, c["n_components"]):
            ctx.fail("AlignedUMAP.fit:shape", "embedding %d has shape %s, expected %s" % (i, e.shape, (n, c["n_components"])), desc); ok = False
        elif not np.all(np.isfinite(e)):
            ctx.fail("AlignedUMAP.fit:nonfinite", "embedding %d has %d non-finite entries" % (i, int((~np.isfinite(e)).sum())), desc); ok = False
    return ok


# ---------------------------------------------------------------------------------------------------
HDR = ("From Coq Require Import List ZArith Arith. From UV Require Import M_relations V_relations.\n"
       "Import ListNotations. Open Scope nat_scope.\n")


def run(ctx):
    ctx.check_proofs(["prop/P_C19.v", "prop/P_C19_rigid.v"])
    src = srcparams.func_source("umap/aligned_umap.py", "expand_relations") or ""
    ctx.extra["source_bound_line"] = next((l.strip() for l in src.splitlines() if "len(relation_dicts)" in l and l.strip().startswith("if")), "not found")
    rng = ctx.rng
    npr = np.random.RandomState(rng.randrange(2 ** 31))
    thorough = ctx.tier != "quick"
    maps = partial_injections(3)
    cases = []       # (items_seq, w, injective)
    for L in ((1, 2, 3) if thorough else (1, 2)):
        for seq in itertools.product(maps, repeat=L):
            for w in (1, 2):
                cases.append((list(seq), w, True))
    for seq in itertools.product(maps, repeat=1):
        cases.append((list(seq), 0, True))
    for _ in range(200):
        cases.append(([rng.choice(maps) for _ in range(2)], 0, True))
    ctx.count("exhaustive_cases", len(cases))
    nrand = 4000 if thorough else 150
    for _ in range(nrand):
        cases.append(gen_random(rng))
    ctx.count("random_cases", nrand)
    # malformed stream: only the outcome class is compared
    bad = [([], 1), ([[]], 1), ([[(0, 1)], []], 2), ([[], [(0, 0)]], 1), ([[(0, 1)], [], [(1, 0)]], 2), ([], 0)]
    terms, meta = [], []
    for seq, w, inj in cases:
        status, shape, flat, T = call_expand(seq, w)
        key = (repr(seq), w)
        if status != 0:
            ctx.fail("expand_relations:raises", "exception class %d on a valid relation sequence" % status,
                     dict(relations=[[list(p) for p in it] for it in seq], window=w))
            ctx.tag(key, ["raises"])
        else:
            ctx.tag(key, case_tags(seq, w, inj))
            oracle_tensor(ctx, seq, w, T, injective=inj)
        ctx.count("datasets=%d" % (len(seq) + 1)); ctx.count("window=%d" % w)
        if len(seq) >= 2:
            ctx.sample(dict(relations=seq, window=w, tensor=T), 3)
        terms.append(coq_case(seq, w, status, shape, flat)); meta.append(dict(relations=[[list(p) for p in it] for it in seq], window=w, impl=flat, shape=shape))
    for seq, w in bad:
        status, shape, flat, T = call_expand(seq, w)
        ctx.tag(("bad", repr(seq), w), ["error_stream"])
        ctx.count("malformed")
        terms.append(coq_case(seq, w, status, shape, flat)); meta.append(dict(relations=seq, window=w, impl_status=status, malformed=True))
    shard = 600
    for s in range(0, len(terms), shard):
        text = HDR + ("Definition cases : list (list dict * nat * Z * (nat * nat * nat) * list Z) := %s.\n"
                      "Eval vm_compute in map verdict_C19 cases.\n" % clist(terms[s:s + shard]))
        blocks = ctx.coq_eval("cases_C19_%d" % (s // shard), text, what="expand ds w vs expand_relations tensor")
        if blocks is None:
            continue
        v = parse_zlist(blocks[0])
        if len(v) != len(terms[s:s + shard]):
            ctx.broken.append("C19 verdict list has %d entries for %d cases" % (len(v), len(terms[s:s + shard]))); continue
        for off, code in enumerate(v):
            ctx.traces += 1
            if code != -1:
                what = {-2: "shape", -3: "outcome class (returned / ValueError / IndexError)",
                        -4: "tensor differs from the model and equals the model with the original bound `i + j + 1 >= len(relation_dicts)`"}.get(code, "flat entry %d" % code)
                ctx.diff(meta[s + off], what)
    # Procrustes step
    for c in range(600 if thorough else 80):
        pc = procrustes_case(rng, npr)
        oracle_procrustes(ctx, pc)
        ctx.tag(("procrustes", c, pc["d"], pc["dtype"], pc["anchors"].shape[1]), ["procrustes_" + pc["dtype"]] + (["rank_deficient_anchors"] if pc["anchors"].shape[1] < pc["d"] else []))
        ctx.count("procrustes_d=%d" % pc["d"])
    # public API
    for c, ns in enumerate((3, 4, 2, 4, 3, 2) if thorough else (3, 4)):
        fc = fit_case(rng, npr, ns)
        oracle_fit(ctx, fc)
        ctx.tag(("fit", c, tuple(fc["sizes"]), fc["window"]), ["AlignedUMAP.fit_%d_slices" % ns])
        ctx.count("fit_slices=%d" % ns)
    ctx.notes.append("observed, outside the stated observation points: the regularised optimiser iterates `range(-window_size, window_size)` and so never uses "
                     "offset +window_size; it indexes the tensor's third axis by vertex number without a bound check, so the dictionaries must mention "
                     "the largest sample index that occurs in any graph (fit cases are generated that way).")
    return ctx.finish(RULE, trusted=["MathComp 1.x algebra library (matrix.v) for the rigidity lemma; the SVD of LAPACK is an oracle assumed to return orthogonal factors (checked numerically per run)"],
                      assumptions=["relation dictionaries are non-empty and the sequence has at least one relation (otherwise expand_relations raises ValueError: modelled, compared as an outcome class)",
                                   "keys and values are non-negative sample indices",
                                   "the regularised optimiser (layouts.py) and LAPACK's SVD are observed, not modelled"])


def replay(rep):
    from vp.common import Ctx
    c = rep.get("case") or (rep.get("diffs") or [{}])[0].get("case")
    if not c:
        return True
    ctx = Ctx("C19", "quick", 0)
    if "to_align" in c:
        dt = c["dtype"]
        oracle_procrustes(ctx, dict(d=c["d"], dtype=dt, base=np.array(c["base"], dtype=dt), to_align=np.array(c["to_align"], dtype=dt),
                                    anchors=np.array(c["anchors"], dtype=np.int64).reshape(2, -1)))
    elif "Xs" in c:
        oracle_fit(ctx, c)
    else:
        seq = [[(int(k), int(v)) for k, v in it] for it in c["relations"]]
        w = int(c["window"])
        if c.get("malformed"):
            status = call_expand(seq, w)[0]
            if status != 1:
                ctx.fail("expand_relations:outcome", "status %d" % status, c)
        else:
            status, shape, flat, T = call_expand(seq, w)
            if status != 0:
                ctx.fail("expand_relations:raises", "status %d" % status, c)
            else:
                inj = all(len(set(v for _, v in it)) == len(it) for it in seq)
                oracle_tensor(ctx, seq, w, T, injective=inj)
    for f in ctx.oracle_fail:
        print("  ", f["signature"], f["summary"])
    return bool(ctx.oracle_fail)

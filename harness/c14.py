"""C14 — every metric offered with a gradient returns the gradient of the distance it returns."""
import ast, math, os
import numpy as np
from vp.coqrun import fl, flist, clist, parse_zlist, parse_flist
from vp import srcparams, link
from vp.common import REPO
import umap.distances as D

RTOL, ATOL = 1e-4, 1e-6          # correspondence: model (binary64, Coq) vs implementation
COS_MIN, MAG_RTOL = 0.999, 1e-3  # oracle: direction / magnitude against finite differences of the returned distance
MARGIN = 0.02                    # relative distance kept from every kink of the metric (|x_i - y_i|, |x_i|, ties of the maximum, ...)
RULE = ("for every key of named_distances_with_gradients (read with ast from the current source): witness points of the "
        "*_refuted theorems first, then random differentiable points (kinks and zero distance excluded by a 2% margin), d 2..16 "
        "(2/3/4/5 for the special embeddings), scales 1e-4 (regulariser visible) .. 10, float32-valued inputs passed as float64 arrays; "
        "parameters p in {default, 1, 1.5, 2, 3, 4.5}, random positive sigma / w, random symmetric positive definite VI, z in {default, 1e-3}; "
        "implementation registry[name](x, y, *params) vs the Coq model's distance and gradient (rel 1e-4, abs 1e-6, computed inside Coq); "
        "oracle = Richardson-extrapolated central differences of the returned distance (float64): cosine similarity >= 0.999 and "
        "norm within 1e-3 (allowing the documented regulariser factor).  Non-trivial: any tag among small_scale/large_scale/"
        "negative_coords/p_not_2/default_params/alias/dim>=8/witness.")

# function name in the source -> (code in V_grads.run_model, kind of parameters)
FUNCS = {
    "euclidean_grad": (0, None), "standardised_euclidean_grad": (1, "sigma"), "manhattan_grad": (2, None),
    "chebyshev_grad": (3, None), "minkowski_grad": (4, "p"), "hyperboloid_grad": (5, None),
    "weighted_minkowski_grad": (6, "wp"), "mahalanobis_grad": (7, "vinv"), "canberra_grad": (8, None),
    "bray_curtis_grad": (9, None), "haversine_grad": (10, None), "cosine_grad": (11, None),
    "hellinger_grad": (12, None), "symmetric_kl_grad": (13, "z"), "correlation_grad": (14, None),
    "spherical_gaussian_energy_grad": (15, None), "diagonal_gaussian_energy_grad": (16, None),
    "gaussian_energy_grad": (17, None),
}
# translation tie (LINKING.md): functions whose current source is translated to Gallina (py2coq) and proved equal to the
# model of M_grads.v (coq/link/L_grads.v, theorem src_<fn>_eq); accepted gaps with the reason
NOT_TRANSLATED = {
    "gaussian_energy_grad": "outside the translator's subset: the literal 1e-32 (10^32 is not exactly representable in binary64, the "
                            "literal semantics m/10^k of PyPrim.nlit covers k <= 22) and the stores x[2] = np.abs(x[2]) ... into the "
                            "argument arrays; tied by the per-run correspondence only",
}
LINKED = [fn for fn in (
    "euclidean_grad", "standardised_euclidean_grad", "manhattan_grad", "chebyshev_grad", "minkowski_grad", "hyperboloid_grad",
    "weighted_minkowski_grad", "mahalanobis_grad", "canberra_grad", "bray_curtis_grad", "haversine_grad", "cosine_grad",
    "hellinger_grad", "symmetric_kl_grad", "correlation_grad", "spherical_gaussian_energy_grad", "diagonal_gaussian_energy_grad")]
FIXED_DIM = {"haversine_grad": 2, "spherical_gaussian_energy_grad": 3, "diagonal_gaussian_energy_grad": 4, "gaussian_energy_grad": 5}
# functions whose returned distance goes through float32 storage (mahalanobis' diff array): larger finite-difference step
FD_STEP = {"mahalanobis_grad": 2.0 ** -6}


def registry_from_source():
    """key -> function name of named_distances_with_gradients, read from the current source text"""
    tree = ast.parse(open(os.path.join(REPO, "umap/distances.py")).read())
    for node in tree.body:
        if isinstance(node, ast.Assign) and len(node.targets) == 1 and getattr(node.targets[0], "id", None) == "named_distances_with_gradients":
            if isinstance(node.value, ast.Dict):
                return {ast.literal_eval(k): (v.id if isinstance(v, ast.Name) else ast.dump(v)) for k, v in zip(node.value.keys, node.value.values)}
    return None


def f32(a):
    """float32-valued float64 array"""
    return np.asarray(a, dtype=np.float32).astype(np.float64)


# ---- generators: differentiable points --------------------------------------------------------------------------------
def gen_point(rng, npr, fname, tier):
    """returns dict(x, y, params (tuple passed to the implementation), ptag) or None if the draw is rejected"""
    tags = set()
    dim = FIXED_DIM.get(fname) or rng.choice([2, 3, 3, 4, 5, 6, 8, 11, 16] if tier == "quick" else [2, 3, 4, 5, 6, 8, 11, 16, 16, 33, 64])
    if fname == "correlation_grad":
        dim = max(dim, 3)
    s = rng.choice([1.0, 1.0, 1.0, 1e-4, 1e-4, 0.05, 10.0])
    if fname == "hyperboloid_grad":     # not scale-free (curvature 1); arccosh(B) near B = 1 loses the digits finite differences need
        s = rng.choice([1.0, 1.0, 0.05, 10.0])
    params, pm = (), {}
    m = MARGIN
    if fname == "haversine_grad":
        x = f32([rng.uniform(0.3, 2.8), rng.uniform(-3, 3)]); y = f32([rng.uniform(0.3, 2.8), rng.uniform(-3, 3)])
        a = math.sin((x[0] - y[0]) / 2) ** 2 + math.sin(x[0]) * math.sin(y[0]) * math.sin((x[1] - y[1]) / 2) ** 2
        if not (0.01 < a < 0.99):
            return None
        s = 1.0
    elif fname in ("spherical_gaussian_energy_grad", "diagonal_gaussian_energy_grad", "gaussian_energy_grad"):
        s = 1.0
        x = npr.normal(size=dim); y = npr.normal(size=dim)
        nw = {"spherical_gaussian_energy_grad": 1, "diagonal_gaussian_energy_grad": 2, "gaussian_energy_grad": 2}[fname]
        for j in range(2, 2 + nw):   # widths: bounded away from 0 (kink of abs), either sign
            x[j] = rng.uniform(0.2, 2.0) * rng.choice([1, 1, -1]); y[j] = rng.uniform(0.2, 2.0) * rng.choice([1, 1, -1])
        if fname == "gaussian_energy_grad":
            x[4] = rng.uniform(-1.4, 1.4); y[4] = rng.uniform(-1.4, 1.4)   # inside arcsin(sin(.))'s smooth branch
        x, y = f32(x), f32(y)
        if any(v < 0 for v in x[2:2 + nw]): tags.add("negative_coords")
    elif fname in ("hellinger_grad", "symmetric_kl_grad"):
        x = f32(npr.uniform(0.1, 1.0, size=dim) * s); y = f32(npr.uniform(0.1, 1.0, size=dim) * s)
        if fname == "symmetric_kl_grad":
            s = 1.0
            x = f32(npr.uniform(0.1, 1.0, size=dim)); y = f32(npr.uniform(0.1, 1.0, size=dim))
            if rng.random() < 0.5:
                x = f32(x / x.sum()); y = f32(y / y.sum())
            if rng.random() < 0.5:
                params, pm = (1e-3,), {"z": 1e-3}
            else:
                tags.add("default_params")
    else:
        x = npr.normal(size=dim) * s; y = npr.normal(size=dim) * s
        if fname == "bray_curtis_grad" and rng.random() < 0.6:
            x, y = np.abs(x) + m * s, np.abs(y) + m * s
        if fname == "canberra_grad" and rng.random() < 0.3:
            y[rng.randrange(dim)] = 0.0           # |x - 0| / (|x| + 0) = 1: flat coordinate
        x, y = f32(x), f32(y)
        if fname in ("bray_curtis_grad", "canberra_grad") and np.any(x < 0): tags.add("negative_coords")
    # Minkowski exponent first: for p > 1 the distance is differentiable where a coordinate of x equals that of y (partial derivative 0),
    # so exact ties are generated there (quantised / count data); for p = 1 they are kinks
    mk_p = None
    if fname == "minkowski_grad":
        mk_p = rng.choice([None, 1.0, 1.5, 2.0, 3.0, 4.5, 1.25, 1.9])
    if fname == "weighted_minkowski_grad":
        mk_p = rng.choice([1.0, 1.5, 2.0, 3.0, 4.5, 1.25, 1.9])
    smooth_ties = fname in ("minkowski_grad", "weighted_minkowski_grad") and (mk_p is None or mk_p > 1.0)
    if smooth_ties and rng.random() < 0.45 and dim >= 2:
        for j in rng.sample(range(dim), rng.randint(1, max(1, dim // 2))):
            y[j] = x[j]
        tags.add("tied_coordinate")
        if np.abs(x - y).max() < 0.2 * s: return None
    # kinks
    diff = np.abs(x - y)
    if fname in ("manhattan_grad", "minkowski_grad", "weighted_minkowski_grad", "canberra_grad", "bray_curtis_grad", "chebyshev_grad"):
        nz = diff[diff > 0] if smooth_ties else diff
        if nz.size == 0 or nz.min() < m * s: return None
    if fname == "canberra_grad" and np.abs(x).min() < m * s: return None
    if fname == "bray_curtis_grad" and np.abs(x + y).min() < m * s: return None
    if fname == "chebyshev_grad":
        top = np.sort(diff)
        if top[-1] - top[-2] < m * s: return None
    if fname in ("euclidean_grad", "standardised_euclidean_grad", "mahalanobis_grad", "hyperboloid_grad") and np.linalg.norm(x - y) < 0.2 * s:
        return None
    # parameters
    if fname == "minkowski_grad":
        p = mk_p
        if p is None: tags.add("default_params")
        else: params, pm = (p,), {"p": p}
        if p not in (None, 2.0): tags.add("p_not_2")
    if fname == "weighted_minkowski_grad":
        p = mk_p
        w = f32(npr.uniform(0.3, 3.0, size=dim))
        params, pm = (w, p), {"w": w, "p": p}
        if p != 2.0: tags.add("p_not_2")
    if fname == "standardised_euclidean_grad":
        if dim == 2 and rng.random() < 0.3:
            tags.add("default_params")
        else:
            sg = f32(npr.uniform(0.3, 3.0, size=dim)); params, pm = (sg,), {"sigma": sg}
    if fname == "mahalanobis_grad":
        if dim == 2 and rng.random() < 0.2:
            tags.add("default_params")
        else:
            A = npr.normal(size=(dim, dim)) / math.sqrt(dim)
            V = f32(A @ A.T + np.eye(dim)); V = f32((V + V.T) / 2)
            params, pm = (V,), {"vinv": V}
    if s < 1e-2: tags.add("small_scale")
    if s > 1: tags.add("large_scale")
    if dim >= 8: tags.add("dim>=8")
    return dict(fname=fname, x=x, y=y, params=params, pm=pm, scale=s, tags=tags)


# points of the *_refuted theorems (coq/thm/T_grads_refuted.v) — the smallest demonstrations, run first
WITNESS = {
    "cosine_grad": [dict(x=[1.0, 0.0], y=[1.0, 1.0])],
    "minkowski_grad": [dict(x=[2.0, 0.0], y=[0.0, 0.0], pm={"p": 2.0})],
    "weighted_minkowski_grad": [dict(x=[2.0, 0.0], y=[0.0, 0.0], pm={"w": [1.0, 1.0], "p": 2.0})],
    "correlation_grad": [dict(x=[-1.0, 0.0, 1.0], y=[2.0, -2.0, 0.0])],
    "hellinger_grad": [dict(x=[1.0, 4.0], y=[4.0, 1.0])],
    "bray_curtis_grad": [dict(x=[-2.0, 1.0], y=[-1.0, 3.0])],
    "symmetric_kl_grad": [dict(x=[0.25, 0.75], y=[0.5, 0.5], pm={"z": 0.0})],
    "gaussian_energy_grad": [dict(x=[0.0, 0.0, 1.0, 1.0, 0.0], y=[1.0, 0.0, 1.0, 1.0, 0.0])],
}


def witness_case(fname, w):
    pm = {k: (f32(v) if isinstance(v, list) else v) for k, v in w.get("pm", {}).items()}
    order = {"minkowski_grad": ["p"], "weighted_minkowski_grad": ["w", "p"], "symmetric_kl_grad": ["z"]}.get(fname, [])
    return dict(fname=fname, x=f32(w["x"]), y=f32(w["y"]), params=tuple(pm[k] for k in order), pm=pm, scale=1.0, tags={"witness"})


# ---- implementation + oracle ------------------------------------------------------------------------------------------
def call(f, x, y, params):
    d, g = f(x.copy(), y.copy(), *[p.copy() if isinstance(p, np.ndarray) else p for p in params])
    return float(d), np.asarray(g, dtype=np.float64)


def fd_gradient(f, x, y, params, h):
    """central differences of the returned distance, Richardson-extrapolated (h, h/2); also the raw disagreement of the two steps"""
    n = len(x)
    g = np.zeros(n); spread = 0.0
    for i in range(n):
        def at(t):
            xx = x.copy(); xx[i] += t
            return call(f, xx, y, params)[0]
        d1 = (at(h) - at(-h)) / (2 * h)
        d2 = (at(h / 2) - at(-h / 2)) / h
        g[i] = (4 * d2 - d1) / 3
        spread = max(spread, abs(d2 - d1))
    return g, spread


def regulariser(fname, d, x, y, pm):
    """documented regulariser: lower bound rho of (returned gradient norm / true gradient norm), from the source's own constants"""
    try:
        if fname in ("euclidean_grad", "mahalanobis_grad"):
            return d / (d + 1e-6)
        if fname == "standardised_euclidean_grad":
            sg = pm.get("sigma", np.ones(len(x)))
            return float(np.min(d * sg / (d * sg + 1e-6)))
        if fname in ("minkowski_grad", "weighted_minkowski_grad"):
            R = d ** (pm.get("p", 2.0) - 1.0)
            return R / (R + 1e-6)
        if fname == "haversine_grad":
            a = math.sin(d / 2) ** 2
            den = math.sqrt(abs(a * (1 - a)))
            return den / (den + 1e-6)
    except Exception:
        pass
    return 1.0


def oracle(ctx, f, case, d, g):
    """float64 statement of the property on the implementation's output; returns True iff it holds"""
    fname, x, y, params, s = case["fname"], case["x"], case["y"], case["params"], case["scale"]
    desc = dict(function=fname, x=x, y=y, params=case["pm"], scale=s)
    n = len(x)
    if not (math.isfinite(d) and len(g) >= n and np.all(np.isfinite(g[:n]))):
        ctx.fail("%s:nonfinite" % fname, "distance %r gradient %r at a differentiable point" % (d, g.tolist()), desc); return False
    g = g[:n]
    fd, spread = fd_gradient(f, x, y, params, FD_STEP.get(fname, 1e-5) * s)
    nf, ng = float(np.linalg.norm(fd)), float(np.linalg.norm(g))
    if nf < 1e-9 / s and ng < 1e-9 / s:
        return True
    cos = float(g @ fd) / (ng * nf) if ng > 0 and nf > 0 else 0.0
    rho = regulariser(fname, d, x, y, case["pm"])
    ok_dir = cos >= COS_MIN
    ok_mag = rho * nf * (1 - MAG_RTOL) <= ng <= nf * (1 + MAG_RTOL)
    if ok_dir and ok_mag:
        return True
    what = []
    if not ok_dir: what.append("direction: cosine similarity %.6f" % cos)
    if not ok_mag: what.append("magnitude: |grad| / |finite-difference grad| = %.6g (regulariser allows down to %.6g)" % (ng / nf if nf else float("inf"), rho))
    ctx.fail("%s:not_derivative" % fname,
             "%s at x=%s y=%s %s: returned gradient %s, finite-difference gradient of the returned distance (%.9g) %s — %s"
             % (fname, x.tolist(), y.tolist(), {k: (v.tolist() if isinstance(v, np.ndarray) else v) for k, v in case["pm"].items()},
                np.round(g, 6).tolist(), d, np.round(fd, 6).tolist(), "; ".join(what)),
             dict(desc, returned_distance=d, returned_gradient=g, finite_difference_gradient=fd, cosine=cos, norm_ratio=(ng / nf if nf else None)))
    return False


def case_term(case, d, g, defaults):
    fname, x, y, pm = case["fname"], case["x"], case["y"], case["pm"]
    code = FUNCS[fname][0]
    n = len(x)
    v, p, mrows = [], 0.0, []
    if fname == "standardised_euclidean_grad": v = pm.get("sigma", np.ones(n)).tolist()
    if fname == "weighted_minkowski_grad": v = pm["w"].tolist(); p = pm["p"]
    if fname == "minkowski_grad": p = pm.get("p", defaults.get("minkowski_grad", {}).get("p", 2))
    if fname == "symmetric_kl_grad": p = pm.get("z", defaults.get("symmetric_kl_grad", {}).get("z", 1e-11))
    if fname == "mahalanobis_grad": mrows = pm.get("vinv", np.eye(n)).tolist()
    return "(mkG %d%%nat %s %s %s %s %s %s %s)" % (code, flist(x.tolist()), flist(y.tolist()), flist(v), fl(p),
                                                  "[" + "; ".join(flist(r) for r in mrows) + "]", fl(d), flist(g[:n].tolist()))


def field_name(code):
    return "distance" if code == 1 else "gradient length" if code == 2 else "gradient[%d]" % (code - 10)


def selftest(ctx, rng):
    xs = [rng.uniform(-8, 8) for _ in range(150)] + [rng.uniform(-200, 200) for _ in range(30)] + [0.0, math.pi / 2, -math.pi, 1e-9]
    us = [rng.uniform(-1, 1) for _ in range(150)] + [0.0, 0.5, -0.5, 1.0, -1.0, 0.999999, 1e-8]
    text = ("From Coq Require Import List PrimFloat. From UV Require Import V_grads. Import ListNotations. Open Scope float_scope.\n"
            "Eval vm_compute in selftest_trig %s.\nEval vm_compute in selftest_asin %s.\n" % (flist(xs), flist(us)))
    ctx.obligations.append("gen/selftest_C14.v:software sin/cos/asin agree with math")
    b = ctx.coq_eval("selftest_C14", text, what="software sin/cos/asin of V_grads.v vs Python math")
    if b is None:
        return
    sc = parse_flist(b[0]); a = parse_flist(b[1])
    worst = 0.0
    if len(sc) != 2 * len(xs) or len(a) != len(us):
        ctx.broken.append("C14 selftest: unexpected output length"); return
    for i, x in enumerate(xs):
        worst = max(worst, abs(sc[i] - math.sin(x)), abs(sc[len(xs) + i] - math.cos(x)))
    for u, v in zip(us, a):
        worst = max(worst, abs(v - math.asin(u)))
    ctx.extra["trig_selftest_worst_abs_err"] = worst
    if worst > 1e-12:
        ctx.broken.append("V_grads software sin/cos/asin deviate from math by %g" % worst)
    else:
        ctx.discharged.append("gen/selftest_C14.v:software sin/cos/asin agree with math")


# capstone corollaries of coq/link/K_grads.v: for each of these functions, the P_C14 theorem restated about the translated source
CAPSTONES = tuple("C14_src_%s_grad" % f for f in (
    "euclidean", "manhattan", "chebyshev", "minkowski", "weighted_minkowski", "standardised_euclidean", "mahalanobis", "cosine",
    "correlation", "canberra", "bray_curtis", "hellinger", "hyperboloid", "haversine", "spherical_gaussian_energy",
    "diagonal_gaussian_energy"))


def run(ctx):
    ctx.check_proofs(["prop/P_C14.v"])
    # translation tie: Gallina regenerated from the current umap/distances.py; link theorems src_<fn>_eq (= M_grads model) re-checked
    lres = link.check(ctx, "distances_grads", {fn: "src_%s_eq" % fn for fn in LINKED}, NOT_TRANSLATED)
    # capstone corollaries (coq/link/K_grads.v): "returned gradient = derivative of the returned distance" about the translated source itself
    for thm in CAPSTONES:
        ob = "link:distances_grads:" + thm
        ctx.obligations.append(ob)
        badax = [a for a in lres.axioms.get(thm, []) if a not in link.coqrun.ALLOWED_AXIOMS and not ctx._primitive(a)]
        if lres.theorems.get(thm) is True and not badax:
            ctx.discharged.append(ob)
        else:
            ctx.broken.append("link[distances_grads]: corollary %s %s" % (thm, ("uses axioms %s" % badax) if badax else (lres.theorems.get(thm) or "is missing")))
    src_ready = lres.ok and not any("E_grads" in e for e in lres.errors)
    link_broken = any(b.startswith("link[") for b in ctx.broken)
    rng = ctx.rng
    npr = np.random.RandomState(rng.randrange(2 ** 31))
    selftest(ctx, rng)
    # ---- per-run source tie: every registry key must have a model + verdict --------------------------------------------
    reg = registry_from_source()
    if reg is None:
        ctx.notes.append("named_distances_with_gradients could not be read with ast; using the imported module's registry")
        reg = {k: getattr(v, "__name__", str(v)) for k, v in D.named_distances_with_gradients.items()}
    if set(reg) != set(D.named_distances_with_gradients):
        ctx.broken.append("registry keys read from the source differ from the imported module's")
    ctx.extra["registry"] = reg
    try:
        ptext = open(os.path.join(os.path.dirname(os.path.dirname(os.path.abspath(__file__))), "coq", "prop", "P_C14.v")).read()
    except OSError:
        ptext = ""
    for key, fname in sorted(reg.items()):
        ob = "registry:%s->%s has a model, a verdict and a theorem" % (key, fname)
        ctx.obligations.append(ob)
        has_thm = ("Theorem C14_%s_derive " % fname) in ptext or ("Theorem C14_%s_refuted " % fname) in ptext
        if fname in FUNCS and has_thm:
            ctx.discharged.append(ob)
        elif fname in FUNCS:
            ctx.broken.append("gradient registry entry %r -> %s has no theorem C14_%s_derive / _refuted in P_C14.v" % (key, fname, fname))
        else:
            ctx.broken.append("gradient registry entry %r -> %s has no model in M_grads.v / verdict in V_grads.v" % (key, fname))
    defaults = {fn: srcparams.func_defaults("umap/distances.py", fn) for fn in ("minkowski_grad", "weighted_minkowski_grad", "symmetric_kl_grad")}
    ctx.extra["source_defaults"] = defaults
    per = 40 if ctx.tier == "quick" else 400
    terms, cases = [], []
    first_alias = {}
    for key in sorted(reg):
        fname = reg[key]
        f = D.named_distances_with_gradients.get(key)
        if f is None:
            continue
        alias = fname in first_alias
        first_alias.setdefault(fname, key)
        todo = [witness_case(fname, w) for w in WITNESS.get(fname, [])] if not alias else []
        if fname in FUNCS:
            n_gen, tries = 0, 0
            while n_gen < per and tries < per * 60:
                tries += 1
                c = gen_point(rng, npr, fname, ctx.tier)
                if c is not None:
                    todo.append(c); n_gen += 1
        else:   # unknown function: generic points, oracle only
            for _ in range(per):
                dim = rng.choice([2, 3, 4, 5])
                todo.append(dict(fname=fname, x=f32(npr.normal(size=dim)), y=f32(npr.normal(size=dim)), params=(), pm={}, scale=1.0, tags=set()))
        for c in todo:
            c["key"] = key
            if alias: c["tags"].add("alias")
            try:
                d, g = call(f, c["x"], c["y"], c["params"])
            except Exception as e:
                if fname in FUNCS:
                    ctx.fail("%s:raises" % fname, "%s: %s" % (type(e).__name__, e), dict(function=fname, x=c["x"], y=c["y"], params=c["pm"]))
                continue
            ctx.tag((key, c["x"].tobytes(), c["y"].tobytes(), repr(c["pm"])), sorted(c["tags"]))
            ctx.count(fname); ctx.count("dim_%d" % len(c["x"])); ctx.count("scale_%g" % c["scale"])
            if len(g) != len(c["x"]):
                ctx.count("gradient_longer_than_x:%s" % fname)
            if "witness" not in c["tags"]:
                ctx.sample(dict(key=key, function=fname, x=c["x"], y=c["y"], params=c["pm"], distance=d, gradient=g), 3)
            try:
                oracle(ctx, f, c, d, g)
            except Exception as e:
                ctx.fail("%s:raises" % fname, "during finite differences: %s: %s" % (type(e).__name__, e), dict(function=fname, x=c["x"], y=c["y"], params=c["pm"]))
            if fname in FUNCS and math.isfinite(d) and len(g) >= len(c["x"]):
                terms.append(case_term(c, d, g, defaults))
                cases.append(dict(key=key, function=fname, x=c["x"], y=c["y"], params=c["pm"], distance=d, gradient=g))
    if ctx.dist.get("gradient_longer_than_x:diagonal_gaussian_energy_grad"):
        ctx.notes.append("diagonal_gaussian_energy_grad returns a 6-vector for 4-dimensional input (np.empty(6), entries 4,5 never written); "
                         "only the first len(x) entries are compared, as the layout optimisers read them")
    # ---- correspondence ------------------------------------------------------------------------------------------------
    hdr = ("From Coq Require Import List ZArith PrimFloat. From UV Require Import Num FNum M_grads V_grads.\n"
           "Import ListNotations. Open Scope float_scope.\n")
    shard = 150
    for s in range(0, len(terms), shard):
        text = hdr + ("Definition cases : list gcase := %s.\nEval vm_compute in map (verdict_C14 %s %s) cases.\n"
                      % (clist(terms[s:s + shard]), fl(RTOL), fl(ATOL)))
        if src_ready:
            # the translated source itself, run in binary64 on the same cases (validates the translator)
            text = text.replace("Import ListNotations.", "From UVS Require Import E_grads.\nImport ListNotations.", 1)
            text += "Eval vm_compute in map (verdict_src_C14 %s %s) cases.\n" % (fl(RTOL), fl(ATOL))
            if link_broken:
                text += "Eval vm_compute in map (verdict_src_vs_model %s %s) cases.\n" % (fl(RTOL), fl(ATOL))
            blocks = link.coq_eval(ctx, lres, "cases_C14_%d" % (s // shard), text,
                                   what="M_grads *_grad and translated source (binary64) vs named_distances_with_gradients")
        else:
            blocks = ctx.coq_eval("cases_C14_%d" % (s // shard), text, what="M_grads *_grad (binary64) vs named_distances_with_gradients")
        if blocks is None:
            continue
        v = parse_zlist(blocks[0])
        if len(v) != len(terms[s:s + shard]):
            ctx.broken.append("C14 verdict list length mismatch"); continue
        for off, code in enumerate(v):
            ctx.traces += 1
            if code != -1:
                ctx.diff(cases[s + off], "%s: %s" % (cases[s + off]["function"], field_name(code)))
        if src_ready and len(blocks) > 1:
            vs = parse_zlist(blocks[1])
            if len(vs) != len(v):
                ctx.broken.append("C14 translated-source verdict list length mismatch"); continue
            for off, code in enumerate(vs):
                if code == -2:
                    continue
                ctx.extra["translated_source_evaluations"] = ctx.extra.get("translated_source_evaluations", 0) + 1
                if code != -1 and v[off] == -1:     # (a case the model already disagrees on is reported once, above)
                    fn = cases[s + off]["function"]
                    ctx.diff(cases[s + off], "%s: %s: TRANSLATED SOURCE src_%s (binary64) vs implementation" % (fn, field_name(code), fn))
            if link_broken and len(blocks) > 2:
                for off, code in enumerate(parse_zlist(blocks[2])[:len(v)]):
                    if code in (-1, -2):
                        continue
                    fn = cases[s + off]["function"]
                    key = "link_counterexample_" + fn
                    if key not in ctx.extra:
                        ctx.extra[key] = dict(cases[s + off], note="translated source and hand-written model differ on this input (%s)" % field_name(code))
                        ctx.diff(cases[s + off], "%s: %s: translated source differs from the model %s of M_grads.v on this input" % (fn, field_name(code), fn))
    ctx.partial += PARTIAL
    return ctx.finish(RULE, assumptions=[
        "theorems are over R; float32 storage of some gradient arrays and of mahalanobis' diff array is observed, not modelled",
        "points within %g (relative to the scale) of a kink or of zero distance are not generated" % MARGIN,
        "the model mirrors the REPAIRED cosine/minkowski/weighted_minkowski/correlation/hellinger/bray_curtis gradients (proposed_fixes/C14_*.diff)"])


PARTIAL = [
    "symmetric_kl_grad and gaussian_energy_grad are not derivatives of their returned distances (C14_*_refuted, known findings); no positive theorem exists for them",
    "haversine / spherical / diagonal Gaussian energy theorems are for the functions' fixed dimensions (2 / 3 / 4); all other theorems hold for every dimension",
    "derivative theorems assume the stated differentiability hypotheses (x_i <> y_i, unique maximiser, positive norms, symmetric VI, B > 1, ...); behaviour at kinks is not claimed",
]


def replay(rep):
    """re-run the oracle on the stored case against the current tree; True iff it still fails"""
    from vp.common import Ctx
    c = rep.get("case") or (rep.get("diffs") or [{}])[0].get("case")
    if not c:
        return True
    fname = c["function"]
    reg = registry_from_source() or {}
    key = c.get("key") or next((k for k, v in reg.items() if v == fname), None)
    f = D.named_distances_with_gradients.get(key) if key else getattr(D, fname, None)
    if f is None:
        print("   function %s no longer registered" % fname); return True
    pm = {k: (f32(v) if isinstance(v, list) else v) for k, v in (c.get("params") or {}).items()}
    order = {"minkowski_grad": ["p"], "weighted_minkowski_grad": ["w", "p"], "symmetric_kl_grad": ["z"],
             "standardised_euclidean_grad": ["sigma"], "mahalanobis_grad": ["vinv"]}.get(fname, [])
    case = dict(fname=fname, x=np.asarray(c["x"], dtype=np.float64), y=np.asarray(c["y"], dtype=np.float64),
                params=tuple(pm[k] for k in order if k in pm), pm=pm, scale=c.get("scale", 1.0), tags=set())
    ctx = Ctx("C14", "quick", 0)
    try:
        d, g = call(f, case["x"], case["y"], case["params"])
        oracle(ctx, f, case, d, g)
    except Exception as e:
        print("   %s raises %s: %s" % (fname, type(e).__name__, e)); return True
    for fl_ in ctx.oracle_fail:
        print("  ", fl_["signature"], fl_["summary"])
    return bool(ctx.oracle_fail)

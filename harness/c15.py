"""C15 — spectral initialisation returns the low-frequency eigenvectors of the symmetric normalised Laplacian.

Correspondence (model evaluated in Coq, binary64):
  (a) the operator handed to scipy.sparse.linalg.eigsh (intercepted) vs M_spectral.laplacian, every entry, abs 1e-6;
  (b) the intercepted solver answers exact dense eigh pairs in shuffled order (sometimes an arbitrary subset, sometimes
      with tied eigenvalues); the columns spectral_layout returns vs the model's selection (exact positions):
      M_spectral.select_nontrivial when the source carries the proposed repair (drop the column parallel to sqrt_deg only
      if present), M_spectral.select_cols = argsort[1:k] for the unrepaired source (read from the source text per run);
  (c) multi_component_layout with the recursive solver / the uniform generator / component_layout / pairwise_distances
      intercepted: the float32 result vs M_spectral.multi_layout (centres, data_range, rescaling, write-back).
Oracle (independent float64 statement of the property text, real solvers): shape, finiteness, residual, orthogonality to
sqrt(deg), Rayleigh quotients = the dim smallest non-trivial eigenvalues of a dense eigh; disconnected graphs: one finite
row per vertex.
"""
import warnings
import numpy as np, scipy.sparse as sp, scipy.sparse.linalg, scipy.sparse.csgraph as csg
from vp.coqrun import fl, clist, parse_zlist
from vp import srcparams
import umap, umap.spectral as S, umap.umap_ as U

LAP_ATOL = 1e-6          # entries of the operator (float32 graph arithmetic vs binary64 model)
RES_TOL = 1e-3           # ||Lv - lam v|| <= RES_TOL * (1 + |lam|)
EPS32 = 2.0 ** -24
ORTH_TOL = 1e-3          # |<v, sqrt deg>| / (|v| |sqrt deg|)
EIG_TOL = 2e-3           # sorted Rayleigh quotients vs dense eigenvalues: EIG_TOL * (1 + |lam|)
MULTI_RTOL, MULTI_ATOL = 2e-6, 2e-6   # float32 result rows
FALLBACK_MSG = "Spectral initialisation failed"

RULE = ("connected graphs: fuzzy_simplicial_set outputs (float32) and arbitrary symmetric positive-weight graphs (float64/float32; "
        "sparse, dense, two weakly joined clusters, rings), n 6..40 for the Coq-evaluated correspondence and up to 70 for the oracle, "
        "dim 1..10 with n > dim+1; disconnected graphs with 2..8 components of sizes 1..14 in shuffled vertex order.  Non-trivial: "
        "degrees not all equal, or solver answer shuffled / subset / tied, or more than one component.")


# ---------------------------------------------------------------------------------------------------- generators
def _sym_from_upper(Uu):
    Uu = np.triu(Uu, 1)
    return Uu + Uu.T


def gen_random_connected(rng, npr, n, dtype, p=None):
    p = p if p is not None else rng.choice([0.12, 0.3, 0.6, 0.9])
    W = npr.uniform(0.01, 1.0, size=(n, n)) * (npr.random((n, n)) < p)
    W = np.triu(W, 1)
    perm = npr.permutation(n)
    for a, b in zip(perm[:-1], perm[1:]):          # spanning path: connected
        i, j = (a, b) if a < b else (b, a)
        if W[i, j] == 0:
            W[i, j] = npr.uniform(0.01, 1.0)
    A = (W + W.T).astype(dtype)
    return sp.csr_matrix(A)


def gen_two_clusters(rng, npr, n, dtype):
    h = max(2, n // 2)
    A = np.zeros((n, n))
    A[:h, :h] = npr.uniform(0.2, 1.0, size=(h, h))
    A[h:, h:] = npr.uniform(0.2, 1.0, size=(n - h, n - h))
    A = _sym_from_upper(A)
    A[h - 1, h] = A[h, h - 1] = 10 ** rng.uniform(-3, -1)   # weak bridge: small lambda_2
    return sp.csr_matrix(A.astype(dtype))


def gen_ring(rng, npr, n, dtype):
    A = np.zeros((n, n))
    for i in range(n):
        w = npr.uniform(0.3, 1.0)
        A[i, (i + 1) % n] = A[(i + 1) % n, i] = w
    return sp.csr_matrix(A.astype(dtype))


def gen_fss(rng, npr, n):
    """a graph from the real graph stage (brute-force kNN table -> fuzzy_simplicial_set), connected"""
    for _ in range(30):
        d = rng.randint(1, 5)
        X = npr.normal(size=(n, d)) * 10 ** rng.uniform(-1, 1)
        k = rng.randint(3, max(3, min(n - 1, 10)))
        D = np.sqrt(((X[:, None, :] - X[None, :, :]) ** 2).sum(-1))
        idx = np.argsort(D, axis=1, kind="stable")[:, :k].astype(np.int64)
        dist = np.take_along_axis(D, idx, axis=1).astype(np.float32)
        G, _, _ = U.fuzzy_simplicial_set(X, k, np.random.RandomState(0), "euclidean", knn_indices=idx, knn_dists=dist)
        G = G.tocsr()
        if csg.connected_components(G)[0] == 1:
            return G
    return None


def gen_connected(rng, npr, n, kind=None):
    kind = kind or rng.choice(["fss", "fss", "rand64", "rand64", "rand32", "clusters", "ring"])
    G = None
    if kind == "fss":
        G = gen_fss(rng, npr, n)
        if G is None:
            kind = "rand32"
    if kind == "rand64":
        G = gen_random_connected(rng, npr, n, np.float64)
    elif kind == "rand32":
        G = gen_random_connected(rng, npr, n, np.float32)
    elif kind == "clusters":
        G = gen_two_clusters(rng, npr, n, rng.choice([np.float64, np.float32]))
    elif kind == "ring":
        G = gen_ring(rng, npr, n, np.float64)
    return kind, G


def gen_disconnected(rng, npr, dim, max_comp=8, max_size=14):
    ncomp = rng.randint(2, max_comp)
    sizes = []
    for _ in range(ncomp):
        r = rng.random()
        if r < 0.25:
            sizes.append(1 if rng.random() < 0.5 else rng.randint(1, 3))
        elif r < 0.5:
            sizes.append(rng.randint(2, max(2, 2 * dim)))
        else:
            sizes.append(rng.randint(max(2 * dim, dim + 2), max(2 * dim, dim + 2) + max_size))
    n = sum(sizes)
    A = np.zeros((n, n))
    lab = np.zeros(n, dtype=int)
    o = 0
    for c, m in enumerate(sizes):
        if m > 1:
            A[o:o + m, o:o + m] = gen_random_connected(rng, npr, m, np.float64, p=rng.choice([0.3, 0.7])).toarray()
        lab[o:o + m] = c
        o += m
    perm = npr.permutation(n)                      # interleave the components
    A = A[np.ix_(perm, perm)]
    lab = lab[perm]
    centres = npr.normal(size=(ncomp, 3)) * 5
    X = centres[lab] + npr.normal(size=(n, 3)) * 0.3
    dtype = rng.choice([np.float32, np.float64])
    return sp.csr_matrix(A.astype(dtype)), X, sizes


# ---------------------------------------------------------------------------------------------------- helpers
def dense64(G):
    return np.asarray(G.todense() if sp.issparse(G) else G, dtype=np.float64)


def densify_operator(M):
    n = M.shape[0]
    if sp.issparse(M):
        return np.asarray(M.toarray(), dtype=np.float64)
    if isinstance(M, scipy.sparse.linalg.LinearOperator):
        return np.asarray(M.matmat(np.eye(n)), dtype=np.float64)
    return np.asarray(M, dtype=np.float64)


def graph_case(G, dim, **extra):
    A = dense64(G)
    return dict(n=int(A.shape[0]), dim=int(dim), dtype=str(G.dtype), graph=A.tolist(), **extra)


def graph_from_case(c):
    A = np.array(c["graph"], dtype=np.float64)
    return sp.csr_matrix(A.astype(np.float32 if c.get("dtype") == "float32" else np.float64))


def srow_term(vals):
    return "[" + "; ".join("(%d%%nat, %s)" % (j, fl(v)) for j, v in enumerate(vals) if v != 0) + "]"


def rows_term(M):
    return clist([srow_term(r) for r in np.asarray(M).tolist()])


def fmat_term(M):
    """list of float lists"""
    return "[" + ";\n   ".join("[" + "; ".join(fl(x) for x in r) + "]" for r in np.asarray(M, dtype=np.float64).tolist()) + "]"


def natlist(xs):
    return "[" + "; ".join("%d" % int(x) for x in xs) + "]%nat"


class Spies:
    """install / remove attribute replacements on umap.spectral"""
    def __init__(self):
        self.saved = []

    def set(self, obj, name, val):
        self.saved.append((obj, name, getattr(obj, name)))
        setattr(obj, name, val)

    def restore(self):
        for obj, name, val in reversed(self.saved):
            setattr(obj, name, val)
        self.saved = []


# ---------------------------------------------------------------------------------------------------- oracle
def normalised_laplacian(A):
    d = A.sum(axis=0)
    s = np.sqrt(d)
    return np.eye(A.shape[0]) - A / s[:, None] / s[None, :], s


def oracle_connected(ctx, where, G, dim, E, fell_back, case, check_smallest=True):
    """the property text on the implementation's output for a connected graph with n > dim + 1"""
    A = dense64(G)
    n = A.shape[0]
    fails = []
    E = np.asarray(E)
    if E.shape != (n, dim):
        fails.append(("shape", "returned shape %s for n=%d dim=%d" % (E.shape, n, dim)))
    elif not np.all(np.isfinite(E)):
        fails.append(("nonfinite", "non-finite coordinates"))
    elif fell_back:
        fails.append(("fallback_random:connected", "solver failed on a connected graph; random layout returned instead of eigenvectors"))
    else:
        L, s = normalised_laplacian(A)
        ev = np.linalg.eigvalsh(L)
        rq = []
        for j in range(dim):
            v = E[:, j].astype(np.float64)
            nv = np.linalg.norm(v)
            if nv == 0:
                fails.append(("zero_column", "column %d is zero" % j)); continue
            v = v / nv
            lam = float(v @ L @ v)
            res = float(np.linalg.norm(L @ v - lam * v))
            rq.append(lam)
            if res > RES_TOL * (1 + abs(lam)):
                fails.append(("residual", "column %d: ||Lv - lam v|| = %.3g for lam = %.6g" % (j, res, lam)))
            c = abs(float(v @ s)) / np.linalg.norm(s)
            # a float32 graph makes the implementation's L a ~4*eps32 perturbation of the exact one; the angle between the
            # perturbed and the exact eigenvector is bounded by perturbation / gap, and the gap to the trivial eigenvalue is lam
            orth_tol = ORTH_TOL + (4 * EPS32 / max(lam, 1e-300) if G.dtype == np.float32 else 0.0)
            if c > orth_tol:
                fails.append(("not_orthogonal_to_trivial", "column %d: cosine with sqrt(deg) = %.3g (lam = %.6g)" % (j, c, lam)))
        if check_smallest and len(rq) == dim and not fails:
            r = np.sort(np.array(rq))
            want = ev[1:dim + 1]
            tol = EIG_TOL * (1 + np.abs(want))
            if np.any(np.abs(r - want) > tol):
                msg = "Rayleigh quotients %s, smallest non-trivial eigenvalues %s (next %s)" % (
                    np.round(r, 5).tolist(), np.round(want, 5).tolist(), np.round(ev[dim + 1:dim + 3], 5).tolist())
                nxt = ev[2:dim + 2] if n > dim + 1 else None
                if nxt is not None and len(nxt) == dim and np.all(np.abs(r - nxt) <= EIG_TOL * (1 + np.abs(nxt))):
                    fails.append(("eigenvalues:trivial_pair_missing",
                                  "solver did not return the trivial pair, so [1:k] dropped the first non-trivial eigenvector: " + msg))
                else:
                    # each returned value is some non-trivial eigenvalue, the smallest one is right, values only slightly too large
                    near = all(np.min(np.abs(ev[1:] - x)) <= EIG_TOL * (1 + abs(x)) for x in r)
                    if near and abs(r[0] - want[0]) <= tol[0] and r[-1] <= ev[min(n - 1, dim + 2)] + tol[-1] and (r[-1] - want[-1]) <= 0.05:
                        fails.append(("eigenvalues:skipped_in_cluster", "an eigenvalue inside a cluster was skipped: " + msg))
                    else:
                        fails.append(("eigenvalues:not_smallest", msg))
    for sig, msg in fails:
        ctx.fail("%s:%s" % (where, sig), msg, case)
    return not fails


def oracle_disconnected(ctx, where, n, dim, E, case):
    E = np.asarray(E)
    fails = []
    if E.ndim != 2 or E.shape[0] != n or E.shape[1] != dim:
        fails.append(("disconnected:shape", "returned shape %s for n=%d dim=%d" % (E.shape, n, dim)))
    elif not np.all(np.isfinite(E)):
        bad = int(np.argwhere(~np.isfinite(E).all(axis=1))[0][0])
        fails.append(("disconnected:nonfinite", "row %d is not finite" % bad))
    for sig, msg in fails:
        ctx.fail("%s:%s" % (where, sig), msg, case)
    return not fails


def call_layout(fn_name, data, G, dim, seed, **kw):
    """run the real function; returns (E or None, fell_back, exception or None)"""
    fn = getattr(S, fn_name)
    with warnings.catch_warnings(record=True) as w:
        warnings.simplefilter("always")
        try:
            E = fn(data, G, dim, np.random.RandomState(seed), **kw)
        except Exception as e:  # noqa
            return None, False, e
    fb = any(FALLBACK_MSG in str(x.message) for x in w)
    return E, fb, None


# ---------------------------------------------------------------------------------------------------- (a)+(b)
class EigSpy:
    def __init__(self, npr, mode):
        self.npr, self.mode, self.calls = npr, mode, []

    def __call__(self, M, k=6, **kw):
        Md = densify_operator(M)
        n = Md.shape[0]
        which = kw.get("which", "LM")
        w, V = np.linalg.eigh(Md)
        k = int(k)
        if self.mode == "subset" and n > k:
            idx = np.sort(self.npr.choice(n, size=k, replace=False))
        elif which in ("LA", "LM"):
            idx = np.arange(n - k, n)
        else:
            idx = np.arange(0, k)
        idx = idx[self.npr.permutation(len(idx))]
        wr, Vr = w[idx].copy(), V[:, idx].copy()
        if self.mode == "ties" and k >= 3:
            a, b = self.npr.choice(k, size=2, replace=False)
            wr[a] = wr[b]
        self.calls.append(dict(M=Md, k=k, which=which, kw={a: b for a, b in kw.items() if a != "v0"}, w=wr.copy(), V=Vr.copy()))
        return wr, Vr


def seen_by_selection(call):
    """the operator as a Laplacian and the eigenvalues as the argsort line sees them.  Two formulations are accepted:
    smallest eigenvalues of L (which = SM/SA), or largest eigenvalues of 2I - L mapped back by 2 - w (which = LA/LM)."""
    n = call["M"].shape[0]
    if call["which"] in ("LA", "LM"):
        return 2.0 * np.eye(n) - call["M"], 2.0 - call["w"], "flipped"
    return call["M"], call["w"], "direct"


def selection_variant():
    """which selection the current source performs: the repaired one (drop the column parallel to sqrt_deg) or argsort[1:k]"""
    src = srcparams.func_source("umap/spectral.py", "_spectral_layout") or ""
    return "nontrivial" if ("np.delete(order" in src and "cosines" in src) else "legacy"


def correspondence_connected(ctx, rng, npr, ncases):
    lap_terms, sel_terms, descs = [], [], []
    variant = selection_variant()
    ctx.extra["selection_model"] = {"nontrivial": "select_nontrivial (proposed fix applied)", "legacy": "select_cols = argsort[1:k]"}[variant]
    verdict_fn = "verdict_select_nt" if variant == "nontrivial" else "verdict_select"
    seen_which = {}
    for c in range(ncases):
        dim = rng.choice([1, 2, 2, 3, rng.randint(1, 10), rng.randint(4, 10)])
        n = rng.randint(max(6, dim + 2), 40)
        kind, G = gen_connected(rng, npr, n)
        mode = rng.choice(["extreme", "extreme", "subset", "ties"])
        spy = EigSpy(npr, mode)
        sp_ = Spies()
        sp_.set(S.scipy.sparse.linalg, "eigsh", spy)
        fn = rng.choice(["spectral_layout", "spectral_layout", "tswspectral_layout"])
        try:
            E, fb, exc = call_layout(fn, None, G, dim, rng.randrange(2 ** 31))
        finally:
            sp_.restore()
        desc = graph_case(G, dim, fn=fn, kind=kind, solver_answer=mode)
        A = dense64(G)
        deg = A.sum(0)
        tags = [kind, "answer_" + mode] + (["deg_varied"] if deg.max() - deg.min() > 1e-6 else []) + (["dim>=3"] if dim >= 3 else [])
        ctx.tag((A.tobytes(), dim, mode, fn), tags)
        ctx.count("corr_n<=%d" % (10 * ((n + 9) // 10))); ctx.count("corr_dim=%d" % dim); ctx.count("corr_" + kind)
        if exc is not None:
            ctx.fail("%s:raises:connected" % fn, "%s: %s" % (type(exc).__name__, exc), desc); continue
        if len(spy.calls) != 1:
            ctx.traces += 1
            ctx.diff(desc, "eigsh was called %d times (method resolution differs from the model: one solve for n < 2000000)" % len(spy.calls)); continue
        call = spy.calls[0]
        seen_which[call["which"]] = seen_which.get(call["which"], 0) + 1
        if call["k"] != dim + 1:
            ctx.traces += 1
            ctx.diff(desc, "solver asked for k=%d eigenpairs, model: dim+1=%d" % (call["k"], dim + 1)); continue
        Lrecv, evals_seen, form = seen_by_selection(call)
        ctx.count("operator_" + form)
        E = np.asarray(E, dtype=np.float64)
        if E.ndim != 2 or E.shape[0] != n:
            ctx.traces += 1
            ctx.diff(desc, "returned shape %s" % (E.shape,)); continue
        lap_terms.append("(%d%%nat, %s, %s)" % (n, rows_term(A), rows_term(Lrecv)))
        sel_terms.append("(%d%%nat, %s, %s, %s, %d%%nat, %s)" % (n, rows_term(A), "[" + "; ".join(fl(x) for x in evals_seen) + "]",
                                                                 fmat_term(call["V"].T), dim, fmat_term(E.T)))
        descs.append(desc)
        ctx.sample(dict(n=n, dim=dim, kind=kind, fn=fn, solver_answer=mode, which=call["which"], eigenvalues_seen=evals_seen.tolist()), 3)
    ctx.extra["eigsh_which_seen"] = seen_which
    shard = 20
    for s in range(0, len(descs), shard):
        text = ("From Coq Require Import List ZArith PrimFloat. From UV Require Import Num FNum M_spectral V_spectral.\n"
                "Import ListNotations. Open Scope float_scope.\n"
                "Definition cases_lap : list (nat * list srow * list srow) := %s.\n"
                "Definition cases_sel : list (nat * list srow * list float * list (list float) * nat * list (list float)) := %s.\n"
                "Eval vm_compute in map (verdict_lap %s) cases_lap.\n"
                "Eval vm_compute in map %s cases_sel.\n"
                % (clist(lap_terms[s:s + shard]), clist(sel_terms[s:s + shard]), fl(LAP_ATOL), verdict_fn))
        blocks = ctx.coq_eval("cases_C15_conn_%d" % (s // shard), text, what="laplacian / select_cols vs intercepted eigsh")
        if blocks is None:
            continue
        if len(blocks) != 2:
            ctx.broken.append("C15 connected shard %d: %d Eval blocks" % (s // shard, len(blocks))); continue
        va, vb = parse_zlist(blocks[0]), parse_zlist(blocks[1])
        m = len(descs[s:s + shard])
        if len(va) != m or len(vb) != m:
            ctx.broken.append("C15 verdict lists have %d/%d entries for %d cases" % (len(va), len(vb), m)); continue
        for off in range(m):
            d = descs[s + off]
            ctx.traces += 2
            if va[off] != -1:
                ctx.diff(d, "operator handed to eigsh differs from laplacian at entry (%d,%d)" % divmod(va[off], d["n"]))
            if vb[off] != -1:
                what = {-2: "number of returned columns differs from the model's selection", -3: "a returned column is not a solver column"}.get(
                    vb[off], "returned column %d is not the one the model's selection (%s) picks" % (vb[off], variant))
                ctx.diff(d, what)


# ---------------------------------------------------------------------------------------------------- (c)
class SpyRS(np.random.RandomState):
    """RandomState whose uniform() is recorded (the only draw multi_component_layout makes itself)"""
    def attach(self, events, npr):
        self._events, self._npr = events, npr
        return self

    def uniform(self, low=0.0, high=1.0, size=None):
        if not (isinstance(size, tuple) and len(size) == 2):     # e.g. sklearn's ARPACK start vector inside component_layout
            return super().uniform(low, high, size)
        u = self._npr.random(size)
        blk = np.asarray(low + (high - low) * u, dtype=np.float64)
        self._events.append(dict(kind="uniform", high=float(high), low=float(low), block=blk.copy()))
        return blk


def run_multi_spied(rng, npr, G, X, dim, fn="spectral_layout"):
    events, dists, meta = [], [], []
    orig_sl, orig_cl, orig_pd = S._spectral_layout, S.component_layout, S.pairwise_distances
    state = {"depth": 0}

    def spy_sl(*a, **kw):
        if state["depth"] == 0:
            state["depth"] = 1
            try:
                return orig_sl(*a, **kw)
            finally:
                state["depth"] = 0
        g = kw["graph"] if "graph" in kw else a[1]
        d = kw["dim"] if "dim" in kw else a[2]
        blk = npr.normal(size=(g.shape[0], d))
        events.append(dict(kind="spectral", block=blk.copy()))
        return blk

    def spy_cl(*a, **kw):
        r = orig_cl(*a, **kw)
        meta.append(np.array(r, dtype=np.float64, copy=True))
        return r

    def spy_pd(Xa, Y=None, *a, **kw):
        r = orig_pd(Xa, Y, *a, **kw)
        if isinstance(Xa, list) and len(Xa) == 1 and Y is not None:
            dists.append(np.array(r, dtype=np.float64, copy=True)[0])
        return r

    sp_ = Spies()
    sp_.set(S, "_spectral_layout", spy_sl); sp_.set(S, "component_layout", spy_cl); sp_.set(S, "pairwise_distances", spy_pd)
    rs = SpyRS(rng.randrange(2 ** 31)).attach(events, npr)
    try:
        with warnings.catch_warnings():
            warnings.simplefilter("ignore")
            E = getattr(S, fn)(X, G, dim, rs)
    finally:
        sp_.restore()
    return E, events, dists, meta


def correspondence_multi(ctx, rng, npr, ncases):
    terms, descs = [], []
    for c in range(ncases):
        dim = rng.choice([1, 2, 2, 3, rng.randint(1, 6)])
        G, X, sizes = gen_disconnected(rng, npr, dim, max_size=10)
        n = G.shape[0]
        ncomp, labels = csg.connected_components(G)
        desc = graph_case(G, dim, data=X.tolist(), sizes=sizes, fn="spectral_layout")
        ctx.tag((dense64(G).tobytes(), dim, "multi"), ["multi", "meta_external" if ncomp > 2 * dim else "meta_unit"] +
                (["singleton"] if 1 in sizes else []))
        ctx.count("multi_ncomp=%d" % ncomp)
        try:
            E, events, dists, meta = run_multi_spied(rng, npr, G, X, dim)
        except Exception as e:  # noqa
            ctx.fail("spectral_layout:raises:disconnected", "%s: %s" % (type(e).__name__, e), desc); continue
        ctx.traces += 1
        if len(events) != ncomp or len(dists) != ncomp or (ncomp > 2 * dim) != (len(meta) == 1):
            ctx.diff(desc, "multi_component_layout made %d block draws / %d distance rows / %d component_layout calls for %d components"
                     % (len(events), len(dists), len(meta), ncomp)); continue
        E = np.asarray(E)
        if E.ndim != 2 or E.shape != (n, dim):
            ctx.diff(desc, "returned shape %s" % (E.shape,)); continue
        meta_t = "(Some %s)" % fmat_term(meta[0]) if meta else "None"
        ranges_t = "[" + "; ".join("Some %s" % fl(e["high"]) if e["kind"] == "uniform" else "None" for e in events) + "]"
        blocks_t = "[" + ";\n  ".join(fmat_term(e["block"]) if e["block"].size else "[" + "; ".join("[]" for _ in range(e["block"].shape[0])) + "]"
                                     for e in events) + "]"
        terms.append("(%d%%nat, %s, %d%%nat, %s, %s, %s, %s, %s)" % (
            dim, natlist(labels), ncomp, meta_t, fmat_term(np.array(dists)), ranges_t, blocks_t, fmat_term(E.astype(np.float64))))
        descs.append(desc)
        ctx.sample(dict(multi=True, n=n, dim=dim, sizes=sizes, labels=labels.tolist(), branches=[e["kind"] for e in events]), 5)
    shard = 40
    for s in range(0, len(descs), shard):
        text = ("From Coq Require Import List ZArith PrimFloat. From UV Require Import Num FNum M_spectral V_spectral.\n"
                "Import ListNotations. Open Scope float_scope.\n"
                "Definition cases : list (nat * list nat * nat * option (list (list float)) * list (list float) * list (option float)\n"
                "   * list (list (list float)) * list (list float)) := %s.\n"
                "Eval vm_compute in map (verdict_multi %s %s) cases.\n" % (clist(terms[s:s + shard]), fl(MULTI_RTOL), fl(MULTI_ATOL)))
        blocks = ctx.coq_eval("cases_C15_multi_%d" % (s // shard), text, what="multi_layout vs multi_component_layout")
        if blocks is None:
            continue
        v = parse_zlist(blocks[0])
        m = len(descs[s:s + shard])
        if len(v) != m:
            ctx.broken.append("C15 multi verdict list has %d entries for %d cases" % (len(v), m)); continue
        for off, code in enumerate(v):
            if code != -1:
                what = {-2: "row count", -3: "centre distances differ from the Euclidean distances of the centres", -4: "model: NumPy raises (no positive distance)",
                        -5: "a vertex is not written exactly once", -6: "data_range of a uniform block differs"}.get(code, "row of vertex %d differs" % code)
                ctx.diff(descs[s + off], "multi-component layout: " + what)


# ---------------------------------------------------------------------------------------------------- oracle runs
def weighted_path(n):
    A = np.diag(np.arange(1, n, dtype=np.float64), 1)
    return sp.csr_matrix(A + A.T)


def unit_ring(n):
    A = np.diag(np.ones(n - 1), 1) + np.eye(n, k=n - 1)
    return sp.csr_matrix(A + A.T)


def directed_runs(ctx):
    """fixed regression inputs, run first: weighted paths (edge weights 1..n-1) on which ARPACK (which='SM') does not return
    the trivial pair -- the smallest is 6 vertices, dim 1; and exactly degenerate unit rings (observed only, see notes)"""
    for n, dim in ((6, 1), (7, 1), (8, 2), (9, 2), (11, 1)):
        G = weighted_path(n)
        for fn in ("spectral_layout", "tswspectral_layout"):
            case = graph_case(G, dim, fn=fn, kind="weighted_path", seed=0, kwargs={})
            E, fb, exc = call_layout(fn, None, G, dim, 0)
            ctx.tag(("directed", n, dim, fn), ["directed_weighted_path"])
            if exc is not None:
                ctx.fail("%s:raises:connected" % fn, "%s: %s" % (type(exc).__name__, exc), case); continue
            oracle_connected(ctx, fn, G, dim, E, fb, case)
    # clusters joined only by bridges of weight ~1e-6 (float64): the smallest non-trivial eigenvalues are far below 1e-6, so the
    # trivial pair cannot be recognised by the size of its eigenvalue
    for gi, (sizes, dim) in enumerate((((5, 6), 1), ((5, 6, 7), 2), ((4, 8, 5), 1), ((6, 6, 6, 6), 3))):
        rs_ = np.random.RandomState(100 + gi); n = sum(sizes); A = np.zeros((n, n)); o = 0; firsts = []
        for sz in sizes:
            A[o:o + sz, o:o + sz] = rs_.uniform(0.2, 1.0, size=(sz, sz)); firsts.append(o); o += sz
        A = _sym_from_upper(A)
        for a_, b_ in zip(firsts[:-1], firsts[1:]):
            A[a_, b_] = A[b_, a_] = 1e-6 * (1 + 0.3 * rs_.random_sample())
        G = sp.csr_matrix(A)
        case = graph_case(G, dim, fn="spectral_layout", kind="bridged_clusters", seed=0, kwargs={})
        E, fb, exc = call_layout("spectral_layout", None, G, dim, 0)
        ctx.tag(("directed", "bridged", gi), ["directed_bridged_clusters"])
        if exc is not None:
            ctx.fail("spectral_layout:raises:connected", "%s: %s" % (type(exc).__name__, exc), case); continue
        oracle_connected(ctx, "spectral_layout", G, dim, E, fb, case)
    # strongly heterogeneous degrees: sqrt(deg) is far from the constant vector, so the trivial eigenvector of the NORMALISED Laplacian
    # must be recognised by its direction sqrt(deg), not by "constant sign / constant entries" (log-normal vertex masses; a kNN-like
    # random graph plus one very heavy edge)
    for gi, (n, dim, style) in enumerate(((14, 2, "masses"), (20, 1, "masses"), (24, 3, "masses"), (18, 2, "heavy_edge"), (30, 2, "heavy_edge"), (16, 1, "heavy_edge"))):
        rs_ = np.random.RandomState(300 + gi)
        W = rs_.uniform(0.05, 1.0, size=(n, n)) * (rs_.random_sample((n, n)) < 0.45)
        W = np.triu(W, 1)
        for a_ in range(n - 1):
            if W[a_, a_ + 1] == 0: W[a_, a_ + 1] = rs_.uniform(0.05, 1.0)
        A = W + W.T
        if style == "masses":
            mass = np.exp(rs_.normal(size=n) * 2.6)
            A = A * mass[:, None] * mass[None, :]
            A = A / A.max()
        else:
            i_, j_ = 0, n // 2
            A[i_, j_] = A[j_, i_] = 1e3
        G = sp.csr_matrix(A)
        for fn in ("spectral_layout", "tswspectral_layout"):
            case = graph_case(G, dim, fn=fn, kind="heterogeneous_degrees_" + style, seed=0, kwargs={})
            E, fb, exc = call_layout(fn, None, G, dim, 0)
            ctx.tag(("directed", "hetero", gi, fn), ["directed_heterogeneous_degrees"])
            if exc is not None:
                ctx.fail("%s:raises:connected" % fn, "%s: %s" % (type(exc).__name__, exc), case); continue
            oracle_connected(ctx, fn, G, dim, E, fb, case)
    # symmetric positive-weight graphs WITH self-loops (kernel / affinity matrices): the degree and the Laplacian include the diagonal
    for gi, (n, dim) in enumerate(((12, 2), (18, 1), (25, 3), (15, 2))):
        rs_ = np.random.RandomState(400 + gi)
        W = rs_.uniform(0.05, 1.0, size=(n, n)) * (rs_.random_sample((n, n)) < 0.5)
        W = np.triu(W, 1)
        for a_ in range(n - 1):
            if W[a_, a_ + 1] == 0: W[a_, a_ + 1] = rs_.uniform(0.05, 1.0)
        A = W + W.T + np.diag(rs_.uniform(0.2, 3.0, size=n) * (rs_.random_sample(n) < 0.8))
        G = sp.csr_matrix(A)
        for fn in ("spectral_layout", "tswspectral_layout"):
            case = graph_case(G, dim, fn=fn, kind="self_loops", seed=0, kwargs={})
            E, fb, exc = call_layout(fn, None, G, dim, 0)
            ctx.tag(("directed", "loops", gi, fn), ["directed_self_loops"])
            if exc is not None:
                ctx.fail("%s:raises:connected" % fn, "%s: %s" % (type(exc).__name__, exc), case); continue
            oracle_connected(ctx, fn, G, dim, E, fb, case)
    deg = dict(runs=0, multiplicity_missed=0)
    for n in (9, 10, 12, 20):
        G = unit_ring(n)
        E, fb, exc = call_layout("spectral_layout", None, G, 2, 0)
        ctx.evaluations += 1; deg["runs"] += 1
        if exc is not None or fb:
            continue
        probe = type(ctx)("C15", ctx.tier, ctx.seed)
        case = graph_case(G, 2, fn="spectral_layout", kind="unit_ring", seed=0, kwargs={})
        if not oracle_connected(probe, "spectral_layout", G, 2, E, False, case):
            hard = [f for f in probe.oracle_fail if ":eigenvalues:" not in f["signature"]]
            for f in hard:
                ctx.fail(f["signature"], f["summary"], case)
            if not hard:
                deg["multiplicity_missed"] += 1
    ctx.extra["degenerate_unit_rings_observed"] = deg
    if deg["multiplicity_missed"]:
        ctx.notes.append("observed only (not a check failure): on %d of %d unit-weight rings (every non-trivial eigenvalue double) the single-vector "
                         "Lanczos solver returned one eigenvector per distinct eigenvalue, so for dim=2 the second column belongs to the 4th, not the "
                         "3rd smallest eigenvalue; the generators use generic (non-degenerate) weights" % (deg["multiplicity_missed"], deg["runs"]))


def oracle_runs(ctx, rng, npr, n_conn, n_tsw, n_lobpcg, n_disc):
    directed_runs(ctx)
    lob = dict(runs=0, fallback=0, not_smallest=0)
    for c in range(n_conn):
        dim = rng.choice([1, 2, 2, 3, rng.randint(1, 10), rng.randint(1, 10)])
        n = rng.randint(dim + 2, rng.choice([12, 30, 70]) + dim)
        kind, G = gen_connected(rng, npr, max(n, 4))
        n = G.shape[0]
        if n <= dim + 1:
            continue
        fns = ["spectral_layout"] + (["tswspectral_layout"] if c < n_tsw else [])
        for fn in fns:
            seed = rng.randrange(2 ** 31)
            case = graph_case(G, dim, fn=fn, kind=kind, seed=seed, kwargs={})
            E, fb, exc = call_layout(fn, None, G, dim, seed)
            A = dense64(G); deg = A.sum(0)
            ctx.tag((A.tobytes(), dim, fn, "oracle"), ["oracle_" + kind] + (["deg_varied"] if deg.max() - deg.min() > 1e-6 else []))
            ctx.count("oracle_%s" % fn); ctx.count("oracle_dim=%d" % dim); ctx.count("oracle_n<=%d" % (10 * ((n + 9) // 10)))
            if exc is not None:
                ctx.fail("%s:raises:connected" % fn, "%s: %s" % (type(exc).__name__, exc), case); continue
            oracle_connected(ctx, fn, G, dim, E, fb, case)
        if c < n_lobpcg and n >= 5 * (dim + 1) + 2:
            seed = rng.randrange(2 ** 31)
            case = graph_case(G, dim, fn="tswspectral_layout", kind=kind, seed=seed, kwargs={"method": "lobpcg"})
            E, fb, exc = call_layout("tswspectral_layout", None, G, dim, seed, method="lobpcg")
            ctx.evaluations += 1; lob["runs"] += 1
            if exc is not None:
                ctx.fail("tswspectral_layout:lobpcg:raises", "%s: %s" % (type(exc).__name__, exc), case); continue
            if fb:   # documented fall-back to a random layout: shape / finiteness only
                lob["fallback"] += 1
                oracle_disconnected(ctx, "tswspectral_layout:lobpcg", n, dim, E, case); continue
            probe = type(ctx)("C15", ctx.tier, ctx.seed)
            if not oracle_connected(probe, "x", G, dim, E, False, case, check_smallest=True):
                hard = [f for f in probe.oracle_fail if ":eigenvalues:" not in f["signature"]]
                for f in hard:
                    ctx.fail(f["signature"].replace("x:", "tswspectral_layout:lobpcg:"), f["summary"], case)
                if not hard:
                    lob["not_smallest"] += 1
    ctx.extra["tswspectral_lobpcg_observed"] = lob
    if lob["not_smallest"]:
        ctx.notes.append("observed only (not a check failure): tswspectral_layout(method='lobpcg') returned true eigenvectors that are not the "
                         "smallest non-trivial ones in %d of %d runs (the TruncatedSVD warm start spans the LARGEST eigenvalues of L)" % (lob["not_smallest"], lob["runs"]))
    # disconnected graphs, real solvers
    for c in range(n_disc):
        dim = rng.choice([1, 2, 2, 3, rng.randint(1, 10)])
        G, X, sizes = gen_disconnected(rng, npr, dim)
        n = G.shape[0]
        fn = rng.choice(["spectral_layout", "spectral_layout", "tswspectral_layout"])
        with_data = rng.random() < 0.7
        seed = rng.randrange(2 ** 31)
        case = graph_case(G, dim, fn=fn, sizes=sizes, seed=seed, data=X.tolist() if with_data else None, kwargs={})
        E, fb, exc = call_layout(fn, X if with_data else None, G, dim, seed)
        ctx.tag((dense64(G).tobytes(), dim, fn, "disc"), ["oracle_disconnected", "ncomp>2dim" if len(sizes) > 2 * dim else "ncomp<=2dim"])
        ctx.count("oracle_disconnected_ncomp=%d" % len(sizes))
        if exc is not None:
            ctx.fail("%s:raises:disconnected" % fn, "%s: %s" % (type(exc).__name__, exc), case); continue
        oracle_disconnected(ctx, fn, n, dim, E, case)


# ---------------------------------------------------------------------------------------------------- entry points
def run(ctx):
    ctx.check_proofs(["prop/P_C15.v"])
    rng = ctx.rng
    npr = np.random.RandomState(rng.randrange(2 ** 31))
    quick = ctx.tier == "quick"
    src = srcparams.func_source("umap/spectral.py", "_spectral_layout") or ""
    ctx.extra["source_facts"] = dict(selection_line_present="np.argsort(eigenvalues)[1:k]" in src,
                                     k_is_dim_plus_1="k = dim + 1" in src)
    correspondence_connected(ctx, rng, npr, 80 if quick else 600)
    correspondence_multi(ctx, rng, npr, 50 if quick else 400)
    oracle_runs(ctx, rng, npr, n_conn=200 if quick else 2500, n_tsw=50 if quick else 600,
                n_lobpcg=30 if quick else 400, n_disc=40 if quick else 500)
    ctx.partial.append("the eigen-solver (ARPACK eigsh / LOBPCG) is external: theorems assume solve_spec (k unit-norm eigenpairs, distinct eigenvalues); "
                       "that the pairs are the k smallest is checked by the oracle only")
    ctx.partial.append("component_layout (sklearn SpectralEmbedding of the component centroids) and scipy connected_components are observed, not modelled "
                       "(simplicity of eigenvalue 0 on connected graphs IS proved: C15_kernel)")
    return ctx.finish(RULE, assumptions=[
        "solve_spec: the solver returns k unit-norm eigenpairs of the matrix it is given (hypothesis of C15_select / C15_layout, never an axiom)",
        "the operator may be handed to the solver either as L (which=SM/SA) or as 2I - L (which=LA/LM, eigenvalues mapped back by 2 - w); "
        "the correspondence recognises both and compares L with the model's laplacian (abs %g)" % LAP_ATOL,
        "np.argsort is modelled as a stable ascending sort; with tied eigenvalues only the selected eigenvalues are compared",
        "float32 degree sums / float32 result rows are observed with tolerance, not modelled"],
        trusted=["numpy.linalg.eigh (dense reference spectrum of the oracle and the exact pairs fed through the intercepted eigsh)"])


def replay(rep):
    """re-run the stored case on the current tree; True iff the oracle still fails"""
    from vp.common import Ctx
    c = rep.get("case") or (rep.get("diffs") or [{}])[0].get("case")
    if not c or "graph" not in c:
        return True
    G = graph_from_case(c)
    dim, fn = int(c["dim"]), c.get("fn", "spectral_layout")
    data = np.array(c["data"], dtype=np.float64) if c.get("data") is not None else None
    ctx = Ctx("C15", "quick", 0)
    E, fb, exc = call_layout(fn, data, G, dim, int(c.get("seed", 0)), **(c.get("kwargs") or {}))
    if exc is not None:
        print("  raises %s: %s" % (type(exc).__name__, exc)); return True
    if csg.connected_components(G)[0] == 1:
        oracle_connected(ctx, fn, G, dim, E, fb, c)
    else:
        oracle_disconnected(ctx, fn, G.shape[0], dim, E, c)
    for f in ctx.oracle_fail:
        print("  ", f["signature"], f["summary"])
    return bool(ctx.oracle_fail)

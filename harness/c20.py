"""C20 — precomputed_knn is used exactly as if UMAP had computed (and pruned) it."""
import re, warnings
import numpy as np, scipy.sparse as sp
from vp.coqrun import fl, zl, clist, parse_zlist
from vp import srcparams, link
import umap

ATOL = 1e-5          # same tables -> same graph (identical float32 pipeline; slack for summation order)
ATOL_EXACT = 1e-4    # float32 tables vs UMAP's own distance matrix (measured ~4e-6)
RULE = ("grid n in {12,30,60} x n_neighbors k in {3,5,8} x supplied columns in {k-1,k,k+3,min(2k,n)} x rows in {n,n-1} x "
        "force_approximation_algorithm in {F,T} x (2-tuple | 3-tuple with an NNDescent index) x distances float32/float64 (quick: all decisions, "
        "graphs for every case in Python and for the float32 / 2-tuple cases with n = 12 or (n = 30, k <= 5) in Coq (thorough: all n, k); thorough adds n = 4200 above the 4096 threshold and a 3-tuple "
        "with None), exact euclidean kNN tables of random data without near-ties; malformed stream (unique=True, lists, unequal shapes). "
        "Implementation: UMAP(n_neighbors=k, precomputed_knn=tables, n_epochs=0).fit(X) -> exception / warnings / knn_dists / "
        "force_approximation_algorithm / _small_data / _knn_dists / graph_.  Coq: decision, warnings, branch vs `validate`/`fit_plan` (exact); "
        "graph vs the reference graph the model's plan names (first-k fit, ordinary fit, ordinary exact fit).  "
        "Non-trivial: anything but 'exactly k columns, right rows, 2-tuple' (extra columns, too few, wrong rows, force, index, float64, malformed).")

W_NOINDEX, W_FEW, W_ROWS = 0, 1, 2


def source_thresholds():
    out = {}
    for fn in ("_validate_parameters", "fit"):
        src = srcparams.func_source("umap/umap_.py", fn) or ""
        m = re.findall(r"shape\[0\]\s*<\s*(\d+)", src)
        out[fn] = sorted(set(int(x) for x in m))
    return out


def make_data(rng, npr, n, kmax):
    """random float32 cloud whose (kmax+4)-nearest-neighbour rows have no near-ties (the neighbour sets are then unambiguous)"""
    for _ in range(5000):      # (a cloud of 60 points has a near-tie somewhere in most draws: ~2-10% of the draws are accepted)
        dim = rng.randint(3, 6)
        X = (npr.normal(size=(n, dim)) * 10 ** rng.uniform(-1, 1)).astype(np.float32)
        idx, dist = exact_knn(X)
        m = min(n, kmax + 4)
        gaps = np.diff(dist[:, :m], axis=1) / np.maximum(dist[:, 1:m], 1e-30)
        if gaps.min() > 1e-4:
            return X, idx, dist
    raise RuntimeError("could not generate tie-free data")


def classify_warning(msg):
    if "is not an NNDescent object" in msg: return W_NOINDEX
    if "lower number of neighbors" in msg: return W_FEW
    if "different number of samples" in msg: return W_ROWS
    return None


def classify_error(e):
    if not isinstance(e, ValueError): return 9
    s = str(e)
    if "unique is not currently available" in s: return 0
    if "precomputed_knn[0] must be ndarray" in s: return 1
    if "precomputed_knn[1] must be ndarray" in s: return 2
    if "same size" in s: return 3
    return 8


def fit(X, tables, k, force, **kw):
    """-> observation dict"""
    o = dict(exc=None, warns=[], warn_cats=[], graph=None)
    with warnings.catch_warnings(record=True) as wl:
        warnings.simplefilter("always")
        try:
            args = dict(n_neighbors=k, force_approximation_algorithm=force, n_epochs=0, init="random", random_state=7, **kw)
            if tables is not None:
                args["precomputed_knn"] = tables
            m = umap.UMAP(**args).fit(X)
        except Exception as e:
            o["exc"] = e
            m = None
    for w in wl:
        c = classify_warning(str(w.message))
        if c is not None:
            o["warns"].append(c); o["warn_cats"].append(w.category.__name__)
    if m is not None:
        g = m.graph_.tocsr().copy(); g.sum_duplicates(); g.sort_indices()
        o["graph"] = g
        o["kept"] = None if getattr(m, "knn_dists", None) is None else int(m.knn_dists.shape[1])
        o["force_after"] = bool(m.force_approximation_algorithm)
        o["small"] = int(bool(getattr(m, "_small_data", False)))
        o["used"] = int(m._knn_dists.shape[1]) if getattr(m, "_knn_dists", None) is not None else -1
    return o


def obs_term(o, int_scope=True):
    z = (lambda v: zl(v)) if int_scope else (lambda v: zl(v) + "%Z")
    wl = "[" + "; ".join(z(w) for w in o["warns"]) + "]"
    if o["exc"] is not None:
        return "(mkObs %s %s %s %s %s %s)" % (z(1), z(classify_error(o["exc"])), z(0), wl, z(-1), z(-1))
    if o["kept"] is None:
        kind = 2 if any(w in (W_FEW, W_ROWS) for w in o["warns"]) else 0
        return "(mkObs %s %s %s %s %s %s)" % (z(kind), z(0), z(int(o["force_after"])), wl, z(o["small"]), z(o["used"]))
    return "(mkObs %s %s %s %s %s %s)" % (z(3), z(o["kept"]), z(int(o["force_after"])), wl, z(o["small"]), z(o["used"]))


def input_term(c, int_scope=True):
    z = (lambda v: zl(v)) if int_scope else (lambda v: zl(v) + "%Z")
    b = lambda v: "true" if v else "false"
    return "(mkIn %s %s %s %s %s %s %s %s %s %s %s)" % (b(c["provided"]), b(c["unique"]), b(c["idx_array"]), b(c["dist_array"]), b(c["same_shape"]),
                                                        b(c["has_index"]), z(c["cols"]), z(c["rows"]), z(c["n"]), z(c["k"]), b(c["force"]))


def coo_term(g):
    if g is None:
        return "[]"
    g = sp.coo_matrix(g)
    order = np.lexsort((g.col, g.row))
    return "[" + "; ".join("(%d%%Z, %d%%Z, %s)" % (int(g.row[t]), int(g.col[t]), fl(float(g.data[t]))) for t in order) + "]"


def gdiff(a, b):
    """(max abs difference, same support?)"""
    if a.shape != b.shape:
        return float("inf"), False
    d = abs(a - b)
    mx = float(d.max()) if d.nnz else 0.0
    return mx, bool(((a != 0) != (b != 0)).nnz == 0)


def malformed_cases(X, idx, dist):
    d32 = dist.astype(np.float32)
    return [("unique", (idx[:, :5], d32[:, :5]), dict(unique=True), dict(unique=True)),
            ("idx_list", (idx[:, :5].tolist(), d32[:, :5]), {}, dict(idx_array=False)),
            ("dist_list", (idx[:, :5], d32[:, :5].tolist()), {}, dict(dist_array=False)),
            ("both_lists", (idx[:, :5].tolist(), d32[:, :5].tolist()), {}, dict(idx_array=False, dist_array=False)),
            ("shape", (idx[:, :5], d32[:, :6]), {}, dict(same_shape=False, cols=6)),
            ("shape_rows", (idx[:29, :5], d32[:, :5]), {}, dict(same_shape=False)),
            ("unique_and_list", (idx[:, :5].tolist(), d32[:, :5]), dict(unique=True), dict(unique=True, idx_array=False))]


def exact_knn(X):
    Xd = np.asarray(X, dtype=np.float32).astype(np.float64)
    D = np.sqrt(((Xd[:, None, :] - Xd[None, :, :]) ** 2).sum(-1))
    idx = np.argsort(D, axis=1, kind="stable").astype(np.int64)
    return idx, np.take_along_axis(D, idx, axis=1)


def direct_graph(X, tabs, k):
    """the graph stage called directly on the first k columns (what 'as if UMAP had computed and pruned it' means)"""
    import umap.umap_ as U
    g = U.fuzzy_simplicial_set(X, k, np.random.RandomState(0), "euclidean", {}, np.ascontiguousarray(tabs[0][:, :k]).copy(),
                               np.ascontiguousarray(tabs[1][:, :k]).astype(np.float32).copy(), False, 1.0, 1.0, True)[0]
    g = g.tocsr(); g.sum_duplicates(); g.sort_indices()
    return g


def describe(c, X=None, idx=None, dist=None):
    d = {k: c[k] for k in ("n", "k", "cols", "rows", "force", "tuple", "dtype", "warp") if k in c}
    if X is not None:
        d["X"] = X
    return d


def build_tables(c, idx, dist, index_obj):
    ti = idx[: c["rows"], : c["cols"]].copy()
    td = dist[: c["rows"], : c["cols"]].astype(c["dtype"]).copy()
    if c.get("warp"):
        td = td ** 2          # still ascending, but no longer the true distances: the graph must follow the tables
    if c["tuple"] == "2":
        return (ti, td)
    if c["tuple"] == "3none":
        return (ti, td, None)
    return (ti, td, index_obj)


def class_sig(c, thr):
    return "%s:%s" % ("n_lt_threshold" if c["n"] < thr else "n_ge_threshold", "force_true" if c["force"] else "force_false")


def xkey(X):
    """content key of a data set (object ids are reused once an array is freed)"""
    import hashlib
    return hashlib.sha1(np.ascontiguousarray(X).tobytes()).hexdigest() + str(X.shape)


def run_case(ctx, c, X, idx, dist, index_obj, thr, cache):
    """fits, oracle; returns (obs A, graphs dict)"""
    n, k = c["n"], c["k"]
    tabs = build_tables(c, idx, dist, index_obj)
    A = fit(X, tabs, k, c["force"])
    desc = describe(c, X)
    kept_expected = c["cols"] >= k and c["rows"] == n
    key_ord = (xkey(X), k, c["force"])
    if key_ord not in cache:
        cache[key_ord] = fit(X, None, k, c["force"])
    Cord = cache[key_ord]
    key_ex = (xkey(X), k, False)
    if key_ex not in cache:
        cache[key_ex] = fit(X, None, k, False)
    Cex = cache[key_ex]
    B = None
    if A["exc"] is not None:
        ctx.fail("UMAP.fit:raises", "%s: %s" % (type(A["exc"]).__name__, A["exc"]), desc)
        return A, dict(firstk=None, ord=Cord["graph"], exact=Cex["graph"])
    if kept_expected:
        c2 = dict(c, cols=k)
        B = fit(X, build_tables(c2, idx, dist, index_obj), k, c["force"])
        if B["exc"] is not None:
            ctx.fail("UMAP.fit:raises", "%s: %s" % (type(B["exc"]).__name__, B["exc"]), describe(c2, X))
        else:
            mx, _ = gdiff(A["graph"], B["graph"])
            if mx > ATOL:
                ctx.fail("UMAP.fit.graph_:extra_columns_not_pruned:" + class_sig(c, thr),
                         "graph from %d supplied columns differs from the graph from their first %d columns by %g (nnz %d vs %d)"
                         % (c["cols"], k, mx, A["graph"].nnz, B["graph"].nnz), desc)
        ref = direct_graph(X, tabs, k)
        mx, _ = gdiff(A["graph"], ref)
        if mx > ATOL:
            ctx.fail("UMAP.fit.graph_:tables_not_used:" + class_sig(c, thr),
                     "graph differs by %g from fuzzy_simplicial_set called directly on the first %d columns of the supplied tables" % (mx, k), desc)
        if n < thr and k < n and not c.get("warp"):
            mx, same = gdiff(A["graph"], Cex["graph"])
            if (mx > ATOL_EXACT or not same) and not (B is not None and B["exc"] is None and gdiff(A["graph"], B["graph"])[0] > ATOL):
                ctx.fail("UMAP.fit.graph_:exact_tables_differ_from_own_exact:" + class_sig(c, thr),
                         "exact kNN tables give a graph differing from the ordinary exact fit by %g (same support: %s)" % (mx, same), desc)
        other = cache.get(("A", xkey(X), k, c["cols"], c["rows"], c["tuple"], c["dtype"], bool(c.get("warp")), not c["force"]))
        if other is not None and other["exc"] is None:
            mx, _ = gdiff(A["graph"], other["graph"])
            if mx > ATOL:
                ctx.fail("UMAP.fit.graph_:force_changes_graph:" + ("n_lt_threshold" if n < thr else "n_ge_threshold"),
                         "same tables, force_approximation_algorithm False vs True: graphs differ by %g" % mx, desc)
        cache[("A", xkey(X), k, c["cols"], c["rows"], c["tuple"], c["dtype"], bool(c.get("warp")), c["force"])] = A
    else:
        want = W_FEW if c["cols"] < k else W_ROWS
        if want not in A["warns"]:
            ctx.fail("UMAP.fit:ignored_without_warning", "tables with %d columns / %d rows (k=%d, n=%d) dropped without the warning" % (c["cols"], c["rows"], k, n), desc)
        elif not all(cat == "UserWarning" for cat in A["warn_cats"]):
            ctx.fail("UMAP.fit:warning_class", "warning categories %s" % A["warn_cats"], desc)
        if A["kept"] is not None:
            ctx.fail("UMAP.fit:unusable_tables_kept", "tables with %d columns / %d rows (k=%d, n=%d) were not dropped" % (c["cols"], c["rows"], k, n), desc)
        mx, _ = gdiff(A["graph"], Cord["graph"])
        if mx > ATOL:
            ctx.fail("UMAP.fit.graph_:ignored_tables_change_graph", "graph differs from the ordinary fit by %g although the tables were unusable" % mx, desc)
    return A, dict(firstk=(B["graph"] if B is not None and B["exc"] is None else None), ord=Cord["graph"], exact=Cex["graph"])


def tags_of(c):
    k, n = c["k"], c["n"]
    t = []
    if c["cols"] > k: t.append("extra_columns")
    if c["cols"] < k: t.append("too_few_columns")
    if c["rows"] != n: t.append("wrong_rows")
    if c["force"]: t.append("force")
    if c["tuple"] != "2": t.append("tuple_" + c["tuple"])
    if c["dtype"] == "float64": t.append("float64")
    if c.get("warp"): t.append("non_exact_tables")
    return t


def run(ctx):
    ctx.check_proofs(["prop/P_C20.v"])
    # translation tie: utils.submatrix (the gather that prunes a distance table to the listed columns) regenerated from the current
    # source (py2coq); link theorem (coq/link/L_submatrix.v): over every Num, for every table and every rectangular index table with
    # as many rows, the two prange loops return row-wise [dmat[i][c] for c in indices_col[i]] (M_submatrix.submatrix_model); with
    # identity columns 0..k-1 that is take_cols k, the pruning of the C20 model (corollary src_submatrix_take_cols)
    link.check(ctx, "utils_submatrix", {"submatrix": "src_submatrix_eq"})
    th = source_thresholds()
    ctx.extra["source_thresholds"] = th
    ok_thr = len(th["_validate_parameters"]) == 1 and th["_validate_parameters"][0] in th["fit"]
    thr = th["_validate_parameters"][0] if th["_validate_parameters"] else 4096
    if not ok_thr:
        ctx.notes.append("small-data threshold could not be read unambiguously from the source (%s); using %d" % (th, thr))
    ctx.obligations.append("gen/params_C20.v:params_ok")
    ob = ("From Coq Require Import ZArith Lia.\nLemma params_ok : (0 < %d)%%Z /\\ (%d = %d)%%Z.\nProof. split; lia. Qed.\n"
          % (thr, thr, (th["fit"] or [thr])[-1] if thr not in th["fit"] else thr))
    if ctx.coq_eval("params_C20", ob, what="threshold of _validate_parameters is positive and equals the small-data threshold of fit") is not None:
        ctx.discharged.append("gen/params_C20.v:params_ok")
    rng = ctx.rng
    npr = np.random.RandomState(rng.randrange(2 ** 31))
    thorough = ctx.tier != "quick"
    from pynndescent import NNDescent
    index_obj = NNDescent(npr.normal(size=(40, 3)).astype(np.float32), n_neighbors=5, random_state=1)
    dec_terms, dec_meta, g_terms, g_meta = [], [], [], []
    cache = {}
    for n in (12, 30, 60):
        X, idx, dist = make_data(rng, npr, n, 16)
        for k in (3, 5, 8):
            for cols in (k - 1, k, k + 3, min(2 * k, n)):
                for rows in (n, n - 1):
                    variants = [(tup, dtype, False) for tup in (("2", "3index", "3none") if thorough else ("2", "3index")) for dtype in ("float32", "float64")]
                    if rows == n and cols >= k:
                        variants.append(("2", "float32", True))           # tables that are not the true neighbours' distances
                    for tup, dtype, warp in variants:
                        for force in (False, True):
                            c = dict(n=n, k=k, cols=cols, rows=rows, force=force, tuple=tup, dtype=dtype, provided=True, unique=False,
                                     idx_array=True, dist_array=True, same_shape=True, has_index=(tup == "3index"), warp=warp)
                            A, graphs = run_case(ctx, c, X, idx, dist, index_obj, thr, cache)
                            ctx.tag((n, k, cols, rows, force, tup, dtype, warp), tags_of(c))
                            ctx.count("n=%d" % n); ctx.count("k=%d" % k); ctx.count("cols-k=%+d" % (cols - k))
                            ctx.sample(dict(describe(c), warnings=A["warns"], kept=A.get("kept"), force_after=A.get("force_after"),
                                            small_data=A.get("small"), columns_used=A.get("used"), nnz=(A["graph"].nnz if A["graph"] is not None else None)), 4)
                            dec_terms.append("(%s, %s)" % (input_term(c), obs_term(A))); dec_meta.append(describe(c, X))
                            if A["exc"] is None and (n == 12 or (n == 30 and k <= 5) or thorough) and tup == "2" and dtype == "float32":
                                g_terms.append("(%s, %s, %s, %s, %s, %s)" % (input_term(c, False), "true" if rows == n and not c.get("warp") else "false", coo_term(A["graph"]),
                                                                           coo_term(graphs["firstk"]), coo_term(graphs["ord"]), coo_term(graphs["exact"])))
                                g_meta.append(describe(c, X))
    # tiny data sets, n_samples <= n_neighbors (fit truncates n_neighbors to n - 1, the validation does not): tables with fewer than
    # n_neighbors columns are unusable whatever n is -- ignored with the warning, result = ordinary fit (oracle only: the model's grid has k < n)
    for n, k in ((6, 15), (10, 15), (10, 12), (15, 15)):
        X, idx, dist = make_data(rng, npr, n, n - 4)
        for cols in sorted({n - 1, n, min(k - 1, n)}):
            for force in (False, True):
                c = dict(n=n, k=k, cols=cols, rows=n, force=force, tuple="2", dtype="float32", provided=True, unique=False,
                         idx_array=True, dist_array=True, same_shape=True, has_index=False, warp=False)
                A, graphs = run_case(ctx, c, X, idx, dist, index_obj, thr, cache)
                ctx.tag((n, k, cols, n, force, "tiny"), tags_of(c) + ["n_le_n_neighbors"])
                ctx.count("n=%d" % n)
    # estimator histories (scikit-learn protocol): tables handed over through set_params after construction, and one estimator
    # refitted with another n_neighbors that the supplied columns still cover -- every fit must read precomputed_knn afresh
    for n, k1, k2, cols in ((30, 4, 7, 10), (40, 5, 3, 8)):
        X, idx, dist = make_data(rng, npr, n, cols)
        for warp in (False, True):
            td = (dist[:, :cols] ** 2 if warp else dist[:, :cols]).astype(np.float32)
            tabs = (idx[:, :cols].copy(), td.copy())
            for force in (False, True):
                desc = dict(n=n, k=k1, k_refit=k2, cols=cols, force=force, warp=warp, X=X, history="set_params / refit")
                def used(m, kk):
                    g = m.graph_.tocsr().copy(); g.sum_duplicates(); g.sort_indices()
                    return gdiff(g, direct_graph(X, tabs, kk))[0]
                try:
                    with warnings.catch_warnings(record=True) as wl:
                        warnings.simplefilter("always")
                        est = umap.UMAP(n_neighbors=k1, force_approximation_algorithm=force, n_epochs=0, init="random", random_state=7)
                        est.set_params(precomputed_knn=(tabs[0].copy(), tabs[1].copy()))
                        est.fit(X)
                        d_a = used(est, k1)
                        est2 = umap.UMAP(n_neighbors=k1, precomputed_knn=(tabs[0].copy(), tabs[1].copy()), force_approximation_algorithm=force,
                                         n_epochs=0, init="random", random_state=7).fit(X)
                        d_b1 = used(est2, k1)
                        est2.set_params(n_neighbors=k2)
                        est2.fit(X)
                        d_b2 = used(est2, k2)
                    ws = [classify_warning(str(w.message)) for w in wl]
                except Exception as e:
                    ctx.fail("UMAP.fit:raises", "%s: %s (set_params / refit history)" % (type(e).__name__, e), desc); continue
                ctx.evaluations += 3
                ctx.tag(("history", n, k1, k2, cols, force, warp), ["set_params_after_construction", "refit_other_n_neighbors"] + (["non_exact_tables"] if warp else []))
                if d_a > ATOL:
                    ctx.fail("UMAP.fit.graph_:tables_not_used:set_params", "tables given through set_params(precomputed_knn=...) are not used: graph differs by %g from the graph of their first %d columns" % (d_a, k1), desc)
                if d_b1 > ATOL or d_b2 > ATOL:
                    ctx.fail("UMAP.fit.graph_:tables_not_used:refit", "refit with n_neighbors=%d (tables have %d columns): graph differs by %g from the graph of the first %d columns (first fit: %g)"
                             % (k2, cols, d_b2, k2, d_b1), desc)
                if W_FEW in ws or W_ROWS in ws:
                    ctx.fail("UMAP.fit:usable_tables_ignored_with_warning", "a history of fits with usable tables raised the 'will be ignored' warning", desc)
    # no tables at all
    for n, k, force in ((12, 3, False), (30, 5, True), (60, 8, False)):
        X, idx, dist = make_data(rng, npr, n, 8)
        c = dict(n=n, k=k, cols=0, rows=0, force=force, tuple="none", dtype="float32", provided=False, unique=False, idx_array=True,
                 dist_array=True, same_shape=True, has_index=False)
        A = fit(X, None, k, force)
        ctx.tag(("absent", n, k, force), ["absent"])
        dec_terms.append("(%s, %s)" % (input_term(c), obs_term(A))); dec_meta.append(describe(c, X))
    # malformed stream: outcome classes only
    X, idx, dist = make_data(rng, npr, 30, 8)
    bad = malformed_cases(X, idx, dist)
    for name, tabs, kw, over in bad:
        for force in (False, True):
            c = dict(n=30, k=5, cols=5, rows=30, force=force, tuple="2", dtype="float32", provided=True, unique=False, idx_array=True,
                     dist_array=True, same_shape=True, has_index=False)
            c.update(over)
            A = fit(X, tabs, 5, force, **kw)
            ctx.tag(("bad", name, force), ["malformed_" + name])
            ctx.count("malformed")
            if A["exc"] is None:
                ctx.fail("UMAP.fit:malformed_accepted:" + name, "malformed precomputed_knn (%s) did not raise" % name, dict(malformed=name, force=force, X=X))
            dec_terms.append("(%s, %s)" % (input_term(c), obs_term(A))); dec_meta.append(dict(malformed=name, force=force, X=X))
    if True:
        # above the threshold: the pruning branch of the original chain; exact tables by brute force (quick: two wide-table cases)
        from sklearn.neighbors import NearestNeighbors
        n = 4200
        Xb = npr.normal(size=(n, 5)).astype(np.float32)
        nn = NearestNeighbors(n_neighbors=12, algorithm="brute").fit(Xb)
        bd, bi = nn.kneighbors(Xb)
        for k, cols in (((5, 5), (5, 8), (8, 12), (8, 7)) if thorough else ((5, 8),)):
            for rows in ((n, n - 1) if thorough else (n,)):
                for force in (False, True):
                    c = dict(n=n, k=k, cols=cols, rows=rows, force=force, tuple="2", dtype="float32", provided=True, unique=False,
                             idx_array=True, dist_array=True, same_shape=True, has_index=False)
                    if cols < k or rows != n:
                        # the ordinary fit above the threshold is NN-descent: only the decision is compared
                        A = fit(Xb, build_tables(c, bi.astype(np.int64), bd, None), k, force)
                    else:
                        A, _ = run_case(ctx, c, Xb, bi.astype(np.int64), bd, None, thr, cache)
                    ctx.tag((n, k, cols, rows, force), tags_of(c) + ["n_ge_threshold"])
                    ctx.count("n=%d" % n)
                    dec_terms.append("(%s, %s)" % (input_term(c), obs_term(A))); dec_meta.append(describe(c))
    fields = {1: "decision kind (absent / error / ignored / kept)", 2: "error class", 3: "warnings", 4: "number of columns kept",
              5: "force_approximation_algorithm afterwards", 6: "branch of fit (_small_data)", 7: "columns used to build the graph"}
    hdr = ("From Coq Require Import List ZArith. From UV Require Import M_knnparam V_knnparam.\nImport ListNotations. Open Scope Z_scope.\n")
    shard = 400
    for s in range(0, len(dec_terms), shard):
        text = hdr + ("Definition cases : list (knn_input * obs) := %s.\nEval vm_compute in map (verdict_decision %d) cases.\n"
                      % (clist(dec_terms[s:s + shard]), thr))
        blocks = ctx.coq_eval("cases_C20_dec_%d" % (s // shard), text, what="validate / warnings / fit_plan vs observed decision")
        if blocks is None:
            continue
        v = parse_zlist(blocks[0])
        if len(v) != len(dec_terms[s:s + shard]):
            ctx.broken.append("C20 decision verdict list length mismatch"); continue
        for off, code in enumerate(v):
            ctx.traces += 1
            if code != -1:
                ctx.diff(dec_meta[s + off], fields.get(code, "code %d" % code))
    ghdr = ("From Coq Require Import List ZArith PrimFloat. From UV Require Import Num FNum M_knnparam V_knnparam.\n"
            "Import ListNotations. Open Scope float_scope.\n")
    gshard = 48
    gfields = {11: "graph vs first-k fit: support", 12: "graph vs first-k fit: value", 21: "graph vs ordinary fit: support", 22: "graph vs ordinary fit: value",
               31: "exact tables vs ordinary exact fit: support", 32: "exact tables vs ordinary exact fit: value", 40: "model says fit raises"}
    for s in range(0, len(g_terms), gshard):
        text = ghdr + ("Definition cases : list (knn_input * bool * coo * coo * coo * coo) := %s.\n"
                       "Eval vm_compute in map (verdict_graph %d%%Z %s %s) cases.\n" % (clist(g_terms[s:s + gshard]), thr, fl(ATOL), fl(ATOL_EXACT)))
        blocks = ctx.coq_eval("cases_C20_graph_%d" % (s // gshard), text, what="graph_ vs the reference graph named by fit_plan")
        if blocks is None:
            continue
        v = parse_zlist(blocks[0])
        if len(v) != len(g_terms[s:s + gshard]):
            ctx.broken.append("C20 graph verdict list length mismatch"); continue
        for off, code in enumerate(v):
            ctx.traces += 1
            if code != -1:
                ctx.diff(g_meta[s + off], gfields.get(code, "code %d" % code))
    # the same table objects reused by a later fit: "the same graph as supplying only its first n_neighbors columns" must also hold for
    # tables that an earlier fit (with a disconnection distance cutting into them) has already seen
    for rep in range(2 if ctx.tier == "quick" else 8):
        try:
            n_ = rng.choice([20, 34]); k_ = rng.choice([4, 6])
            Xs, ix, ds = make_data(rng, npr, n_, k_ + 4)
            tabs = (ix[:, : k_ + 3].copy(), ds[:, : k_ + 3].astype(np.float32).copy())
            cut = float(np.quantile(tabs[1][:, 1:k_], 0.6))
            first = fit(Xs, tabs, k_, bool(rep % 2), disconnection_distance=cut)
            again = fit(Xs, tabs, k_, bool(rep % 2))                                           # same arrays, no cut
            fresh = fit(Xs, (ix[:, :k_].copy(), ds[:, :k_].astype(np.float32).copy()), k_, bool(rep % 2))   # first k columns, fresh arrays
            ctx.tag(("reuse", rep, n_, k_), ["tables_reused_after_cut"])
            if first["exc"] is None and again["exc"] is None and fresh["exc"] is None:
                md, sup = gdiff(again["graph"], fresh["graph"])      # (max abs difference, same support?)
                if md > 1e-5 or not sup:
                    ctx.fail("UMAP.fit.graph_:reused_tables_differ_from_first_k_columns", "tables already used by a fit with disconnection_distance=%.3g give a graph differing "
                             "from the first-k fit by %.3g (same support: %s)" % (cut, md, sup), dict(X=Xs, knn_indices=ix[:, : k_ + 3], knn_dists=ds[:, : k_ + 3], n_neighbors=k_, first_cut=cut))
            else:
                ctx.fail("UMAP.fit:raises:reused_tables", "%r / %r / %r" % (first["exc"], again["exc"], fresh["exc"]), dict(X=Xs, n_neighbors=k_))
        except Exception as e:  # pragma: no cover
            ctx.notes.append("reused-tables probe failed: %r" % (e,))
    # a SPARSE precomputed distance matrix as input (its own branch of fit): tables wider than n_neighbors must give the graph of their
    # first n_neighbors columns there as well
    import scipy.sparse as sp_
    for rep in range(2 if ctx.tier == "quick" else 6):
        try:
            n_ = rng.choice([24, 36]); k_ = rng.choice([4, 6])
            Xs, ix, ds = make_data(rng, npr, n_, k_ + 4)
            Dm = np.sqrt(((Xs.astype(np.float64)[:, None] - Xs.astype(np.float64)[None]) ** 2).sum(-1)).astype(np.float32)
            Ds = sp_.csr_matrix(Dm)
            wide = fit(Ds.copy(), (ix[:, : k_ + 3].copy(), ds[:, : k_ + 3].astype(np.float32).copy()), k_, bool(rep % 2), metric="precomputed")
            firstk = fit(Ds.copy(), (ix[:, :k_].copy(), ds[:, :k_].astype(np.float32).copy()), k_, bool(rep % 2), metric="precomputed")
            ctx.tag(("sparse_pre", rep, n_, k_), ["sparse_precomputed_input_with_wide_tables"])
            ctx.evaluations += 1
            desc_ = dict(X="csr_matrix of the euclidean distance matrix of Xs", Xs=Xs, knn_indices=ix[:, : k_ + 3], knn_dists=ds[:, : k_ + 3], n_neighbors=k_, metric="precomputed")
            if wide["exc"] is None and firstk["exc"] is None:
                md, sup = gdiff(wide["graph"], firstk["graph"])
                if md > 1e-5 or not sup:
                    ctx.fail("UMAP.fit.graph_:extra_columns_not_pruned:sparse_precomputed_input", "sparse precomputed distances: graph from %d supplied columns differs from the graph of "
                             "their first %d columns by %.3g (nnz %d vs %d)" % (k_ + 3, k_, md, wide["graph"].nnz, firstk["graph"].nnz), desc_)
            elif (wide["exc"] is None) != (firstk["exc"] is None):
                ctx.fail("UMAP.fit:raises:sparse_precomputed_input", "wide tables: %r / first-k tables: %r" % (wide["exc"], firstk["exc"]), desc_)
            else:
                ctx.notes.append("sparse precomputed input with tables is rejected by fit either way: %r" % (wide["exc"],))
        except Exception as e:  # pragma: no cover
            ctx.notes.append("sparse-precomputed probe failed: %r" % (e,))
    # observation (reported, not a clause of the property): n_neighbors vs _n_neighbors when n <= n_neighbors
    try:
        Xs, ix, ds = make_data(rng, npr, 10, 6)
        a = fit(Xs, (ix[:, :10], ds[:, :10].astype(np.float32)), 10, False)
        b = fit(Xs, None, 10, False)
        if a["exc"] is None and b["exc"] is None:
            ctx.notes.append("observation: n = n_neighbors = 10 with a full 10-column exact table: tables path builds the graph with n_neighbors=%d on %d columns, "
                             "the ordinary fit truncates to _n_neighbors = 9 (max graph difference %.3g) — fit passes self.n_neighbors, not self._n_neighbors, "
                             "to fuzzy_simplicial_set on the tables/NN-descent branch" % (10, a["used"], gdiff(a["graph"], b["graph"])[0]))
    except Exception as e:  # pragma: no cover
        ctx.notes.append("n = n_neighbors probe failed: %r" % (e,))
    return ctx.finish(RULE, assumptions=["tables are exact euclidean kNN tables without near-ties (so 'the exact tables' are unambiguous); k < n on the grid",
                                           "the sparse-precomputed branch of fit is modelled and probed with wide tables (graph of the first n_neighbors columns); NNDescent objects only by their presence",
                                           "graph construction itself (C01, C02) is an arbitrary function in the theorems"])


def replay(rep):
    from vp.common import Ctx
    c = rep.get("case") or (rep.get("diffs") or [{}])[0].get("case")
    if not c or "X" not in c:
        return True
    ctx = Ctx("C20", "quick", 0)
    X = np.array(c["X"], dtype=np.float32)
    th = source_thresholds()
    thr = th["_validate_parameters"][0] if th["_validate_parameters"] else 4096
    idx, dist = exact_knn(X)
    if "malformed" in c:
        for name, tabs, kw, over in malformed_cases(X, idx, dist):
            if name == c["malformed"] and fit(X, tabs, 5, bool(c.get("force")), **kw)["exc"] is None:
                ctx.fail("UMAP.fit:malformed_accepted:" + name, "did not raise", c)
    else:
        index_obj = None
        if c.get("tuple") == "3index":
            from pynndescent import NNDescent
            index_obj = NNDescent(np.random.RandomState(0).normal(size=(40, 3)).astype(np.float32), n_neighbors=5, random_state=1)
        cc = {k: v for k, v in c.items() if k != "X"}
        cache = {}
        for force in ((not cc["force"]), cc["force"]):     # the opposite setting first, so that the force clause can compare
            run_case(ctx if force == cc["force"] else Ctx("C20", "quick", 0), dict(cc, force=force), X, idx, dist, index_obj, thr, cache)
    for f in ctx.oracle_fail:
        print("  ", f["signature"], f["summary"])
    return bool(ctx.oracle_fail)

"""C17 — densMAP reduces to UMAP at zero weight and reports the defined local radii."""
import math
import numpy as np, numba, scipy.sparse as sp
from vp.coqrun import fl, zl, flist, zlist, blist, clist, parse_zlist
import umap, umap.layouts as L, umap.umap_ as U
import c07
from vp import link

DENS_INIT = "_optimize_layout_euclidean_densmap_epoch_init"

PTOL, CTOL, RTOL = 2e-3, 1e-9, 2e-4
RULE = ("(a) fits with densmap=True, dens_lambda=0 / dens_frac=0 vs plain UMAP (same seed, n_epochs): embeddings bit-identical; (b) the per-epoch flag schedule observed "
        "by wrapping the single-epoch kernel vs densmap_flag in Coq; (c) the jitted kernel with densmap_flag=True on random small graphs vs epoch_dens (positions 2e-3, RNG exact); "
        "(d) the per-epoch density statistics vs dens_init; (e) rad_orig_ / rad_emb_ of output_dens fits vs radii evaluated in Coq on the pruned graph / the embedding's fuzzy graph "
        "and vs a float64 oracle.  Non-trivial: density term active, isolated vertex present, pruning active, lambda=0 or frac=0 with densmap=True.")


def run(ctx):
    ctx.check_proofs(["prop/P_C17.v"])
    # translation tie: the per-epoch density statistics kernel regenerated from the current layouts.py (both aliasing variants);
    # link theorems (coq/link/L_dens.v): translated source = M_dens.dens_init for all well-formed inputs, over R (sequential meaning of
    # the prange loop).
    lres = link.check(ctx, "layouts_dens", {"rdist": "src_rdist_dens_eq", DENS_INIT + "_shared": "src_dens_init_eq",
                                            DENS_INIT + "_distinct": "src_dens_init_distinct_eq"})
    # the SGD epoch kernel translated for densmap_flag=True, tail_embedding is head_embedding (module "layouts", shared with C07;
    # coq/link/L_sgd_dens.v): = M_dens.epoch_dens true cx over R, and with dens_lambda = 0 = the densmap_flag=False translation
    link.check(ctx, "layouts", {c07.SGD_K + "_dens_shared": "src_sgd_dens_shared_eq", c07.SGD_K + "_shared": "src_sgd_dens_lambda0"},
               not_translated={c07.SGD_K + "_dens_distinct": "densmap_flag=True with two non-overlapping arrays: translated (Src_layouts.v), no link "
                               "theorem (umap never runs the density term in transform); per-run correspondence does not cover it either"})
    src_ready = lres.ok and not any("E_dens" in e for e in lres.errors)
    rng = ctx.rng
    npr = np.random.RandomState(rng.randrange(2 ** 31))
    hdr = ("From Coq Require Import List ZArith PrimFloat. From UV Require Import Num FNum M_sgd M_dens V_sgd V_dens.\n"
           "Import ListNotations. Open Scope float_scope.\n")
    quick = ctx.tier == "quick"
    # ---- (a) oracle: bit identity at zero weight / zero fraction -------------------------------------------------
    for c in range(3 if quick else 12):
        n = rng.randint(25, 70); d = rng.randint(2, 6); E = rng.choice([11, 25, 60]); seed = rng.randrange(1000); k = rng.randint(4, 10)
        X = npr.normal(size=(n, d)) * 10 ** rng.uniform(-1, 1)
        if rng.random() < 0.4: X[: n // 2] += 8
        desc = dict(X=X, n_neighbors=k, n_epochs=E, random_state=seed)
        base = umap.UMAP(n_neighbors=k, n_epochs=E, random_state=seed).fit_transform(X)
        for kw, nm in ((dict(dens_lambda=0.0), "lambda0"), (dict(dens_frac=0.0), "frac0"),
                       (dict(dens_lambda=0.0, output_dens=True), "lambda0_output_dens"), (dict(dens_frac=0.0, output_dens=True), "frac0_output_dens")):
            e2 = umap.UMAP(n_neighbors=k, n_epochs=E, random_state=seed, densmap=True, **kw).fit_transform(X)
            if isinstance(e2, tuple): e2 = e2[0]
            ctx.tag(("bitid", c, nm), ["dens_off_" + nm])
            if not np.array_equal(base, e2, equal_nan=True):
                ctx.fail("fit_transform:densmap_%s_differs_from_umap" % nm, "max abs difference %g" % np.nanmax(np.abs(base - e2)), dict(desc, **kw))
    # n_epochs <= 10: the weak-edge pruning threshold uses default_epochs, which densmap=True raises from 500 to 700 (recorded finding)
    cent = npr.normal(size=(40, 5)) * 5
    Xc = np.vstack([c_ + npr.normal(size=(npr.randint(3, 12), 5)) * npr.uniform(0.01, 1.0) for c_ in cent]).astype(np.float32)
    for E in (5, 10):
        base = umap.UMAP(random_state=1, n_epochs=E).fit_transform(Xc)
        for kw, nm in ((dict(dens_lambda=0.0), "lambda0"), (dict(dens_frac=0.0), "frac0")):
            e2 = umap.UMAP(random_state=1, n_epochs=E, densmap=True, **kw).fit_transform(Xc)
            ctx.tag(("bitid_small_epochs", E, nm), ["dens_off_n_epochs<=10"])
            if not np.array_equal(base, e2, equal_nan=True):
                ctx.fail("fit_transform:densmap_off_differs_from_umap:n_epochs<=10", "n_epochs=%d %s: max abs difference %g" % (E, nm, np.nanmax(np.abs(base - e2))),
                         dict(X=Xc, n_epochs=E, random_state=1, **kw))
    # ---- (b) the flag schedule ----------------------------------------------------------------------------------
    seen = []
    orig = L._nb_optimize_layout_euclidean_single_epoch
    def spy(*a):
        seen.append((int(a[16]), bool(a[17]))); return orig(*a)
    sched_terms, sched_obs, sched_desc = [], [], []
    L._nb_optimize_layout_euclidean_single_epoch = spy
    try:
        for c in range(6 if quick else 30):
            g = c07.gen_graph(rng, npr)
            N = rng.choice([4, 7, 10, 13]); lam = rng.choice([0.0, 0.5, 2.0]); frac = rng.choice([0.0, 0.3, 0.5, 1.0, 0.25]); dm = rng.random() < 0.8
            nh = g["H"].shape[0] if not g["shared"] else g["nv"]
            H = g["T"].copy()   # fit-style
            head = g["head"] % g["nv"]
            # no isolated vertex: the density statistics divide by each vertex's phi_sum (see the known finding probed below)
            head = np.concatenate([head, np.arange(g["nv"])]); g["tail"] = np.concatenate([g["tail"], ((np.arange(g["nv"]) + 1) % g["nv"]).astype(np.int32)])
            g["w"] = np.concatenate([g["w"], np.full(g["nv"], 0.5, dtype=np.float32)])
            eps = U.make_epochs_per_sample(g["w"], N)
            kw = dict(mu=g["w"].copy(), mu_sum=np.ones(g["nv"], dtype=np.float32), R=np.zeros(g["nv"], dtype=np.float32), var_shift=0.1)
            kw["lambda"] = lam; kw["frac"] = frac
            seen.clear()
            L.optimize_layout_euclidean(H, H, head.astype(np.int32), g["tail"], N, g["nv"], eps, g["a"], g["b"], g["seed"].copy(), gamma=g["gamma"],
                                        initial_alpha=0.0, negative_sample_rate=g["rate"], densmap=dm, densmap_kwds=kw, move_other=True)
            sched_obs.append([f for _, f in sorted(seen)]); sched_desc.append(dict(densmap=dm, dens_lambda=lam, dens_frac=frac, n_epochs=N))
            sched_terms.append("flags %s %s %s %d%%Z" % ("true" if dm else "false", fl(lam), fl(frac), N))
            ctx.tag(("sched", c), ["schedule"] + (["some_active"] if any(sched_obs[-1]) else []))
            # oracle: active only when densmap and lambda > 0 and epoch fraction > 1 - frac
            want = [bool(dm and lam > 0 and (n + 1) / N > 1 - frac) for n in range(N)]
            if sched_obs[-1] != want:
                ctx.fail("optimize_layout_euclidean:density_term_schedule", "density term active in epochs %s, expected %s" % (sched_obs[-1], want), sched_desc[-1])
    finally:
        L._nb_optimize_layout_euclidean_single_epoch = orig
    bl = ctx.coq_eval("cases_C17_flags", hdr + "Eval vm_compute in [%s].\n" % "; ".join(sched_terms), what="densmap_flag schedule")
    if bl is not None:
        got = [t == "true" for t in __import__("re").findall(r"true|false", bl[0])]
        flat = [f for o in sched_obs for f in o]
        ctx.traces += len(sched_obs)
        if got != flat:
            ctx.diff(dict(cases=sched_desc, impl=sched_obs), "densmap_flag schedule")
    # ---- (c)+(d) kernel with the density term, and the per-epoch statistics ---------------------------------------
    init_fn = numba.njit(L._optimize_layout_euclidean_densmap_epoch_init, fastmath=True)
    terms, cases, iterms, icases = [], [], [], []
    for gno in range(25 if quick else 250):
        g = c07.gen_graph(rng, npr)
        nv = g["nv"]; H = g["T"].copy()
        if rng.random() < 0.7:
            H = (H + npr.random(H.shape).astype(np.float32) * np.float32(0.5)).astype(np.float32)
        head = (g["head"] % nv).astype(np.int32); tail = g["tail"]
        # every vertex needs positive phi_sum: add a ring so no vertex is isolated in the statistics
        head = np.concatenate([head, np.arange(nv, dtype=np.int32)]); tail = np.concatenate([tail, ((np.arange(nv) + 1) % nv).astype(np.int32)])
        w = np.concatenate([g["w"], np.full(nv, 0.3, dtype=np.float32)])
        # the density term is 0*inf = NaN under IEEE for coincident end points (d2 = 0, b < 1); the compiled kernel only avoids it
        # through fast-math folding, so such inputs are outside the model's domain: keep end points distinct
        for h_, t_ in zip(head, tail):
            if h_ != t_ and np.array_equal(H[h_], H[t_]):
                H[t_] = H[t_] + np.float32(0.01) * (1 + npr.random(H.shape[1]).astype(np.float32))
        keep_e = head != tail
        head, tail, w = head[keep_e], tail[keep_e], w[keep_e]
        N = 20; eps = U.make_epochs_per_sample(w, N); epns = eps / g["rate"]; nneg = epns.copy(); nxt = eps.copy()
        a, b = g["a"], g["b"]
        re = np.zeros(nv, dtype=np.float32); phi = np.zeros(nv, dtype=np.float32)
        init_fn(H, H, head, tail, a, b, re, phi)
        edges = "[" + "; ".join("mkEdgeF %d%%nat %d%%nat %s %s" % (int(h), int(t), fl(e), fl(en)) for h, t, e, en in zip(head, tail, eps, epns)) + "]"
        iterms.append("(%s, %s, %s, %s, %d%%nat, %s, %s)" % (fl(a), fl(b), c07.ll(H), edges, nv, flist(re), flist(phi)))
        icases.append(dict(H=H, head=head, tail=tail, a=a, b=b, re_sum=re, phi_sum=phi))
        # oracle for the statistics: float64 definition
        re64 = np.zeros(nv); ph64 = np.zeros(nv)
        for h, t in zip(head, tail):
            d2 = float(((H[h].astype(np.float64) - H[t].astype(np.float64)) ** 2).sum()); p = 1.0 / (1.0 + a * d2 ** b)
            re64[h] += p * d2; re64[t] += p * d2; ph64[h] += p; ph64[t] += p
        if np.abs(np.log(1e-8 + re64 / ph64) - re).max() > 1e-3 or np.abs(ph64 - phi).max() > 1e-3 * (1 + ph64.max()):
            ctx.fail("densmap_epoch_init:statistics", "per-epoch embedded radii differ from their definition", icases[-1])
        R = npr.normal(size=nv).astype(np.float32); lam = rng.choice([0.5, 2.0, 5.0]); mu_tot = float(w.sum() / 2)
        re_std = float(np.sqrt(np.var(re) + 0.1)); re_mean = float(np.mean(re)); re_cov = float(np.dot(re, R) / (nv - 1))
        rs = np.array([[int(s) for s in g["seed"]]] * nv, dtype=np.int64) + H[:, 0].astype(np.float64).view(np.int64).reshape(-1, 1)
        n = rng.choice([0, 1, 3, 10]); alpha = rng.choice([1.0, 0.5, 0.1])
        pre = dict(H=H.copy(), nxt=nxt.copy(), nneg=nneg.copy(), rs=rs.copy())
        orig(H, H, head, tail, nv, eps, a, b, rs, g["gamma"], H.shape[1], True, alpha, epns, nneg, nxt, n, True, phi, re, re_cov, re_std, re_mean, lam, R, w, mu_tot)
        fired = int(np.sum(pre["nxt"] <= n))
        ctx.tag(("kernel", gno), ["density_term_active"] if fired else [])
        desc = dict(pre=pre, post=dict(H=H.copy()), head=head, tail=tail, a=a, b=b, gamma=g["gamma"], alpha=alpha, n=n, R=R, mu=w, dens_lambda=lam,
                    re_sum=re, phi_sum=phi, re_std=re_std, re_mean=re_mean, re_cov=re_cov, mu_tot=mu_tot)
        base = "(mkCase %s %s %s %s %s %s true true %s %s [] %s %s %s %s [] %s %s %s)" % (
            fl(a), fl(b), fl(g["gamma"]), fl(alpha), fl(float(n)), zl(nv), edges, c07.ll(pre["H"]), flist(pre["nxt"]), flist(pre["nneg"]), c07.rngl(pre["rs"]),
            c07.ll(H), flist(nxt), flist(nneg), c07.rngl(rs))
        terms.append("(mkDCase %s %s %s %s %s %s %s %s %s %s)" % (base, flist(phi), flist(re), flist(R), flist(w), fl(re_cov), fl(re_std), fl(re_mean), fl(lam), fl(mu_tot)))
        cases.append(desc)
    maxdev = 0
    for s in range(0, len(terms), 50):
        bl = ctx.coq_eval("cases_C17_k%d" % (s // 50), hdr + "Definition cases : list dens_case := %s.\nEval vm_compute in map (verdict_dens_epoch %s %s) cases.\n"
                          % (clist(terms[s:s + 50]), fl(PTOL), fl(CTOL)), what="epoch_dens vs kernel with densmap_flag")
        if bl is None: continue
        v = parse_zlist(bl[0])
        for off in range(len(v) // 2):
            ctx.traces += 1; maxdev = max(maxdev, v[2 * off + 1])
            if v[2 * off] != -1:
                ctx.diff(cases[s + off], {1: "RNG states", 2: "epoch_of_next_sample", 3: "epoch_of_next_negative_sample", 4: "positions (dev %.3g)" % (v[2 * off + 1] / 1e9)}.get(v[2 * off], "?"))
    ctx.extra["max_position_deviation_density_kernel"] = maxdev / 1e9
    bl = ctx.coq_eval("cases_C17_init", hdr + "Eval vm_compute in map (verdict_dens_init 1e-3) %s.\n" % clist(iterms), what="dens_init vs densmap_epoch_init")
    if bl is not None:
        for off, code in enumerate(parse_zlist(bl[0])):
            ctx.traces += 1
            if code != -1: ctx.diff(icases[off], {1: "phi_sum", 2: "re_sum"}.get(code, "?"))
    # (d') the TRANSLATED source of the statistics kernel (Src_layouts_dens.v, regenerated from the current layouts.py) run in binary64 on
    #      the same inputs (validates the translator's `.fill` / accumulation semantics against the running code)
    if src_ready:
        for s in range(0, len(iterms), 60):
            text = hdr.replace("Import ListNotations.", "From UVS Require Import E_dens.\nImport ListNotations.", 1) + \
                "Eval vm_compute in map (verdict_src_dens_init 1e-3) %s.\n" % clist(iterms[s:s + 60])
            bl = link.coq_eval(ctx, lres, "cases_C17_src_init%d" % (s // 60), text, what="translated densmap_epoch_init vs the jitted kernel")
            if bl is None: continue
            v = parse_zlist(bl[0])
            if len(v) != len(iterms[s:s + 60]):
                ctx.broken.append("C17 translated-source verdict list length mismatch"); continue
            for off, code in enumerate(v):
                ctx.traces += 1
                if code == 6:
                    ctx.broken.append("C17: a generated statistics case is outside the hypotheses of the link theorem src_dens_init_eq")
                elif code != -1:
                    ctx.diff(icases[s + off], "translated source of densmap_epoch_init vs the jitted kernel: " + {1: "phi_sum", 2: "re_sum", 3: "array lengths"}.get(code, "?"))
    # ---- (e) local radii -------------------------------------------------------------------------------------------
    rterms, rcases = [], []
    for c in range(4 if quick else 20):
        n = rng.randint(20, 45); d = rng.randint(2, 5); E = rng.choice([0, 11, 30, 200]); k = rng.randint(3, 8); seed = rng.randrange(1000)
        X = npr.normal(size=(n, d)).astype(np.float32) * np.float32(10 ** rng.uniform(-1, 1))
        kwargs = dict(n_neighbors=k, n_epochs=E, random_state=seed, output_dens=True, densmap=rng.random() < 0.3 and E > 0)
        clump = rng.random() < 0.5 or c == 0
        if clump:      # more than n_neighbors coincident points: their graph neighbours are all at distance 0 (radius log(1e-8))
            X[2: 2 + k + 3] = X[2]
        iso = rng.random() < 0.5 and not kwargs["densmap"]   # densmap with an isolated sample is the recorded finding probed below
        if iso:
            X[0] += 1000; dd = np.sort(np.sqrt(((X[:, None] - X[None]) ** 2).sum(-1)), axis=1)
            kwargs["disconnection_distance"] = float(dd[1:, k].max() * 3)
        m = umap.UMAP(**kwargs); out = m.fit_transform(X)
        desc = dict(X=X, **kwargs)
        if not (isinstance(out, tuple) and len(out) == 3):
            ctx.fail("fit_transform:output_dens_tuple", "did not return (embedding, rad_orig, rad_emb)", desc); continue
        emb, ro, re_ = out
        deg = np.asarray(m.graph_.sum(axis=1)).ravel()
        live = deg > 0
        if emb.shape != (n, 2) or ro.shape != (n,) or re_.shape != (n,):
            ctx.fail("fit_transform:output_dens_shapes", "shapes %s %s %s" % (emb.shape, ro.shape, re_.shape), desc)
        if not (np.all(np.isfinite(ro[live])) and np.all(np.isfinite(re_[live]))):
            ctx.fail("fit_transform:radii_nonfinite", "non-finite radius for a non-isolated sample", desc)
        # original radii: pruned graph (C07) + squared graph distances
        G = m.graph_.tocoo(copy=True); G.sum_duplicates()
        nmax = E if E > 10 else 500
        thr = np.float32(G.data.max()) / np.float32(float(nmax)) if True else 0
        keep = ~(G.data < thr)
        gd = m.graph_dists_.tocsr()
        es = [(int(i), int(j), float(mu), float(gd[i, j]) ** 2) for i, j, mu, kp in zip(G.row, G.col, G.data, keep) if kp]
        def f64rad(es, nn):
            s = np.zeros(nn); w = np.zeros(nn)
            for i, j, mu, D in es:
                s[i] += mu * D; s[j] += mu * D; w[i] += mu; w[j] += mu
            with np.errstate(all="ignore"):
                return np.log(1e-8 + s / w)
        want = f64rad(es, n)
        ok = live & np.isfinite(want)
        if np.abs(want[ok] - ro[ok]).max() > RTOL * (1 + np.abs(want[ok]).max()):
            ctx.fail("fit_transform:rad_orig_not_definition", "original radius differs from log of membership-weighted mean squared neighbour distance by %g" % np.abs(want[ok] - ro[ok]).max(), desc)
        rterms.append("(%d%%nat, [%s], %s)" % (n, "; ".join("(%d%%nat, %d%%nat, %s, %s)" % (i, j, fl(mu), fl(np.float32(D))) for i, j, mu, D in es), flist(ro)))
        rcases.append(dict(desc, which="rad_orig"))
        # embedded radii: the same quantity on the embedding's own fuzzy neighbour graph (finite rows only)
        fin = np.all(np.isfinite(emb), axis=1)
        if fin.all():
            kk = m._densmap_kwds["n_neighbors"]
            idx, dist, _ = U.nearest_neighbors(emb, kk, "euclidean", {}, False, np.random.RandomState(0))
            EG, _, _, ED = U.fuzzy_simplicial_set(emb, kk, np.random.RandomState(0), "euclidean", {}, idx, dist, return_dists=True)
            EG = EG.tocoo(); EG.sum_duplicates(); EG.eliminate_zeros(); ED = ED.tocsr()
            es2 = [(int(i), int(j), float(mu), float(ED[i, j]) ** 2) for i, j, mu in zip(EG.row, EG.col, EG.data)]
            want2 = f64rad(es2, n)
            if np.abs(want2 - re_).max() > RTOL * (1 + np.abs(want2).max()):
                ctx.fail("fit_transform:rad_emb_not_definition", "embedded radius differs from the same quantity on the embedding's fuzzy graph by %g" % np.abs(want2 - re_).max(), desc)
            rterms.append("(%d%%nat, [%s], %s)" % (n, "; ".join("(%d%%nat, %d%%nat, %s, %s)" % (i, j, fl(mu), fl(np.float32(D))) for i, j, mu, D in es2), flist(re_)))
            rcases.append(dict(desc, which="rad_emb"))
        ctx.tag(("radii", c), ["radii"] + (["duplicate_clump"] if clump else []) + (["isolated"] if not live.all() else []) + (["pruned"] if not keep.all() else []))
        ctx.sample(dict(n=n, kwargs={k_: v for k_, v in kwargs.items()}, rad_orig=ro[:5], rad_emb=re_[:5]), 1)
    bl = ctx.coq_eval("cases_C17_radii", hdr + "Eval vm_compute in map (verdict_radii %s) %s.\n" % (fl(RTOL), clist(rterms)), what="radii vs rad_orig_/rad_emb_")
    if bl is not None:
        for off, code in enumerate(parse_zlist(bl[0])):
            ctx.traces += 1
            if code != -1: ctx.diff(rcases[off], "%s of vertex %d" % (rcases[off]["which"], code))
    # ---- probe of the recorded finding: densmap=True on data with an isolated sample --------------------------------------
    Xp = npr.normal(size=(40, 3)).astype(np.float32); Xp[0] += 1000
    descp = dict(X=Xp, densmap=True, disconnection_distance=20.0, n_neighbors=5, n_epochs=30)
    try:
        outp = umap.UMAP(n_neighbors=5, n_epochs=30, random_state=1, disconnection_distance=20.0, densmap=True, output_dens=True).fit_transform(Xp)
        embp = outp[0]
        if not (np.isfinite(embp[1:]).all() and np.isfinite(outp[1][1:]).all() and np.isfinite(outp[2][1:]).all()):
            ctx.fail("fit_transform:densmap_with_isolated_sample", "non-isolated samples got non-finite embedding / radii", descp)
    except Exception as ex:
        ctx.fail("fit_transform:densmap_with_isolated_sample", "%s: %s" % (type(ex).__name__, ex), descp)
    ctx.tag(("probe", "densmap_isolated"), ["isolated_with_densmap_probe"])
    ctx.partial.append("the correctness of the densMAP gradient as a derivative is not claimed by the property and not proved")
    return ctx.finish(RULE, assumptions=["float32 kernel arithmetic observed with tolerance", "the embedding's fuzzy graph for rad_emb is rebuilt with the implementation's own graph stage (C01/C02 tie it to the model)"])

"""Cross-check lib/FloatFns.v (software exp/ln/pow, float->Z, IEEE bits) against Python."""
import math, random, struct, sys, os
sys.path.insert(0, os.path.dirname(os.path.abspath(__file__)))
from vp.coqrun import *

def main(seed=0, n=400):
    r = random.Random(seed)
    xs = [r.uniform(-30, 30) for _ in range(n)] + [r.uniform(-745, 709) for _ in range(n // 4)] + [0.0, -0.0, 1e-300, -800.0, 800.0]
    ps = [10 ** r.uniform(-300, 300) for _ in range(n)] + [r.uniform(0.5, 2) for _ in range(n)] + [1.0, 2.0, 0.5]
    pw = [(10 ** r.uniform(-3, 3), r.uniform(-5, 5)) for _ in range(n)] + [(0.0, 2.0), (3.0, 0.0), (1.0, 7.0)]
    zs = [r.uniform(-1e6, 1e6) for _ in range(n // 2)] + [r.uniform(-1e18, 1e18) for _ in range(n // 2)] + [0.5, -0.5, 3.0, -3.0, 2.0**62]
    bs = [r.uniform(-1, 1) * 10 ** r.uniform(-30, 30) for _ in range(n)] + [0.0, -0.0, 5e-324, 2.2e-308, 1.0, -2.5, math.inf, -math.inf]
    text = "From Coq Require Import ZArith List PrimFloat. From UV Require Import FloatFns. Import ListNotations. Open Scope float_scope.\n"
    text += "Eval vm_compute in map f_exp %s.\n" % flist(xs)
    text += "Eval vm_compute in map f_ln %s.\n" % flist(ps)
    text += "Eval vm_compute in map (fun p => f_pow (fst p) (snd p)) [%s].\n" % "; ".join("(%s, %s)" % (fl(a), fl(b)) for a, b in pw)
    text += "Eval vm_compute in map f_to_Z %s.\n" % flist(zs)
    text += "Eval vm_compute in map f_floor %s.\n" % flist(zs)
    text += "Eval vm_compute in map f_bits %s.\n" % flist(bs)
    text += "Eval vm_compute in map f_of_Z %s.\n" % zlist([int(z) for z in zs])
    import numpy as np
    rs = [r.uniform(-1, 1) * 10 ** r.uniform(-50, 40) for _ in range(n)] + [float(np.float32(r.random())) * (1 + 2.0 ** -24) for _ in range(n)] + [1e-45, 7e-46, 3e-39, 3.4028235e38, 3.4028236e38, 1e39, 0.1, 1.0 + 2.0 ** -24, 1.0 + 3 * 2.0 ** -24]
    text += "Eval vm_compute in map f_round32 %s.\n" % flist(rs)
    ok, out, err, secs = run_gen("selftest_floatfns", text)
    if not ok:
        print("coqc failed", err[-2000:]); return 1
    b = eval_blocks(out)
    bad = 0
    def rel(a, e):
        if math.isinf(e) or math.isinf(a): return 0 if a == e else 1
        return abs(a - e) / max(abs(e), 1e-300)
    ex = parse_flist(b[0]); worst = 0
    for x, a in zip(xs, ex):
        try: e = math.exp(x)
        except OverflowError: e = math.inf
        if e < 1e-300: continue
        worst = max(worst, rel(a, e))
    print("exp worst rel", worst); bad += worst > 1e-14
    ln = parse_flist(b[1]); worst = 0
    for x, a in zip(ps, ln):
        e = math.log(x); worst = max(worst, abs(a - e) / max(abs(e), 1e-2))
    print("ln worst", worst); bad += worst > 1e-14
    pwv = parse_flist(b[2]); worst = 0
    for (x, y), a in zip(pw, pwv):
        e = x ** y; worst = max(worst, rel(a, e))
    print("pow worst rel", worst); bad += worst > 1e-12
    tz = parse_zlist(b[3]); assert len(tz) == len(zs), (len(tz), len(zs))
    bad += sum(1 for x, a in zip(zs, tz) if int(x) != a)
    fz = parse_zlist(b[4])
    bad += sum(1 for x, a in zip(zs, fz) if math.floor(x) != a)
    bz = parse_zlist(b[5])
    nb = sum(1 for x, a in zip(bs, bz) if struct.unpack("<Q", struct.pack("<d", x))[0] != a)
    print("to_Z/floor/bits mismatches", bad, nb); bad += nb
    oz = parse_flist(b[6])
    bad += sum(1 for x, a in zip(zs, oz) if float(int(x)) != a)
    r32 = parse_flist(b[7])
    with np.errstate(over="ignore"):
        nb32 = sum(1 for x, a in zip(rs, r32) if float(np.float32(x)) != a)
    print("round32 mismatches", nb32); bad += nb32
    print("selftest", "OK" if not bad else "FAILED", "(%.1fs)" % secs)
    return 1 if bad else 0

if __name__ == "__main__":
    sys.exit(main())

"""C18 — combined models A + B, A * B, A - B obey fuzzy-set algebra and restore local connectivity."""
import ast, math, os, struct
import numpy as np, scipy.sparse as sp
from fractions import Fraction
from sklearn.exceptions import NotFittedError
from vp.coqrun import fl, zlist, flist, clist, parse_zlist
from vp import srcparams, link
from vp.common import REPO
import umap, umap.umap_ as U
from c16 import canon, coo_term, same_bits, par_eval

ATOL = 1e-5            # model vs implementation, graphs (task tolerance)
OTOL = 1e-5            # oracle tolerance
OPS = ("add", "mul", "sub")
RULE = ("pairs of models fitted on the same samples (n 20..40): two feature views / two metrics / two n_neighbors / identical twins, "
        "n_neighbors 3..10, scale 0.1..100; implementation general_simplicial_set_union / _intersection (weights .5,.2,.8,0,1 and "
        "right_complement), reset_local_connectivity(., True/False), and (A+B).graph_, (A*B).graph_, (A-B).graph_ vs the model "
        "(sset_union / sset_intersection / right_complement, rowmax_normalise, reprocess, resym; float32 storage rounding between stages) "
        "evaluated in Coq, abs 1e-5 and same support; operator pre-checks (unfitted, different n) exact.  Oracle: symmetry, range, unit "
        "edge, support, commutativity of +, determinism, finite embedding, errors.  Non-trivial: supports differ (fill values used), "
        "a sample isolated by A-B, a row whose recalibration exponent leaves [1/4,4], or identical operands.")


def fit_model(X, k, metric, n_epochs, disc=None, mix=1.0):
    return umap.UMAP(n_neighbors=k, metric=metric, n_epochs=n_epochs, init="random", random_state=1, disconnection_distance=disc, set_op_mix_ratio=mix).fit(X)


def gen_pair(rng, npr, force_kind=None):
    n = rng.randint(20, 40)
    d = rng.randint(4, 8)
    scale = 10 ** rng.uniform(-1, 2)
    nblob = rng.randint(1, 4)
    centers = npr.normal(size=(nblob, d)) * 3
    X = (centers[npr.randint(0, nblob, size=n)] + npr.normal(size=(n, d))) * scale
    kind = rng.choice(["views", "views", "metrics", "neighbors", "twins", "noise", "iso_one", "mixratio"])
    if force_kind: kind = force_kind
    ka, kb = rng.randint(3, 10), rng.randint(3, 10)
    ma = mb = "euclidean"
    fa = fb = list(range(d))
    if kind == "views":
        cut = rng.randint(1, d - 1); fa, fb = list(range(cut)), list(range(cut, d))
        mb = rng.choice(["euclidean", "manhattan"])
    elif kind == "metrics":
        ma, mb = rng.sample(["euclidean", "manhattan", "cosine", "chebyshev"], 2)
    elif kind == "neighbors":
        kb = ka + rng.randint(1, 5)
    elif kind == "twins":
        kb = ka
    XA = X[:, fa]
    XB = X[:, fb] if kind != "noise" else X[:, fb] + npr.normal(size=(n, len(fb))) * scale
    disc_a = None
    if kind == "iso_one":      # one sample is an outlier of view A only and is cut off there by a disconnection distance: isolated in exactly one operand
        XA = XA.copy(); Dn = np.sqrt(((XA[:, None] - XA[None]) ** 2).sum(-1)); far = float(np.sort(Dn, axis=1)[:, min(ka, n - 1)].max())
        XA[0] = XA[0] + 50 * far; disc_a = 3 * far
    # operands fitted with off-default graph-stage parameters (the combined model's laws do not depend on how the operands were fitted)
    mix_a = rng.choice([0.4, 0.0, 0.7]) if kind == "mixratio" else 1.0
    mix_b = rng.choice([1.0, 0.5]) if kind == "mixratio" else 1.0
    return dict(n=n, kind=kind, XA=XA, XB=XB, ka=ka, kb=kb, ma=ma, mb=mb, disc_a=disc_a, mix_a=mix_a, mix_b=mix_b, n_epochs=rng.randint(1, 4),
                w=rng.choice([0.5, 0.2, 0.8, 0.0, 1.0, round(rng.uniform(0.05, 0.95), 3)]))


def apply_op(op, A, B):
    return A + B if op == "add" else A * B if op == "mul" else A - B


def dense(G):
    return np.asarray(sp.csr_matrix(G).todense(), dtype=np.float64)


# ---- oracle: the property text on the implementation's output ----------------------------------------
def oracle_graph(ctx, op, C, ga, gb, desc, where):
    n = ga.shape[0]
    fails = []
    G = canon(C.graph_)
    if G.shape != (n, n):
        ctx.fail("%s:shape" % where, "graph shape %s for %d samples" % (G.shape, n), desc); return False
    g = dense(G); a = dense(ga); b = dense(gb)
    data = G.data.astype(np.float64)
    if not np.all(np.isfinite(data)):
        fails.append(("nonfinite", "non-finite stored entry"))
    elif len(data) and (data.min() < 0 or data.max() > 1 + OTOL):
        fails.append(("range", "stored entry outside [0,1]: min %r max %r" % (float(data.min()), float(data.max()))))
    if np.abs(g - g.T).max() > OTOL:
        fails.append(("symmetry", "asymmetric by %g" % np.abs(g - g.T).max()))
    deg = (g != 0).sum(axis=1); rmax = g.max(axis=1)
    bad = (deg > 0) & (rmax < 1 - OTOL)
    if bad.any():
        i = int(np.argwhere(bad)[0][0])
        fails.append(("unit_edge", "sample %d has %d edges, strongest %r < 1" % (i, int(deg[i]), float(rmax[i]))))
    allowed = (a != 0) if op == "sub" else ((a != 0) | (b != 0))
    if ((g != 0) & ~allowed).any():
        i, j = np.argwhere((g != 0) & ~allowed)[0]
        fails.append(("support", "edge (%d,%d)=%r outside %s" % (i, j, float(g[i, j]), "supp A" if op == "sub" else "supp A u supp B")))
    E = getattr(C, "embedding_", None)
    if E is None or E.shape[0] != n or E.ndim != 2 or not np.all(np.isfinite(E)):
        fails.append(("embedding", "embedding %s" % ("missing" if E is None else "shape %s, %d non-finite values" % (E.shape, int((~np.isfinite(E)).sum())))))
    for sig, msg in fails:
        ctx.fail("%s:%s" % (where, sig), msg, desc)
    return not fails


def oracle_kernels(ctx, ga, gb, KU, KM, KC, desc):
    """the mechanism named by the property: union a + b - a*b with half-minimum fill for absent entries; intersection
    (equal weights): product; contrast: product with the complement -- float64, on the kernels' outputs"""
    a, b = dense(ga), dense(gb)
    pa, pb = a != 0, b != 0
    fa = max(float(ga.data.min()) / 2.0, 1e-8); fb = max(float(gb.data.min()) / 2.0, 1e-8)
    l = np.where(pa, a, fa); r = np.where(pb, b, fb)
    want = np.where(pa | pb, l + r - l * r, 0.0)
    ku = dense(KU)
    if np.abs(ku - want).max() > 1e-6:
        i, j = np.unravel_index(np.abs(ku - want).argmax(), want.shape)
        ctx.fail("general_simplicial_set_union:formula:%s" % ("both_present" if pa[i, j] and pb[i, j] else "half_minimum_fill"),
                 "entry (%d,%d) = %r, a + b - a*b with a=%r b=%r (absent -> half the operand's minimum) gives %r" % (i, j, float(ku[i, j]), float(l[i, j]), float(r[i, j]), float(want[i, j])), desc)
    both = pa & pb
    km = dense(KM)
    if both.any() and np.abs(km - a * b)[both].max() > 1e-6:
        i, j = np.argwhere(both & (np.abs(km - a * b) > 1e-6))[0]
        ctx.fail("general_simplicial_set_intersection:formula:both_present", "entry (%d,%d) = %r, product a*b = %r" % (i, j, float(km[i, j]), float(a[i, j] * b[i, j])), desc)
    kc = dense(KC)
    if both.any() and np.abs(kc - a * (1 - b))[both].max() > 1e-6:
        i, j = np.argwhere(both & (np.abs(kc - a * (1 - b)) > 1e-6))[0]
        ctx.fail("general_simplicial_set_intersection:complement_formula:both_present", "entry (%d,%d) = %r, a*(1-b) = %r" % (i, j, float(kc[i, j]), float(a[i, j] * (1 - b[i, j]))), desc)
    if ((kc != 0) & ~pa).any() or ((ku != 0) & ~(pa | pb)).any() or ((km != 0) & ~(pa | pb)).any():
        ctx.fail("general_simplicial_set_*:support", "kernel writes outside the operands' supports", desc)


def graphs_equal(G1, G2, tol):
    a, b = dense(G1), dense(G2)
    return a.shape == b.shape and bool(((a != 0) == (b != 0)).all()) and float(np.abs(a - b).max()) <= tol


def run_pair(ctx, case, rng, collect=True):
    n = case["n"]
    desc = {k: case[k] for k in ("n", "kind", "ka", "kb", "ma", "mb", "n_epochs", "w", "XA", "XB")}
    try:
        A = fit_model(case["XA"], case["ka"], case["ma"], case["n_epochs"], case.get("disc_a"), case.get("mix_a", 1.0))
        B = fit_model(case["XB"], case["kb"], case["mb"], case["n_epochs"], None, case.get("mix_b", 1.0))
    except Exception as e:
        ctx.fail("UMAP.fit:raises", "%s: %s" % (type(e).__name__, e), desc); return None
    ga, gb = canon(A.graph_), canon(B.graph_)
    w = case["w"]
    try:
        KU = U.general_simplicial_set_union(ga.copy(), gb.copy())
        KI = U.general_simplicial_set_intersection(ga.copy(), gb.copy(), w)
        KC = U.general_simplicial_set_intersection(ga.copy(), gb.copy(), 0.5, right_complement=True)
        KM = KI if w == 0.5 else U.general_simplicial_set_intersection(ga.copy(), gb.copy(), 0.5)
        RT = U.reset_local_connectivity(KI.copy(), True)
        RF = U.reset_local_connectivity(KU.copy(), False)
    except Exception as e:
        ctx.fail("general_simplicial_set_*:raises", "%s: %s" % (type(e).__name__, e), desc); return None
    oracle_kernels(ctx, ga, gb, KU, KM, KC, desc)
    order = list(OPS); rng.shuffle(order)
    res = {}
    for rnd in (0, 1):                      # every operator twice: the result is a function of the fitted operands
        for op in order:
            where = "UMAP.__%s__" % op
            try:
                C = apply_op(op, A, B)
            except Exception as e:
                ctx.fail("%s:raises" % where, "%s: %s" % (type(e).__name__, e), dict(desc, order=order)); continue
            ctx.evaluations += 1
            for nm, M, g0 in (("left", A, ga), ("right", B, gb)):
                if not same_bits(M.graph_, g0):
                    ctx.fail("%s:%s_operand_graph_overwritten" % (where, nm),
                             "%s operand's graph_ changed by the operator (max change %g, %d stored zeros afterwards)"
                             % (nm, np.abs(dense(M.graph_) - dense(g0)).max(), int((sp.csr_matrix(M.graph_).data == 0).sum())), dict(desc, order=order))
                    M.graph_ = g0.copy()     # restore, so that the remaining observations speak about the fitted operands
            if rnd == 0:
                res[op] = C
                oracle_graph(ctx, op, C, ga, gb, desc, where + ".graph_")
            elif op in res and not graphs_equal(res[op].graph_, C.graph_, 0.0):
                ctx.fail("%s:not_deterministic" % where, "the operator applied twice to the same models gives different graphs", dict(desc, order=order))
    if len(res) < 3:
        return None
    try:
        BA = B + A
        ctx.evaluations += 1
        if not graphs_equal(res["add"].graph_, BA.graph_, 1e-6):
            d = np.abs(dense(res["add"].graph_) - dense(BA.graph_)).max()
            ctx.fail("UMAP.__add__:not_commutative", "graphs of A+B and B+A differ (max %g)" % d, desc)
    except Exception as e:
        ctx.fail("UMAP.__add__:raises", "B + A: %s: %s" % (type(e).__name__, e), desc)
    # bookkeeping
    a, b = dense(ga), dense(gb)
    gs = dense(res["sub"].graph_)
    rt_in = U.normalize(sp.csr_matrix(KU), norm="max").tocsr()
    illc = False
    for i in range(n):
        row = rt_in.data[rt_in.indptr[i]:rt_in.indptr[i + 1]].astype(np.float64)
        if len(row) and (np.sum(row ** 4.0) > math.log2(15) or np.sum(row ** 0.25) < math.log2(15)):
            illc = True; break
    tags = [t for t, c in (("supports_differ", bool(((a != 0) != (b != 0)).any())),
                           ("isolated_by_sub", bool((((a != 0).sum(1) > 0) & ((gs != 0).sum(1) == 0)).any())),
                           ("exponent_outside_[1/4,4]", illc), ("twins", case["kind"] == "twins"),
                           ("weight!=.5", w != 0.5)) if c]
    ctx.tag((case["XA"].tobytes(), case["XB"].tobytes(), case["ka"], case["kb"], case["ma"], case["mb"], w), tags)
    ctx.count("kind_" + case["kind"]); ctx.count("n<=30" if n <= 30 else "n>30"); ctx.count("w=%s" % (w if w in (0.5, 0.2, 0.8, 0.0, 1.0) else "other"))
    ctx.sample(dict(n=n, kind=case["kind"], ka=case["ka"], kb=case["kb"], ma=case["ma"], mb=case["mb"], w=w, nnz_A=int(ga.nnz), nnz_B=int(gb.nnz),
                    nnz_add=int(res["add"].graph_.nnz), nnz_mul=int(res["mul"].graph_.nnz), nnz_sub=int(res["sub"].graph_.nnz)), 3)
    if not collect:
        return None
    term = "(%d%%nat, %s, %s, %s, %s)" % (n, coo_term(ga), coo_term(gb), fl(w), ", ".join(
        coo_term(canon_keep_zeros(M)) for M in (KU, KI, KC)) + ", " + ", ".join(coo_term(canon(M)) for M in (RT, RF, res["add"].graph_, res["mul"].graph_, res["sub"].graph_)))
    return term, desc


class FixedOrder:
    """stands in for the PRNG where a stored case fixes the operator order"""
    def __init__(self, order): self.order = list(order)
    def shuffle(self, l): l[:] = self.order


def load_corpus():
    import glob, json
    out = []
    for f in sorted(glob.glob(os.path.join(os.path.dirname(os.path.dirname(os.path.abspath(__file__))), "corpus", "C18", "*.json"))):
        c = json.load(open(f))
        case = {k: c[k] for k in ("n", "kind", "ka", "kb", "ma", "mb", "n_epochs", "w")}
        case["XA"] = np.array(c["XA"], dtype=np.float64); case["XB"] = np.array(c["XB"], dtype=np.float64)
        out.append((case, c.get("order")))
    return out


def canon_keep_zeros(M):
    M = sp.csr_matrix(M, copy=True)
    M.sum_duplicates()
    return M


# ---- constants of the current source -----------------------------------------------------------------
def source_constants():
    out = {}
    try:
        out.update(srcparams.module_constants("umap/umap_.py", {"SMOOTH_K_TOLERANCE"}))
        d = srcparams.func_defaults("umap/umap_.py", "reprocess_row")
        out["k"], out["n_iters"] = d.get("k"), d.get("n_iters")
        tree = ast.parse(open(os.path.join(REPO, "umap/sparse.py")).read())
        for node in ast.walk(tree):
            if isinstance(node, ast.FunctionDef) and node.name in ("general_sset_union", "general_sset_intersection"):
                fills, caps = set(), set()
                for c in ast.walk(node):
                    if isinstance(c, ast.Call) and isinstance(c.func, ast.Name) and c.func.id in ("max", "min") and len(c.args) == 2 \
                            and isinstance(c.args[1], ast.Constant):
                        (fills if c.func.id == "max" else caps).add(float(c.args[1].value))
                out[node.name + ".fill"] = sorted(fills); out[node.name + ".cap"] = sorted(caps)
    except Exception as e:
        out["error"] = repr(e)
    return out


def round32_selftest(ctx, rng):
    xs = []
    for _ in range(300):
        e = rng.choice([rng.uniform(-160, -120), rng.uniform(-60, 5), rng.uniform(-1, 1)])
        xs.append(rng.choice([1, 1, 1, -1]) * rng.uniform(1, 2) * 2.0 ** e)
    xs += [0.0, 1.0, 2.0 ** -149, 2.0 ** -150, 1.5 * 2.0 ** -149, 2.0 ** -126, 1.0 - 2.0 ** -25, 1.0 + 2.0 ** -24, 1.0 + 3 * 2.0 ** -24, 0.99999994]
    want = [float(np.float32(x)) for x in xs]
    text = ("From Coq Require Import List ZArith PrimFloat. From UV Require Import V_combine.\nImport ListNotations. Open Scope float_scope.\n"
            "Eval vm_compute in map (fun p => if PrimFloat.eqb (f_round32 (fst p)) (snd p) then (-1)%%Z else 0%%Z) %s.\n"
            % clist(["(%s, %s)" % (fl(x), fl(y)) for x, y in zip(xs, want)]))
    ctx.obligations.append("gen/selftest_round32.v:f_round32 = numpy float32 cast on %d values" % len(xs))
    blocks = ctx.coq_eval("selftest_round32", text, what="f_round32 against numpy's float32 cast")
    if blocks is not None:
        v = parse_zlist(blocks[0])
        if len(v) == len(xs) and all(c == -1 for c in v):
            ctx.discharged.append(ctx.obligations[-1])
        else:
            ctx.broken.append("f_round32 disagrees with numpy float32 on %d of %d values" % (sum(1 for c in v if c != -1), len(xs)))


def error_cases(ctx, rng, npr):
    """operator pre-checks: unfitted operands, different numbers of samples; model decision vs implementation, exact"""
    X = npr.normal(size=(24, 3))
    A = fit_model(X, 5, "euclidean", 1)
    S = fit_model(X[:18], 5, "euclidean", 1)
    rows = []
    for op in OPS:
        for fa, fb, na, nb, left, right in ((False, True, 0, 24, umap.UMAP(), A), (True, False, 24, 0, A, umap.UMAP()),
                                            (False, False, 0, 0, umap.UMAP(), umap.UMAP()), (True, True, 24, 18, A, S), (True, True, 18, 24, S, A),
                                            (True, True, 24, 24, A, A)):
            try:
                apply_op(op, left, right); code, name = 0, "no error"
            except NotFittedError:
                code, name = 1, "NotFittedError"
            except ValueError as e:
                code, name = 2, "ValueError"
            except Exception as e:
                code, name = 3, type(e).__name__
            ctx.evaluations += 1
            ctx.count("precheck_%s" % name)
            desc = dict(op=op, left_fitted=fa, right_fitted=fb, n_left=na, n_right=nb)
            # oracle: the text demands an error for unfitted operands and for different sample counts, none otherwise
            must = (not fa) or (not fb) or na != nb
            if must and code == 0:
                ctx.fail("UMAP.__%s__:no_error:%s" % (op, "unfitted" if not (fa and fb) else "size_mismatch"), "combination accepted", desc)
            if not must and code != 0:
                ctx.fail("UMAP.__%s__:raises" % op, "%s on two fitted models over the same samples" % name, desc)
            rows.append((fa, fb, na, nb, code, desc))
    text = ("From Coq Require Import List ZArith Bool. From UV Require Import V_combine.\nImport ListNotations.\n"
            "Eval vm_compute in map (fun c => let '(fa, fb, na, nb, code) := c in if (precheck_code fa fb na nb =? code)%%Z then (-1)%%Z else precheck_code fa fb na nb) %s.\n"
            % clist(["(%s, %s, %d%%nat, %d%%nat, %d%%Z)" % ("true" if fa else "false", "true" if fb else "false", na, nb, code) for fa, fb, na, nb, code, _ in rows]))
    blocks = ctx.coq_eval("cases_C18_prechecks", text, what="combine_checked decisions vs operator errors")
    if blocks is not None:
        v = parse_zlist(blocks[0])
        if len(v) != len(rows):
            ctx.broken.append("C18 precheck verdict list length mismatch")
        for (fa, fb, na, nb, code, desc), c in zip(rows, v):
            ctx.traces += 1
            if c != -1:
                ctx.diff(desc, "operator pre-check: model decision %d, implementation %d" % (c, code))


# translation tie (harness/vp/link.py, module "sparse_sset"): function -> link theorem of coq/link/L_sset.v
LINKED = {"general_sset_union": "src_general_sset_union_eq", "general_sset_intersection": "src_general_sset_intersection_eq"}
# corollaries of coq/link/K_sset.v: statements of P_C18 / T_combine restated about the translated source
LINK_COROLLARIES = ("C18_src_union_comm", "C18_src_union_values", "C18_src_union_kernel", "C18_src_intersection_kernel",
                    "C18_src_complement_kernel", "C18_src_kernel_nonneg", "C18_src_intersection_defaults", "C18_src_mul_kernel", "C18_src_kernels_of_smat")


def _rand_csr(rng, n, dup):
    """random CSR arrays of an n x n matrix with values in (0,1]; `dup`: columns drawn with replacement and left unsorted (a row
    may store a column twice: the kernels then read the LAST stored value)"""
    indptr, indices, data = [0], [], []
    for _ in range(n):
        k = rng.randrange(0, n + 1) if rng.random() < 0.85 else 0
        cols = [rng.randrange(n) for _ in range(k)] if dup else rng.sample(range(n), k)
        indices += cols
        data += [rng.choice([1.0, 0.5, rng.uniform(1e-9, 1e-7), rng.random() or 1.0, rng.random() or 1.0]) for _ in cols]
        indptr.append(len(indices))
    if not data:                                  # data.min() of an empty array raises: keep one stored entry
        indptr, indices, data = [0] + [1] * n, [rng.randrange(n)], [rng.random() or 1.0]
    return indptr, indices, data


def src_eval(ctx, lres, rng):
    """evaluation leg of the translation tie: the translated kernels (Src_sparse_sset.v, binary64) against the numba kernels of the
    current source, called with float64 arrays, on random CSR operands and skeletons (coq/link/E_sset.v)"""
    import umap.sparse as S
    if not (lres.ok and all((lres.translated.get(f) or {}).get("ok") for f in LINKED)) or any("E_sset" in e for e in lres.errors):
        ctx.notes.append("translated sset kernels not evaluated (translation / E_sset.v unavailable)")
        return
    rows, cases = [], []
    ncase = 12 if ctx.tier == "quick" else 60
    for c in range(ncase):
        n = rng.randrange(2, 8)
        dup = c % 3 == 2
        A, B = _rand_csr(rng, n, dup), _rand_csr(rng, n, dup)
        kind = ("union", "inter", "compl")[c % 3] if c >= 3 else ("union", "inter", "compl")[c]
        pos = set()
        for (ip, ix, _), use in ((A, True), (B, kind != "compl")):
            if use:
                pos |= {(i, ix[k]) for i in range(n) for k in range(ip[i], ip[i + 1])}
        pos |= {(rng.randrange(n), rng.randrange(n)) for _ in range(2)}       # entries possibly stored in neither operand
        skel = sorted(pos)
        if rng.random() < 0.3:
            rng.shuffle(skel)
        row, col = [i for i, _ in skel], [j for _, j in skel]
        val = [rng.choice([0.0, rng.random(), 2.0 * rng.random()]) for _ in skel]
        w = rng.choice([0.5, 0.5, 0.25, 0.75, rng.uniform(0.05, 0.95)])
        arrs = [np.array(A[0], dtype=np.int32), np.array(A[1], dtype=np.int32), np.array(A[2], dtype=np.float64),
                np.array(B[0], dtype=np.int32), np.array(B[1], dtype=np.int32), np.array(B[2], dtype=np.float64),
                np.array(row, dtype=np.int32), np.array(col, dtype=np.int32), np.array(val, dtype=np.float64)]
        try:
            if kind == "union":
                S.general_sset_union(*arrs)
            else:
                S.general_sset_intersection(*arrs, kind == "compl", w)
        except Exception as e:       # noqa
            ctx.notes.append("src_eval: kernel call failed (%s: %s)" % (type(e).__name__, str(e)[:80]))
            continue
        out = [float(x) for x in arrs[8]]
        case = {"kind": kind, "n": n, "A": A, "B": B, "row": row, "col": col, "val": val, "w": w, "out": out}
        ctx.tag(("src_eval", c, kind, n, tuple(row), tuple(col)), ["translated-kernel:" + kind] + (["duplicate-columns"] if dup else []))
        ctx.count("src_eval:" + kind)
        csr = lambda X: "(%s, %s, %s)" % (zlist(X[0]), zlist(X[1]), flist(X[2]))
        if kind == "union":
            rows.append("verdict_src_union %s %s %s %s %s %s" % (csr(A), csr(B), zlist(row), zlist(col), flist(val), flist(out)))
        else:
            rows.append("verdict_src_intersection %s %s %s %s %s %s %s %s %s %s" % (
                fl(1e-9), fl(1e-300), csr(A), csr(B), zlist(row), zlist(col), flist(val), "true" if kind == "compl" else "false", fl(w), flist(out)))
        cases.append(case)
    if not rows:
        return
    text = ("From Coq Require Import List ZArith Bool PrimFloat. From UV Require Import Num FNum PyPrim.\nFrom UVS Require Import E_sset.\n"
            "Import ListNotations. Open Scope float_scope.\nEval vm_compute in %s.\n" % clist(rows))
    blocks = link.coq_eval(ctx, lres, "cases_C18_src", text, what="translated sset kernels (binary64) vs the numba kernels")
    if blocks is None:
        return
    v = parse_zlist(blocks[0])
    if len(v) != len(cases):
        ctx.broken.append("C18 translated-kernel verdict list has %d entries for %d cases" % (len(v), len(cases)))
        return
    for case, code in zip(cases, v):
        ctx.traces += 1
        if code != -1:
            ctx.diff(case, "translated %s kernel vs implementation: %s" % (case["kind"], "lengths differ" if code == -3 else "result_val[%d] differs" % code))


def _phase(ctx, name, t0):
    import time
    ctx.extra.setdefault("phase_s", {})[name] = round(time.time() - t0, 1)
    return time.time()


def run(ctx):
    import time
    t0 = time.time()
    ctx.check_proofs(["prop/P_C18.v"])
    # translation tie: reprocess_row / reset_local_metrics regenerated from the current source (py2coq); link theorems
    # (coq/link/L_reprocess.v, over R): reprocess_row = map (p -> p^e) with e the model's bisect_exp on psum against log2(k), for every
    # row, k, n_iters and every pinf > 2^n_iters; reset_local_metrics = the per-CSR-row map of reprocess_row (defaults k, n_iters) for
    # every well-formed indptr / data pair
    link.check(ctx, "umap_reprocess", {"reprocess_row": "src_reprocess_row_eq", "reset_local_metrics": "src_reset_local_metrics_eq"})
    # translation tie: Gallina regenerated from the current umap/sparse.py (general_sset_union, general_sset_intersection); the link
    # theorems of coq/link/L_sset.v (translated kernel = CSR-level model coq/model/M_csr.v, over every Num, for every skeleton over
    # well-formed indptr arrays) are re-checked against it
    lres = link.check(ctx, "sparse_sset", LINKED)
    for thm in LINK_COROLLARIES:
        ob = "link:sparse_sset:" + thm
        ctx.obligations.append(ob)
        bad = [a for a in lres.axioms.get(thm, []) if a not in link.coqrun.ALLOWED_AXIOMS and not ctx._primitive(a)]
        if lres.theorems.get(thm) is True and not bad:
            ctx.discharged.append(ob)
        else:
            ctx.broken.append("link[sparse_sset]: corollary %s %s" % (thm, ("uses axioms %s" % bad) if bad else (lres.theorems.get(thm) or "is missing")))
    t0 = _phase(ctx, "proofs", t0)
    rng = ctx.rng
    npr = np.random.RandomState(rng.randrange(2 ** 31))
    C = source_constants()
    ctx.extra["source_params"] = C
    tol = C.get("SMOOTH_K_TOLERANCE", 1e-5); kk_src = C.get("k") or 15; n_iters = C.get("n_iters") or 32
    kk = 15                                   # the property's mechanism: rows are re-calibrated to total log2(15)
    ok_src = (C.get("general_sset_union.fill") == [1e-8] and C.get("general_sset_intersection.fill") == [1e-8]
              and C.get("general_sset_intersection.cap") == [1e-4] and "SMOOTH_K_TOLERANCE" in C and C.get("k") and C.get("n_iters"))
    if "error" in C or not all(k in C for k in ("general_sset_union.fill", "general_sset_intersection.fill", "general_sset_intersection.cap")):
        ctx.notes.append("source constants could not be extracted (%s); committed defaults used" % C.get("error", sorted(C)))
        fill_u = fill_i = 1e-8; cap_i = 1e-4
    else:
        fill_u = (C["general_sset_union.fill"] or [0])[0]; fill_i = (C["general_sset_intersection.fill"] or [0])[0]
        cap_i = (C["general_sset_intersection.cap"] or [0])[0]
    fr = lambda x: Fraction(x).limit_denominator(10 ** 12)
    ob = ("From Coq Require Import Reals Lra ZArith. From UV Require Import Num M_combine.\nOpen Scope R_scope.\n"
          "Lemma params_ok : 0 < %d / %d /\\ c1e8 RNum = %d / %d /\\ c1e8 RNum = %d / %d /\\ c1e4 RNum = %d / %d /\\ (%d = 15)%%Z /\\ (1 <= %d)%%nat.\n"
          "Proof. unfold c1e8, c1e4; cbn. repeat split; try lra; try reflexivity; auto with arith. Qed.\n"
          % (fr(tol).numerator, fr(tol).denominator, fr(fill_u).numerator, fr(fill_u).denominator, fr(fill_i).numerator, fr(fill_i).denominator,
             fr(cap_i).numerator, fr(cap_i).denominator, kk_src, n_iters))
    ctx.obligations.append("gen/params_C18.v:params_ok")
    if ctx.coq_eval("params_C18", ob, what="0 < SMOOTH_K_TOLERANCE, fill 1e-8, cap 1e-4, k = 15, n_iters >= 1 for the current source") is not None:
        ctx.discharged.append("gen/params_C18.v:params_ok")
    round32_selftest(ctx, rng)
    error_cases(ctx, rng, npr)
    t0 = _phase(ctx, "obligations+prechecks", t0)
    npairs = 32 if ctx.tier == "quick" else 240
    terms, cases = [], []
    corpus = load_corpus()
    for c in range(npairs):
        if c < len(corpus):                      # regression inputs first
            case, order = corpus[c]
            out = run_pair(ctx, case, FixedOrder(order) if order else rng)
            ctx.count("corpus")
        else:
            case = gen_pair(rng, npr, "iso_one" if c in (len(corpus), len(corpus) + 1) else "mixratio" if c in (len(corpus) + 2, len(corpus) + 3) else None)   # every run has pairs with a sample isolated in one operand only
            out = run_pair(ctx, case, rng)
        if out is not None:
            terms.append(out[0]); cases.append(out[1])
    t0 = _phase(ctx, "implementation+oracle", t0)
    shard = 8
    hdr = ("From Coq Require Import List ZArith PrimFloat. From UV Require Import Num FNum M_supervised V_supervised M_combine V_combine.\n"
           "Import ListNotations. Open Scope float_scope.\n")
    names = {1: "general_simplicial_set_union", 2: "general_simplicial_set_intersection(weight)", 3: "general_simplicial_set_intersection(right_complement)",
             4: "reset_local_connectivity(., True)", 5: "reset_local_connectivity(., False)", 6: "(A + B).graph_", 7: "(A * B).graph_", 8: "(A - B).graph_",
             10: "stored zero / non-positive entry in a graph", 99: "malformed case"}
    jobs = []
    for s in range(0, len(terms), shard):
        text = hdr + ("Definition cases : list case_C18 := %s.\nEval vm_compute in map (verdict_C18 %s %d%%Z %d%%nat %s) cases.\n"
                      % (clist(terms[s:s + shard]), fl(tol), kk, n_iters, fl(ATOL)))
        jobs.append(("cases_C18_%d" % (s // shard), text, "sset kernels / reset_local_connectivity / operators vs the model"))
    for (s, blocks) in zip(range(0, len(terms), shard), par_eval(ctx, jobs)):
        if blocks is None:
            continue
        v = parse_zlist(blocks[0])
        if len(v) != len(terms[s:s + shard]):
            ctx.broken.append("C18 verdict list has %d entries for %d cases" % (len(v), len(terms[s:s + shard]))); continue
        for off, code in enumerate(v):
            ctx.traces += 1
            if code != -1:
                ctx.diff(cases[s + off], names.get(code, "code %d" % code))
    t0 = _phase(ctx, "coq_correspondence", t0)
    src_eval(ctx, lres, rng)          # last: the random stream of everything above is unchanged by it
    _phase(ctx, "translated_kernels_eval", t0)
    ctx.notes.append("that the 32-step search of reprocess_row reaches total log2(15) is not claimed by the property and not proved; "
                     "C18_exponent bounds the exponent in [2^-n_iters, 2^n_iters] (positive, finite)")
    ctx.notes.append("the combined graph is compared entry by entry through the whole pipeline only because the float32 storage rounding of every "
                     "intermediate array is part of the model: rows of near-1 union values make the recalibration exponent reach 1e6..2^32")
    return ctx.finish(RULE, assumptions=[
        "float32 storage of every intermediate array is modelled by rounding (f_round32, self-tested against numpy); SciPy's float32 "
        "sparse additions/multiplications of the final symmetrisation are observed, not modelled (tolerance %g)" % ATOL,
        "the operands' graphs are taken from the implementation (C01/C02 tie them to their models)",
        "the layout of the combined graph is only observed to be finite with one row per sample (C05/C07 cover the optimiser)"])


def replay(rep):
    from vp.common import Ctx
    import random
    c = rep.get("case") or (rep.get("diffs") or [{}])[0].get("case")
    if not c:
        return True
    ctx = Ctx("C18", "quick", 0)
    if "XA" not in c:           # an operator pre-check case
        error_cases(ctx, random.Random(0), np.random.RandomState(0))
        ctx.oracle_fail = [f for f in ctx.oracle_fail if f["case"].get("op") == c.get("op")]
    else:
        case = dict(c, XA=np.array(c["XA"], dtype=np.float64), XB=np.array(c["XB"], dtype=np.float64))
        run_pair(ctx, case, FixedOrder(c["order"]) if "order" in c else random.Random(0), collect=False)
    for f in ctx.oracle_fail:
        print("  ", f["signature"], f["summary"])
    return bool(ctx.oracle_fail)

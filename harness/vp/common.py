"""Shared driver pieces: context, evidence, known findings, violation reporting."""
import json, os, random, re, sys, time, traceback, hashlib
from . import coqrun

VERIF = coqrun.VERIF
REPO = os.environ.get("VERIF_REPO", "/repo")
BASE_TRUSTED = [
    "Coq 8.16.1 kernel + vm_compute (no native_compute)",
    "stdlib axioms only, as printed by Print Assumptions (see coverage.axioms)",
    "hand-written Gallina model of the anchored code; tie to /repo checked by running model (vm_compute, binary64 PrimFloat / Z) and implementation on the same generated inputs in this run",
    "lib/FloatFns.v software exp/ln/pow (evaluation leg only, self-tested against Python math)",
    "Python harness (generators, oracle, Coq output parser), numpy/scipy/numba/LLVM as the platform observed",
]


def canon(o):
    """JSON-able canonical form (numpy -> lists, floats kept exactly via repr)."""
    try:
        import numpy as np
    except Exception:  # pragma: no cover
        np = None
    if np is not None:
        if isinstance(o, np.ndarray):
            return canon(o.tolist())
        if isinstance(o, (np.floating,)):
            return float(o)
        if isinstance(o, (np.integer,)):
            return int(o)
        if isinstance(o, (np.bool_,)):
            return bool(o)
    if isinstance(o, dict):
        return {str(k): canon(v) for k, v in o.items()}
    if isinstance(o, (list, tuple)):
        return [canon(v) for v in o]
    if isinstance(o, float):
        if o != o:
            return "nan"
        if o in (float("inf"), float("-inf")):
            return "inf" if o > 0 else "-inf"
        return o
    return o


class Ctx:
    def __init__(self, prop, tier, seed):
        self.prop, self.tier, self.seed = prop, tier, seed
        self.rng = random.Random(seed * 1000003 + int(prop[1:]))
        self.t0 = time.time()
        self.broken = []        # names of theorems / obligations / correspondences that no longer check
        self.diffs = []         # correspondence disagreements (dicts with 'case')
        self.oracle_fail = []   # property failures on the implementation with a concrete input
        self.obligations = []   # theorem names
        self.discharged = []
        self.axioms = {}
        self.evaluations = 0
        self.traces = 0
        self.nontrivial = set()
        self.tags = {}
        self.samples = []
        self.dist = {}
        self.notes = []
        self.partial = []
        self.checker_cmds = []
        self.extra = {}
        self.replay_mode = False

    # ---- Coq side ---------------------------------------------------------------------------
    def check_proofs(self, prop_files, timeout=900):
        """make the whole development, then re-compile each property file to capture Print Assumptions."""
        ok, out = coqrun.build()
        self.checker_cmds.append("tools/build.sh (coq_makefile + make, full .vo)")
        if not ok:
            m = re.findall(r'File "\./([^"]+)", line (\d+)', out)
            self.broken.append("coq build failed: " + (", ".join("%s:%s" % x for x in m[:3]) or out[-300:]))
        for pf in prop_files:
            path = os.path.join(coqrun.COQ, pf)
            src = open(path).read()
            names = re.findall(r"^\s*(?:Theorem|Lemma|Corollary|Example)\s+([\w']+)", src, re.M)
            self.obligations += ["%s:%s" % (pf, n) for n in names]
            ok2, so, se, secs = coqrun.coqc(path, timeout)
            self.checker_cmds.append("coqc -R coq UV coq/%s" % pf)
            if not ok2:
                self.broken.append("property file %s no longer checks: %s" % (pf, (se or so)[-400:].replace("\n", " ")))
                continue
            blocks = coqrun.print_assumptions(so)
            if len(blocks) < len(names):
                self.notes.append("%s: %d Print Assumptions blocks for %d statements" % (pf, len(blocks), len(names)))
            bad = False
            for blk in blocks:
                for ax in blk:
                    self.axioms[ax] = self.axioms.get(ax, 0) + 1
                    if ax not in coqrun.ALLOWED_AXIOMS and not self._primitive(ax):
                        bad = True
                        self.broken.append("axiom outside the allowed list under %s: %s" % (pf, ax))
            if not bad:
                self.discharged += ["%s:%s" % (pf, n) for n in names]
            if self.tier == "thorough" and not self.replay_mode:
                self._coqchk(pf)

    def _coqchk(self, pf):
        """independent re-check of the compiled property file and everything it depends on (thorough tier)"""
        import subprocess
        mod = "UV." + pf[:-2].replace("/", ".")
        self.obligations.append("coqchk:" + mod)
        try:
            p = subprocess.run(["coqchk", "-o", "-silent", "-R", coqrun.COQ, "UV", mod], capture_output=True, text=True, timeout=2400, cwd=coqrun.COQ)
        except subprocess.TimeoutExpired:
            self.notes.append("coqchk on %s timed out (not counted as discharged)" % mod); return
        self.checker_cmds.append("coqchk -o -silent -R coq UV " + mod)
        out = p.stdout + p.stderr
        axs, inblock = [], False
        for line in out.splitlines():
            if line.startswith("* Axioms:"): inblock = True; continue
            if inblock:
                if line.startswith("*") or not line.strip(): inblock = False if line.startswith("*") else inblock; 
                if line.strip() and not line.startswith("*"): axs.append(line.strip())
        self.extra.setdefault("coqchk_axioms", {})[mod] = axs
        unsafe = [l for l in out.splitlines() if ("type-in-type" in l or "unsafe (co)fixpoints" in l or "positivity is assumed" in l) and "<none>" not in l]
        badax = [a for a in axs if a.split(".")[-1] not in ("functional_extensionality_dep", "sig_not_dec", "sig_forall_dec", "classic") and not a.startswith(("Coq.Floats.", "Coq.Numbers.Cyclic.Int63.", "Coq.Numbers.Cyclic.Abstract"))]
        if p.returncode != 0 or unsafe or badax:
            self.broken.append("coqchk on %s: rc=%d unsafe=%s unexpected axioms=%s" % (mod, p.returncode, unsafe, badax))
        else:
            self.discharged.append("coqchk:" + mod)

    @staticmethod
    def _primitive(ax):
        return ax.startswith(("PrimFloat.", "Uint63.", "PrimInt63.", "FloatAxioms.", "Uint63Axioms."))  # kernel primitives / their specs

    def coq_eval(self, name, text, timeout=900, what=None):
        ok, so, se, secs = coqrun.run_gen(name, text, timeout)
        if not ok:
            self.broken.append("correspondence file gen/%s.v does not compile (%s): %s" % (name, what or "", (se or so)[-400:].replace("\n", " ")))
            return None
        return coqrun.eval_blocks(so)

    # ---- bookkeeping -------------------------------------------------------------------------
    def tag(self, case_key, tags):
        """record branch tags of a case; non-trivial iff it has at least one tag"""
        self.evaluations += 1
        for t in tags:
            self.tags[t] = self.tags.get(t, 0) + 1
        if tags:
            self.nontrivial.add(hashlib.sha256(repr(case_key).encode()).hexdigest()[:16])

    def count(self, key, n=1):
        self.dist[key] = self.dist.get(key, 0) + n

    def sample(self, s, limit=4):
        if len(self.samples) < limit:
            self.samples.append(canon(s))

    def diff(self, case, field, model=None, impl=None):
        self.diffs.append({"case": canon(case), "field": field, "model": canon(model), "impl": canon(impl)})

    def fail(self, signature, summary, case):
        """a property failure on the implementation, with the concrete input"""
        self.oracle_fail.append({"signature": signature, "summary": summary, "case": canon(case)})

    # ---- finish ------------------------------------------------------------------------------
    def finish(self, rule, level="proof", assumptions=None, trusted=None):
        known = load_known()
        os.makedirs(os.path.join(VERIF, "replays"), exist_ok=True)
        lines, nviol = [], 0
        seen_known = set()
        unlisted = []
        for f in self.oracle_fail:
            k = match_known(known, self.prop, f["signature"])
            if k:
                if k["signature"] not in seen_known:
                    seen_known.add(k["signature"])
                    lines.append("KNOWN-FINDING: property=%s %s [%s]" % (self.prop, k["summary"], k["signature"]))
            else:
                unlisted.append(f)
        reported = set()
        for f in unlisted:
            if f["signature"] in reported:
                continue
            reported.add(f["signature"])
            path = self._replay({"kind": "input", "signature": f["signature"], "summary": f["summary"], "case": f["case"],
                                 "broken": self.broken, "diffs": self.diffs[:3]})
            lines.append("VIOLATION property=%s replay=%s" % (self.prop, path))
            nviol += 1
        if not unlisted and (self.broken or self.diffs):
            # diffs explained by a known finding are not re-reported
            path = self._replay({"kind": "obligation", "broken": self.broken, "diffs": self.diffs[:10],
                                 "summary": "theorem/obligation/correspondence no longer checks; oracle found no failing input among %d evaluations" % self.evaluations})
            lines.append("VIOLATION property=%s replay=%s no-failing-input-found" % (self.prop, path))
            nviol += 1
        ev = {
            "property_id": self.prop, "tier": self.tier, "seed": self.seed, "level": level,
            "coverage": {
                "obligations": len(self.obligations), "discharged": len(self.discharged),
                "obligation_names": self.obligations,
                "checker_cmd": "; ".join(dict.fromkeys(self.checker_cmds)) or "none",
                "trusted_base": (trusted or []) + BASE_TRUSTED,
                "axioms": sorted(self.axioms),
                "evaluations": self.evaluations, "distinct_nontrivial": len(self.nontrivial),
                "rule": rule, "samples": self.samples or [{"note": "no samples recorded"}],
                "traces_validated_against_impl": self.traces,
                "branch_tags": self.tags, "input_distribution": self.dist,
                "correspondence_disagreements": len(self.diffs), "broken": self.broken,
                "partial": self.partial, "notes": self.notes, "known_findings_hit": sorted(seen_known),
                **self.extra,
            },
            "assumptions": assumptions or [],
            "wall_s": round(time.time() - self.t0, 2),
            "violations": nviol,
        }
        if self.replay_mode:
            return 1 if nviol else 0
        # evidence/ describes /repo only; runs against another tree (VERIF_REPO=...) are recorded apart (not committed)
        evdir = "evidence" if os.path.realpath(REPO) == "/repo" else "evidence_other"
        os.makedirs(os.path.join(VERIF, evdir), exist_ok=True)
        with open(os.path.join(VERIF, evdir, self.prop + ".json"), "w") as fh:
            json.dump(ev, fh, indent=1, default=str)
        for l in lines:
            print(l)
        print("%s %s tier=%s seed=%d: obligations %d/%d, evaluations %d (non-trivial %d), traces %d, diffs %d, broken %d, %.0fs"
              % ("FAIL" if nviol else "PASS", self.prop, self.tier, self.seed, len(self.discharged), len(self.obligations),
                 self.evaluations, len(self.nontrivial), self.traces, len(self.diffs), len(self.broken), time.time() - self.t0))
        sys.stdout.flush()
        return 1 if nviol else 0

    def _replay(self, body):
        if self.replay_mode:
            return "(replay mode)"
        body = dict(property=self.prop, seed=self.seed, tier=self.tier, **body)
        body["how_to_run"] = "cd /verif && ./check %s --replay <this file>" % self.prop
        s = json.dumps(body, indent=1, default=str, sort_keys=True)
        path = os.path.join(VERIF, "replays", "%s_%s.json" % (self.prop, coqrun.sha8(s)))
        with open(path, "w") as fh:
            fh.write(s)
        return path


def load_known():
    p = os.path.join(VERIF, "known_findings.json")
    if not os.path.exists(p):
        return []
    return json.load(open(p))["findings"]


def match_known(known, prop, signature):
    for k in known:
        if k["property"] == prop and k.get("status") == "known" and k["signature"] == signature:
            return k
    return None

"""py2coq: fail-closed translator from the numba/numpy subset used by umap's numeric kernels to Gallina.

    translate_module(path, wanted, sigs) -> (coq_text, report)

Every function named in `wanted` is parsed from the CURRENT source with `ast` and turned into a Gallina definition
`src_<name>` over an arbitrary `Num` (lib/Num.v) using only the vocabulary of lib/PyPrim.v.  Anything outside the
subset raises Unsupported: the function is then reported as not translated (a broken obligation for the caller),
never silently approximated.

Subset
  statements : assignment to a name / tuple of names / subscript, augmented assignment, `for v in range(..)`,
               `if/elif/else`, `return`, `raise` (-> None of an option), `break` (only as last statement of an `if`
               directly inside a `for` body; the loop state gets a `live` flag), `continue` (same position),
               `while` (see below), `pass`, docstrings, `assert` is rejected
  expressions: float/int/bool constants, names, + - * / // % ** unary -, not/and/or, comparisons (chains split),
               a[i], a[i, j], a[:n] (see below), t[k] for a tuple value t and a literal k, a.shape[0], a.shape, len(a),
               calls from CALLS below, calls of other translated functions of the same module, calls of "opaque"
               helpers (see below), conditional expressions;
               np.zeros / np.empty (shape[, dtype]): the dtype is the `dtype=` keyword or numpy's second positional
               argument (float dtypes -> all-zero float array, float32 storage is not rounded; int dtypes -> int
               array; any other argument is rejected); np.empty is modelled as np.zeros (reading an entry that was
               never written is outside the subset's meaning)
  2-d stores : `A[i, d] = e`, `A[i, d] += e`, `A[i, d] /= n` -> `mset N A i d (..)`; the augmented forms read `mnth N A i d`
               first; an int right operand of `/` is coerced with of_Z (true division).  The matrix may be read at other
               rows in the same statement (`A[i, d] += A[k, d]`): every read refers to the array value before the store.
               A store into an int matrix (MZ) is rejected.
  returns    : a bare `return` (or falling off the end) of a function that stores into argument arrays returns the final
               contents of those arrays (one array: the array itself; several: their tuple, in parameter order).
  mutation   : argument arrays the body stores into (`x[i] = ..`, `x[i] += ..`) are part of the result: a function that
               returns the value v returns (v, x, ..) (the final contents of the mutated arguments, in parameter order);
               a function that returns the tuple `a, b` returns the flat tuple (a, b, x, ..)
  types      : F float scalar, I int, B bool, V float vector, M float matrix, VZ int vector, MZ int matrix, U (the value
               `None`, Coq `tt : unit`; it can only be bound to a name and returned), tuples (for returns).
               Argument types come from `sigs`; everything else is inferred; int -> float coercions are explicit
               (`of_Z`), bool -> number is `b2n`.

  while      : `while c: body` -> `while_fuel (Z.to_nat FUEL) c body state` (PyPrim.v) where FUEL is the int expression
               `sigs[fn]['fuel']` over the function's arguments (e.g. "ind1.shape[0] + ind2.shape[0]"), evaluated where
               the loop starts.  No else/return/raise/break/continue inside.  A function that contains a `while`, or calls
               a translated function that does ("fuel-bounded"), returns the PAIR (value, ok): ok is the conjunction of
               the `ok` flags of all its loops and fuel-bounded calls on the executed path (true = every loop ended
               because its condition became false).  Budget exhaustion therefore never looks like a normal result: link
               theorems state `src_f ... = (model value, true)`.  A `while` / fuel-bounded call is accepted only where
               its flag stays in scope until the `return`: not inside a loop body, a joining `if`, a conditional
               expression or an and/or operand.  A call `f(..)` of a fuel-bounded function inside an expression is
               hoisted: `let '(r_, okc_) := src_f .. in` precedes the statement (pure total functions: order irrelevant).
               Fuel-bounded functions may not `raise`.
  slices     : only `a[:n]` on a 1-d array -> `zslice_to a n`.  A slice is a value (copy), numpy's is a view: a store into
               a name that is (flow-sensitively) bound to a slice is rejected; slices inside loops / joining ifs are rejected.
  sets       : `set(a)` with `a` an int array (VZ) is a value of type SZ that can only be bound to a name and used as the right
               operand of `k in s` / `k not in s` with an int k: `zmem k a` / `negb (zmem k a)` (PyPrim.v: `existsb (Z.eqb k) a`).
               For membership a set of an int array IS its list of elements; nothing else (len, iteration, ==, return,
               passing it to a call) is accepted on a set.
  imports    : translate_module(.., imports={name: (python module, file)}): a function the module binds by a top-level
               `from <python module> import name` (checked on the CURRENT text; no `as`, no other top-level binding of the name) is
               read from `file` and translated into the same generated file as `src_<name>`; calls of it are then calls of a
               translated function of the same module (e.g. umap.utils.norm used by umap/sparse.py).
  opaque     : `sigs[fn]['opaque'] = {helper: ([arg types], result type)}`: a call of `helper` is NOT translated; the
               generated definition gets one extra function parameter per helper it (or a callee) uses, after `N` [`E`],
               in the order of that dict: `src_sparse_sum N (arr_union : list Z -> list Z -> list Z) ind1 ...`.  Meaning:
               helper is a pure function returning a FRESH array (no aliasing with its arguments: python's
               `arr_union` returning `ar2` itself is not modelled; only the returned value is).
               A function-valued ARGUMENT of the translated function may be declared opaque the same way (`metric` of
               fast_metric_intersection): it is then not an ordinary parameter of `src_<f>` but its opaque function parameter
               (same position as other helpers: after `N` [`E`] [`pinf`]); only calls `metric(..)` of it are accepted, any
               other use of the name (passing it on, comparing it, rebinding it) is rejected, and a translated function that
               takes a function argument cannot be called from another translated function.  Meaning: the argument is a
               pure function of the listed argument types (it neither stores into its array arguments nor keeps state).
  fixed ()   : `sigs[fn]['fixed'] = {'metric_args': ()}`: the function is translated for calls that pass the EMPTY TUPLE for
               this argument.  The argument disappears; its only accepted use is `*metric_args` in the argument list of a call,
               which expands to no arguments; every other read of the name is rejected.
Extensions for the kNN kernels of umap_.py (C01)
  2-d arrays : `a[i, j]` on M (`mnth`) and MZ (`imnth`), `a[i]` = row (`mrow` / `imrow`), `a.shape[1]` = length of row 0,
               `a.size` = shape[0] * shape[1] (`msize`; a 2-d array is a rectangular list of rows), `a.ravel()` on M =
               concatenation of the rows (`mravel`); stores at computed flat indices `rows[i * n + j] = v` are ordinary
               1-d stores (`iset` / `vset`)
  masks      : `a[a < c]`, `a[a > c]`, ... with `a` a NAME of type V on both sides and `c` a scalar: `vfilter N (fun a_ => ..) a`
               (numba/numpy boolean-mask indexing: the selected entries in order); nothing else may be indexed by a mask
  calls      : np.floor (`nfloor`, derived from the truncation `ntrunc`), np.log2 (`nlog2` = ln x / ln 2), np.max of a
               V (`vmax_py`: left fold of `nmax` from the first element; 0 on an empty array, where numpy raises),
               np.fabs = np.abs
  bool       : `x == False` / `x == True` on bools is `Bool.eqb`; `&`, `|`, `^` on bools are `andb`, `orb`, `xorb` (strict: both
               operands are pure expressions here, so strictness is unobservable)
  None       : `name = None` binds `tt`; a function whose result tuple contains such a name returns `unit` in that place
  fixed args : `sigs[fn]['fixed'] = {'return_dists': False, ...}`: the function is translated FOR THESE VALUES of the listed
               boolean arguments: the argument disappears from the generated definition, every read of it becomes the
               constant, and `if <constant>:` statements keep only the live branch (the dead branch is not translated
               and may be outside the subset).  A fixed argument that is assigned anywhere is rejected.  The link theorem
               is then a statement about calls with these argument values only.
Extensions for reprocess_row / reset_local_metrics (umap_.py, C18)
  powers     : `pow(x, y)` / `np.power(x, y)` / `x ** y` with float scalars is `npow N x y` (as before); with x a 1-d float array
               and y a scalar it is the elementwise `vmaps_r N (npow N) x y` (a fresh array).
  defaults   : a trailing parameter with an int / float literal default stays an ordinary parameter of `src_<f>`; its default
               is the generated definition `src_default_<f>_<arg>` (Z, or `(N : Num) : N` for a float literal).  A call
               `f(a)` of a translated function with trailing arguments omitted passes these definitions (link theorems
               about the caller mention `src_default_<f>_<arg>`, so they survive a change of the default's value).
  slices     : `a[lo:hi]` (both bounds, no step; 1-d array) as a VALUE is `zslice a lo hi` (Python semantics: a negative
               bound counts from the end, then both are clamped to [0, len]); it is accepted ONLY inside the right-hand side
               of a slice store (below), where view and copy cannot be told apart.
               `x[lo:hi] = E` (x a 1-d float array variable, E a 1-d float array expression) is
               `let x := zset_slice x lo hi E`: the segment [lo, hi) of x replaced by E, E evaluated completely BEFORE the
               store (numpy copies overlapping operands), allowed inside loops.  Meaning only when len(E) = the length of
               the segment (otherwise numpy raises or broadcasts; `zset_slice` then leaves x unchanged: outside the
               subset's meaning, link theorems carry the hypotheses that make the lengths equal).
Extensions for submatrix (utils.py, C20)
  prange     : `numba.prange(..)` is read as `range(..)`: the sequential meaning.  This is the meaning of the parallel loop
               only when the iterations are independent (each iteration writes cells no other iteration reads or writes,
               as in `submat[i, j] = dmat[i, indices_col[i, j]]`); numba's reduction rewriting of scalars accumulated in
               a prange body changes the summation order and is NOT modelled -- link files that rely on a prange loop
               must say in their header why the iterations are independent.
  shape      : `a.shape` of a 2-d array (M / MZ) as a value is the pair (zlen a, length of row 0); it can only be the
               right-hand side of a tuple assignment `r, c = a.shape` (a tuple value cannot be bound to one name) or be
               indexed by a literal.
  dtype      : `dtype=x.dtype` with x an array variable: float for V / M, int for VZ / MZ.
  defaults+  : (general_sset_intersection, sparse.py, C18) with `sigs[fn]['defaults'] = True` every default value of the function
               (float / int / bool literal; any other default expression is rejected) is ALSO emitted, after `src_f`, as the
               generated definition `src_<f>_default_<arg>` (`(N : Num) : N` for a float literal, `: Z` for an int literal,
               `: bool` for True / False), so that link theorems can be stated about the value the current source has
               (`f(a, b)` in Python is `src_f a b src_f_default_c ..`).  Independent of the automatic `src_default_<f>_<arg>`
               definitions above (int / float literals of trailing parameters only, used for calls that omit arguments).
  infinity   : `Num` has no infinity.  A module constant bound to `np.inf` (see module_consts) is translated as the extra
               argument `pinf : N` of every generated function that (transitively) reads it, placed right after `N`
               (and `E`; before opaque helpers).  The generated definition therefore describes the source on inputs where every float that
               is compared with the constant is a real number below `pinf`, for any sufficiently large real `pinf`
               (the link theorems say how large); the behaviour on tables containing +inf is NOT covered by it.
Extensions for the SGD epoch kernel of layouts.py (C07; semantics: header of lib/PyPrim.v, exemplar coq/link/L_sgd.v)
  row views  : `v = A[i]` with A a 2-d (M / MZ) ARGUMENT the function stores into (directly, through a view, or through a
               mutating callee): v is a view of row i.  Generated: `let v := <i> in` (the row index, type RowView(A) ~ Z; it is
               part of a loop's state when rebound inside the loop); `v[d]` -> `mnth N A v d` (`imnth` for MZ), `v[d] op= e`
               -> `let A := mset N A v d .. in` (the ARRAY is the assigned variable: loop states / if joins carry A), `v` as a
               value -> `mrow N A v` (current contents).  A view name may only be bound by `v = A[..]` of the same A; stores
               through views of int matrices are rejected.  Rows of arrays that are never stored into stay values (`mrow`).
  mutating   : a call of a translated function that stores into its argument and returns a value, with the argument `A[i]`,
  callees      a row view or an argument array name: hoisted in front of the statement as
               `let '(r_, m_) := src_f N (imrow A i) in let A := (zset A i m_) in`; only in `name = <expr>` (one call, no
               conditional expression, A not mentioned elsewhere in the statement).
  alias      : `sigs[fn]['alias'] = {'tail_embedding': 'head_embedding'}`: translate FOR CALLS IN WHICH THESE TWO ARGUMENTS ARE
               THE SAME ARRAY: the first name is replaced by the second everywhere and its parameter disappears.  Without the
               option the generated definition describes calls whose mutated array arguments do not overlap.
  variants   : `sigs[name]['source'] = f`: `name` (an entry of the module's function list) is another translation of the
               source function f (other `alias` / `fixed` options); the generated definition is `src_<name>`.
  imports    : translate_module(.., imports={name: (python module, file)}): a function the module binds by
               `from <python module> import <name>` (checked on the current source) is translated from that file.
  other      : `numba.prange` = `range` (sequential semantics only); a variable that is an int on one path of an `if` and a
               float on the other is coerced to float (`of_Z`) at the join.
Extensions for the densMAP kernels of layouts.py (C17; exemplar coq/link/L_dens.v)
  fill       : the statement `x.fill(c)` with x a 1-d float ARGUMENT array (type V) and c an int / float scalar expression that does not
               read x: every entry of x is replaced by c (an int c is converted with `of_Z`; float32 storage is not rounded), the
               length is unchanged: `let x := vmap1 N (fun _ => c) x in`.  x counts as mutated (it is part of the function's result, as
               for `x[i] = ..`).  Accepted only as a top-level statement of the function body (not inside a loop / if); `.fill` on
               anything else (2-d arrays, int arrays, local arrays, views) is rejected.
  prange     : the statistics loop of `_optimize_layout_euclidean_densmap_epoch_init` is a `numba.prange` whose iterations are NOT
               independent (`re_sum[j] += ..` from different edges hit the same vertex): the generated definition is the SEQUENTIAL
               loop (parallel=False, which umap uses whenever random_state is given); the parallel=True compilation races on these
               cells and is not described.
Extensions for the generic-output-metric epoch kernel of layouts.py (C07; exemplar coq/link/L_sgdg.v)
  fnargs     : `sigs[fn]['fnargs'] = {'output_metric': ([V, V], (F, V))}`: the ARGUMENT `output_metric` of the source function is a
               function (numba first-class function).  It is treated exactly like an opaque helper (above): the parameter moves
               from the ordinary arguments to the function parameters after `N` (`src_f N (output_metric : list N -> list N ->
               (N * list N)) ...`), a call `output_metric(x, y)` is its application.  Meaning: a PURE function that does not store
               into its arguments; a tuple result type is a Coq pair (bound by `d, g = output_metric(..)`), every array component
               FRESH.  The name may only be called (any other read, an assignment to it, or a default value is rejected).
  empty_star : `sigs[fn]['empty_star'] = ['output_metric_kwds']`: translate FOR CALLS IN WHICH THESE TUPLE ARGUMENTS ARE EMPTY:
               the parameter disappears, a starred call argument `*output_metric_kwds` contributes no argument, every other
               occurrence of the name is rejected.  The link theorems then speak about such calls only (non-empty
               `output_metric_kwds` -- e.g. the `sigma` of weighted / Mahalanobis output metrics -- stay outside the tie).
               Any other starred argument is rejected as before.
Extensions for ll_dirichlet / sparse_russellrao / sparse_ll_dirichlet (distances.py C12, sparse.py C13)
  int/float  : a function (without an explicit numba signature) whose `return` statements return a scalar int on one path and a
  returns      scalar float on another (`if x == 1: return 0` / `return x * np.log(x) ...`) returns a float: numba unifies the
               return type to float64, so every int return value is converted (`of_Z`; same value).  Any other mismatch of
               return types is rejected.
  np.all     : `np.all(a == b)` with a, b NAMES of 1-d int arrays (VZ) is `zall_eq a b` (PyPrim.v: all entries at equal positions
               are equal).  This is numpy's / numba's meaning when the two arrays have the same length (otherwise they raise or
               broadcast): the source guards it by `a.shape[0] == b.shape[0] and ...`, the link theorem uses `zall_eq_len_iff`.
               Any other argument of np.all (float arrays, other comparisons, expressions) is rejected.
  for v in a : `for v in a:` with `a` the NAME of a 1-d float array (V) that the function never stores into is
               `for_each a (fun v state => body) state` (PyPrim.v: left fold over the elements in order, v a float scalar); no
               break / continue / return inside; the body may assign neither `a` nor `v`.  Loops over anything else
               (int arrays, 2-d arrays, expressions, zip / enumerate) are rejected.
"""
import ast, decimal, hashlib


class Unsupported(Exception):
    pass


class _RetFloat(Exception):
    """internal: the function returns an int on one path and a float on another (see `int/float returns` in the header)"""


F, I, B, V, M, VZ, MZ, U = "F", "I", "B", "V", "M", "VZ", "MZ", "U"
SZ = "SZ"               # set(<int array>): a value that can only be bound to a name and tested with `in` / `not in`
COQTY = {F: "N", I: "Z", B: "bool", V: "list N", M: "list (list N)", VZ: "list Z", MZ: "list (list Z)", U: "unit", SZ: "list Z"}
ARRAYS = (V, M, VZ, MZ)
PINF = ("pinf", F)      # consts value of a module constant bound to +infinity: becomes the extra argument `pinf`


class RowView:
    """type of a NAME bound to `A[i]` where A is a 2-d argument array the function mutates: the name denotes row i of A
    (numpy basic indexing: a view), represented in Gallina by the row index (a Z variable of the same name)"""
    def __init__(self, arr, rowt):
        self.arr, self.rowt = arr, rowt

    def __eq__(self, o):
        return isinstance(o, RowView) and (self.arr, self.rowt) == (o.arr, o.rowt)

    def __ne__(self, o):
        return not self.__eq__(o)

    def __hash__(self):
        return hash(("RowView", self.arr, self.rowt))

    def __repr__(self):
        return "RowView(%s)" % self.arr


def coq_type(t):
    if isinstance(t, RowView):
        return "Z"
    if isinstance(t, tuple):
        if t and t[0] == "opt":
            return "option (%s)" % coq_type(t[1])
        return "(" + " * ".join(coq_type(x) for x in t) + ")%type"
    return COQTY[t]


def flit(v):
    """float literal -> nlit N m e  (exact decimal of repr)"""
    if v != v or v in (float("inf"), float("-inf")):
        raise Unsupported("non-finite literal")
    d = decimal.Decimal(repr(float(v)))
    sign, digits, exp = d.as_tuple()
    m = int("".join(map(str, digits))) * (-1 if sign else 1)
    while m % 10 == 0 and m != 0:
        m //= 10
        exp += 1
    if m == 0:
        return "(zero N)"
    if m == 1 and exp == 0:
        return "(one N)"
    if abs(m) >= 2 ** 53 or abs(exp) > 22:
        raise Unsupported("literal %r not exactly representable as a quotient of small integers" % v)
    return "(nlit N (%d) (%d))" % (m, exp)


def zlit(n):
    return "(%d)%%Z" % n


# call name -> (arg types, result type, coq template)
CALLS = {
    "np.sqrt": ([F], F, "(nsqrt N {0})"),
    "np.exp": ([F], F, "(nexp N {0})"),
    "np.log": ([F], F, "(nln N {0})"),
    "np.sign": ([F], F, "(nsign N {0})"),
    "np.floor": ([F], F, "(nfloor N {0})"),
    "np.log2": ([F], F, "(nlog2 N {0})"),
    "np.sin": ([F], F, "(psin N E {0})"),
    "np.cos": ([F], F, "(pcos N E {0})"),
    "np.arcsin": ([F], F, "(pasin N E {0})"),
    "np.arccosh": ([F], F, "(pacosh N E {0})"),
    "float": ([F], F, "{0}"),
    "np.float32": ([F], F, "{0}"),
    "np.float64": ([F], F, "{0}"),
    "int": ([F], I, "(ntrunc N {0})"),
    "np.power": ([F, F], F, None),  # handled specially (int literal exponent)
    "pow": ([F, F], F, None),
}
ELEMWISE1 = {"np.sqrt": "nsqrt N", "np.abs": "nabs N", "np.sign": "nsign N", "np.exp": "nexp N", "np.log": "nln N"}
BINOPS = {ast.Add: "add", ast.Sub: "sub", ast.Mult: "mul", ast.Div: "div"}
ZBINOPS = {ast.Add: "Z.add", ast.Sub: "Z.sub", ast.Mult: "Z.mul", ast.FloorDiv: "Z.div", ast.Mod: "Z.modulo",
           ast.BitAnd: "Z.land", ast.BitOr: "Z.lor", ast.BitXor: "Z.lxor", ast.LShift: "Z.shiftl", ast.RShift: "Z.shiftr"}


def dotted(node):
    if isinstance(node, ast.Name):
        return node.id
    if isinstance(node, ast.Attribute):
        b = dotted(node.value)
        return None if b is None else b + "." + node.attr
    return None


def assigned_names(stmts, viewmap=None, mutcalls=None):
    """names (re)bound anywhere in the statement list (including subscript stores: the array is rebound).
    `viewmap` (row-view name -> array): a store through a view rebinds the ARRAY; `mutcalls`: function mapping an expression
    to the arrays that calls of mutating functions inside it write back to"""
    out = []
    viewmap = viewmap or {}

    def tgt(t):
        if isinstance(t, ast.Name):
            out.append(t.id)
        elif isinstance(t, (ast.Tuple, ast.List)):
            for e in t.elts:
                tgt(e)
        elif isinstance(t, ast.Subscript):
            n = t.value
            if isinstance(n, ast.Name):
                out.append(viewmap.get(n.id, n.id))
            else:
                raise Unsupported("store into non-name subscript")
        else:
            raise Unsupported("assignment target " + type(t).__name__)

    for s in stmts:
        if isinstance(s, ast.Assign):
            for t in s.targets:
                tgt(t)
            if mutcalls:
                out += mutcalls(s.value)
        elif isinstance(s, ast.AugAssign):
            tgt(s.target)
            if mutcalls:
                out += mutcalls(s.value)
        elif isinstance(s, ast.For):
            tgt(s.target)
            out += assigned_names(s.body, viewmap, mutcalls)
            if s.orelse:
                raise Unsupported("for-else")
        elif isinstance(s, ast.While):
            out += assigned_names(s.body, viewmap, mutcalls)
        elif isinstance(s, ast.If):
            out += assigned_names(s.body, viewmap, mutcalls) + assigned_names(s.orelse, viewmap, mutcalls)
    seen, res = set(), []
    for n in out:
        if n not in seen:
            seen.add(n)
            res.append(n)
    return res


def used_names(nodes):
    out = set()
    for n in nodes:
        for x in ast.walk(n):
            if isinstance(x, ast.Name):
                out.add(x.id)
    return out


def contains(stmts, kinds):
    for s in stmts:
        for x in ast.walk(s):
            if isinstance(x, kinds):
                return True
    return False


class FnTranslator:
    def __init__(self, fn, sig, module_fns, consts):
        self.fn, self.sig, self.module_fns, self.consts = fn, sig, module_fns, consts
        self.uses_ext = False
        self.has_raise = contains(fn.body, ast.Raise)
        self.fresh = 0
        self.calls = set()
        self.uses_pinf = False
        self.opaque = dict(sig.get("opaque") or {})     # helper name -> ([arg types], result type)
        self.opaque_used = set()
        self.pre = []          # hoisted fuel-bounded / mutating calls of the statement being translated: [(let-text, ok flag or None)]
        self.viewmap = {}      # row-view name -> the mutated 2-d argument array it is a row of (filled by translate)
        self.mut_ok = False    # True while translating the value of `name = <expr>` (the only place a mutating call may occur)
        self.nest = 0          # > 0 inside a loop body / a branch of a joining if
        self.cond_depth = 0    # > 0 inside a conditional expression / and-or operand
        self.has_fuel = any(isinstance(x, ast.While) for x in ast.walk(fn)) or any(
            isinstance(x, ast.Call) and dotted(x.func) in module_fns and dotted(x.func) not in self.opaque
            and module_fns[dotted(x.func)].get("fuel") for x in ast.walk(fn))
        if self.has_fuel and self.has_raise:
            raise Unsupported("raise in a fuel-bounded function")

    # ---------------------------------------------------------------- expressions
    def coerce(self, e, t, want):
        if t == want:
            return e
        if t == I and want == F:
            if e == "(0)%Z":
                return "(zero N)"
            if e == "(1)%Z":
                return "(one N)"
            return "(of_Z N %s)" % e
        if t == B and want == F:
            return "(b2n N %s)" % e
        if t == B and want == I:
            return "(Z.b2z %s)" % e
        raise Unsupported("cannot coerce %s to %s in %s" % (t, want, e))

    def take_pre(self, env):
        """hoisted fuel-bounded calls of the expression(s) just translated -> (let-text, env with their ok flags)"""
        pre, self.pre = self.pre, []
        if not pre:
            return "", env
        env2 = dict(env)
        env2["%ok"] = env.get("%ok", ()) + tuple(o for _, o in pre if o is not None)
        return "".join(t for t, _ in pre), env2

    # ---------------------------------------------------------------- row views / mutating callees
    def an(self, stmts):
        return assigned_names(stmts, self.viewmap, self.mutcall_arrays)

    def mutating_calls(self, node):
        """[(call node, [(argument node, callee parameter)])] for the calls of translated functions that mutate an argument"""
        out = []
        for x in ast.walk(node):
            if isinstance(x, ast.Call):
                nm = dotted(x.func)
                info = self.module_fns.get(nm) if nm and nm not in self.opaque else None
                if info and info.get("mutates"):
                    pos = [i for i, (an_, _) in enumerate(info["args"]) if an_ in info["mutates"]]
                    out.append((x, [(x.args[i], info["args"][i][0]) for i in pos if i < len(x.args)]))
        return out

    def mutarg_array(self, a, cand=None):
        """the argument array written back to when `a` is passed to a mutating callee: `A[i]` -> A, a row-view name -> its
        array, an array name -> itself"""
        vm = self.viewmap if cand is None else cand
        if isinstance(a, ast.Subscript) and isinstance(a.value, ast.Name) and not isinstance(a.slice, (ast.Slice, ast.Tuple, ast.Compare)):
            return [a.value.id]
        if isinstance(a, ast.Name):
            v = vm.get(a.id)
            if v is None:
                return [a.id]
            return sorted(v) if isinstance(v, (set, frozenset)) else [v]
        raise Unsupported("argument of a mutating callee must be a row `A[i]`, a row view or an array name")

    def mutcall_arrays(self, node, cand=None):
        out = []
        for _, margs in self.mutating_calls(node):
            for a, _ in margs:
                out += self.mutarg_array(a, cand)
        return out

    def no_pre(self):
        if self.pre:
            self.pre = []
            raise Unsupported("call of a fuel-bounded function in a position where it cannot be hoisted")

    def add_ok(self, env, ok):
        env2 = dict(env)
        env2["%ok"] = env.get("%ok", ()) + (ok,)
        return env2

    def ok_conj(self, env):
        flags = (env or {}).get("%ok", ())
        if not flags:
            return "true"
        acc = flags[-1]
        for f in reversed(flags[:-1]):
            acc = "(andb %s %s)" % (f, acc)
        return acc

    def expr(self, n, env):
        if isinstance(n, ast.Constant):
            v = n.value
            if isinstance(v, bool):
                return ("true" if v else "false"), B
            if isinstance(v, int):
                return zlit(v), I
            if isinstance(v, float):
                return flit(v), F
            if v is None:
                return "tt", U
            raise Unsupported("constant %r" % (v,))
        if isinstance(n, ast.Name):
            if n.id in env:
                if isinstance(env[n.id], RowView):
                    # a row view read as a value: the CURRENT contents of that row
                    rv = env[n.id]
                    return "(%s %s %s)" % ("mrow N" if rv.rowt == V else "imrow", self.var(rv.arr), self.var(n.id)), rv.rowt
                return self.var(n.id), env[n.id]
            if n.id in self.consts:
                return self.const(n.id)
            raise Unsupported("unknown name " + n.id)
        if isinstance(n, ast.Attribute):
            d = dotted(n)
            if d == "np.pi":
                self.uses_ext = True
                return "(ppi N E)", F
            if d in ("np.inf", "np.infty"):
                raise Unsupported("np.inf")
            if d in self.consts:
                return self.const(d)
            if n.attr == "shape":
                # `a.shape` of a 2-d array as a VALUE: the pair (number of rows, length of row 0)
                arr, t = self.expr(n.value, env)
                if t == M:
                    return "(zlen %s, zlen (mrow N %s 0))" % (arr, arr), (I, I)
                if t == MZ:
                    return "(zlen %s, zlen (imrow %s 0))" % (arr, arr), (I, I)
                raise Unsupported("shape of a non-2-d array as a value")
            if n.attr == "size":
                arr, t = self.expr(n.value, env)
                if t in (M, MZ):
                    return "(msize %s)" % arr, I
                if t in (V, VZ):
                    return "(zlen %s)" % arr, I
            raise Unsupported("attribute " + str(d))
        if isinstance(n, ast.UnaryOp):
            e, t = self.expr(n.operand, env)
            if isinstance(n.op, ast.USub):
                if t == F:
                    return "(neg N %s)" % e, F
                if t == I:
                    return "(Z.opp %s)" % e, I
                if t == V:
                    return "(vmap1 N (neg N) %s)" % e, V
            if isinstance(n.op, ast.Not) and t == B:
                return "(negb %s)" % e, B
            if isinstance(n.op, ast.UAdd):
                return e, t
            raise Unsupported("unary op")
        if isinstance(n, ast.BinOp):
            return self.binop(n, env)
        if isinstance(n, ast.BoolOp):
            self.cond_depth += 1
            try:
                parts = [self.expr(v, env) for v in n.values]
            finally:
                self.cond_depth -= 1
            if any(t != B for _, t in parts):
                raise Unsupported("and/or on non-bool")
            op = "andb" if isinstance(n.op, ast.And) else "orb"
            acc = parts[0][0]
            for e, _ in parts[1:]:
                acc = "(%s %s %s)" % (op, acc, e)
            return acc, B
        if isinstance(n, ast.Compare):
            if len(n.ops) != 1:
                # a < b < c  ->  (a < b) and (b < c)   (pure operands)
                parts, left = [], n.left
                for op, right in zip(n.ops, n.comparators):
                    parts.append(self.compare(left, op, right, env))
                    left = right
                acc = parts[0]
                for p in parts[1:]:
                    acc = "(andb %s %s)" % (acc, p)
                return acc, B
            return self.compare(n.left, n.ops[0], n.comparators[0], env), B
        if isinstance(n, ast.IfExp):
            self.cond_depth += 1
            try:
                c, ct = self.expr(n.test, env)
                a, ta = self.expr(n.body, env)
                b, tb = self.expr(n.orelse, env)
            finally:
                self.cond_depth -= 1
            if ct != B:
                raise Unsupported("non-bool condition")
            t = self.join(ta, tb)
            return "(if %s then %s else %s)" % (c, self.coerce(a, ta, t), self.coerce(b, tb, t)), t
        if isinstance(n, ast.Subscript):
            return self.subscript(n, env)
        if isinstance(n, ast.Call):
            return self.call(n, env)
        if isinstance(n, ast.Tuple):
            parts = [self.expr(e, env) for e in n.elts]
            return "(" + ", ".join(p[0] for p in parts) + ")", tuple(p[1] for p in parts)
        raise Unsupported("expression " + type(n).__name__)

    def const(self, name):
        c = self.consts[name]
        if c == PINF:
            self.uses_pinf = True
        return c

    def join(self, a, b):
        if a == b:
            return a
        if {a, b} <= {F, I, B}:
            return F if F in (a, b) else I
        raise Unsupported("cannot join types %s %s" % (a, b))

    def compare(self, l, op, r, env):
        a, ta = self.expr(l, env)
        b, tb = self.expr(r, env)
        if ta == B and tb == B and isinstance(op, (ast.Eq, ast.NotEq)):
            return "(Bool.eqb %s %s)" % (a, b) if isinstance(op, ast.Eq) else "(xorb %s %s)" % (a, b)
        if isinstance(op, (ast.In, ast.NotIn)):
            # membership of an int in set(<int array>)
            if ta != I or tb != SZ:
                raise Unsupported("`in` other than <int> in set(<int array>)")
            return "(zmem %s %s)" % (a, b) if isinstance(op, ast.In) else "(negb (zmem %s %s))" % (a, b)
        if SZ in (ta, tb):
            raise Unsupported("comparison of a set")
        if ta in ARRAYS or tb in ARRAYS:
            raise Unsupported("array comparison")
        t = self.join(ta, tb)
        a, b = self.coerce(a, ta, t), self.coerce(b, tb, t)
        if t == F:
            tpl = {ast.Lt: "(ltb N {0} {1})", ast.LtE: "(leb N {0} {1})", ast.Gt: "(ngt N {0} {1})", ast.GtE: "(nge N {0} {1})",
                   ast.Eq: "(eqb N {0} {1})", ast.NotEq: "(nne N {0} {1})"}
        elif t == I:
            tpl = {ast.Lt: "(Z.ltb {0} {1})", ast.LtE: "(Z.leb {0} {1})", ast.Gt: "(Z.ltb {1} {0})", ast.GtE: "(Z.leb {1} {0})",
                   ast.Eq: "(Z.eqb {0} {1})", ast.NotEq: "(negb (Z.eqb {0} {1}))"}
        else:
            raise Unsupported("comparison of " + t)
        if type(op) not in tpl:
            raise Unsupported("comparison operator " + type(op).__name__)
        return tpl[type(op)].format(a, b)

    def binop(self, n, env):
        a, ta = self.expr(n.left, env)
        # power
        if isinstance(n.op, ast.Pow):
            return self.power(a, ta, n.right, env)
        b, tb = self.expr(n.right, env)
        if ta in (V,) or tb in (V,):
            if type(n.op) not in BINOPS:
                raise Unsupported("array operator")
            f = "(%s N)" % BINOPS[type(n.op)]
            if ta == V and tb == V:
                return "(vmap2 N %s %s %s)" % (f, a, b), V
            if ta == V:
                return "(vmaps_r N %s %s %s)" % (f, a, self.coerce(b, tb, F)), V
            return "(vmaps_l N %s %s %s)" % (f, self.coerce(a, ta, F), b), V
        if ta in (M, VZ, MZ) or tb in (M, VZ, MZ):
            raise Unsupported("matrix / int-array arithmetic")
        if isinstance(n.op, ast.Div):
            return "(div N %s %s)" % (self.coerce(a, ta, F), self.coerce(b, tb, F)), F
        if ta == B and tb == B and isinstance(n.op, (ast.BitAnd, ast.BitOr, ast.BitXor)):
            return "(%s %s %s)" % ({ast.BitAnd: "andb", ast.BitOr: "orb", ast.BitXor: "xorb"}[type(n.op)], a, b), B
        t = self.join(ta, tb)
        if t == B:
            t = I
        a, b = self.coerce(a, ta, t), self.coerce(b, tb, t)
        if t == F:
            if type(n.op) not in BINOPS:
                raise Unsupported("float operator " + type(n.op).__name__)
            return "(%s N %s %s)" % (BINOPS[type(n.op)], a, b), F
        if type(n.op) not in ZBINOPS:
            raise Unsupported("int operator " + type(n.op).__name__)
        return "(%s %s %s)" % (ZBINOPS[type(n.op)], a, b), I

    def power(self, a, ta, rnode, env):
        if isinstance(rnode, ast.Constant) and isinstance(rnode.value, int) and not isinstance(rnode.value, bool) and 0 <= rnode.value <= 8:
            k = rnode.value
            if ta == V:
                return "(vmap1 N (fun a_ => ipow N a_ %d) %s)" % (k, a), V
            if ta == I:
                return "(Z.pow %s %d)" % (a, k), I
            return "(ipow N %s %d)" % (self.coerce(a, ta, F), k), F
        b, tb = self.expr(rnode, env)
        if ta == V:
            if tb not in (F, I, B):
                raise Unsupported("array ** array")
            return "(vmaps_r N (npow N) %s %s)" % (a, self.coerce(b, tb, F)), V
        return "(npow N %s %s)" % (self.coerce(a, ta, F), self.coerce(b, tb, F)), F

    def index(self, n, env):
        e, t = self.expr(n, env)
        if t != I:
            raise Unsupported("non-int index")
        return e

    def subscript(self, n, env):
        # a.shape[0]
        if isinstance(n.value, ast.Attribute) and n.value.attr == "shape":
            arr, t = self.expr(n.value.value, env)
            if isinstance(n.slice, ast.Constant) and n.slice.value == 0 and t in ARRAYS:
                return "(zlen %s)" % arr, I
            if isinstance(n.slice, ast.Constant) and n.slice.value == 1 and t == M:
                return "(zlen (mrow N %s 0))" % arr, I
            if isinstance(n.slice, ast.Constant) and n.slice.value == 1 and t == MZ:
                return "(zlen (imrow %s 0))" % arr, I
            raise Unsupported("shape index")
        if isinstance(n.value, ast.Name) and isinstance(env.get(n.value.id), RowView) and not isinstance(n.slice, (ast.Slice, ast.Tuple, ast.Compare)):
            rv = env[n.value.id]
            if rv.rowt == V:
                return "(mnth N %s %s %s)" % (self.var(rv.arr), self.var(n.value.id), self.index(n.slice, env)), F
            return "(imnth %s %s %s)" % (self.var(rv.arr), self.var(n.value.id), self.index(n.slice, env)), I
        arr, t = self.expr(n.value, env)
        sl = n.slice
        if isinstance(t, tuple) and not (t and t[0] == "opt"):
            # t[k] of a tuple value, literal k: nested pairs ((a, b), c)
            if not (isinstance(sl, ast.Constant) and isinstance(sl.value, int) and not isinstance(sl.value, bool) and 0 <= sl.value < len(t)) or len(t) < 2:
                raise Unsupported("tuple subscript")
            k, m = sl.value, len(t)
            e = arr
            for _ in range(m - 1 - max(k, 1)):
                e = "(fst %s)" % e
            e = "(fst %s)" % e if k == 0 else "(snd %s)" % e
            return e, t[k]
        if isinstance(sl, ast.Slice) and sl.lower is not None and sl.upper is not None and sl.step is None and t in (V, VZ) \
                and getattr(self, "in_slice_store", False):
            # a[lo:hi] inside the right-hand side of a slice store `x[a:b] = E`: E is evaluated completely before the store and
            # no name is bound to the slice, so the view is indistinguishable from a copy (also inside loops)
            return "(zslice %s %s %s)" % (arr, self.index(sl.lower, env), self.index(sl.upper, env)), t
        if isinstance(sl, ast.Slice):
            if sl.lower is not None or sl.step is not None or sl.upper is None or t not in (V, VZ):
                raise Unsupported("slice other than a[:n] of a 1-d array (a[lo:hi] only inside the right-hand side of a slice store)")
            if self.nest:
                raise Unsupported("slice inside a loop / joining if")
            return "(zslice_to %s %s)" % (arr, self.index(sl.upper, env)), t
        if isinstance(sl, ast.Compare):
            return self.mask(n, arr, t, env)
        if isinstance(sl, ast.Tuple):
            if t not in (M, MZ) or len(sl.elts) != 2:
                raise Unsupported("tuple index")
            if t == MZ:
                return "(imnth %s %s %s)" % (arr, self.index(sl.elts[0], env), self.index(sl.elts[1], env)), I
            return "(mnth N %s %s %s)" % (arr, self.index(sl.elts[0], env), self.index(sl.elts[1], env)), F
        i = self.index(sl, env)
        if t == V:
            return "(vnth N %s %s)" % (arr, i), F
        if t == VZ:
            return "(inth %s %s)" % (arr, i), I
        if t == M:
            return "(mrow N %s %s)" % (arr, i), V
        if t == MZ:
            return "(imrow %s %s)" % (arr, i), VZ
        raise Unsupported("subscript of " + str(t))

    def mask(self, n, arr, t, env):
        """boolean-mask indexing a[a OP c] / a[c OP a]: `a` the same NAME (type V) inside and outside, c a scalar"""
        sl = n.slice
        if t != V or not isinstance(n.value, ast.Name) or len(sl.ops) != 1:
            raise Unsupported("mask index")
        l, r = sl.left, sl.comparators[0]

        def same(x):
            return isinstance(x, ast.Name) and x.id == n.value.id
        if same(l) == same(r):
            raise Unsupported("mask index: exactly one side of the comparison must be the indexed array")
        other = r if same(l) else l
        if n.value.id in used_names([other]):
            raise Unsupported("mask index: the scalar side reads the array")
        c, tc = self.expr(other, env)
        if tc not in (F, I, B):
            raise Unsupported("mask index: non-scalar comparand")
        c = self.coerce(c, tc, F)
        a, b = ("a_", c) if same(l) else (c, "a_")
        tpl = {ast.Lt: "(ltb N {0} {1})", ast.LtE: "(leb N {0} {1})", ast.Gt: "(ngt N {0} {1})", ast.GtE: "(nge N {0} {1})",
               ast.Eq: "(eqb N {0} {1})", ast.NotEq: "(nne N {0} {1})"}
        if type(sl.ops[0]) not in tpl:
            raise Unsupported("mask comparison operator")
        return "(vfilter N (fun a_ => %s) %s)" % (tpl[type(sl.ops[0])].format(a, b), arr), V

    def vec_mask(self, n, env):
        """vector comparison `v > c` (one operator, vector against scalar or vector) -> (coq list bool, 'VB')"""
        if not (isinstance(n, ast.Compare) and len(n.ops) == 1):
            raise Unsupported("mask expression")
        a, ta = self.expr(n.left, env)
        b, tb = self.expr(n.comparators[0], env)
        tpl = {ast.Lt: "ltb N", ast.LtE: "leb N", ast.Gt: "ngt N", ast.GtE: "nge N", ast.Eq: "eqb N", ast.NotEq: "nne N"}
        if type(n.ops[0]) not in tpl:
            raise Unsupported("mask operator")
        f = tpl[type(n.ops[0])]
        if ta == V and tb in (F, I, B):
            return "(map (fun a_ => %s a_ %s) %s)" % (f, self.coerce(b, tb, F), a), "VB"
        if ta == V and tb == V:
            return "(map (fun ab_ => %s (fst ab_) (snd ab_)) (combine %s %s))" % (f, a, b), "VB"
        raise Unsupported("mask of non-vector")

    def shape_arg(self, n, env):
        """argument of np.zeros / np.empty: x.shape, x.shape[0], an int expression -> (kind, coq)"""
        if isinstance(n, ast.Attribute) and n.attr == "shape":
            arr, t = self.expr(n.value, env)
            if t == V:
                return V, "(zlen %s)" % arr
            raise Unsupported("zeros of matrix shape")
        if isinstance(n, ast.Tuple) and len(n.elts) == 2:
            return M, (self.index(n.elts[0], env), self.index(n.elts[1], env))
        return V, self.index(n, env)

    def call(self, n, env):
        name = dotted(n.func)
        if name is None and not isinstance(n.func, ast.Attribute):
            raise Unsupported("call of non-name")
        name = name or "<method>"
        kw = {k.arg: k.value for k in n.keywords}
        if isinstance(n.func, ast.Attribute) and n.func.attr == "ravel" and isinstance(n.func.value, ast.Name) and n.func.value.id in env:
            if n.args or kw:
                raise Unsupported("ravel with arguments")
            arr, t = self.expr(n.func.value, env)
            if t == M:
                return "(mravel N %s)" % arr, V
            if t == V:
                return arr, V
            raise Unsupported("ravel of " + str(t))
        if name == "set":
            # set(<int array>): only the membership test is available on the result, so the element list represents it
            if len(n.args) != 1 or kw or "set" in env or "set" in self.module_fns or "set" in self.opaque:
                raise Unsupported("set(...) other than set(<int array>)")
            a, ta = self.expr(n.args[0], env)
            if ta != VZ:
                raise Unsupported("set of " + str(ta))
            return a, SZ
        if name == "np.max" and len(n.args) == 1 and not kw:
            a, ta = self.expr(n.args[0], env)
            if ta != V:
                raise Unsupported("np.max of non-vector")
            return "(vmax_py N %s)" % a, F
        if name in ("np.zeros", "np.empty", "np.zeros_like", "np.empty_like"):
            if name.endswith("_like"):
                arr, t = self.expr(n.args[0], env)
                if t != V:
                    raise Unsupported("zeros_like of non-vector")
                return "(vzeros N (zlen %s))" % arr, V
            # dtype: keyword or (numpy's signature) second positional argument; anything else is rejected
            if len(n.args) not in (1, 2) or set(kw) - {"dtype"} or (len(n.args) == 2 and "dtype" in kw):
                raise Unsupported("arguments of " + name)
            dt = kw.get("dtype") if len(n.args) == 1 else n.args[1]
            dts = dotted(dt) if dt is not None else "np.float64"
            if isinstance(dt, ast.Attribute) and dt.attr == "dtype" and isinstance(dt.value, ast.Name) and dt.value.id in env:
                # dtype=x.dtype: the dtype of the array variable x (float arrays V/M -> float, int arrays VZ/MZ -> int)
                tx = env[dt.value.id]
                if tx in (V, M):
                    dts = "np.float64"
                elif tx in (VZ, MZ):
                    dts = "np.int64"
                else:
                    raise Unsupported("dtype of a non-array")
            kind, sh = self.shape_arg(n.args[0], env)
            if dts in ("np.int32", "np.int64", "np.intp", "np.int8", "np.uint8", "np.bool_"):
                if kind != V:
                    raise Unsupported("int matrix")
                return "(repeat 0%%Z (Z.to_nat %s))" % sh, VZ
            if dts not in ("np.float32", "np.float64", "float"):
                raise Unsupported("dtype " + str(dts))
            if kind == V:
                return "(vzeros N %s)" % sh, V
            return "(mzeros N %s %s)" % sh, M
        if name == "np.array" and len(n.args) == 1 and isinstance(n.args[0], (ast.List, ast.Tuple)):
            dt = kw.get("dtype")
            if dt is not None and dotted(dt) not in ("np.float32", "np.float64"):
                raise Unsupported("np.array dtype")
            parts = []
            for el in n.args[0].elts:
                e, t = self.expr(el, env)
                parts.append(self.coerce(e, t, F))
            return "[" + "; ".join(parts) + "]", V
        if name in ("float", "np.float64", "np.float32") and len(n.args) == 1 and not kw:
            a, ta = self.expr(n.args[0], env)
            if ta == V:
                return a, V          # a cast of a float array (rounding to float32 is not modelled)
            return self.coerce(a, ta, F), F
        if name == "np.ones" and len(n.args) >= 1:
            dt = kw.get("dtype")
            if dt is not None and dotted(dt) not in ("np.float32", "np.float64", "float"):
                raise Unsupported("np.ones dtype")
            kind, sh = self.shape_arg(n.args[0], env)
            if kind != V:
                raise Unsupported("np.ones of a matrix shape")
            return "(repeat (one N) (Z.to_nat %s))" % sh, V
        if isinstance(n.func, ast.Attribute) and n.func.attr in ("max", "min", "sum") and not n.args and not kw:
            base, bt = self.expr(n.func.value, env)
            if bt == V:
                return "(%s N %s)" % ({"max": "vmax_py", "min": "vmin_py", "sum": "vsum_py"}[n.func.attr], base), F
        if name in ("max", "min") and len(n.args) == 2:
            a, ta = self.expr(n.args[0], env)
            b, tb = self.expr(n.args[1], env)
            t = self.join(ta, tb)
            a, b = self.coerce(a, ta, t), self.coerce(b, tb, t)
            if t == F:
                return "(%s N %s %s)" % ("nmax" if name == "max" else "nmin", a, b), F
            return "(%s %s %s)" % ("Z.max" if name == "max" else "Z.min", a, b), I
        if name in ("np.abs", "abs", "np.fabs"):
            a, ta = self.expr(n.args[0], env)
            if ta == V:
                return "(vmap1 N (nabs N) %s)" % a, V
            if ta == I:
                return "(Z.abs %s)" % a, I
            return "(nabs N %s)" % self.coerce(a, ta, F), F
        if name in ("np.power", "pow") and len(n.args) == 2:
            a, ta = self.expr(n.args[0], env)
            return self.power(a, ta, n.args[1], env)
        if name == "np.all" and len(n.args) == 1 and not kw:
            # np.all(a == b), a and b NAMES of int arrays: `zall_eq a b` (meaning for equal lengths only, see the header)
            arg = n.args[0]
            if isinstance(arg, ast.Compare) and len(arg.ops) == 1 and isinstance(arg.ops[0], ast.Eq) and \
                    isinstance(arg.left, ast.Name) and isinstance(arg.comparators[0], ast.Name):
                a, ta = self.expr(arg.left, env)
                b, tb = self.expr(arg.comparators[0], env)
                if ta == VZ and tb == VZ:
                    return "(zall_eq %s %s)" % (a, b), B
            raise Unsupported("np.all of anything but `a == b` on two int array names")
        if name == "np.sum" and len(n.args) == 1 and not kw:
            arg = n.args[0]
            # np.sum(x != 0): count
            if isinstance(arg, ast.Compare) and len(arg.ops) == 1:
                a, ta = self.expr(arg.left, env)
                if ta == V:
                    b, tb = self.expr(arg.comparators[0], env)
                    b = self.coerce(b, tb, F)
                    tpl = {ast.NotEq: "(fun a_ => nne N a_ %s)", ast.Eq: "(fun a_ => eqb N a_ %s)", ast.Gt: "(fun a_ => ngt N a_ %s)",
                           ast.Lt: "(fun a_ => ltb N a_ %s)"}
                    if type(arg.ops[0]) not in tpl:
                        raise Unsupported("np.sum of comparison")
                    return "(vcount N %s %s)" % (tpl[type(arg.ops[0])] % b, a), I
            a, ta = self.expr(arg, env)
            if ta != V:
                raise Unsupported("np.sum of non-vector")
            return "(vsum_py N %s)" % a, F
        if name == "np.mean" and len(n.args) == 1 and not kw:
            a, ta = self.expr(n.args[0], env)
            if ta != V:
                raise Unsupported("np.mean of non-vector")
            return "(vmean_py N %s)" % a, F
        if name == "len" and len(n.args) == 1:
            a, ta = self.expr(n.args[0], env)
            if ta not in (V, M, VZ):
                raise Unsupported("len of scalar")
            return "(zlen %s)" % a, I
        if name in ELEMWISE1 and len(n.args) == 1:
            a, ta = self.expr(n.args[0], env)
            if ta == V:
                return "(vmap1 N (%s) %s)" % (ELEMWISE1[name], a), V
        if name in CALLS and CALLS[name][2] is not None:
            tys, rt, tpl = CALLS[name]
            if len(n.args) != len(tys) or kw:
                raise Unsupported("arity of " + name)
            args = []
            for a, want in zip(n.args, tys):
                e, t = self.expr(a, env)
                args.append(self.coerce(e, t, want))
            if "E" in tpl.split():
                self.uses_ext = True
            if " E " in tpl:
                self.uses_ext = True
            return tpl.format(*args), rt
        if name in self.opaque:
            tys, rt = self.opaque[name]
            if kw or len(n.args) != len(tys):
                raise Unsupported("arity of opaque helper " + name)
            if name in env:
                raise Unsupported("opaque helper name %s is also a variable" % name)
            args = []
            for a, want in zip(n.args, tys):
                e, t = self.expr(a, env)
                args.append(self.coerce(e, t, want))
            self.opaque_used.add(name)
            return "(%s %s)" % (self.var(name), " ".join(args)), rt
        if name in self.module_fns:
            info = self.module_fns[name]
            if kw:
                raise Unsupported("keyword call of " + name)
            if info.get("fnparams"):
                raise Unsupported("call of %s, which takes a function argument" % name)
            dfl = info.get("defaults", {})
            if len(n.args) > len(info["args"]) or any(an not in dfl for an, _ in info["args"][len(n.args):]):
                raise Unsupported("call of %s with defaults" % name)
            if info.get("mutates"):
                if len(n.args) != len(info["args"]):
                    raise Unsupported("call of the mutating function %s with defaults" % name)
                return self.mutating_call(n, name, info, env)
            args = []
            for a, (an, at) in zip(n.args, info["args"]):
                e, t = self.expr(a, env)
                args.append(self.coerce(e, t, at))
            for an, at in info["args"][len(n.args):]:
                # omitted trailing argument: the callee's literal default, by its generated name src_default_<fn>_<arg>
                dt = dfl[an][1]
                args.append(self.coerce("(src_default_%s_%s N)" % (name, an) if dt == F else "src_default_%s_%s" % (name, an), dt, at))
            self.calls.add(name)
            if info["ext"]:
                self.uses_ext = True
            if info.get("pinf"):
                self.uses_pinf = True
            head = "src_%s N%s%s" % (name, " E" if info["ext"] else "", " pinf" if info.get("pinf") else "")
            for h, hsig in info.get("opaque", []):
                if self.opaque.get(h) != hsig:
                    raise Unsupported("call of %s needs the opaque helper %s, not declared (with the same type) for this function" % (name, h))
                if h in env:
                    raise Unsupported("opaque helper name %s is also a variable" % h)
                self.opaque_used.add(h)
                head += " " + self.var(h)
            if info.get("fuel"):
                # (value, ok): bind both in front of the current statement
                if self.cond_depth or self.nest:
                    raise Unsupported("call of the fuel-bounded function %s inside a loop / joining if / conditional expression" % name)
                r, okv = "r%d_" % self.fresh, "okc%d_" % self.fresh
                self.fresh += 1
                self.pre.append(("let '(%s, %s) := %s %s in\n" % (r, okv, head, " ".join(args)), okv))
                return r, info["ret"]
            return "(%s %s)" % (head, " ".join(args)), info["ret"]
        raise Unsupported("call of " + name)

    def mutating_call(self, n, name, info, env):
        """call of a translated function that stores into its argument array(s) and returns a value: the generated callee
        returns (value, final arrays); the call is hoisted in front of the statement and every final array is written back
        into the caller's array (`A[i]` / a row view: row i of A is replaced; an array name: rebound)"""
        if not self.mut_ok or self.cond_depth:
            raise Unsupported("call of %s (which mutates its argument) outside `name = <expression>` or inside a conditional expression" % name)
        if info.get("fuel") or info["ext"] or info.get("pinf") or info.get("opaque") or not info.get("valret"):
            raise Unsupported("call of the mutating function %s: only value-returning, fuel-free callees" % name)
        args, back = [], []
        for a, (an_, at) in zip(n.args, info["args"]):
            e, t = self.expr(a, env)
            args.append(self.coerce(e, t, at))
            if an_ in info["mutates"]:
                m = "m%d_" % self.fresh
                self.fresh += 1
                if isinstance(a, ast.Subscript) and isinstance(a.value, ast.Name) and env.get(a.value.id) in (M, MZ) and a.value.id in self.mutated:
                    back.append((m, "let %s := (zset %s %s %s) in\n" % (self.var(a.value.id), self.var(a.value.id), self.index(a.slice, env), m)))
                elif isinstance(a, ast.Name) and isinstance(env.get(a.id), RowView):
                    rv = env[a.id]
                    back.append((m, "let %s := (zset %s %s %s) in\n" % (self.var(rv.arr), self.var(rv.arr), self.var(a.id), m)))
                elif isinstance(a, ast.Name) and env.get(a.id) in ARRAYS and a.id in self.mutated:
                    back.append((m, "let %s := %s in\n" % (self.var(a.id), m)))
                else:
                    raise Unsupported("argument of the mutating callee %s is not a row / row view / array argument of this function" % name)
        r = "r%d_" % self.fresh
        self.fresh += 1
        self.calls.add(name)
        txt = "let '(%s) := src_%s N %s in\n" % (", ".join([r] + [m for m, _ in back]), name, " ".join(args)) + "".join(b for _, b in back)
        self.pre.append((txt, None))
        return r, info["ret"][0]

    # ---------------------------------------------------------------- statements
    def var(self, name):
        return name if name not in COQ_RESERVED else name + "_"

    def tup(self, names):
        if not names:
            return "tt"
        if len(names) == 1:
            return self.var(names[0])
        return "(" + ", ".join(self.var(n) for n in names) + ")"

    def pat(self, names):
        if not names:
            return "_"
        if len(names) == 1:
            return self.var(names[0])
        return "'(" + ", ".join(self.var(n) for n in names) + ")"

    def ret(self, e, t, env=None):
        if self.ret_float and t == I:
            e, t = self.coerce(e, I, F), F
        if self.ret_wrap and t == I:
            e = "(%s %s)" % (self.ret_wrap, e)
        if self.mutated:
            e = "(" + ", ".join([e] + [self.var(m) for m in self.mutated]) + ")"
            t = (t,) + tuple(env[m] for m in self.mutated)
            self.valret = True
        self.note_ret(t)
        if self.has_fuel:
            return "(%s, %s)" % (e, self.ok_conj(env))
        return "(Some %s)" % e if self.has_raise else e

    def ret_mutated(self, env):
        """`return` without a value (or falling off the end) in a function whose effect is the mutation of argument arrays"""
        if not self.mutated:
            raise Unsupported("function returns nothing and mutates nothing")
        if self.has_fuel:
            raise Unsupported("value-less return from a fuel-bounded function")
        e = self.tup(self.mutated)
        t = tuple(env[m] for m in self.mutated) if len(self.mutated) > 1 else env[self.mutated[0]]
        self.note_ret(t)
        return "(Some %s)" % e if self.has_raise else e

    def note_ret(self, t):
        if t == SZ or (isinstance(t, tuple) and SZ in t):
            raise Unsupported("a set is returned")
        if getattr(self, "ret_type", None) is None:
            self.ret_type = t
        elif self.ret_type != t:
            if {self.ret_type, t} == {I, F} and not self.ret_wrap and not self.ret_float:
                raise _RetFloat()      # scalar int on one path, float on another: re-translated with every int return converted
            # any other mismatch: refuse (fail closed)
            raise Unsupported("return types differ: %s vs %s" % (self.ret_type, t))

    def block(self, stmts, env, k):
        """translate statements then continue with k(env) -> coq text (CPS); returns coq text"""
        if not stmts:
            return k(env)
        s, rest = stmts[0], stmts[1:]
        if isinstance(s, ast.Expr):
            if isinstance(s.value, ast.Constant) and isinstance(s.value.value, str):
                return self.block(rest, env, k)
            fl = self.fill_stmt(s.value)
            if fl is not None:
                # `x.fill(c)`, x a 1-d float ARGUMENT array (part of the function's result): every entry replaced by c
                arr, cnode = fl
                if self.nest or self.cond_depth:
                    raise Unsupported(".fill inside a loop / if")
                if env.get(arr) != V or arr not in self.mutated or arr in env.get("%views", ()):
                    raise Unsupported(".fill on something that is not a 1-d float argument array")
                if arr in used_names([cnode]):
                    raise Unsupported(".fill value reads the array")
                e, t = self.expr(cnode, env)
                self.no_pre()
                if t not in (F, I):
                    raise Unsupported(".fill with a non-scalar")
                return "let %s := (vmap1 N (fun _ => %s) %s) in\n" % (self.var(arr), self.coerce(e, t, F), self.var(arr)) + self.block(rest, env, k)
            raise Unsupported("expression statement")
        if isinstance(s, ast.Pass):
            return self.block(rest, env, k)
        if isinstance(s, ast.Return):
            if s.value is None:
                return self.ret_mutated(env)
            if isinstance(s.value, ast.Tuple):
                parts = [self.expr(e, env) for e in s.value.elts]
                pre, env = self.take_pre(env)
                if self.mutated:
                    # `return a, b` from a function that stores into its argument arrays x, ..: the flat tuple (a, b, x, ..)
                    if self.has_fuel:
                        raise Unsupported("tuple return from a fuel-bounded function that mutates an argument")
                    t = tuple(p[1] for p in parts) + tuple(env[m] for m in self.mutated)
                    self.note_ret(t)
                    e = "(" + ", ".join([p[0] for p in parts] + [self.var(m) for m in self.mutated]) + ")"
                    return pre + ("(Some %s)" % e if self.has_raise else e)
                return pre + self.ret("(" + ", ".join(p[0] for p in parts) + ")", tuple(p[1] for p in parts), env)
            e, t = self.expr(s.value, env)
            pre, env = self.take_pre(env)
            return pre + self.ret(e, t, env)
        if isinstance(s, ast.Raise):
            return "None"
        if isinstance(s, ast.Assign):
            if len(s.targets) != 1:
                raise Unsupported("chained assignment")
            return self.assign(s.targets[0], s.value, rest, env, k)
        if isinstance(s, ast.AugAssign):
            load = ast.copy_location(self.as_load(s.target), s.target)
            val = ast.BinOp(left=load, op=s.op, right=s.value)
            return self.assign(s.target, val, rest, env, k)
        if isinstance(s, ast.If):
            return self.ifstmt(s, rest, env, k)
        if isinstance(s, ast.For):
            return self.forstmt(s, rest, env, k)
        if isinstance(s, ast.While):
            return self.whilestmt(s, rest, env, k)
        raise Unsupported("statement " + type(s).__name__)

    @staticmethod
    def fill_stmt(v):
        """`x.fill(c)` (x a name, one positional argument, no keywords) -> (x, c node), else None"""
        if isinstance(v, ast.Call) and isinstance(v.func, ast.Attribute) and v.func.attr == "fill" and isinstance(v.func.value, ast.Name) \
                and len(v.args) == 1 and not v.keywords and not isinstance(v.args[0], ast.Starred):
            return v.func.value.id, v.args[0]
        return None

    def as_load(self, t):
        if isinstance(t, ast.Name):
            return ast.Name(id=t.id, ctx=ast.Load())
        if isinstance(t, ast.Subscript):
            return ast.Subscript(value=t.value, slice=t.slice, ctx=ast.Load())
        raise Unsupported("augmented target")

    def bind(self, name, e, t, env):
        """let name := e in ...; int variable assigned a float (or vice versa) is a type change -> allowed only if new"""
        if name in env and env[name] != t:
            old = env[name]
            if old == F and t in (I, B):
                e, t = self.coerce(e, t, F), F
            else:
                raise Unsupported("variable %s changes type %s -> %s" % (name, old, t))
        env2 = dict(env)
        env2[name] = t
        return "let %s := %s in\n" % (self.var(name), e), env2

    def assign(self, target, value, rest, env, k):
        if isinstance(target, ast.Name) and target.id in self.viewmap:
            # `v = A[i]`, A a 2-d argument array this function mutates: v is a VIEW of row i (index evaluated now)
            arr = self.viewmap[target.id]
            if not (isinstance(value, ast.Subscript) and isinstance(value.value, ast.Name) and value.value.id == arr and env.get(arr) in (M, MZ)):
                raise Unsupported("row view %s bound to something else than a row of %s" % (target.id, arr))
            rv = RowView(arr, V if env[arr] == M else VZ)
            if target.id in env and env[target.id] != rv:
                raise Unsupported("variable %s changes type" % target.id)
            i = self.index(value.slice, env)
            self.no_pre()
            env2 = dict(env)
            env2[target.id] = rv
            return "let %s := %s in\n" % (self.var(target.id), i) + self.block(rest, env2, k)
        if isinstance(target, ast.Name):
            mc = self.mutating_calls(value)
            if mc:
                # the hoisted call is evaluated before the rest of the statement: nothing else in it may read the arrays it writes
                for arrn in self.mutcall_arrays(value):
                    related = {arrn} | {v for v, a_ in self.viewmap.items() if a_ == arrn}
                    if sum(1 for x in ast.walk(value) if isinstance(x, ast.Name) and x.id in related) != 1:
                        raise Unsupported("statement reads %s besides passing it to a mutating callee" % arrn)
                if len(mc) != 1:
                    raise Unsupported("several mutating calls in one statement")
            self.mut_ok = bool(mc)
            try:
                e, t = self.expr(value, env)
            finally:
                self.mut_ok = False
            pre, env = self.take_pre(env)
            if isinstance(t, tuple):
                raise Unsupported("tuple value bound to a name")
            if target.id in self.opaque:
                raise Unsupported("assignment to the name of an opaque helper")
            txt, env2 = self.bind(target.id, e, t, env)
            views = set(env.get("%views", ()))
            views.discard(target.id)
            if isinstance(value, ast.Subscript) and isinstance(value.slice, ast.Slice):
                views.add(target.id)            # no store into the view ...
                if isinstance(value.value, ast.Name):
                    views.add(value.value.id)   # ... nor into the array it shares its memory with
            env2["%views"] = frozenset(views)
            return pre + txt + self.block(rest, env2, k)
        if isinstance(target, ast.Tuple):
            e, t = self.expr(value, env)
            pre0, env = self.take_pre(env)
            if not isinstance(t, tuple) or len(t) != len(target.elts) or not all(isinstance(x, ast.Name) for x in target.elts):
                raise Unsupported("tuple assignment")
            env2 = dict(env)
            for x, tx in zip(target.elts, t):
                if x.id in env and env[x.id] != tx:
                    raise Unsupported("tuple assignment changes a type")
                env2[x.id] = tx
                if x.id in self.opaque:
                    raise Unsupported("assignment to the name of an opaque helper")
            env2["%views"] = frozenset(set(env.get("%views", ())) - {x.id for x in target.elts})
            return pre0 + "let '(%s) := %s in\n" % (", ".join(self.var(x.id) for x in target.elts), e) + self.block(rest, env2, k)
        if isinstance(target, ast.Subscript) and isinstance(target.value, ast.Name) and isinstance(target.slice, ast.Compare):
            # boolean-mask store X[mask] = E: positions where the mask holds receive the value of E computed elementwise
            arr = target.value.id
            if env.get(arr) != V:
                raise Unsupported("mask store into non-vector")
            if arr in env.get("%views", ()):
                raise Unsupported("store into %s, which is bound to a slice (numpy view)" % arr)
            mask_src = ast.dump(target.slice)
            m, mt = self.vec_mask(target.slice, env)

            class Strip(ast.NodeTransformer):
                def visit_Subscript(self2, node):
                    if isinstance(node.slice, ast.Compare) and ast.dump(node.slice) == mask_src:
                        return self2.visit(node.value)
                    if isinstance(node.slice, ast.Compare):
                        raise Unsupported("different masks in one mask store")
                    return self2.generic_visit(node)
            e, t = self.expr(Strip().visit(ast.parse(ast.unparse(value), mode="eval").body), env)
            if t != V:
                e = "(repeat %s (length %s))" % (self.coerce(e, t, F), self.var(arr))
            self.no_pre()
            return "let %s := (vselect N %s %s %s) in\n" % (self.var(arr), m, e, self.var(arr)) + self.block(rest, env, k)
        if isinstance(target, ast.Subscript) and isinstance(target.value, ast.Name) and isinstance(env.get(target.value.id), RowView):
            # `v[d] = e` through a row view: a store into A[i, d] of the array in the state
            rv = env[target.value.id]
            if rv.rowt != V or isinstance(target.slice, (ast.Slice, ast.Tuple, ast.Compare)):
                raise Unsupported("store through a row view of an int matrix / non-scalar index")
            e, t = self.expr(value, env)
            d = self.index(target.slice, env)
            self.no_pre()
            new = "(mset N %s %s %s %s)" % (self.var(rv.arr), self.var(target.value.id), d, self.coerce(e, t, F))
            return "let %s := %s in\n" % (self.var(rv.arr), new) + self.block(rest, env, k)
        if isinstance(target, ast.Subscript) and isinstance(target.value, ast.Name):
            arr = target.value.id
            if arr not in env:
                raise Unsupported("store into unknown array")
            if arr in env.get("%views", ()):
                raise Unsupported("store into %s, which is bound to a slice (numpy view)" % arr)
            is_slice_store = isinstance(target.slice, ast.Slice)
            if is_slice_store:
                self.in_slice_store = True
            try:
                e, t = self.expr(value, env)
            finally:
                self.in_slice_store = False
            at = env[arr]
            if isinstance(target.slice, ast.Tuple):
                if at != M or len(target.slice.elts) != 2:
                    raise Unsupported("matrix store")
                i, j = (self.index(x, env) for x in target.slice.elts)
                new = "(mset N %s %s %s %s)" % (self.var(arr), i, j, self.coerce(e, t, F))
            elif isinstance(target.slice, ast.Slice):
                ts = target.slice
                if ts.lower is None or ts.upper is None or ts.step is not None or at != V or t != V:
                    raise Unsupported("slice store other than x[a:b] = <1-d float array> into a 1-d float array")
                new = "(zset_slice %s %s %s %s)" % (self.var(arr), self.index(ts.lower, env), self.index(ts.upper, env), e)
            else:
                i = self.index(target.slice, env)
                if at == V:
                    new = "(vset N %s %s %s)" % (self.var(arr), i, self.coerce(e, t, F))
                elif at == VZ:
                    new = "(iset %s %s %s)" % (self.var(arr), i, self.coerce(e, t, I) if t != F else self._nofloat())
                else:
                    raise Unsupported("store into " + str(at))
            pre, env = self.take_pre(env)
            return pre + "let %s := %s in\n" % (self.var(arr), new) + self.block(rest, env, k)
        raise Unsupported("assignment target")

    def _nofloat(self):
        raise Unsupported("float stored into int array")

    def state_vars(self, body, env, rest_used=None):
        """variables the loop/if body assigns that exist before it (they form the state); names first bound inside
        must not be read afterwards"""
        names = self.an(body)
        return [n for n in names if n in env], [n for n in names if n not in env]

    def read_before_bound(self, stmts, name):
        """True if `name` may be read in stmts before it is certainly rebound (conservative)"""
        r = self._rbb(stmts, name)
        return r is True

    def _rbb(self, stmts, name):
        """True = read first, False = certainly bound first, None = untouched"""
        for i, st in enumerate(stmts):
            later = stmts[i + 1:]
            if isinstance(st, (ast.Assign, ast.AugAssign)):
                reads = used_names([st.value])
                tg = st.targets if isinstance(st, ast.Assign) else [st.target]
                bound = False
                for t in tg:
                    if isinstance(t, ast.Name):
                        if isinstance(st, ast.AugAssign) and t.id == name:
                            return True
                        bound = bound or t.id == name
                    elif isinstance(t, ast.Tuple) and all(isinstance(e, ast.Name) for e in t.elts):
                        bound = bound or any(e.id == name for e in t.elts)
                    else:
                        reads |= used_names([t])
                if name in reads:
                    return True
                if bound:
                    return False
            elif isinstance(st, ast.For):
                if name in used_names([st.iter]):
                    return True
                if isinstance(st.target, ast.Name) and st.target.id == name:
                    # bound for the body; after the loop it may be unbound (zero iterations): later reads are suspicious
                    if self._rbb(later, name) is True:
                        return True
                    return False
                r = self._rbb(st.body, name)
                if r is True:
                    return True
                if r is False and name in used_names(later):
                    return True
            elif isinstance(st, ast.While):
                if name in used_names([st.test]):
                    return True
                r = self._rbb(st.body, name)
                # bound first inside the body: after the loop it may be unbound (zero iterations), so only a later READ
                # before a certain rebinding is a problem
                if r is True or (r is False and self._rbb(later, name) is True):
                    return True
            elif isinstance(st, ast.If):
                if name in used_names([st.test]):
                    return True
                a, b = self._rbb(st.body, name), self._rbb(st.orelse, name)
                if a is True or b is True:
                    return True
                if a is False and b is False:
                    return False
                if (a is False or b is False) and name in used_names(later):
                    return True
            else:
                if name in used_names([st]):
                    return True
        return None

    def ifstmt(self, s, rest, env, k):
        c, ct = self.expr(s.test, env)
        pre, env = self.take_pre(env)
        if ct != B:
            raise Unsupported("non-bool condition")
        esc = (ast.Return, ast.Raise)
        if contains(s.body, esc) or contains(s.orelse, esc):
            # some branch leaves the function: duplicate the continuation
            a = self.block(s.body + rest, env, k)
            b = self.block(s.orelse + rest, env, k)
            return pre + "(if %s then\n%s\nelse\n%s)" % (c, a, b)
        # join point: variables assigned in either branch.  A name first bound in both branches is fine.
        an, bn = self.an(s.body), self.an(s.orelse)
        names = [n for n in an + [x for x in bn if x not in an]]
        outs = [n for n in names if n in env or (n in an and n in bn)]
        types = {}
        want = {}       # variable -> F when it is an int on one path and a float on the other (Python: the int is converted
                        # where it meets a float; of_Z is exact for the small literals this is meant for)

        def branch(stmts):
            def fin(e2):
                for n in outs:
                    if n not in e2:
                        raise Unsupported("variable %s not bound on a path" % n)
                    types.setdefault(n, []).append(want.get(n, e2[n]))
                if len(outs) == 1:
                    n = outs[0]
                    return self.coerce(self.var(n), e2[n], want[n]) if n in want else self.var(n)
                return "(" + ", ".join(self.coerce(self.var(n), e2[n], want[n]) if n in want else self.var(n) for n in outs) + ")" if outs else "tt"
            self.nest += 1
            try:
                return self.block(stmts, env, fin)
            finally:
                self.nest -= 1

        a = branch(s.body)
        b = branch(s.orelse)
        mixed = [n for n in outs if set(types[n]) == {F, I} and n not in env]
        if mixed:
            for n in mixed:
                want[n] = F
            types.clear()
            a = branch(s.body)
            b = branch(s.orelse)
        env2 = dict(env)
        for n in outs:
            ts = set(types[n])
            if len(ts) != 1:
                raise Unsupported("variable %s has different types on the two paths" % n)
            env2[n] = ts.pop()
        # names bound on only one path and not before: unusable afterwards
        dead = [n for n in names if n not in outs]
        if used_names(rest) & set(dead):
            # could still be rebound before use, but fail closed
            raise Unsupported("variable bound on one path only is used later: %s" % sorted(used_names(rest) & set(dead)))
        if not outs:
            return pre + self.block(rest, env2, k)
        return pre + "let %s := (if %s then\n%s\nelse\n%s) in\n" % (self.pat(outs), c, a, b) + self.block(rest, env2, k)

    def range_args(self, it, env):
        if not (isinstance(it, ast.Call) and dotted(it.func) in ("range", "numba.prange", "prange")) or it.keywords:
            raise Unsupported("for over non-range")
        args = [self.index(a, env) for a in it.args]
        if len(args) == 1:
            return "0%Z", args[0]
        if len(args) == 2:
            return args[0], args[1]
        raise Unsupported("range with a step")

    def forstmt(self, s, rest, env, k):
        if not isinstance(s.target, ast.Name):
            raise Unsupported("for target")
        if contains(s.body, (ast.Return, ast.Raise)):
            raise Unsupported("return/raise inside a loop")
        if isinstance(s.iter, ast.Name) and env.get(s.iter.id) == V:
            return self.foreach(s, rest, env, k)
        lo, hi = self.range_args(s.iter, env)
        pre, env = self.take_pre(env)
        iv = s.target.id
        state, local = self.state_vars(s.body, env)
        if iv in state or iv in local:
            raise Unsupported("loop variable assigned in the body")
        for nm in set(local) | {iv}:
            if self.read_before_bound(rest, nm):
                raise Unsupported("name bound inside a loop is read after it: " + nm)
        has_break = any(isinstance(x, ast.Break) for st in s.body for x in ast.walk(st) if not isinstance(st, (ast.For, ast.While))) or \
            self._break_in(s.body)
        env_in = dict(env)
        env_in[iv] = I
        st_names = list(state)
        if has_break:
            live = "live%d_" % self.fresh
            self.fresh += 1
            env_in[live] = B
            st_names = [live] + st_names

            def fin(e2):
                return self.tup(st_names)
            body = self.nested(lambda: self.loop_body(s.body, env_in, fin, live))
            body = "(if %s then\n%s\nelse %s)" % (live, body, self.tup(st_names))
            init = "(" + ", ".join(["true"] + [self.var(n) for n in state]) + ")" if state else "true"
        else:
            def fin(e2):
                for n in state:
                    if e2.get(n) != env[n]:
                        raise Unsupported("loop changes the type of " + n)
                return self.tup(st_names)
            body = self.nested(lambda: self.loop_body(s.body, env_in, fin, None))
            init = self.tup(state)
        if not st_names:
            return pre + self.block(rest, env, k)  # a loop without effect on named state
        # with a `live` flag the body starts with `if live`: give the state type explicitly (elaboration order)
        head = "for_range"
        if has_break:
            head = "@for_range %s" % coq_type(tuple([B] + [env[n] for n in state])) if state else "@for_range bool"
        txt = pre + "let %s := %s %s %s (fun %s %s =>\n%s) %s in\n" % (
            self.pat(st_names), head, lo, hi, self.var(iv), self.pat(st_names), body, init)
        return txt + self.block(rest, env, k)

    def foreach(self, s, rest, env, k):
        """`for v in a:` with `a` the NAME of a 1-d float array the function never stores into: `for_each a (fun v state => ..) state`
        (PyPrim.v: the elements in order); no break / continue, the body may not assign `a` or `v`"""
        arr, iv = s.iter.id, s.target.id
        if contains(s.body, (ast.Break, ast.Continue)):
            raise Unsupported("break/continue in a loop over the elements of an array")
        if arr in self.mutated or arr in self.viewmap or arr in self.viewmap.values():
            raise Unsupported("loop over the elements of an array the function stores into")
        pre, env = self.take_pre(env)
        state, local = self.state_vars(s.body, env)
        if iv in state or iv in local or arr in state or arr in local or iv == arr:
            raise Unsupported("loop variable / iterated array assigned in the body")
        for nm in set(local) | {iv}:
            if self.read_before_bound(rest, nm):
                raise Unsupported("name bound inside a loop is read after it: " + nm)
        env_in = dict(env)
        env_in[iv] = F
        st_names = list(state)

        def fin(e2):
            for n in state:
                if e2.get(n) != env[n]:
                    raise Unsupported("loop changes the type of " + n)
            return self.tup(st_names)
        body = self.nested(lambda: self.loop_body(s.body, env_in, fin, None))
        if not st_names:
            return pre + self.block(rest, env, k)
        txt = pre + "let %s := for_each %s (fun %s %s =>\n%s) %s in\n" % (
            self.pat(st_names), self.var(arr), self.var(iv), self.pat(st_names), body, self.tup(state))
        return txt + self.block(rest, env, k)

    def nested(self, thunk):
        self.nest += 1
        try:
            return thunk()
        finally:
            self.nest -= 1

    def _break_in(self, stmts):
        for st in stmts:
            if isinstance(st, (ast.Break, ast.Continue)):
                return isinstance(st, ast.Break) or False
            if isinstance(st, ast.If) and (self._break_in(st.body) or self._break_in(st.orelse)):
                return True
        return False

    def loop_body(self, stmts, env, fin, live):
        """body of a loop: like block, but `break` / `continue` may end an if-branch (or the body)"""
        if not stmts:
            return fin(env)
        s, rest = stmts[0], stmts[1:]
        if isinstance(s, ast.Break):
            if live is None:
                raise Unsupported("break")
            return "let %s := false in\n%s" % (live, fin(env))
        if isinstance(s, ast.Continue):
            return fin(env)
        if isinstance(s, ast.If) and (self._esc(s.body) or self._esc(s.orelse)):
            c, ct = self.expr(s.test, env)
            self.no_pre()
            if ct != B:
                raise Unsupported("non-bool condition")
            # names first bound in one branch must not leak: each path continues separately (duplication)
            a = self.loop_body(s.body + rest, env, fin, live)
            b = self.loop_body(s.orelse + rest, env, fin, live)
            return "(if %s then\n%s\nelse\n%s)" % (c, a, b)
        # ordinary statement: translate it alone, continue with the remaining body
        return self.block([s], env, lambda e2: self.loop_body(rest, e2, fin, live))

    def _esc(self, stmts):
        for st in stmts:
            if isinstance(st, (ast.Break, ast.Continue)):
                return True
            if isinstance(st, ast.If) and (self._esc(st.body) or self._esc(st.orelse)):
                return True
        return False

    def whilestmt(self, s, rest, env, k):
        fuel = self.sig.get("fuel")
        if fuel is None:
            raise Unsupported("while without a fuel expression")
        if s.orelse or contains(s.body, (ast.Return, ast.Raise, ast.Break, ast.Continue)):
            raise Unsupported("while with else/return/break/continue")
        if self.nest:
            raise Unsupported("while inside a loop / joining if (its ok flag would not reach the return)")
        fe, ft = self.expr(ast.parse(fuel, mode="eval").body, env)
        self.no_pre()
        if ft != I:
            raise Unsupported("fuel must be an int expression")
        state, local = self.state_vars(s.body, env)
        for nm in local:
            if self.read_before_bound(rest, nm):
                raise Unsupported("name bound inside a while is read after it: " + nm)
        if not state:
            raise Unsupported("while without state")

        def fin(e2):
            for n in state:
                if e2.get(n) != env[n]:
                    raise Unsupported("loop changes the type of " + n)
            return self.tup(state)
        c, ct = self.expr(s.test, env)
        self.no_pre()
        if ct != B:
            raise Unsupported("non-bool condition")
        body = self.nested(lambda: self.block(s.body, env, fin))
        ok = "ok%d_" % self.fresh
        self.fresh += 1
        self.fuel_flags = getattr(self, "fuel_flags", []) + [ok]
        txt = "let '(%s, %s) := while_fuel (Z.to_nat %s) (fun %s => %s) (fun %s =>\n%s) %s in\n" % (
            self.tup(state) if len(state) > 1 else self.var(state[0]), ok, fe, self.pat(state), c, self.pat(state), body, self.tup(state))
        return txt + self.block(rest, self.add_ok(env, ok), k)

    # ---------------------------------------------------------------- function
    def specialise(self, fn, fixed):
        """copy of fn with the boolean arguments `fixed` (name -> bool) replaced by constants and `if <constant>` pruned"""
        import copy
        fn = copy.deepcopy(fn)
        names = {a.arg for a in fn.args.args}
        for nm, val in fixed.items():
            if nm not in names or not (isinstance(val, bool) or val == ()):
                raise Unsupported("fixed argument %s is not a boolean argument of the function" % nm)
        for x in ast.walk(fn):
            if isinstance(x, ast.Name) and x.id in fixed and not isinstance(x.ctx, ast.Load):
                raise Unsupported("fixed argument %s is assigned" % x.id)
        # an argument fixed to the empty tuple `()`: its only accepted use is `*name` in the argument list of a call, which
        # expands to no arguments; every other read of the name is rejected
        empty = {nm for nm, val in fixed.items() if val == () and not isinstance(val, bool)}
        if empty:
            for x in ast.walk(fn):
                if isinstance(x, ast.Call):
                    x.args = [a for a in x.args if not (isinstance(a, ast.Starred) and isinstance(a.value, ast.Name) and a.value.id in empty)]
            for x in ast.walk(fn):
                if isinstance(x, ast.Name) and x.id in empty:
                    raise Unsupported("argument %s (fixed to the empty tuple) is used other than as `*%s` in a call" % (x.id, x.id))
            fixed = {nm: val for nm, val in fixed.items() if nm not in empty}
            fn.args.args = [a for a in fn.args.args if a.arg not in empty]

        class Sub(ast.NodeTransformer):
            def visit_Name(self, node):
                if node.id in fixed:
                    return ast.copy_location(ast.Constant(value=fixed[node.id]), node)
                return node
        fn.body = [Sub().visit(st) for st in fn.body]

        def const_test(t):
            if isinstance(t, ast.Constant) and isinstance(t.value, bool):
                return t.value
            if isinstance(t, ast.UnaryOp) and isinstance(t.op, ast.Not):
                v = const_test(t.operand)
                return None if v is None else (not v)
            return None

        def prune(stmts):
            out = []
            for st in stmts:
                if isinstance(st, ast.If):
                    v = const_test(st.test)
                    if v is True:
                        out += prune(st.body)
                        continue
                    if v is False:
                        out += prune(st.orelse)
                        continue
                    st.body, st.orelse = prune(st.body) or [ast.Pass()], prune(st.orelse)
                elif isinstance(st, (ast.For, ast.While)):
                    st.body = prune(st.body) or [ast.Pass()]
                out.append(st)
            return out
        fn.body = prune(fn.body)
        fn.args.args = [a for a in fn.args.args if a.arg not in fixed]
        return fn

    def default_defs(self, fn, fixed):
        """`sigs[fn]['defaults']`: the default values of the arguments as generated definitions src_<f>_default_<arg>"""
        a = fn.args
        out = []
        for arg, dv in zip(a.args[len(a.args) - len(a.defaults):], a.defaults):
            if arg.arg in fixed:
                continue
            v, neg = dv, False
            if isinstance(v, ast.UnaryOp) and isinstance(v.op, ast.USub):
                v, neg = v.operand, True
            if not isinstance(v, ast.Constant) or (neg and isinstance(v.value, bool)):
                raise Unsupported("default value of %s is not a literal" % arg.arg)
            c = v.value
            name = "src_%s_default_%s" % (fn.name, arg.arg)
            if isinstance(c, bool):
                out.append("Definition %s : bool := %s.\n" % (name, "true" if c else "false"))
            elif isinstance(c, int):
                out.append("Definition %s : Z := %s.\n" % (name, zlit(-c if neg else c)))
            elif isinstance(c, float):
                out.append("Definition %s (N : Num) : N := %s.\n" % (name, flit(-c if neg else c)))
            else:
                raise Unsupported("default value of %s is not a float / int / bool literal" % arg.arg)
        return "".join(out)

    def alias_args(self, fn, alias):
        """copy of fn for calls in which the argument `b` IS the same array as the argument `a` (alias = {b: a}): every
        occurrence of the name b is replaced by a and the parameter b disappears"""
        import copy
        fn = copy.deepcopy(fn)
        names = [a.arg for a in fn.args.args]
        for b_, a_ in alias.items():
            if b_ not in names or a_ not in names or a_ in alias or b_ == a_:
                raise Unsupported("alias %s -> %s: not two distinct arguments" % (b_, a_))
        for x in ast.walk(fn):
            if isinstance(x, ast.Name) and x.id in alias:
                if not isinstance(x.ctx, ast.Load):
                    raise Unsupported("aliased argument %s is rebound" % x.id)
                x.id = alias[x.id]
        fn.args.args = [a for a in fn.args.args if a.arg not in alias]
        return fn

    def drop_empty_star(self, fn, names):
        """copy of fn for calls in which the tuple arguments `names` are EMPTY tuples: the parameters disappear and a starred
        call argument `*name` contributes no argument; any other occurrence of such a name is rejected"""
        import copy
        fn = copy.deepcopy(fn)
        have = [a.arg for a in fn.args.args]
        nd = len(fn.args.defaults)
        for nm in names:
            if nm not in have:
                raise Unsupported("empty_star: %s is not an argument" % nm)
            if nd and nm in have[len(have) - nd:]:
                raise Unsupported("empty_star: argument %s has a default value" % nm)
        for x in ast.walk(fn):
            if isinstance(x, ast.Call):
                x.args = [a for a in x.args if not (isinstance(a, ast.Starred) and isinstance(a.value, ast.Name) and a.value.id in names)]
        for x in ast.walk(fn):
            if isinstance(x, ast.Name) and x.id in names:
                raise Unsupported("tuple argument %s (translated as the empty tuple) is used other than as `*%s` in a call" % (x.id, x.id))
        fn.args.args = [a for a in fn.args.args if a.arg not in names]
        return fn

    def find_views(self, fn, params):
        """static pre-pass -> (viewmap, mutated): the argument arrays the body stores into (directly, through a row view, or
        by passing a row / view / the array to a mutating callee) and the names that are row views of mutated 2-d arguments"""
        ptypes = dict(params)
        cand = {}
        for x in ast.walk(fn):
            if isinstance(x, ast.Assign) and len(x.targets) == 1 and isinstance(x.targets[0], ast.Name):
                v = x.value
                if isinstance(v, ast.Subscript) and isinstance(v.value, ast.Name) and ptypes.get(v.value.id) in (M, MZ) \
                        and not isinstance(v.slice, (ast.Slice, ast.Tuple, ast.Compare)) and x.targets[0].id not in ptypes:
                    cand.setdefault(x.targets[0].id, set()).add(v.value.id)
        stores = set()
        for x in ast.walk(fn):
            if isinstance(x, (ast.Assign, ast.AugAssign)):
                for t in (x.targets if isinstance(x, ast.Assign) else [x.target]):
                    if isinstance(t, ast.Subscript) and isinstance(t.value, ast.Name):
                        stores |= cand.get(t.value.id, {t.value.id})
        stores |= set(self.mutcall_arrays(fn, cand))
        for x in ast.walk(fn):
            if isinstance(x, ast.Expr) and self.fill_stmt(x.value) is not None:
                stores.add(self.fill_stmt(x.value)[0])          # `x.fill(c)` stores into x
        mutated = [n for n, _ in params if n in stores]
        viewmap = {}
        for v, arrs in cand.items():
            if arrs & set(mutated):
                if len(arrs) != 1:
                    raise Unsupported("name %s is bound to rows of different arrays, one of them mutated" % v)
                viewmap[v] = next(iter(arrs))
        # a view name may only ever be bound by `v = A[i]` (the same A)
        for x in ast.walk(fn):
            tg = []
            if isinstance(x, ast.Assign):
                tg = [(t, x.value) for t in x.targets]
            elif isinstance(x, ast.AugAssign):
                tg = [(x.target, None)]
            elif isinstance(x, ast.For):
                tg = [(x.target, None)]
            for t, val in tg:
                for nm in ([t] if isinstance(t, ast.Name) else list(t.elts) if isinstance(t, (ast.Tuple, ast.List)) else []):
                    if isinstance(nm, ast.Name) and nm.id in viewmap:
                        ok = isinstance(t, ast.Name) and isinstance(val, ast.Subscript) and isinstance(val.value, ast.Name) and \
                            val.value.id == viewmap[nm.id] and not isinstance(val.slice, (ast.Slice, ast.Tuple, ast.Compare))
                        if not ok:
                            raise Unsupported("row view %s is also bound to something that is not a row of %s" % (nm.id, viewmap[nm.id]))
        return viewmap, mutated

    def translate(self):
        fixed = self.sig.get("fixed") or {}
        defaults_txt = self.default_defs(self.fn, fixed) if self.sig.get("defaults") else ""
        if fixed:
            self.fn = self.specialise(self.fn, fixed)
            self.has_raise = contains(self.fn.body, ast.Raise)
        alias = self.sig.get("alias") or {}
        if alias:
            self.fn = self.alias_args(self.fn, alias)
        empty_star = list(self.sig.get("empty_star") or ())
        if empty_star:
            self.fn = self.drop_empty_star(self.fn, empty_star)
        fnargs = dict(self.sig.get("fnargs") or {})
        if fnargs:
            # function-valued arguments: opaque helpers that are parameters of the source function itself
            names = [x.arg for x in self.fn.args.args]
            import copy
            self.fn = copy.deepcopy(self.fn)
            for h in fnargs:
                if h not in names or h in self.opaque:
                    raise Unsupported("function argument %s is not an argument / is also an opaque helper" % h)
                self.opaque[h] = fnargs[h]
            nd = len(self.fn.args.defaults)
            if nd and any(x.arg in fnargs for x in self.fn.args.args[len(self.fn.args.args) - nd:]):
                raise Unsupported("function argument with a default value")
            self.fn.args.args = [x for x in self.fn.args.args if x.arg not in fnargs]
        fn = self.fn
        a = fn.args
        if a.vararg or a.kwarg or a.kwonlyargs or a.posonlyargs:
            raise Unsupported("argument kinds")
        env, params = {}, []
        argt = self.sig.get("args", {})
        self.fnparams = []
        for arg in a.args:
            if arg.arg in self.opaque:
                # a function-valued ARGUMENT declared in `opaque` (e.g. `metric`): not an ordinary parameter; it is the opaque
                # function parameter of the generated definition (only calls of it are accepted; any other use of the name fails)
                if arg.arg in argt:
                    raise Unsupported("argument %s is declared both opaque and with a type" % arg.arg)
                self.fnparams.append(arg.arg)
                self.opaque_used.add(arg.arg)
                continue
            t = argt.get(arg.arg) or DEFAULT_ARG_TYPES.get(arg.arg)
            if t is None:
                raise Unsupported("no type for argument " + arg.arg)
            env[arg.arg] = t
            params.append((arg.arg, t))
        # literal defaults of trailing parameters (int / float constants only; anything else: the parameter has no default for callers)
        self.defaults = {}
        for arg, dv in zip(a.args[len(a.args) - len(a.defaults):], a.defaults):
            if isinstance(dv, ast.Constant) and isinstance(dv.value, (int, float)) and not isinstance(dv.value, bool) and arg.arg not in fixed:
                if isinstance(dv.value, int):
                    self.defaults[arg.arg] = (zlit(dv.value), I)
                else:
                    self.defaults[arg.arg] = (flit(dv.value), F)
        self.ret_type = None
        # argument arrays the body stores into are part of the result (Python mutates the caller's array)
        self.viewmap, self.mutated = self.find_views(fn, params)
        rebound = {t.id for x in ast.walk(fn) if isinstance(x, ast.Assign) for t in x.targets if isinstance(t, ast.Name)}
        if set(self.mutated) & rebound:
            raise Unsupported("argument array both mutated and rebound")
        # numba explicit signature "i4(...)": the int result is wrapped to int32
        self.ret_wrap = None
        self.ret_float = bool(self.sig.get("_ret_float"))
        for d in fn.decorator_list:
            if isinstance(d, ast.Call) and d.args and isinstance(d.args[0], ast.Constant) and isinstance(d.args[0].value, str):
                sig = d.args[0].value.replace(" ", "")
                if sig.startswith("i4("):
                    self.ret_wrap = "wrap32"
                elif sig.startswith(("i8(", "f4(", "f8(")):
                    pass
                else:
                    raise Unsupported("numba signature " + sig)

        def fall_off(e2):
            if self.mutated and getattr(self, "ret_type", None) in (None, tuple(e2[m] for m in self.mutated) if len(self.mutated) > 1 else e2[self.mutated[0]]):
                return self.ret_mutated(e2)
            raise Unsupported("function may end without return")
        for h in self.opaque:
            if h in env:
                raise Unsupported("opaque helper name %s is also an argument" % h)
        body = self.block(fn.body, env, fall_off)
        self.no_pre()
        rt = ("opt", self.ret_type) if self.has_raise else self.ret_type
        full = (rt, B) if self.has_fuel else rt
        opq = [(h, self.opaque[h]) for h in self.opaque if h in self.opaque_used]
        if self.uses_pinf and (any(n == "pinf" for n, _ in params) or any(h == "pinf" for h, _ in opq)):
            raise Unsupported("an argument is called pinf")
        head = "Definition src_%s (N : Num)%s%s%s %s : %s :=\n" % (
            self.sig.get("outname") or fn.name, " (E : PyExt N)" if self.uses_ext else "", " (pinf : N)" if self.uses_pinf else "",
            "".join(" (%s : %s)" % (self.var(h), " -> ".join(coq_type(t) for t in tys + [r])) for h, (tys, r) in opq),
            " ".join("(%s : %s)" % (self.var(n), coq_type(t)) for n, t in params), coq_type(full))
        return head + body + ".\n" + defaults_txt, {"args": params, "ret": rt, "ext": self.uses_ext, "mutates": self.mutated,
                                      "fuel": self.has_fuel, "opaque": opq, "pinf": self.uses_pinf, "fixed": dict(fixed),
                                      "defaults": {n: self.defaults[n] for n, _ in params if n in self.defaults},
                                      "valret": getattr(self, "valret", False), "alias": dict(alias), "views": dict(self.viewmap),
                                      "fnparams": list(self.fnparams)}


COQ_RESERVED = {"at", "as", "in", "fun", "let", "match", "end", "with", "then", "else", "if", "return", "forall", "exists", "fix", "cofix",
                "Type", "Prop", "Set", "N", "E", "S", "O", "T", "I", "using", "where", "for", "IF", "mod", "div", "add", "sub", "mul", "neg",
                "zero", "one", "exp", "ln", "sqrt", "max", "min", "length", "nth", "map", "filter", "rev", "seq", "repeat", "fst", "snd",
                "pair", "list", "bool", "nat", "Z", "R", "true", "false", "None", "Some", "option", "tt", "unit", "id", "eq", "le", "lt", "ge", "gt"}
DEFAULT_ARG_TYPES = {"x": V, "y": V, "u": V, "v": V, "p": F, "sigma": V, "w": V, "vinv": M, "a": F, "z": F, "val": F, "vec": V}


def module_functions(path):
    tree = ast.parse(open(path).read())
    return {n.name: n for n in tree.body if isinstance(n, ast.FunctionDef)}, tree


def module_consts(path, names):
    """top-level `NAME = <literal>` assignments of the module -> consts dict for translate_module:
    float / int literals (also with a unary minus) become `nlit` / Z literals; a name bound to np.inf, np.infty, math.inf,
    float('inf') or float("inf") becomes PINF (the extra argument `pinf`, see the header).  Names that are missing,
    bound twice, or bound to anything else are left out (a function reading them is then rejected)."""
    tree = ast.parse(open(path).read())
    found = {}
    for node in tree.body:
        if isinstance(node, ast.Assign) and len(node.targets) == 1 and isinstance(node.targets[0], ast.Name) and node.targets[0].id in names:
            found.setdefault(node.targets[0].id, []).append(node.value)
    out = {}
    for nm, vals in found.items():
        if len(vals) != 1:
            continue
        v = vals[0]
        neg = False
        if isinstance(v, ast.UnaryOp) and isinstance(v.op, ast.USub):
            neg, v = True, v.operand
        if isinstance(v, ast.Constant) and isinstance(v.value, float):
            try:
                out[nm] = (flit(-v.value if neg else v.value), F)
            except Unsupported:
                pass
        elif isinstance(v, ast.Constant) and isinstance(v.value, int) and not isinstance(v.value, bool):
            out[nm] = (zlit(-v.value if neg else v.value), I)
        elif not neg and (dotted(v) in ("np.inf", "np.infty", "numpy.inf", "math.inf") or
                          (isinstance(v, ast.Call) and dotted(v.func) == "float" and len(v.args) == 1 and not v.keywords and
                           isinstance(v.args[0], ast.Constant) and v.args[0].value in ("inf", "+inf", "Infinity"))):
            out[nm] = PINF
    return out


def decorator_flags(fn):
    """numba decorator keyword flags as a canonical string (e.g. 'njit(fastmath=True)')"""
    out = []
    for d in fn.decorator_list:
        out.append(ast.unparse(d))
    return out


def imported_functions(path, tree, imports):
    """`imports` = {name: (python module, file)}: the FunctionDef of `name` in `file`, accepted only if the module being translated
    (`tree`) binds `name` by a top-level `from <python module> import ..., name, ...` (no `as`) and binds it nowhere else at top level.
    -> ({name: FunctionDef}, {name: error})"""
    out, errs = {}, {}
    for name, (pymod, file) in (imports or {}).items():
        hits = [n for n in tree.body if isinstance(n, ast.ImportFrom) and n.level == 0 and n.module == pymod
                and any(a.name == name and a.asname is None for a in n.names)]
        other = [n for n in tree.body if (isinstance(n, (ast.FunctionDef, ast.ClassDef)) and n.name == name)
                 or (isinstance(n, (ast.Import, ast.ImportFrom)) and n not in hits and any((a.asname or a.name) == name for a in n.names))
                 or (isinstance(n, ast.Assign) and any(isinstance(t, ast.Name) and t.id == name for t in n.targets))]
        if not hits or other:
            errs[name] = "%s does not bind %s by `from %s import %s` only" % (path, name, pymod, name)
            continue
        ofns, _ = module_functions(file)
        if name not in ofns:
            errs[name] = "function not found in " + file
            continue
        out[name] = ofns[name]
    return out, errs


def translate_module(path, wanted, sigs=None, consts=None, modname="Src", const_names=None, imports=None):
    """-> (coq text, report dict name -> {'ok', 'error', 'sha', 'decorators'})
    `imports`: {name: (python module, file)}: functions the module imports by `from <python module> import name` whose CURRENT text
    is read from `file` and translated into this generated file like a function of the module itself (see imported_functions).
    `const_names`: module-level constants read from the source with module_consts; each literal one becomes a generated
    definition `src_const_<NAME>` (so that link theorems can be stated for whatever value the current source has) and
    every read of it in a function is that definition; a constant bound to +infinity becomes the argument `pinf`."""
    sigs = sigs or {}
    fns, tree_ = module_functions(path)
    fns = dict(fns)
    done, report, chunks = {}, {}, []
    ifns, ierrs = imported_functions(path, tree_, imports)
    origin = {}
    for nm, f in ifns.items():
        fns[nm] = f
        origin[nm] = imports[nm][1]
    consts = dict(consts or {})
    if const_names:
        for nm, (txt, ty) in sorted(module_consts(path, set(const_names)).items()):
            if (txt, ty) == PINF:
                consts[nm] = PINF
            elif ty == F:
                chunks.append("Definition src_const_%s (N : Num) : N := %s.\n" % (nm, txt))
                consts[nm] = ("(src_const_%s N)" % nm, F)
            else:
                chunks.append("Definition src_const_%s : Z := %s.\n" % (nm, txt))
                consts[nm] = ("src_const_%s" % nm, I)
    for name in wanted:
        # `sigs[name]["source"]`: `name` is a VARIANT (other alias / fixed options) of the source function of that name; the
        # generated definition is src_<name>
        sig = dict(sigs.get(name, {}))
        srcname = sig.get("source", name)
        if srcname in ierrs:
            report[name] = {"ok": False, "error": ierrs[srcname]}
            continue
        if srcname not in fns:
            report[name] = {"ok": False, "error": "function not found in " + path}
            continue
        fn = fns[srcname]
        sig["outname"] = name
        try:
            try:
                tr = FnTranslator(fn, sig, done, consts or {})
                text, info = tr.translate()
            except _RetFloat:
                sig["_ret_float"] = True
                tr = FnTranslator(fn, sig, done, consts or {})
                text, info = tr.translate()
        except Unsupported as e:
            report[name] = {"ok": False, "error": "unsupported: %s (line %d)" % (e, fn.lineno)}
            continue
        except RecursionError:
            report[name] = {"ok": False, "error": "recursion"}
            continue
        done[name] = info
        src = ast.unparse(fn)
        report[name] = {"ok": True, "sha": hashlib.sha256(text.encode()).hexdigest()[:12], "decorators": decorator_flags(fn),
                        "lines": (fn.lineno, fn.end_lineno), "ext": info["ext"], "ret": str(info["ret"]),
                        "args": [(n, str(t)) for n, t in info["args"]], "fuel_flags": getattr(tr, "fuel_flags", []),
                        "fuel_bounded": info["fuel"], "opaque": [h for h, _ in info["opaque"]],
                        "pinf": info["pinf"], "fixed": info["fixed"], "alias": info["alias"], "views": info["views"]}
        for an, (dtxt, dty) in info.get("defaults", {}).items():
            if dty == F:
                chunks.append("Definition src_default_%s_%s (N : Num) : N := %s.\n" % (name, an, dtxt))
            else:
                chunks.append("Definition src_default_%s_%s : Z := %s.\n" % (name, an, dtxt))
        spec = ("  specialised to " + ", ".join("%s=%s" % kv for kv in sorted(info["fixed"].items()))) if info["fixed"] else ""
        if info["alias"]:
            spec += "  for calls where " + ", ".join("%s is %s" % kv for kv in sorted(info["alias"].items()))
        elif info["views"] and len(set(info["views"].values())) > 1:
            spec += "  for calls where the arrays %s do not overlap" % ", ".join(sorted(set(info["views"].values())))
        org = path.split("/")[-1] if srcname not in origin else "%s (imported by %s)" % (origin[srcname].split("/")[-1], path.split("/")[-1])
        chunks.append("(* %s:%d-%d  %s%s *)\n%s" % (org, fn.lineno, fn.end_lineno, " ".join(decorator_flags(fn)), spec, text))
    header = ("(* GENERATED by harness/vp/py2coq.py from %s -- do not edit *)\n"
              "From Coq Require Import List ZArith Bool.\nFrom UV Require Import Num PyPrim.\nImport ListNotations.\n\n" % path)
    return header + "\n".join(chunks), report


if __name__ == "__main__":
    import sys, json
    path, names = sys.argv[1], sys.argv[2:]
    text, rep = translate_module(path, names)
    print(text)
    print("(*", json.dumps(rep, indent=1), "*)")

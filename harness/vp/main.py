"""Entry point: python -m vp.main Cxx [--tier quick|thorough] [--replay path]"""
import argparse, importlib, json, os, sys, traceback, warnings
from .common import Ctx


def main():
    ap = argparse.ArgumentParser()
    ap.add_argument("prop")
    ap.add_argument("--tier", default=os.environ.get("VERIF_TIER", "quick"))
    ap.add_argument("--replay")
    a = ap.parse_args()
    seed = int(os.environ.get("VERIF_SEED", "0") or 0)
    tier = a.tier if a.tier in ("quick", "thorough") else "quick"
    warnings.filterwarnings("ignore")
    mod = importlib.import_module(a.prop.lower())
    if a.replay:
        rep = json.load(open(a.replay))
        if hasattr(mod, "replay"):
            still = mod.replay(rep)
        else:
            # generic replay: re-run the generation that produced the case (same seed and tier) on the current tree and
            # look for the same failure signature (or, for an obligation replay, for any broken obligation / disagreement)
            ctx = Ctx(a.prop, rep.get("tier", "quick"), int(rep.get("seed", 0)))
            ctx.replay_mode = True
            mod.run(ctx)
            if rep.get("kind") == "input":
                still = any(f["signature"] == rep.get("signature") for f in ctx.oracle_fail)
            else:
                still = bool(ctx.broken or ctx.diffs or ctx.oracle_fail)
        print("REPLAY %s: %s" % (a.replay, "still fails" if still else "passes"))
        return 1 if still else 0
    ctx = Ctx(a.prop, tier, seed)
    try:
        return mod.run(ctx)
    except Exception:
        traceback.print_exc()
        ctx.broken.append("harness crashed: " + traceback.format_exc()[-600:])
        return ctx.finish("harness crashed before completion")


if __name__ == "__main__":
    sys.exit(main())

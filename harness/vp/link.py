"""Translation tie: regenerate Gallina from the CURRENT Python source (py2coq), re-check the link theorems
(coq/link/L_<module>.v: src_f = hand-written model, for all inputs) against it, and make the generated definitions
available to the per-run case files (so that the translated source itself is run in binary64 against the implementation).

Everything is compiled in a cache directory keyed by the generated text and the link files, so that checks running
concurrently against different source trees never overwrite each other's objects:

    coq/gen/link/<key>/Src_<module>.v      generated (logical path UVS)
    coq/gen/link/<key>/L_<module>.v ...    copies of coq/link/*.v
    coq/gen/link/<key>/PA_<module>.v       Print Assumptions for every Theorem of the link files
    coq/gen/link/<key>/status.json
"""
import fcntl, hashlib, json, os, re, shutil, subprocess, time
from . import coqrun, py2coq

REPO = os.environ.get("VERIF_REPO", "/repo")
LINKSRC = os.path.join(coqrun.COQ, "link")
CACHE = os.path.join(coqrun.VERIF, "linkcache")   # outside coq/ (which is bound to UV)

V, F, I, M, VZ, B, MZ = py2coq.V, py2coq.F, py2coq.I, py2coq.M, py2coq.VZ, py2coq.B, py2coq.MZ

# module -> configuration.  `functions`: translated in this order (callees first).  `sigs`: per function: `args` argument types where
# the defaults of py2coq.DEFAULT_ARG_TYPES do not apply, `fuel` the iteration budget of its `while` loops (an int expression over the
# arguments), `opaque` helpers that become function parameters, `fixed` boolean arguments the function is specialised to (see py2coq.py).
# `const_names`: module-level constants read from the CURRENT source (py2coq.module_consts: a literal becomes the generated
# definition `src_const_<NAME>` = its `nlit`, a name bound to np.inf becomes the extra argument `pinf`).
# `files`: link files (compiled in this order).
_SGD_K = "_optimize_layout_euclidean_single_epoch"
_SGD_ARGS = {"head_embedding": M, "tail_embedding": M, "head": VZ, "tail": VZ, "n_vertices": I, "epochs_per_sample": V, "a": F, "b": F,
             "rng_state_per_sample": MZ, "gamma": F, "dim": I, "move_other": B, "alpha": F, "epochs_per_negative_sample": V,
             "epoch_of_next_negative_sample": V, "epoch_of_next_sample": V, "n": I, "dens_phi_sum": V, "dens_re_sum": V,
             "dens_re_cov": F, "dens_re_std": F, "dens_re_mean": F, "dens_lambda": F, "dens_R": V, "dens_mu": V, "dens_mu_tot": F}
MODULES = {
    "distances": {
        "path": "umap/distances.py",
        "functions": ["sign", "euclidean", "standardised_euclidean", "manhattan", "chebyshev", "minkowski", "weighted_minkowski",
                      "mahalanobis", "hamming", "canberra", "bray_curtis", "jaccard", "matching", "dice", "kulsinski",
                      "rogers_tanimoto", "russellrao", "sokal_michener", "sokal_sneath", "haversine", "yule", "cosine",
                      "correlation", "hellinger", "poincare",
                      # ll_dirichlet and its scalar helpers (ordinary module functions: translated, callees first), symmetric_kl
                      "approx_log_Gamma", "log_beta", "log_single_beta", "ll_dirichlet", "symmetric_kl"],
        "sigs": {"approx_log_Gamma": {"args": {"x": F}}, "log_beta": {"args": {"x": F, "y": F}}, "log_single_beta": {"args": {"x": F}},
                 "ll_dirichlet": {"args": {"data1": V, "data2": V}}},
        "files": ["L_distances.v", "K_distances.v"],
        "eval": "E_distances.v",
        "deps": ["thm/T_metrics.v", "thm/T_metrics_bin.v", "thm/T_metrics_real2.v", "prop/P_C12.v", "model/M_metrics.v"],
    },
    # C07: clip, rdist and the serial Euclidean SGD epoch kernel.  The kernel is translated TWICE from the one source function
    # (`source`): `_shared` for calls in which tail_embedding IS head_embedding (`alias`; the fit case) and `_distinct` for calls in
    # which the two arrays do not overlap (the transform case); both for densmap_flag=False (`fixed`).  tau_rand_int is imported by
    # layouts.py from umap/utils.py (`imports`: checked against the current import statement) and translated into the same file.
    "layouts": {"path": "umap/layouts.py",
                "functions": ["clip", "rdist", "tau_rand_int", _SGD_K + "_shared", _SGD_K + "_distinct", _SGD_K + "_dens_shared", _SGD_K + "_dens_distinct"],
                "imports": {"tau_rand_int": ("umap.utils", "umap/utils.py")},
                "sigs": {"tau_rand_int": {"args": {"state": VZ}},
                         _SGD_K + "_shared": {"source": _SGD_K, "args": _SGD_ARGS, "fixed": {"densmap_flag": False},
                                              "alias": {"tail_embedding": "head_embedding"}},
                         _SGD_K + "_distinct": {"source": _SGD_K, "args": _SGD_ARGS, "fixed": {"densmap_flag": False}},
                         # C17: the same source function translated for densmap_flag=True (the density term of the attractive step);
                         # link file L_sgd_dens.v (imports L_sgd.v: compiled after it)
                         _SGD_K + "_dens_shared": {"source": _SGD_K, "args": _SGD_ARGS, "fixed": {"densmap_flag": True},
                                                   "alias": {"tail_embedding": "head_embedding"}},
                         _SGD_K + "_dens_distinct": {"source": _SGD_K, "args": _SGD_ARGS, "fixed": {"densmap_flag": True}}},
                "files": ["L_layouts.v", "L_sgd.v", "K_sgd.v", "L_sgd_dens.v"], "eval": "E_layouts.v",
                "deps": ["model/M_sgd.v", "model/M_dens.v", "thm/T_link_mat.v", "thm/T_sgd.v"]},
    # fast_metric_intersection: `metric` (a function argument) is an opaque function parameter, translated for metric_args=()
    "umap_sup": {"path": "umap/umap_.py", "functions": ["fast_intersection", "make_epochs_per_sample", "fast_metric_intersection"],
                 "sigs": {"fast_intersection": {"args": {"rows": VZ, "cols": VZ, "values": V, "target": VZ, "unknown_dist": F, "far_dist": F}},
                          "make_epochs_per_sample": {"args": {"weights": V, "n_epochs": I}},
                          "fast_metric_intersection": {"args": {"rows": VZ, "cols": VZ, "values": V, "discrete_space": M, "scale": F},
                                                       "opaque": {"metric": ([V, V], F)}, "fixed": {"metric_args": ()}}},
                 "files": ["L_supervised.v"]},
    "utils": {"path": "umap/utils.py", "functions": ["tau_rand_int", "norm"], "sigs": {"tau_rand_int": {"args": {"state": VZ}}},
              "files": ["L_utils.v"]},
    # the *_grad functions of named_distances_with_gradients (C14); a separate module so that the generated file is
    # Src_distances_grads.v and C12's module (and its cache key) stay untouched.  `deps`: further library files the link
    # files import (part of the cache key).
    "distances_grads": {
        "path": "umap/distances.py",
        "functions": ["sign", "euclidean_grad", "standardised_euclidean_grad", "manhattan_grad", "chebyshev_grad", "minkowski_grad",
                      "hyperboloid_grad", "weighted_minkowski_grad", "mahalanobis_grad", "canberra_grad", "bray_curtis_grad",
                      "haversine_grad", "cosine_grad", "hellinger_grad", "symmetric_kl_grad", "correlation_grad",
                      "spherical_gaussian_energy_grad", "diagonal_gaussian_energy_grad"],
        "sigs": {},
        "files": ["L_grads.v", "K_grads.v"],
        "eval": "E_grads.v",
        "deps": ["thm/T_link_arr.v", "model/M_grads.v", "model/V_grads.v", "thm/T_grads.v", "prop/P_C14.v"],
    },
    # C01: the two numba kernels of the fuzzy-neighbourhood construction.  compute_membership_strengths is translated for
    # return_dists=False, bipartite=False (the values fuzzy_simplicial_set's default path and the harness use).
    "umap_knn": {
        "path": "umap/umap_.py",
        "functions": ["compute_membership_strengths", "smooth_knn_dist"],
        "const_names": ["SMOOTH_K_TOLERANCE", "MIN_K_DIST_SCALE", "NPY_INFINITY"],
        "sigs": {
            "compute_membership_strengths": {"args": {"knn_indices": MZ, "knn_dists": M, "sigmas": V, "rhos": V},
                                             "fixed": {"return_dists": False, "bipartite": False}},
            "smooth_knn_dist": {"args": {"distances": M, "k": F, "n_iter": I, "local_connectivity": F, "bandwidth": F}},
        },
        "files": ["L_knn.v", "K_knn.v"],
        "deps": ["model/M_smooth.v", "model/M_metrics.v", "thm/T_smooth.v", "thm/T_smooth_conv.v", "prop/P_C01.v"],
    },
}

# umap/sparse.py (C13).  The merge kernels are `while` loops over two cursors: the iteration budget is the sum of the two row
# lengths (each iteration advances a cursor).  arr_union / arr_intersect (np.sort / np.concatenate / boolean masks) are not
# translated: they are function parameters of the generated definitions ("opaque", see py2coq.py).
_SPARSE_ARGS = {"ind1": VZ, "data1": V, "ind2": VZ, "data2": V, "n_features": I, "p": F}
_SPARSE_OPAQUE = {"arr_union": ([VZ, VZ], VZ), "arr_intersect": ([VZ, VZ], VZ)}
# `norm` is umap.utils.norm, which sparse.py imports (`imports` below): translated into Src_sparse.v from the current umap/utils.py.
_SPARSE_FNS = ["norm", "sparse_sum", "sparse_diff", "sparse_mul", "sparse_euclidean", "sparse_manhattan", "sparse_chebyshev", "sparse_minkowski",
               "sparse_hamming", "sparse_canberra", "sparse_bray_curtis", "sparse_jaccard", "sparse_matching", "sparse_dice",
               "sparse_kulsinski", "sparse_rogers_tanimoto", "sparse_russellrao", "sparse_sokal_michener", "sparse_sokal_sneath", "sparse_hellinger", "sparse_cosine", "sparse_correlation"]
# sparse_ll_dirichlet and its scalar helpers (sparse.py has its own copies of approx_log_Gamma / log_beta / log_single_beta): L_sparse_lld.v
_SPARSE_LLD = ["approx_log_Gamma", "log_beta", "log_single_beta", "sparse_ll_dirichlet"]
MODULES["sparse"] = {
    "path": "umap/sparse.py", "functions": _SPARSE_FNS + _SPARSE_LLD, "imports": {"norm": ("umap.utils", "umap/utils.py")},
    "sigs": dict({f: {"args": _SPARSE_ARGS, "fuel": "ind1.shape[0] + ind2.shape[0]", "opaque": _SPARSE_OPAQUE} for f in _SPARSE_FNS},
                 **{"approx_log_Gamma": {"args": {"x": F}}, "log_beta": {"args": {"x": F, "y": F}}, "log_single_beta": {"args": {"x": F}},
                    "sparse_ll_dirichlet": {"args": _SPARSE_ARGS, "fuel": "ind1.shape[0] + ind2.shape[0]"}}),
    "files": ["L_sparse.v", "L_sparse_lld.v", "K_sparse.v"], "also": ["distances"],       # K_sparse.v imports both link files
    "deps": ["model/M_sparse_lld.v", "thm/T_metrics_real.v", "model/M_sparse.v", "thm/T_sparse.v", "thm/T_sparse_metrics.v", "thm/T_sparse_corr.v", "thm/T_sparse_link.v",
             "thm/T_sparse_lld.v", "prop/P_C13.v"],
}

# init_update (umap_.py, C11): an in-place update of the rows n_original_samples.. of a 2-d float array that reads the rows below
# n_original_samples of the same array; `indices` is a 2-d int array (MZ).  Its own module (generated file Src_umap_update.v) so
# that the cache keys of umap_sup stay untouched.
MODULES["umap_update"] = {
    "path": "umap/umap_.py", "functions": ["init_update"],
    "sigs": {"init_update": {"args": {"current_init": M, "n_original_samples": I, "indices": MZ}}},
    "files": ["L_update.v"], "deps": ["thm/T_link_arr.v", "thm/T_link_mat.v", "model/M_update.v"],
}

# submatrix (utils.py, C20): the gather `submat[i, j] = dmat[i, indices_col[i, j]]` that prunes a precomputed distance table to the
# kNN columns.  Its own module (generated file Src_utils_submatrix.v) so that the cache key of `utils` (C07) stays untouched.
MODULES["utils_submatrix"] = {
    "path": "umap/utils.py", "functions": ["submatrix"],
    "sigs": {"submatrix": {"args": {"dmat": M, "indices_col": MZ, "n_neighbors": I}}},
    "files": ["L_submatrix.v"], "deps": ["thm/T_link_arr.v", "thm/T_link_mat.v", "thm/T_link_fill.v", "model/M_knnparam.v", "model/M_submatrix.v"],
}

# init_transform (umap_.py, C10): result[i, d] += weights[i, j] * embedding[indices[i, j], d] into a fresh np.zeros matrix.
MODULES["umap_transform"] = {
    "path": "umap/umap_.py", "functions": ["init_transform"],
    "sigs": {"init_transform": {"args": {"indices": MZ, "weights": M, "embedding": M}}},
    "files": ["L_transform.v"], "deps": ["thm/T_link_arr.v", "thm/T_link_mat.v", "thm/T_link_fill.v", "model/M_transform.v"],
}

# reprocess_row / reset_local_metrics (umap_.py, C18): the bisection on the exponent that brings a row's total to log2(k), applied
# to every CSR row through slices `data[indptr[i]:indptr[i + 1]]`.  k and n_iters are ordinary parameters of the generated
# definition (their defaults 15, 32 are the generated definitions src_default_reprocess_row_k / _n_iters).
MODULES["umap_reprocess"] = {
    "path": "umap/umap_.py", "functions": ["reprocess_row", "reset_local_metrics"],
    "const_names": ["SMOOTH_K_TOLERANCE", "NPY_INFINITY"],
    "sigs": {"reprocess_row": {"args": {"probabilities": V, "k": I, "n_iters": I}},
             "reset_local_metrics": {"args": {"simplicial_set_indptr": VZ, "simplicial_set_data": V}}},
    "files": ["L_reprocess.v"], "deps": ["thm/T_link_arr.v", "thm/T_link_mat.v", "thm/T_link_fill.v", "model/M_combine.v", "model/M_supervised.v"],
}

# general_sset_union / general_sset_intersection (umap/sparse.py, C18): the kernels behind `a + b`, `a * b`, `a - b` of fitted models.
# CSR arrays of the two operands (int arrays indptr / indices, float array data) and the COO skeleton of the result; result_val is
# stored into and therefore returned.  right_complement / mix_weight have default values in the source: they are ordinary parameters
# of the generated definition; the default values are the generated definitions src_general_sset_intersection_default_* ("defaults").
# Its own module (generated file Src_sparse_sset.v) so that the cache keys of "sparse" stay untouched.
_SSET_ARGS = {"indptr1": VZ, "indices1": VZ, "data1": V, "indptr2": VZ, "indices2": VZ, "data2": V, "result_row": VZ, "result_col": VZ,
              "result_val": V, "right_complement": B, "mix_weight": F}
MODULES["sparse_sset"] = {
    "path": "umap/sparse.py", "functions": ["general_sset_union", "general_sset_intersection"],
    "sigs": {"general_sset_union": {"args": _SSET_ARGS}, "general_sset_intersection": {"args": _SSET_ARGS, "defaults": True}},
    "files": ["L_sset.v", "K_sset.v"], "eval": "E_sset.v",
    "deps": ["model/M_supervised.v", "model/M_combine.v", "model/M_csr.v", "thm/T_supervised.v", "thm/T_combine.v", "thm/T_csr.v"],
}

# densMAP (layouts.py, C17): the per-epoch density statistics kernel `_optimize_layout_euclidean_densmap_epoch_init` (`re_sum.fill(0)`,
# the accumulation loop over the edges -- a numba.prange read as range: the sequential meaning, see L_dens.v --, the final
# `re_sum[i] = np.log(epsilon + re_sum[i] / phi_sum[i])`).  Translated twice from the one source function, as the SGD kernel is:
# `_shared` (tail_embedding IS head_embedding, the fit case) and `_distinct`.  Its own module (generated file Src_layouts_dens.v) so
# that the cache key of "layouts" (C07) stays untouched.
_DENS_INIT = "_optimize_layout_euclidean_densmap_epoch_init"
_DENS_INIT_ARGS = {"head_embedding": M, "tail_embedding": M, "head": VZ, "tail": VZ, "a": F, "b": F, "re_sum": V, "phi_sum": V}
MODULES["layouts_dens"] = {
    "path": "umap/layouts.py", "functions": ["rdist", _DENS_INIT + "_shared", _DENS_INIT + "_distinct"],
    "sigs": {_DENS_INIT + "_shared": {"source": _DENS_INIT, "args": _DENS_INIT_ARGS, "alias": {"tail_embedding": "head_embedding"}},
             _DENS_INIT + "_distinct": {"source": _DENS_INIT, "args": _DENS_INIT_ARGS}},
    "files": ["L_dens.v"], "eval": "E_dens.v",
    "deps": ["model/M_sgd.v", "model/M_dens.v", "thm/T_link_mat.v", "thm/T_link_arr.v"],
}


# _optimize_layout_generic_single_epoch (layouts.py, C07): the epoch kernel for non-Euclidean output metrics.  `output_metric` (a numba
# first-class function argument) is a FUNCTION PARAMETER of the generated definition (`fnargs`: two 1-d float arrays -> (float, 1-d float
# array)); the translation is for calls with `output_metric_kwds == ()` (`empty_star`: the parameter disappears, `*output_metric_kwds`
# contributes no argument).  Two variants as for the Euclidean kernel (module "layouts"); own generated file Src_layouts_generic.v.
_SGDG_K = "_optimize_layout_generic_single_epoch"
_SGDG_ARGS = {"epochs_per_sample": V, "epoch_of_next_sample": V, "head": VZ, "tail": VZ, "head_embedding": M, "tail_embedding": M,
              "dim": I, "alpha": F, "move_other": B, "n": I, "epoch_of_next_negative_sample": V, "epochs_per_negative_sample": V,
              "rng_state_per_sample": MZ, "n_vertices": I, "a": F, "b": F, "gamma": F}
_SGDG_SIG = {"source": _SGDG_K, "args": _SGDG_ARGS, "fnargs": {"output_metric": ([V, V], (F, V))}, "empty_star": ["output_metric_kwds"]}
MODULES["layouts_generic"] = {
    "path": "umap/layouts.py",
    "functions": ["clip", "tau_rand_int", _SGDG_K + "_shared", _SGDG_K + "_distinct"],
    "imports": {"tau_rand_int": ("umap.utils", "umap/utils.py")},
    "sigs": {"tau_rand_int": {"args": {"state": VZ}},
             _SGDG_K + "_shared": dict(_SGDG_SIG, alias={"tail_embedding": "head_embedding"}),
             _SGDG_K + "_distinct": dict(_SGDG_SIG)},
    "files": ["L_sgdg.v"], "eval": "E_layouts_generic.v",
    "deps": ["model/M_sgd.v", "model/M_sgdg.v", "thm/T_link_mat.v", "thm/T_link_sgd.v", "thm/T_sgdg.v"],
}


def _sha(*parts):
    h = hashlib.sha256()
    for p in parts:
        h.update(p.encode() if isinstance(p, str) else p)
        h.update(b"\0")
    return h.hexdigest()[:16]


def _coqc(path, d, timeout):
    t0 = time.time()
    try:
        p = subprocess.run(["coqc", "-R", coqrun.COQ, "UV", "-R", d, "UVS", "-w", coqrun.WARN + ",-overriding-logical-loadpath", path],
                           capture_output=True, text=True, timeout=timeout, cwd=coqrun.COQ)
        err = "\n".join(l for l in p.stderr.split("\n") if not l.startswith("Warning:") and "remapped to UVS" not in l)
        return p.returncode == 0, p.stdout, err, time.time() - t0
    except subprocess.TimeoutExpired:
        return False, "", "TIMEOUT after %ds" % timeout, time.time() - t0


def prune(keep=40):
    """drop the oldest cache directories"""
    try:
        ds = sorted((os.path.join(CACHE, d) for d in os.listdir(CACHE)), key=os.path.getmtime)
    except OSError:
        return
    for d in ds[:-keep]:
        shutil.rmtree(d, ignore_errors=True)


def theorem_spans(text):
    """[(name, start_offset, end_offset)] of `Theorem name ... Qed.` blocks"""
    out = []
    for m in re.finditer(r"^(?:Theorem|Corollary)\s+([\w']+)", text, re.M):
        e = text.find("Qed.", m.start())
        if e < 0:
            continue
        out.append((m.group(1), m.start(), e + 4))
    return out


def _line_offset(text, line):
    off = 0
    for i, l in enumerate(text.split("\n")):
        if i + 1 == line:
            return off
        off += len(l) + 1
    return len(text)


class LinkResult:
    def __init__(self):
        self.dir = None
        self.ok = False            # Src compiled
        self.translated = {}       # fn -> report
        self.theorems = {}         # theorem name -> True / error string
        self.axioms = {}
        self.src_text = ""
        self.errors = []


def prepare(module, timeout=600):
    cfg = MODULES[module]
    res = LinkResult()
    src_path = os.path.join(REPO, cfg["path"])
    # `imports`: {name: (python module, file relative to the tree)}: functions imported from another file of the tree (py2coq.py)
    imports = {k: (pm, os.path.join(REPO, f)) for k, (pm, f) in cfg.get("imports", {}).items()}
    text, report = py2coq.translate_module(src_path, cfg["functions"], cfg.get("sigs"), cfg.get("consts"), const_names=cfg.get("const_names"),
                                           **({"imports": imports} if imports else {}))
    # the header names the path; keep the key independent of where the tree lives
    text = text.replace(src_path, cfg["path"])
    for k, (pm, f) in cfg.get("imports", {}).items():
        text = text.replace(os.path.join(REPO, f), f)
    res.translated, res.src_text = report, text
    # `also`: other modules whose generated source and link files this module's corollaries need in scope (e.g. sparse metric
    # = dense metric: both translated sources); they are generated and compiled first, in the same directory
    also = []
    for om in cfg.get("also", ()):
        oc = MODULES[om]
        otext, orep = py2coq.translate_module(os.path.join(REPO, oc["path"]), oc["functions"], oc.get("sigs"), oc.get("consts"), **({"const_names": oc["const_names"]} if "const_names" in oc else {}))
        otext = otext.replace(os.path.join(REPO, oc["path"]), oc["path"])
        also.append((om, otext, [(f, open(os.path.join(LINKSRC, f)).read()) for f in oc["files"] if f.startswith("L_")], orep))
    files = [(f, open(os.path.join(LINKSRC, f)).read()) for f in cfg["files"]]
    evalf = cfg.get("eval")
    evaltext = open(os.path.join(LINKSRC, evalf)).read() if evalf and os.path.exists(os.path.join(LINKSRC, evalf)) else None
    libsig = ""
    for lib in ("lib/PyPrim.v", "lib/PyPrimLemmas.v", "thm/T_link.v", "lib/Num.v") + tuple(cfg.get("deps", ())):
        libsig += open(os.path.join(coqrun.COQ, lib)).read()
    key = _sha(text, *[t for _, t in files], evaltext or "", libsig, *[ot for _, ot, _, _ in also], *[t for _, _, fs, _ in also for _, t in fs])
    d = os.path.join(CACHE, module + "_" + key)
    res.dir = d
    os.makedirs(d, exist_ok=True)
    os.utime(d)
    prune()
    lock = open(os.path.join(d, ".lock"), "w")
    fcntl.flock(lock, fcntl.LOCK_EX)
    try:
        st = os.path.join(d, "status.json")
        if os.path.exists(st):
            s = json.load(open(st))
            res.ok, res.theorems, res.axioms, res.errors = s["ok"], s["theorems"], s["axioms"], s["errors"]
            return res
        srcfile = os.path.join(d, "Src_%s.v" % module)
        open(srcfile, "w").write(text)
        ok, so, se, _ = _coqc(srcfile, d, timeout)
        res.ok = ok
        for om, otext, ofiles, orep in also:
            op_ = os.path.join(d, "Src_%s.v" % om)
            open(op_, "w").write(otext)
            ok_o, so_o, se_o, _ = _coqc(op_, d, timeout)
            if not ok_o:
                res.errors.append("generated Src_%s.v (needed by %s) does not compile: %s" % (om, module, (se_o or so_o)[-300:].replace("\n", " ")))
            for fname, ftext in ofiles:
                sub = LinkResult()
                _check_link_file(sub, d, fname, ftext, timeout)     # cut-out of failing theorems applies here too
        if not ok:
            res.errors.append("generated Src_%s.v does not compile: %s" % (module, (se or so)[-400:].replace("\n", " ")))
        else:
            for fname, ftext in files:
                _check_link_file(res, d, fname, ftext, timeout)
            if evaltext is not None:
                p = os.path.join(d, evalf)
                open(p, "w").write(evaltext)
                ok2, so, se, _ = _coqc(p, d, timeout)
                if not ok2:
                    res.errors.append("%s does not compile: %s" % (evalf, (se or so)[-400:].replace("\n", " ")))
        json.dump({"ok": res.ok, "theorems": res.theorems, "axioms": res.axioms, "errors": res.errors}, open(st, "w"), indent=1)
        return res
    finally:
        fcntl.flock(lock, fcntl.LOCK_UN)
        lock.close()


def _check_link_file(res, d, fname, ftext, timeout):
    """compile the link file; a failing theorem is recorded and cut out (its statement is kept as a comment) so that the
    remaining theorems are still checked; at most 40 rounds (K_sgd.v has 20 corollaries that all depend on the two link theorems)"""
    cur = ftext
    names = [n for n, _, _ in theorem_spans(ftext)]
    path = os.path.join(d, fname)
    for _ in range(40):
        open(path, "w").write(cur)
        ok, so, se, _ = _coqc(path, d, timeout)
        if ok:
            break
        m = re.search(r'line (\d+), characters', se or so)
        if not m:
            res.errors.append("%s: %s" % (fname, (se or so)[-300:].replace("\n", " ")))
            for n in names:
                res.theorems.setdefault(n, "link file does not compile")
            return
        off = _line_offset(cur, int(m.group(1)))
        hit = [(n, a, b) for n, a, b in theorem_spans(cur) if a <= off <= b]
        msg = (se or so).strip().split("\n", 1)[-1][:300].replace("\n", " ")
        if not hit:
            res.errors.append("%s: error outside a theorem (line %s): %s" % (fname, m.group(1), msg))
            for n in names:
                res.theorems.setdefault(n, "link file does not compile (helper lemma at line %s fails)" % m.group(1))
            return
        n, a, b = hit[0]
        res.theorems[n] = "no longer checks: " + msg
        cur = cur[:a] + "(* FAILED: " + n + " *)" + cur[b:]
    else:
        res.errors.append("%s: more than 40 failing theorems" % fname)
    good = [n for n in names if n not in res.theorems]
    # Print Assumptions for every theorem that checked
    mod = fname[:-2]
    pa = "From UVS Require Import %s.\n" % mod + "".join("Print Assumptions %s.\n" % n for n in good)
    pap = os.path.join(d, "PA_%s.v" % mod)
    open(pap, "w").write(pa)
    ok, so, se, _ = _coqc(pap, d, timeout)
    if not ok:
        res.errors.append("Print Assumptions for %s failed: %s" % (fname, (se or so)[-300:].replace("\n", " ")))
        for n in good:
            res.theorems[n] = "Print Assumptions failed"
        return
    blocks = coqrun.print_assumptions(so)
    for n, blk in zip(good, blocks):
        res.theorems[n] = True
        res.axioms[n] = blk


def check(ctx, module, required, not_translated=None):
    """record the link obligations of `module` in ctx.  `required`: {function name: theorem name} that must hold;
    `not_translated`: {function: reason} accepted gaps (reported in the evidence)."""
    res = prepare(module)
    ctx.link = getattr(ctx, "link", {})
    ctx.link[module] = res
    ctx.checker_cmds.append("py2coq %s -> Src_%s.v; coqc -R coq UV -R <linkdir> UVS L_%s.v" % (MODULES[module]["path"], module, module))
    tr = ctx.extra.setdefault("translated_source", {})
    tr[module] = {"dir": os.path.relpath(res.dir, coqrun.VERIF),
                  "functions": {k: (v.get("sha") if v["ok"] else v["error"]) for k, v in res.translated.items()},
                  "decorators": {k: v.get("decorators") for k, v in res.translated.items() if v["ok"]},
                  "not_translated_by_design": not_translated or {}}
    for e in res.errors:
        ctx.broken.append("link[%s]: %s" % (module, e))
    for fn, thms in required.items():
        # `thms`: a theorem name, or several alternatives (e.g. the every-Num equality and its re-association-tolerant variant
        # over R): the obligation is discharged when one of them checks
        thms = (thms,) if isinstance(thms, str) else tuple(thms)
        ob = "link:%s:%s" % (module, "|".join(thms))
        ctx.obligations.append(ob)
        rep = res.translated.get(fn)
        if rep is None or not rep["ok"]:
            ctx.broken.append("link[%s]: the translator rejects the current source of %s: %s" % (module, fn, (rep or {}).get("error", "not requested")))
            continue
        ok, why = False, []
        for thm in thms:
            st = res.theorems.get(thm)
            if st is True:
                bad = [a for a in res.axioms.get(thm, []) if a not in coqrun.ALLOWED_AXIOMS and not ctx._primitive(a)]
                for a in res.axioms.get(thm, []):
                    ctx.axioms[a] = ctx.axioms.get(a, 0) + 1
                if bad:
                    why.append("axiom outside the allowed list under %s: %s" % (thm, bad))
                else:
                    ok = True
                    break
            elif st is None:
                why.append("no link theorem %s" % thm)
            else:
                why.append("theorem %s %s" % (thm, st))
        if ok:
            ctx.discharged.append(ob)
            if why:
                ctx.notes.append("link[%s] %s: %s; discharged by %s" % (module, fn, "; ".join(why)[:300], thm))
        else:
            ctx.broken.append("link[%s]: translated source of %s = model: %s" % (module, fn, "; ".join(why)))
    if ctx.tier == "thorough" and not ctx.replay_mode and res.ok:
        _coqchk(ctx, module, res)
    return res


def _coqchk(ctx, module, res):
    """thorough tier: independent re-check (coqchk) of the compiled link files and everything they depend on"""
    for fname in MODULES[module]["files"]:
        mod = "UVS." + fname[:-2]
        ob = "coqchk:%s:%s" % (module, mod)
        ctx.obligations.append(ob)
        try:
            p = subprocess.run(["coqchk", "-o", "-silent", "-R", coqrun.COQ, "UV", "-R", res.dir, "UVS", mod], capture_output=True, text=True,
                               timeout=2400, cwd=coqrun.COQ)
        except subprocess.TimeoutExpired:
            ctx.notes.append("coqchk on %s timed out (not counted as discharged)" % mod)
            continue
        ctx.checker_cmds.append("coqchk -o -silent -R coq UV -R <linkdir> UVS " + mod)
        out = p.stdout + p.stderr
        axs, inblock = [], False
        for line in out.splitlines():
            if line.startswith("* Axioms:"):
                inblock = True
                continue
            if inblock:
                if line.startswith("*"):
                    inblock = False
                elif line.strip():
                    axs.append(line.strip())
        ctx.extra.setdefault("coqchk_axioms", {})[mod] = axs
        unsafe = [l for l in out.splitlines() if ("type-in-type" in l or "unsafe (co)fixpoints" in l or "positivity is assumed" in l) and "<none>" not in l]
        badax = [a for a in axs if a.split(".")[-1] not in ("functional_extensionality_dep", "sig_not_dec", "sig_forall_dec", "classic")
                 and not a.startswith(("Coq.Floats.", "Coq.Numbers.Cyclic.Int63.", "Coq.Numbers.Cyclic.Abstract"))]
        if p.returncode != 0 or unsafe or badax:
            ctx.broken.append("coqchk on %s: rc=%d unsafe=%s unexpected axioms=%s %s" % (mod, p.returncode, unsafe, badax, out[-200:] if p.returncode else ""))
        else:
            ctx.discharged.append(ob)


def coq_eval(ctx, res, name, text, timeout=900, what=None):
    """like ctx.coq_eval, but the generated file may import UVS.* (the translated source of this run)"""
    path = os.path.join(coqrun.gen_dir(), name + ".v")
    with open(path, "w") as f:
        f.write(text)
    ok, so, se, _ = _coqc(path, res.dir, timeout)
    if not ok:
        ctx.broken.append("correspondence file gen/%s.v does not compile (%s): %s" % (name, what or "", (se or so)[-400:].replace("\n", " ")))
        return None
    return coqrun.eval_blocks(so)


if __name__ == "__main__":
    import sys
    for m in (sys.argv[1:] or list(MODULES)):
        r = prepare(m)
        bad = {k: v for k, v in r.theorems.items() if v is not True}
        print("link %s: dir=%s src_ok=%s theorems=%d failing=%d errors=%s" % (m, os.path.relpath(r.dir, coqrun.VERIF), r.ok, len(r.theorems), len(bad), r.errors))
        for k, v in bad.items():
            print("  ", k, v)

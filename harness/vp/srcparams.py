"""Read constants from /repo's *current* source text with ast (the 'regenerated from source' leg)."""
import ast, os
from .common import REPO


def module_constants(relpath, names):
    """top-level `NAME = <literal>` assignments -> dict (missing names omitted)"""
    tree = ast.parse(open(os.path.join(REPO, relpath)).read())
    out = {}
    for node in tree.body:
        if isinstance(node, ast.Assign) and len(node.targets) == 1 and isinstance(node.targets[0], ast.Name):
            n = node.targets[0].id
            if n in names:
                try:
                    out[n] = ast.literal_eval(node.value)
                except Exception:
                    try:
                        out[n] = eval(compile(ast.Expression(node.value), "<src>", "eval"), {"__builtins__": {}})
                    except Exception:
                        pass
    return out


def func_defaults(relpath, funcname):
    """default values of a module-level function's positional parameters -> dict"""
    tree = ast.parse(open(os.path.join(REPO, relpath)).read())
    for node in ast.walk(tree):
        if isinstance(node, ast.FunctionDef) and node.name == funcname:
            args = node.args.args
            defs = node.args.defaults
            out = {}
            for a, d in zip(args[len(args) - len(defs):], defs):
                try:
                    out[a.arg] = ast.literal_eval(d)
                except Exception:
                    pass
            return out
    return {}


def func_source(relpath, funcname):
    src = open(os.path.join(REPO, relpath)).read()
    tree = ast.parse(src)
    for node in ast.walk(tree):
        if isinstance(node, (ast.FunctionDef,)) and node.name == funcname:
            return ast.get_source_segment(src, node)
    return None

"""Write generated Coq files, run coqc on them under a timeout, parse what they print."""
import math, os, re, subprocess, time, hashlib

VERIF = os.path.dirname(os.path.dirname(os.path.dirname(os.path.abspath(__file__))))
COQ = os.path.join(VERIF, "coq")
GEN = os.path.join(COQ, "gen")
WARN = "-notation-overridden,-deprecated-hint-without-locality,-deprecated-instance-without-locality,-ambiguous-paths,-inexact-float"


def fl(x):
    """Python float -> exact Coq PrimFloat literal (in float_scope)."""
    x = float(x)
    if math.isnan(x):
        return "nan"
    if math.isinf(x):
        return "infinity" if x > 0 else "neg_infinity"
    if x == 0:
        return "(-0)" if math.copysign(1, x) < 0 else "0"
    h = x.hex()  # e.g. -0x1.8000000000000p+1
    if h.startswith("-"):
        return "(-" + h[1:] + ")"
    return h


def zl(n):
    n = int(n)
    return "(%d)" % n if n < 0 else "%d" % n


def flist(xs):
    return "[" + "; ".join(fl(x) for x in xs) + "]"


def zlist(xs):
    return "[" + "; ".join(zl(x) for x in xs) + "]%Z"


def blist(xs):
    return "[" + "; ".join("true" if x else "false" for x in xs) + "]"


def clist(items):
    """list of already-rendered Coq terms"""
    return "[" + ";\n  ".join(items) + "]"


def build(targets=(), timeout=3000):
    """(Re)build the committed development; returns (ok, output)."""
    env = dict(os.environ, VERIF_BUILD_TIMEOUT=str(timeout))
    p = subprocess.run([os.path.join(VERIF, "tools", "build.sh"), *targets], capture_output=True, text=True, env=env)
    return p.returncode == 0, p.stdout + p.stderr


def coqc(path, timeout=600):
    t0 = time.time()
    try:
        p = subprocess.run(["coqc", "-R", COQ, "UV", "-w", WARN, path], capture_output=True, text=True,
                           timeout=timeout, cwd=COQ)
        return p.returncode == 0, p.stdout, p.stderr, time.time() - t0
    except subprocess.TimeoutExpired as e:
        return False, (e.stdout or b"").decode() if isinstance(e.stdout, bytes) else (e.stdout or ""), "TIMEOUT after %ds" % timeout, time.time() - t0


def gen_dir():
    """per-process directory for generated files (two runs of the same check must not overwrite each other's case files);
    removed at exit unless VERIF_KEEP_GEN is set"""
    global _GEN_RUN
    if _GEN_RUN is None:
        import atexit, shutil
        _GEN_RUN = os.path.join(GEN, "p%d" % os.getpid())
        os.makedirs(_GEN_RUN, exist_ok=True)
        if not os.environ.get("VERIF_KEEP_GEN"):
            atexit.register(shutil.rmtree, _GEN_RUN, True)
    return _GEN_RUN


_GEN_RUN = None


def run_gen(name, text, timeout=600):
    """Write coq/gen/p<pid>/<name>.v with `text`, compile it; return (ok, stdout, stderr, secs)."""
    path = os.path.join(gen_dir(), name + ".v")
    with open(path, "w") as f:
        f.write(text)
    return coqc(path, timeout)


_eval_re = re.compile(r"^\s*=\s", re.M)


def eval_blocks(stdout):
    """Split coqc stdout into the `= value : type` blocks printed by Eval commands (values as strings)."""
    out = []
    parts = re.split(r"(?m)^\s{0,5}= ", stdout)
    for p in parts[1:]:
        # value ends at the last "\n     : type"
        m = re.search(r"\n\s*: [^\n]*(\n[^\n=]*)*$", p)
        val = p[: m.start()] if m else p
        out.append(" ".join(val.split()))
    return out


def parse_zlist(s):
    """'[1; -2; 3]%Z' or '[]' -> list of ints (flat)."""
    return [int(t) for t in re.findall(r"-?\d+", s)]


def parse_zpairs(s):
    v = parse_zlist(s)
    return list(zip(v[0::2], v[1::2]))


_float_tok = re.compile(r"neg_infinity|infinity|nan|-?\d+(?:\.\d+)?(?:e[+-]?\d+)?")


def parse_flist(s):
    out = []
    for t in _float_tok.findall(s):
        if t == "infinity":
            out.append(math.inf)
        elif t == "neg_infinity":
            out.append(-math.inf)
        elif t == "nan":
            out.append(math.nan)
        else:
            out.append(float(t))
    return out


def print_assumptions(stdout):
    """Parse the output of `Print Assumptions` commands: returns list of blocks, each a list of axiom names
    ([] for 'Closed under the global context')."""
    blocks = []
    cur = None
    for line in stdout.splitlines():
        if line.startswith("Closed under the global context"):
            blocks.append([])
            cur = None
        elif line.startswith("Axioms:"):
            cur = []
            blocks.append(cur)
        elif cur is not None:
            m = re.match(r"^([A-Za-z_][\w.']*)\s*(:|$)", line)
            if m and not line.startswith(" "):
                cur.append(m.group(1))
    return blocks


ALLOWED_AXIOMS = {
    "ClassicalDedekindReals.sig_not_dec",
    "ClassicalDedekindReals.sig_forall_dec",
    "FunctionalExtensionality.functional_extensionality_dep",
    "Classical_Prop.classic",
    "functional_extensionality_dep",
    "classic",
    "sig_not_dec",
    "sig_forall_dec",
}


def sha8(s):
    return hashlib.sha256(s.encode()).hexdigest()[:8]

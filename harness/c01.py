"""C01 — every point's fuzzy neighbourhood is calibrated and locally connected."""
import math
import numpy as np
from vp.coqrun import fl, zl, flist, zlist, clist, parse_zlist, ALLOWED_AXIOMS
from vp import srcparams, link
import umap.umap_ as U

SATOL = 2e-3      # strength tolerance (float32 search vs binary64 search stop at different points of the tolerance band)
RULE = ("kNN distance tables: n 1..10 rows, k 2..20 (thorough: ..200), scale 1e-4..1e6, ascending rows with column 0 = 0 (self / duplicate), "
        "ties (20%), zero-distance duplicates (20%), trailing +inf entries with index -1 (15%), local_connectivity in {0,.3,1,1.5,2,3,k-1}; "
        "implementation smooth_knn_dist + compute_membership_strengths vs model smooth_row/memberships evaluated in Coq; oracle states the property "
        "on the implementation's output incl. rescaled copies (x1e-3, x7, x1e4). Non-trivial: any tag among ties/zeros/inf/fractional-lc/floor/scale>1/doubling.")


def gen_table(rng, tier):
    n = rng.randint(1, 10)
    kmax = 20 if tier == "quick" or rng.random() < 0.9 else 200
    k = rng.randint(2, kmax)
    scale = 10 ** rng.uniform(-4, 6)
    lc = rng.choice([1.0, 1.0, 1.0, 0.0, 0.3, 1.5, 2.0, 3.0, float(k - 1)])
    lc = min(lc, float(k - 1))
    rows, idxs, tags = [], [], set()
    for i in range(n):
        style = rng.random()
        if style < 0.2:
            d = sorted(rng.randint(0, 6) * 1.0 for _ in range(k - 1)); tags.add("ties")
        elif style < 0.3:
            d = sorted(rng.expovariate(1.0) for _ in range(k - 1))
        else:
            d = sorted(rng.random() for _ in range(k - 1))
        if rng.random() < 0.2:
            nz = rng.randint(1, max(1, (k - 1) // 2))
            d = [0.0] * nz + d[nz:]; tags.add("zeros")
        row = np.array([0.0] + [x * scale for x in d], dtype=np.float32)
        row.sort()
        ix = [i] + rng.sample([j for j in range(1000) if j != i], k - 1)
        if rng.random() < 0.15 and k > 2:
            ninf = rng.randint(1, k - 2)
            row[k - ninf:] = np.inf
            for p in range(k - ninf, k):
                ix[p] = -1
            tags.add("inf")
        rows.append(row); idxs.append(ix)
    D = np.array(rows, dtype=np.float32)
    # keep the lc-th non-zero entry finite (rho = inf/nan otherwise: unexplored corner, see DESIGN)
    index = int(math.floor(lc)); interp = lc - index
    need = index + (1 if interp > 1e-5 else 0)
    for i in range(n):
        fin_nz = int(np.sum((D[i] > 0) & np.isfinite(D[i])))
        tot_nz = int(np.sum(D[i] > 0))
        if tot_nz >= lc and fin_nz < max(need, 1) and tot_nz > fin_nz:
            D[i][~np.isfinite(D[i])] = D[i][np.isfinite(D[i])].max() * 2 + scale
            idxs[i] = [j if j != -1 else 999 - p for p, j in enumerate(idxs[i])]
    if interp > 0: tags.add("fractional_lc")
    if lc == 0: tags.add("lc0")
    if lc >= 2: tags.add("lc>=2")
    if scale > 10: tags.add("scale>10")
    if scale < 1e-2: tags.add("scale<1e-2")
    return dict(D=D, idx=np.array(idxs, dtype=np.int64), k=k, lc=lc, scale=scale), tags


def impl(D, idx, k, lc):
    sig, rho = U.smooth_knn_dist(D.copy(), float(k), local_connectivity=float(lc))
    rows, cols, vals, _ = U.compute_membership_strengths(idx.copy(), D.copy(), sig, rho)
    return sig, rho, vals.reshape(D.shape), cols.reshape(D.shape)


def f64_psum(row, rho, s):
    t = 0.0
    for d in row[1:]:
        x = float(d) - rho
        t += math.exp(-x / s) if x > 0 else 1.0
    return t


def oracle(ctx, case, sig, rho, vals, params, where="smooth_knn_dist"):
    """float64 statement of the property on the implementation's output"""
    D, idx, k, lc = case["D"], case["idx"], case["k"], case["lc"]
    n = D.shape[0]
    target = math.log2(k)
    fin_all = D[np.isfinite(D)].astype(np.float64)
    mean_all = fin_all.mean() if len(fin_all) else 0.0
    desc = dict(distances=D, indices=idx, k=k, local_connectivity=lc)
    for i in range(n):
        row = D[i].astype(np.float64)
        fin = np.isfinite(row)
        s, r = float(sig[i]), float(rho[i])
        v = vals[i].astype(np.float64)
        if not (math.isfinite(s) and s > 0):
            kind = "inf_entries" if not fin.all() else ("bandwidth_gt_1" if row[fin].max() > 1 else "other")
            ctx.fail("%s:sigma_nonfinite:%s" % (where, kind), "row %d: sigma=%r" % (i, s), desc); continue
        if math.isinf(r) != rho_from_infinite_entry(D[i], lc, params["SMOOTH_K_TOLERANCE"]) or math.isnan(r):
            ctx.fail("%s:rho_finiteness" % where, "row %d: rho=%r" % (i, r), desc)
        if math.isinf(r): ctx.count("rho_infinite_rows")
        mean_row = row[fin].mean()
        floor = params["MIN_K_DIST_SCALE"] * (mean_row if r > 0 else mean_all)
        if s < floor * (1 - 1e-4):
            ctx.fail("%s:below_floor" % where, "row %d: sigma=%r < floor %r" % (i, s, floor), desc)
        # strengths: 1 for the first floor(lc) distinct (non-zero, finite) neighbours and zero-distance ones; self 0
        nzf = [p for p in range(k) if fin[p] and row[p] > 0 and idx[i][p] != i]
        for p in range(k):
            if idx[i][p] == i and v[p] != 0:
                ctx.fail("%s:self_strength" % where, "row %d: self strength %r" % (i, v[p]), desc)
            if idx[i][p] == -1 and v[p] != 0:
                ctx.fail("%s:disconnected_strength" % where, "row %d col %d: strength %r for index -1" % (i, p, v[p]), desc)
        live = [p for p in range(k) if idx[i][p] not in (i, -1) and fin[p]]
        for p in live:
            if not (0 <= v[p] <= 1):   # float32 underflow of exp to 0 is legitimate (such entries are dropped from the graph)
                ctx.fail("%s:strength_range" % where, "row %d col %d: %r" % (i, p, v[p]), desc)
            if row[p] == 0 and v[p] != 1:
                ctx.fail("%s:zero_distance_not_1" % where, "row %d col %d: %r" % (i, p, v[p]), desc)
        if len(nzf) >= lc:
            for p in nzf[: int(math.floor(lc))]:
                if v[p] != 1.0:
                    ctx.fail("%s:local_connectivity" % where, "row %d: neighbour at column %d (d=%r) has strength %r, expected 1 (lc=%s)" % (i, p, row[p], v[p], lc), desc)
        for a, b in zip(live, live[1:]):
            if row[a] <= row[b] and v[b] > v[a] + 1e-7:
                ctx.fail("%s:not_antitone" % where, "row %d: strength rises with distance (cols %d,%d)" % (i, a, b), desc)
        # calibration: attainable at or above the floor?  (psum is non-decreasing in the bandwidth)
        if math.isfinite(r):
            lo_s = max(floor, 2.0 ** -60)
            n_gt = sum(1 for d in row[1:] if fin_d(d) and d - r > 0)
            sup = sum(1 for d in row[1:] if fin_d(d))  # limit as s -> inf
            p_lo = f64_psum(row, r, lo_s)
            attainable = p_lo <= target + 1e-9 and (target < sup - 1e-9 if n_gt else abs(target - sup) < 1e-9) and f64_psum(row, r, 2.0 ** 40) >= target
            total = float(sum(v[p] for p in range(1, k) if idx[i][p] != -1 or True) )
            # the implementation's own convention: columns 1.. (column 0 is the sample itself / a zero-distance duplicate)
            total = float(sum((1.0 if (row[p] - r) <= 0 else math.exp(-(row[p] - r) / s)) for p in range(1, k) if fin[p]))
            tot_v = float(sum(v[p] if idx[i][p] != i else 1.0 for p in range(1, k) if fin[p]))
            if attainable and abs(tot_v - target) > 1e-3:
                ctx.fail("%s:not_calibrated" % where, "row %d: total strength %r, log2(k)=%r (sigma=%r rho=%r)" % (i, tot_v, target, s, r), desc)
            if attainable: ctx.count("attainable_rows")
            else: ctx.count("unattainable_rows")


def fin_d(d):
    return math.isfinite(float(d))


def rho_from_infinite_entry(row, lc, tol):
    """computed from the inputs only: would rho be read from a disconnected (+inf) entry?"""
    nz = row[row > 0]
    if len(nz) >= lc:
        index = int(math.floor(lc)); interp = lc - index
        if index > 0:
            return bool(np.isinf(nz[index - 1]) or (interp > tol and np.isinf(nz[index])))
        return bool(interp > 0 and np.isinf(nz[0]))
    return bool(len(nz) > 0 and np.isinf(nz).any())


def row_term(i, D, idx, sig, rho, vals, lc, tol):
    fin = np.isfinite(D[i])
    nf = int(fin.sum())
    skip = rho_from_infinite_entry(D[i], lc, tol)
    return ("(mkRow %s %d%%nat %s %s %s %s %s %s)" % (flist(D[i][:nf].tolist()), len(D[i]) - nf, zl(i), zlist(idx[i][:nf].tolist()),
                                               fl(sig[i]), fl(rho[i]), flist(vals[i][:nf].tolist()), "true" if skip else "false"))


def pipeline_probe(ctx, rng):
    """the directed memberships as the graph stage produces them (kNN search included): fuzzy_simplicial_set(apply_set_operations=False)
    on data with points repeated 2..5 times (zero-distance neighbours) and with distinct points; per sample: no membership to itself,
    strength exactly 1 for every zero-distance duplicate and for the nearest distinct neighbour (local_connectivity = 1), strengths in
    (0,1], non-increasing in distance, total = log2(k) to 1e-3 where attainable, finite positive bandwidth"""
    import umap.umap_ as U
    for rep in range(4 if ctx.tier == "quick" else 20):
        npr = np.random.RandomState(rng.randrange(2 ** 31))
        n0 = rng.randint(18, 30); dim = rng.randint(2, 4)
        X0 = npr.normal(size=(n0, dim)) * 10 ** rng.uniform(-2, 2)
        reps = [1] * n0
        for i in rng.sample(range(n0), 4): reps[i] = rng.choice([2, 3, 4, 5])
        if rep == 0: reps = [1] * n0
        X = np.repeat(X0, reps, axis=0).astype(np.float32)
        perm = npr.permutation(X.shape[0]); X = X[perm]
        n = X.shape[0]; k = rng.randint(max(6, max(reps) + 2), 10)
        metric = "precomputed" if rep % 2 else "euclidean"
        D = np.sqrt(((X.astype(np.float64)[:, None] - X.astype(np.float64)[None]) ** 2).sum(-1))
        desc = dict(api="fuzzy_simplicial_set(apply_set_operations=False)", X=X, k=k, metric=metric, max_copies=max(reps))
        try:
            A, sig, rho = U.fuzzy_simplicial_set(D.astype(np.float32) if metric == "precomputed" else X, k, np.random.RandomState(0), metric,
                                                 apply_set_operations=False)[:3]
            A = A.tocsr(); A.sum_duplicates()
        except Exception as e:
            ctx.fail("fuzzy_simplicial_set:raises", "%s: %s" % (type(e).__name__, e), desc); continue
        ctx.evaluations += n
        ctx.tag(("pipeline", rep, X.tobytes()), ["pipeline_directed_memberships"] + (["repeated_points"] if max(reps) > 1 else []) + (["three_or_more_copies"] if max(reps) > 2 else []))
        Ad = np.asarray(A.todense()).astype(np.float64)
        bad = None
        for i in range(n):
            row = Ad[i]
            if row[i] != 0: bad = "sample %d has membership %r to itself" % (i, row[i]); break
            dup = [j for j in range(n) if j != i and D[i, j] == 0]
            others = [j for j in range(n) if j != i and D[i, j] > 0]
            if len(dup) >= k: continue
            for j in dup:
                if abs(row[j] - 1.0) > 1e-6: bad = "sample %d: zero-distance duplicate %d has strength %r, not 1 (%d copies of the point)" % (i, j, row[j], len(dup) + 1); break
            if bad: break
            nz = [j for j in range(n) if row[j] != 0]
            # (memberships may underflow to exactly 0 in float32 when the target total is unattainable and the bandwidth sits on its floor)
            if len(nz) > k - 1 or len(nz) < len(dup) + 1: bad = "sample %d has %d memberships for k = %d (%d zero-distance duplicates)" % (i, len(nz), k, len(dup)); break
            if np.any(row[nz] <= 0) or np.any(row[nz] > 1 + 1e-6): bad = "sample %d: strength outside (0,1]" % i; break
            dmin = min(D[i, j_] for j_ in others)
            tied = [j_ for j_ in others if D[i, j_] == dmin]          # copies of the nearest distinct point: the table lists some of them
            if abs(max(row[j_] for j_ in tied) - 1.0) > 1e-6:
                bad = "sample %d: nearest distinct neighbour(s) %s have strength %r, not 1" % (i, tied[:3], [float(row[j_]) for j_ in tied[:3]]); break
            order = sorted(nz, key=lambda j_: D[i, j_])
            if any(row[a_] + 1e-6 < row[b_] for a_, b_ in zip(order, order[1:]) if D[i, a_] < D[i, b_]): bad = "sample %d: strengths not non-increasing in distance" % i; break
            if not (np.isfinite(sig[i]) and sig[i] > 0): bad = "sample %d: bandwidth %r" % (i, sig[i]); break
            # the total (self column counted as the kernel does: k-1 neighbours + nothing for self) against log2(k)
            tot = row[nz].sum()
            attainable = (1 + len(dup)) <= np.log2(k) + 1e-9
            if attainable and abs(tot - np.log2(k)) > 2e-3 and sig[i] > 1.001e-3 * D[i][D[i] < np.inf].mean():
                bad = "sample %d: total membership %r, log2(k) = %r" % (i, tot, np.log2(k)); break
        if bad:
            ctx.fail("fuzzy_simplicial_set:directed_memberships", bad, desc)


def fit_cut_probe(ctx, rng):
    """UMAP.fit with a finite disconnection_distance that cuts some but not all neighbours of many samples, the kNN tables being supplied by
    the caller (precomputed_knn) or coming from a precomputed distance matrix: graph_ must be the fuzzy union of the memberships the two
    kernels assign on the CUT table (cut entries infinite: they take no part in the calibration) -- i.e. every sample's kept strengths are
    calibrated to log2(k) over the kept neighbours, not over the k listed ones"""
    import umap, umap.umap_ as U, scipy.sparse as sp_
    for rep in range(2 if ctx.tier == "quick" else 8):
        npr = np.random.RandomState(rng.randrange(2 ** 31))
        n, dim, k = rng.randint(50, 80), rng.randint(2, 4), rng.randint(6, 10)
        X = (npr.normal(size=(n, dim)) * 10 ** rng.uniform(-1, 1)).astype(np.float32)
        D = np.sqrt(((X.astype(np.float64)[:, None] - X.astype(np.float64)[None]) ** 2).sum(-1)).astype(np.float32)
        np.fill_diagonal(D, 0.0); D = np.minimum(D, D.T)
        idx = np.empty((n, k), dtype=np.int64)
        for i in range(n):
            idx[i] = [i] + [int(j) for j in np.argsort(D[i], kind="stable") if j != i][:k - 1]
        dist = np.take_along_axis(D, idx, axis=1).astype(np.float32)
        vals = np.unique(dist[:, 1:]); q = int(len(vals) * rng.uniform(0.55, 0.8))
        t = float((float(vals[q]) + float(vals[q + 1])) / 2)            # strictly between two table values: no tie with the threshold
        cut = dist >= t
        cd, ci = np.where(cut, np.inf, dist).astype(np.float32), np.where(cut, -1, idx)
        partial = int(((cut.sum(1) > 0) & (cut.sum(1) < k - 1)).sum())
        for how in ("precomputed_knn", "precomputed_metric"):
            desc = dict(api="UMAP.fit", how=how, X=X, k=k, disconnection_distance=t, rows_partially_cut=partial)
            try:
                kw = dict(n_neighbors=k, disconnection_distance=t, random_state=1, n_epochs=0)
                if how == "precomputed_knn":
                    m = umap.UMAP(precomputed_knn=(idx.copy(), dist.copy()), **kw).fit(X.copy())
                else:
                    m = umap.UMAP(metric="precomputed", **kw).fit(D.copy())
                G = np.asarray(m.graph_.todense()).astype(np.float64)
                sig, rho = U.smooth_knn_dist(cd.copy(), float(k), local_connectivity=1.0)[:2]
                r_, c_, v_ = U.compute_membership_strengths(ci.copy(), cd.copy(), sig, rho)[:3]
                A = np.asarray(sp_.coo_matrix((v_, (r_, c_)), shape=(n, n)).todense()).astype(np.float64)
            except Exception as e:
                ctx.fail("UMAP.fit:raises:cut_tables", "%s: %s" % (type(e).__name__, str(e)[:160]), desc); continue
            want = A + A.T - A * A.T
            ctx.evaluations += n
            ctx.tag(("fitcut", rep, how, X.tobytes()), ["fit_with_cut_tables", how] + (["rows_partially_cut"] if partial else []))
            dev = np.abs(G - want)
            if dev.max() > 1e-5:
                i, j = np.unravel_index(int(dev.argmax()), dev.shape)
                tot = A[i].sum()
                ctx.fail("UMAP.fit.graph_:not_the_union_of_memberships_on_the_cut_table:%s" % how,
                         "graph_[%d,%d] = %r, the memberships calibrated on the cut table give %r (sample %d keeps %d of %d listed neighbours; its calibrated total is %.4f, log2(k) = %.4f)"
                         % (i, j, G[i, j], want[i, j], i, int((~cut[i]).sum()) - 1, k - 1, tot, np.log2(k)), desc)


def run(ctx):
    ctx.check_proofs(["prop/P_C01.v"])
    # translation tie: Gallina regenerated from the current umap/umap_.py; link theorems (coq/link/L_knn.v) re-checked:
    # translated compute_membership_strengths (return_dists=False, bipartite=False) = mem/memberships over every Num;
    # translated smooth_knn_dist = smooth_knn/smooth_row over R for finite tables (rows with +inf entries: correspondence only)
    lres = link.check(ctx, "umap_knn", {"compute_membership_strengths": "src_compute_membership_strengths_eq",
                                        "smooth_knn_dist": "src_smooth_knn_dist_eq"})
    # the position-by-position / per-row corollaries of the same file are obligations as well
    # ... and the capstone corollaries of K_knn.v: P_C01 statements (bandwidth bounds and floor; strengths in (0,1], = 1 iff within rho,
    # non-increasing in distance) about the translated source itself
    for thm in ("src_compute_membership_strengths_nth", "src_compute_membership_strengths_memberships", "src_smooth_knn_dist_row",
                "C01_src_bandwidth", "C01_src_strengths"):
        ob = "link:umap_knn:" + thm
        ctx.obligations.append(ob)
        bad = [a for a in lres.axioms.get(thm, []) if a not in ALLOWED_AXIOMS and not ctx._primitive(a)]
        if lres.theorems.get(thm) is True and not bad:
            ctx.discharged.append(ob)
        else:
            ctx.broken.append("link[umap_knn]: corollary %s %s" % (thm, ("uses axioms %s" % bad) if bad else (lres.theorems.get(thm) or "is missing")))
    P = srcparams.module_constants("umap/umap_.py", {"SMOOTH_K_TOLERANCE", "MIN_K_DIST_SCALE"})
    dflt = srcparams.func_defaults("umap/umap_.py", "smooth_knn_dist")
    if set(P) != {"SMOOTH_K_TOLERANCE", "MIN_K_DIST_SCALE"} or "n_iter" not in dflt:
        ctx.notes.append("source constants could not be extracted; using the committed defaults")
        P = {"SMOOTH_K_TOLERANCE": 1e-5, "MIN_K_DIST_SCALE": 1e-3, **P}; dflt.setdefault("n_iter", 64)
    ctx.extra["source_params"] = {**P, **dflt}
    rng = ctx.rng
    ntab = 250 if ctx.tier == "quick" else 4000
    terms, cases = [], []
    for t in range(ntab):
        case, tags = gen_table(rng, ctx.tier)
        D, idx, k, lc = case["D"], case["idx"], case["k"], case["lc"]
        try:
            sig, rho, vals, cols = impl(D, idx, k, lc)
        except Exception as e:
            ctx.fail("smooth_knn_dist:raises", "%s: %s" % (type(e).__name__, e), dict(distances=D, indices=idx, k=k, local_connectivity=lc)); continue
        if np.any(sig >= 2.0 ** 60): tags.add("search_exhausted")
        ctx.tag((D.tobytes(), idx.tobytes(), k, lc), sorted(tags))
        ctx.count("k<=5" if k <= 5 else "k<=20" if k <= 20 else "k>20"); ctx.count("scale_decade_%d" % round(math.log10(case["scale"])))
        ctx.sample(dict(distances=D, indices=idx, k=k, local_connectivity=lc, sigma=sig, rho=rho), 2)
        oracle(ctx, case, sig, rho, vals, P)
        # scale invariance on the implementation
        for c in (1e-3, 7.0, 1e4):
            if not (1e-4 <= case["scale"] * c <= 1e6):
                continue
            D2 = (D.astype(np.float64) * c).astype(np.float32)
            if not np.all(np.isfinite(D2) == np.isfinite(D)):
                continue
            s2, r2, v2, _ = impl(D2, idx, k, lc)
            ctx.evaluations += 1
            bad = np.abs(v2.astype(np.float64) - vals.astype(np.float64)) > SATOL
            if np.any(bad) or not np.all(np.isfinite(s2)):
                i, p = (np.argwhere(bad)[0] if np.any(bad) else (0, 0))
                ctx.fail("smooth_knn_dist:scale_variance", "strength changes from %r to %r when distances are multiplied by %g" % (vals[i, p], v2[i, p], c),
                         dict(distances=D, indices=idx, k=k, local_connectivity=lc, factor=c))
        index = int(math.floor(lc)); interp = lc - index
        rows_t = clist([row_term(i, D, idx, sig, rho, vals, lc, P['SMOOTH_K_TOLERANCE']) for i in range(D.shape[0])])
        terms.append("(%s, %d%%nat, %s, %s)" % (fl(math.log2(float(k)) * 1.0), index, fl(interp), rows_t))
        cases.append(dict(distances=D, indices=idx, k=k, local_connectivity=lc, sigma=sig, rho=rho, vals=vals))
    shard = 125
    hdr = ("From Coq Require Import List ZArith PrimFloat. From UV Require Import Num FNum M_smooth V_smooth.\n"
           "Import ListNotations. Open Scope float_scope.\n")
    # source constants must satisfy the theorems' side conditions (proof obligation re-checked per run)
    from fractions import Fraction
    ft, fk = Fraction(P["SMOOTH_K_TOLERANCE"]).limit_denominator(10 ** 12), Fraction(P["MIN_K_DIST_SCALE"]).limit_denominator(10 ** 12)
    ob = ("From Coq Require Import Reals Lra.\nLemma params_ok : (0 < %d / %d)%%R /\\ (0 < %d / %d)%%R /\\ (1 <= %d)%%nat.\nProof. repeat split; try lra; auto with arith. Qed.\n"
          % (ft.numerator, ft.denominator, fk.numerator, fk.denominator, dflt["n_iter"]))
    ctx.obligations.append("gen/params_C01.v:params_ok")
    if ctx.coq_eval("params_C01", ob, what="0 < SMOOTH_K_TOLERANCE, 0 < MIN_K_DIST_SCALE, n_iter >= 1 for the current source values") is not None:
        ctx.discharged.append("gen/params_C01.v:params_ok")
    for s in range(0, len(terms), shard):
        text = hdr + ("Definition cases : list (float * nat * float * list row_obs) := %s.\n"
                      "Eval vm_compute in map (verdict_C01 %s %s %d%%nat %s) cases.\n"
                      % (clist(terms[s:s + shard]), fl(P["SMOOTH_K_TOLERANCE"]), fl(P["MIN_K_DIST_SCALE"]), dflt["n_iter"], fl(SATOL)))
        blocks = ctx.coq_eval("cases_C01_%d" % (s // shard), text, what="smooth_row/memberships vs smooth_knn_dist/compute_membership_strengths")
        if blocks is None:
            continue
        v = parse_zlist(blocks[0])
        if len(v) != len(terms[s:s + shard]):
            ctx.broken.append("C01 verdict list length mismatch"); continue
        for off, code in enumerate(v):
            ctx.traces += 1
            if code != -1:
                field = {1: "rho", 2: "sigma finite/positive", 3: "strengths", 4: "floor"}.get(code % 10, "?")
                ctx.diff(cases[s + off], "row %d: %s" % (code // 10, field))
    pipeline_probe(ctx, rng)
    fit_cut_probe(ctx, rng)
    return ctx.finish(RULE, assumptions=["float32 arithmetic / fastmath of the compiled kernel is observed, not modelled (strength tolerance %g)" % SATOL,
                                           "rows whose floor(lc)-th non-zero entry is infinite (rho = inf) are not generated",
                                           "link theorem for smooth_knn_dist: finite tables only (NPY_INFINITY is the generated function's argument pinf > 2^n_iter); "
                                           "rows with +inf entries are tied to the model by the per-run correspondence only",
                                           "link theorem for compute_membership_strengths: return_dists=False, bipartite=False"])


def replay(rep):
    """re-run the oracle on the stored case against the current tree; True iff it still fails"""
    from vp.common import Ctx
    c = rep.get("case") or (rep.get("diffs") or [{}])[0].get("case")
    if not c:
        return True
    def arr(x, dt):
        return np.array([[np.inf if v == "inf" else v for v in r] for r in x], dtype=dt)
    case = dict(D=arr(c["distances"], np.float32), idx=np.array(c["indices"], dtype=np.int64), k=c["k"], lc=c["local_connectivity"])
    ctx = Ctx("C01", "quick", 0)
    P = {"SMOOTH_K_TOLERANCE": 1e-5, "MIN_K_DIST_SCALE": 1e-3, **srcparams.module_constants("umap/umap_.py", {"SMOOTH_K_TOLERANCE", "MIN_K_DIST_SCALE"})}
    sig, rho, vals, _ = impl(case["D"], case["idx"], case["k"], case["lc"])
    oracle(ctx, case, sig, rho, vals, P)
    if "factor" in c:
        D2 = (case["D"].astype(np.float64) * c["factor"]).astype(np.float32)
        s2, r2, v2, _ = impl(D2, case["idx"], case["k"], case["lc"])
        if np.any(np.abs(v2.astype(np.float64) - vals.astype(np.float64)) > SATOL):
            ctx.fail("scale", "", c)
    for f in ctx.oracle_fail:
        print("  ", f["signature"], f["summary"])
    return bool(ctx.oracle_fail)

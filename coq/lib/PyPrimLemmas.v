(* Lemmas about the translator vocabulary of PyPrim.v: turning index loops into folds over the lists they read. *)
From Coq Require Import List ZArith Bool Lia.
From UV Require Import Num PyPrim.
Import ListNotations.

Lemma for_range_0 {S : Type} (n : nat) (f : Z -> S -> S) (s : S) :
  for_range 0 (Z.of_nat n) f s = fold_left (fun s k => f (Z.of_nat k) s) (seq 0 n) s.
Proof. unfold for_range. rewrite Z.sub_0_r, Nat2Z.id. reflexivity. Qed.

Lemma for_range_zlen {S A : Type} (x : list A) (f : Z -> S -> S) (s : S) :
  for_range 0 (zlen x) f s = fold_left (fun s k => f (Z.of_nat k) s) (seq 0 (length x)) s.
Proof. apply for_range_0. Qed.

Lemma fold_left_ext_in {A B : Type} (f g : A -> B -> A) (l : list B) :
  (forall a b, In b l -> f a b = g a b) -> forall a, fold_left f l a = fold_left g l a.
Proof.
  induction l as [|b l IH]; intros H a; [reflexivity|]. cbn [fold_left].
  rewrite H by (left; reflexivity). apply IH. intros a' b' Hin. apply H. right; exact Hin.
Qed.

Lemma fold_left_seq_shift {S : Type} (F : S -> nat -> S) (n off : nat) (s : S) :
  fold_left F (seq (Datatypes.S off) n) s = fold_left (fun s k => F s (Datatypes.S k)) (seq off n) s.
Proof.
  revert off s; induction n as [|n IH]; intros off s; [reflexivity|].
  cbn [seq fold_left]. apply IH.
Qed.

Lemma wrap_index_nonneg len i : (0 <= i)%Z -> wrap_index len i = i.
Proof. intros H. unfold wrap_index. destruct (Z.ltb_spec i 0); [lia|reflexivity]. Qed.

Lemma znth_of_nat {A : Type} (d : A) (l : list A) (k : nat) : znth d l (Z.of_nat k) = nth k l d.
Proof.
  unfold znth. rewrite wrap_index_nonneg by lia.
  destruct (Z.ltb_spec (Z.of_nat k) 0); [lia|]. rewrite Nat2Z.id. reflexivity.
Qed.

Lemma vnth_of_nat (N : Num) (x : list N) (k : nat) : vnth N x (Z.of_nat k) = nth k x (zero N).
Proof. apply znth_of_nat. Qed.

Lemma inth_of_nat (x : list Z) (k : nat) : inth x (Z.of_nat k) = nth k x 0%Z.
Proof. apply znth_of_nat. Qed.

Lemma zset_of_nat {A : Type} (l : list A) (k : nat) (v : A) : zset l (Z.of_nat k) v = set_nth_nat l k v.
Proof.
  unfold zset. rewrite wrap_index_nonneg by lia.
  destruct (Z.ltb_spec (Z.of_nat k) 0); [lia|]. rewrite Nat2Z.id. reflexivity.
Qed.

(* one list *)
Lemma fold_seq_list {S A : Type} (d : A) (G : S -> A -> S) (x : list A) (F : S -> nat -> S) :
  (forall k s, k < length x -> F s k = G s (nth k x d)) ->
  forall s, fold_left F (seq 0 (length x)) s = fold_left G x s.
Proof.
  revert F; induction x as [|a x IH]; intros F H s; [reflexivity|].
  cbn [length seq fold_left]. rewrite (H 0 s) by (cbn; lia). cbn [nth].
  rewrite fold_left_seq_shift. apply IH. intros k s' Hk. rewrite (H (Datatypes.S k)) by (cbn; lia). reflexivity.
Qed.

(* two lists of equal length, read at the same index *)
Lemma fold_seq_list2 {S A B : Type} (da : A) (db : B) (G : S -> A -> B -> S) (x : list A) (y : list B) (F : S -> nat -> S) :
  length x = length y ->
  (forall k s, k < length x -> F s k = G s (nth k x da) (nth k y db)) ->
  forall s, fold_left F (seq 0 (length x)) s = fold_left (fun s ab => G s (fst ab) (snd ab)) (combine x y) s.
Proof.
  revert y F; induction x as [|a x IH]; intros [|b y] F L H s; try discriminate; [reflexivity|].
  cbn [length seq fold_left combine fst snd]. rewrite (H 0 s) by (cbn; lia). cbn [nth].
  rewrite fold_left_seq_shift. apply IH; [cbn in L; lia|].
  intros k s' Hk. rewrite (H (Datatypes.S k)) by (cbn; lia). reflexivity.
Qed.

(* three lists *)
Lemma fold_seq_list3 {S A B C : Type} (da : A) (db : B) (dc : C) (G : S -> A -> B -> C -> S)
      (x : list A) (y : list B) (z : list C) (F : S -> nat -> S) :
  length x = length y -> length x = length z ->
  (forall k s, k < length x -> F s k = G s (nth k x da) (nth k y db) (nth k z dc)) ->
  forall s, fold_left F (seq 0 (length x)) s
            = fold_left (fun s abc => G s (fst (fst abc)) (snd (fst abc)) (snd abc)) (combine (combine x y) z) s.
Proof.
  revert y z F; induction x as [|a x IH]; intros [|b y] [|c z] F L1 L2 H s; try discriminate; [reflexivity|].
  cbn [length seq fold_left combine fst snd]. rewrite (H 0 s) by (cbn; lia). cbn [nth].
  rewrite fold_left_seq_shift. apply IH; [cbn in L1; lia|cbn in L2; lia|].
  intros k s' Hk. rewrite (H (Datatypes.S k)) by (cbn; lia). reflexivity.
Qed.

(* folds over a map / over the pointwise combination of two lists *)
Lemma fold_left_map {S A B : Type} (g : S -> B -> S) (t : A -> B) (l : list A) (s : S) :
  fold_left g (map t l) s = fold_left (fun s a => g s (t a)) l s.
Proof. revert s; induction l as [|a l IH]; intros s; [reflexivity|]. cbn [map fold_left]. apply IH. Qed.

(* independent accumulators in one loop = separate loops *)
Lemma fold_left_pair {A B X : Type} (f : A -> X -> A) (g : B -> X -> B) (l : list X) (a : A) (b : B) :
  fold_left (fun s x => (f (fst s) x, g (snd s) x)) l (a, b) = (fold_left f l a, fold_left g l b).
Proof. revert a b; induction l as [|x l IH]; intros a b; [reflexivity|]. cbn [fold_left fst snd]. apply IH. Qed.

Lemma fold_left_ext {A B : Type} (f g : A -> B -> A) (l : list B) :
  (forall a b, f a b = g a b) -> forall a, fold_left f l a = fold_left g l a.
Proof. intros H. apply fold_left_ext_in. intros; apply H. Qed.

(* the index loop over [0, len x) reading x (and y, z) only at the loop index *)
Lemma for_range_list {S : Type} (N : Num) (G : S -> N -> S) (x : list N) (f : Z -> S -> S) :
  (forall k s, f (Z.of_nat k) s = G s (vnth N x (Z.of_nat k))) ->
  forall s, for_range 0 (zlen x) f s = fold_left G x s.
Proof.
  intros H s. rewrite for_range_zlen. apply (fold_seq_list (zero N)).
  intros k s' _. rewrite H, vnth_of_nat. reflexivity.
Qed.

Lemma for_range_list2 {S : Type} (N : Num) (G : S -> N -> N -> S) (x y : list N) (f : Z -> S -> S) :
  length x = length y ->
  (forall k s, f (Z.of_nat k) s = G s (vnth N x (Z.of_nat k)) (vnth N y (Z.of_nat k))) ->
  forall s, for_range 0 (zlen x) f s = fold_left (fun s ab => G s (fst ab) (snd ab)) (combine x y) s.
Proof.
  intros L H s. rewrite for_range_zlen. apply (fold_seq_list2 (zero N) (zero N)); [exact L|].
  intros k s' _. rewrite H, !vnth_of_nat. reflexivity.
Qed.

Lemma for_range_list3 {S : Type} (N : Num) (G : S -> N -> N -> N -> S) (x y z : list N) (f : Z -> S -> S) :
  length x = length y -> length x = length z ->
  (forall k s, f (Z.of_nat k) s = G s (vnth N x (Z.of_nat k)) (vnth N y (Z.of_nat k)) (vnth N z (Z.of_nat k))) ->
  forall s, for_range 0 (zlen x) f s
            = fold_left (fun s abc => G s (fst (fst abc)) (snd (fst abc)) (snd abc)) (combine (combine x y) z) s.
Proof.
  intros L1 L2 H s. rewrite for_range_zlen. apply (fold_seq_list3 (zero N) (zero N) (zero N)); [exact L1|exact L2|].
  intros k s' _. rewrite H, !vnth_of_nat. reflexivity.
Qed.

(* general element types (rows of a matrix, int arrays) *)
Lemma for_range_glist2 {S A B : Type} (da : A) (db : B) (G : S -> A -> B -> S) (x : list A) (y : list B) (f : Z -> S -> S) :
  length x = length y ->
  (forall k s, f (Z.of_nat k) s = G s (znth da x (Z.of_nat k)) (znth db y (Z.of_nat k))) ->
  forall s, for_range 0 (zlen x) f s = fold_left (fun s ab => G s (fst ab) (snd ab)) (combine x y) s.
Proof.
  intros L H s. rewrite for_range_zlen. apply (fold_seq_list2 da db); [exact L|].
  intros k s' _. rewrite H, !znth_of_nat. reflexivity.
Qed.

(* filling an array index by index *)
Lemma set_nth_nat_length {A : Type} (l : list A) k v : length (set_nth_nat l k v) = length l.
Proof. revert k; induction l as [|a l IH]; intros [|k]; cbn; auto. Qed.

Lemma set_nth_nat_app {A : Type} (p l : list A) (v : A) :
  l <> [] -> set_nth_nat (p ++ l) (length p) v = p ++ v :: tl l.
Proof. intros Hl. induction p as [|a p IH]; cbn; [destruct l; [contradiction|reflexivity]|]. f_equal. exact IH. Qed.

Lemma fill_fold {A : Type} (g : nat -> A) (n : nat) : forall (p l : list A),
  length l = n ->
  fold_left (fun d k => set_nth_nat d k (g k)) (seq (length p) n) (p ++ l) = p ++ map g (seq (length p) n).
Proof.
  induction n as [|n IH]; intros p l Hl.
  - destruct l; [|discriminate]. reflexivity.
  - destruct l as [|a l]; [discriminate|]. cbn [seq fold_left map].
    rewrite set_nth_nat_app by discriminate. cbn [tl].
    change (p ++ g (length p) :: l) with (p ++ [g (length p)] ++ l). rewrite app_assoc.
    replace (Datatypes.S (length p)) with (length (p ++ [g (length p)])) by (rewrite app_length; cbn; lia).
    rewrite IH by (cbn in Hl; lia). rewrite <- app_assoc. reflexivity.
Qed.

Lemma for_range_fill (N : Num) (g : nat -> N) (n : nat) :
  for_range 0 (Z.of_nat n) (fun i d => vset N d i (g (Z.to_nat i))) (vzeros N (Z.of_nat n)) = map g (seq 0 n).
Proof.
  rewrite for_range_0. unfold vzeros. rewrite Nat2Z.id.
  rewrite (fold_left_ext (fun d k => vset N d (Z.of_nat k) (g (Z.to_nat (Z.of_nat k)))) (fun d k => set_nth_nat d k (g k))).
  - apply (fill_fold g n [] (repeat (zero N) n)). apply repeat_length.
  - intros d k. unfold vset. rewrite zset_of_nat, Nat2Z.id. reflexivity.
Qed.

Lemma map_seq_nth2 {A B C : Type} (da : A) (db : B) (h : A -> B -> C) (x : list A) (y : list B) :
  length x = length y ->
  map (fun k => h (nth k x da) (nth k y db)) (seq 0 (length x)) = map (fun ab => h (fst ab) (snd ab)) (combine x y).
Proof.
  revert y; induction x as [|a x IH]; intros [|b y] L; try discriminate; [reflexivity|].
  cbn [length seq map combine fst snd nth]. f_equal. rewrite <- seq_shift, map_map. apply IH. cbn in L; lia.
Qed.

Lemma for_range_fill2 (N : Num) (h : N -> N -> N) (x y : list N) (f : Z -> list N -> list N) :
  length x = length y ->
  (forall k d, f (Z.of_nat k) d = vset N d (Z.of_nat k) (h (vnth N x (Z.of_nat k)) (vnth N y (Z.of_nat k)))) ->
  for_range 0 (zlen x) f (vzeros N (zlen x)) = map (fun ab => h (fst ab) (snd ab)) (combine x y).
Proof.
  intros L H. rewrite for_range_zlen. unfold vzeros, zlen. rewrite Nat2Z.id.
  rewrite (fold_left_ext _ (fun d k => set_nth_nat d k (h (nth k x (zero N)) (nth k y (zero N))))).
  - pose proof (fill_fold (fun k => h (nth k x (zero N)) (nth k y (zero N))) (length x) [] (repeat (zero N) (length x))
                          (repeat_length _ _)) as F.
    cbn [app length] in F. rewrite F. apply map_seq_nth2. exact L.
  - intros d k. rewrite H. unfold vset. rewrite zset_of_nat, !vnth_of_nat. reflexivity.
Qed.

(* updating an array in place, index by index, each cell from its own old value *)
Fixpoint mapi_from {A : Type} (k : nat) (H : nat -> A -> A) (l : list A) : list A :=
  match l with [] => [] | a :: l' => H k a :: mapi_from (Datatypes.S k) H l' end.

Lemma nth_app_length {A : Type} (p l : list A) (d : A) : nth (length p) (p ++ l) d = nth 0 l d.
Proof. induction p as [|a p IH]; [reflexivity|]. cbn. exact IH. Qed.

Lemma update_fold {A : Type} (d : A) (H : nat -> A -> A) : forall (l p : list A),
  fold_left (fun v k => set_nth_nat v k (H k (nth k v d))) (seq (length p) (length l)) (p ++ l) = p ++ mapi_from (length p) H l.
Proof.
  induction l as [|a l IH]; intros p; [reflexivity|].
  cbn [length seq fold_left mapi_from]. rewrite nth_app_length. cbn [nth].
  rewrite set_nth_nat_app by discriminate. cbn [tl].
  change (p ++ H (length p) a :: l) with (p ++ [H (length p) a] ++ l). rewrite app_assoc.
  replace (Datatypes.S (length p)) with (length (p ++ [H (length p) a])) by (rewrite app_length; cbn; lia).
  rewrite IH. rewrite <- app_assoc. reflexivity.
Qed.

Lemma set_nth_nat_same {A : Type} (d : A) (l : list A) (k : nat) : set_nth_nat l k (nth k l d) = l.
Proof. revert k; induction l as [|a l IH]; intros [|k]; cbn; try reflexivity. f_equal. apply IH. Qed.

Lemma vset_same (N : Num) (v : list N) (k : nat) : vset N v (Z.of_nat k) (vnth N v (Z.of_nat k)) = v.
Proof. unfold vset. rewrite zset_of_nat, vnth_of_nat. apply set_nth_nat_same. Qed.

Lemma for_range_update (N : Num) (H : nat -> N -> N) (n : nat) (v : list N) (f : Z -> list N -> list N) :
  n = length v ->
  (forall k vals, f (Z.of_nat k) vals = vset N vals (Z.of_nat k) (H k (vnth N vals (Z.of_nat k)))) ->
  for_range 0 (Z.of_nat n) f v = mapi_from 0 H v.
Proof.
  intros -> Hf. rewrite for_range_0.
  rewrite (fold_left_ext _ (fun vals k => set_nth_nat vals k (H k (nth k vals (zero N))))).
  - apply (update_fold (zero N) H v []).
  - intros vals k. rewrite Hf. unfold vset. rewrite zset_of_nat, vnth_of_nat. reflexivity.
Qed.

Lemma mapi_from_combine2 {A B C : Type} (da : A) (db : B) (h : A -> B -> C -> C) :
  forall (v : list C) (x : list A) (y : list B) (off : nat) (H : nat -> C -> C),
  length x = length v -> length y = length v ->
  (forall i c, i < length v -> H (off + i) c = h (nth i x da) (nth i y db) c) ->
  mapi_from off H v = map (fun abc => h (fst (fst abc)) (snd (fst abc)) (snd abc)) (combine (combine x y) v).
Proof.
  induction v as [|c v IH]; intros [|a x] [|b y] off H L1 L2 Hh; try discriminate; [reflexivity|].
  cbn [mapi_from combine map fst snd]. f_equal.
  - rewrite <- (Nat.add_0_r off). rewrite Hh by (cbn; lia). reflexivity.
  - apply IH; [cbn in L1; lia|cbn in L2; lia|].
    intros i c' Hi. replace (Datatypes.S off + i) with (off + Datatypes.S i) by lia. rewrite Hh by (cbn; lia). reflexivity.
Qed.

(* ---- while loops under a budget ---------------------------------------------------------------------------- *)
Lemma while_fuel_false {S : Type} (n : nat) (c : S -> bool) (f : S -> S) (s : S) :
  c s = false -> while_fuel n c f s = (s, true).
Proof. intros H. destruct n; cbn [while_fuel]; rewrite H; reflexivity. Qed.

Lemma while_fuel_step {S : Type} (n : nat) (c : S -> bool) (f : S -> S) (s : S) :
  c s = true -> while_fuel (Datatypes.S n) c f s = while_fuel n c f (f s).
Proof. intros H. cbn [while_fuel]. rewrite H. reflexivity. Qed.

(* the generated closures may be replaced by extensionally equal ones *)
Lemma while_fuel_ext {S : Type} (c c' : S -> bool) (f f' : S -> S) :
  (forall s, c s = c' s) -> (forall s, f s = f' s) ->
  forall n s, while_fuel n c f s = while_fuel n c' f' s.
Proof.
  intros Hc Hf n. induction n as [|n IH]; intros s; cbn [while_fuel]; rewrite Hc; [reflexivity|].
  destruct (c' s); [|reflexivity]. rewrite Hf. apply IH.
Qed.

(* a result with ok = true does not depend on the size of the budget *)
Lemma while_fuel_mono {S : Type} (c : S -> bool) (f : S -> S) :
  forall n s r, while_fuel n c f s = (r, true) -> forall m, n <= m -> while_fuel m c f s = (r, true).
Proof.
  induction n as [|n IH]; intros s r H m Hm.
  - cbn [while_fuel] in H. injection H as <- Hc. apply while_fuel_false. destruct (c s); [discriminate|reflexivity].
  - destruct m as [|m]; [lia|]. cbn [while_fuel] in *. destruct (c s); [|exact H]. apply (IH _ _ H). lia.
Qed.

(* ---- cursors: reading / writing at the end of a written prefix, truncation --------------------------------- *)
Lemma Z_eqb_of_nat (i j : nat) : (Z.of_nat i =? Z.of_nat j)%Z = Nat.eqb i j.
Proof. destruct (Nat.eqb_spec i j) as [->|H]; [apply Z.eqb_refl|]. apply Z.eqb_neq. lia. Qed.

Lemma Z_ltb_of_nat (i j : nat) : (Z.of_nat i <? Z.of_nat j)%Z = Nat.ltb i j.
Proof. destruct (Nat.ltb_spec i j); [apply Z.ltb_lt|apply Z.ltb_ge]; lia. Qed.

Lemma Z_of_nat_succ (n : nat) : (Z.of_nat n + 1)%Z = Z.of_nat (Datatypes.S n).
Proof. lia. Qed.

Lemma znth_app_mid {A : Type} (d : A) (p l : list A) (x : A) : znth d (p ++ x :: l) (Z.of_nat (length p)) = x.
Proof. rewrite znth_of_nat. apply nth_middle. Qed.

Lemma zset_app_mid {A : Type} (p l : list A) (x v : A) : zset (p ++ x :: l) (Z.of_nat (length p)) v = p ++ v :: l.
Proof. rewrite zset_of_nat. rewrite set_nth_nat_app by discriminate. reflexivity. Qed.

Lemma zslice_to_app {A : Type} (p l : list A) : zslice_to (p ++ l) (Z.of_nat (length p)) = p.
Proof.
  unfold zslice_to. destruct (Z.ltb_spec (Z.of_nat (length p)) 0); [lia|].
  rewrite Nat2Z.id. rewrite firstn_app, Nat.sub_diag, firstn_all. cbn [firstn]. apply app_nil_r.
Qed.

Lemma zslice_to_nonneg {A : Type} (l : list A) (n : nat) : zslice_to l (Z.of_nat n) = firstn n l.
Proof. unfold zslice_to. destruct (Z.ltb_spec (Z.of_nat n) 0); [lia|]. rewrite Nat2Z.id. reflexivity. Qed.
(* ---- loop invariants, loops whose body ignores the index, loops from 1 ------------------------------------------ *)
Lemma fold_seq_ind {S : Type} (P : nat -> S -> Prop) (F : S -> nat -> S) (n : nat) : forall (off : nat) (s : S),
  P off s -> (forall k s, off <= k < off + n -> P k s -> P (Datatypes.S k) (F s k)) ->
  P (off + n) (fold_left F (seq off n) s).
Proof.
  induction n as [|n IH]; intros off s H0 Hs.
  - rewrite Nat.add_0_r. exact H0.
  - cbn [seq fold_left]. replace (off + Datatypes.S n) with (Datatypes.S off + n) by lia.
    apply IH; [apply Hs; [lia|exact H0]|]. intros k s' Hk. apply Hs. lia.
Qed.

(* the invariant rule for `for i in range(n)` *)
Lemma for_range_ind {S : Type} (P : nat -> S -> Prop) (n : nat) (f : Z -> S -> S) (s : S) :
  P 0 s -> (forall k s, k < n -> P k s -> P (Datatypes.S k) (f (Z.of_nat k) s)) ->
  P n (for_range 0 (Z.of_nat n) f s).
Proof.
  intros H0 Hs. rewrite for_range_0. apply (fold_seq_ind P (fun s k => f (Z.of_nat k) s) n 0 s H0).
  intros k s' Hk. apply Hs. lia.
Qed.

Lemma for_range_ext {S : Type} (n : nat) (f g : Z -> S -> S) (s : S) :
  (forall k s, k < n -> f (Z.of_nat k) s = g (Z.of_nat k) s) ->
  for_range 0 (Z.of_nat n) f s = for_range 0 (Z.of_nat n) g s.
Proof.
  intros H. rewrite !for_range_0. apply fold_left_ext_in. intros a b Hin. apply in_seq in Hin. apply H. lia.
Qed.

(* `for _ in range(n): s = F s` *)
Fixpoint iter_l {S : Type} (n : nat) (F : S -> S) (s : S) : S :=
  match n with O => s | Datatypes.S n' => iter_l n' F (F s) end.

Lemma for_range_iter {S : Type} (n : nat) (F : S -> S) (s : S) :
  for_range 0 (Z.of_nat n) (fun _ s => F s) s = iter_l n F s.
Proof.
  rewrite for_range_0. generalize 0 as off. revert s.
  induction n as [|n IH]; intros s off; [reflexivity|]. cbn [seq fold_left iter_l]. apply IH.
Qed.

(* `for j in range(1, len(x))` reading x[j] *)
Lemma for_range_tl {S : Type} (N : Num) (G : S -> N -> S) (x : list N) (f : Z -> S -> S) :
  (forall k s, f (Z.of_nat (Datatypes.S k)) s = G s (vnth N x (Z.of_nat (Datatypes.S k)))) ->
  forall s, for_range 1 (zlen x) f s = fold_left G (tl x) s.
Proof.
  intros H s. unfold for_range, zlen.
  replace (Z.to_nat (Z.of_nat (length x) - 1)) with (length (tl x)) by (destruct x; cbn [length tl]; lia).
  apply (fold_seq_list (zero N)). intros k s' Hk.
  replace (1 + Z.of_nat k)%Z with (Z.of_nat (Datatypes.S k)) by lia.
  rewrite H, vnth_of_nat. destruct x; [destruct k; reflexivity|reflexivity].
Qed.

(* ---- reads after writes ---------------------------------------------------------------------------------------- *)
Lemma nth_set_nth_nat_same {A : Type} (d : A) (l : list A) (k : nat) (v : A) :
  k < length l -> nth k (set_nth_nat l k v) d = v.
Proof. revert k; induction l as [|a l IH]; intros [|k] H; cbn in *; try lia; [reflexivity|]. apply IH. lia. Qed.

Lemma nth_set_nth_nat_other {A : Type} (d : A) (l : list A) (k j : nat) (v : A) :
  j <> k -> nth j (set_nth_nat l k v) d = nth j l d.
Proof. revert k j; induction l as [|a l IH]; intros [|k] [|j] H; cbn; try reflexivity; try lia. apply IH. lia. Qed.

Lemma set_nth_nat_twice {A : Type} (l : list A) (k : nat) (v w : A) :
  set_nth_nat (set_nth_nat l k v) k w = set_nth_nat l k w.
Proof. revert k; induction l as [|a l IH]; intros [|k]; cbn; try reflexivity. f_equal. apply IH. Qed.

Lemma vset_of_nat (N : Num) (x : list N) (k : nat) (v : N) : vset N x (Z.of_nat k) v = set_nth_nat x k v.
Proof. apply zset_of_nat. Qed.

Lemma iset_of_nat (x : list Z) (k : nat) (v : Z) : iset x (Z.of_nat k) v = set_nth_nat x k v.
Proof. apply zset_of_nat. Qed.

(* ---- arrays filled position by position: [filled g c total d] = g 0 .. g (c-1) followed by the initial value ------ *)
Definition filled {A : Type} (g : nat -> A) (c total : nat) (d : A) : list A :=
  map g (seq 0 c) ++ repeat d (total - c).

Lemma filled_0 {A : Type} (g : nat -> A) (total : nat) (d : A) : filled g 0 total d = repeat d total.
Proof. unfold filled. rewrite Nat.sub_0_r. reflexivity. Qed.

Lemma filled_full {A : Type} (g : nat -> A) (total : nat) (d : A) : filled g total total d = map g (seq 0 total).
Proof. unfold filled. rewrite Nat.sub_diag. apply app_nil_r. Qed.

Lemma filled_length {A : Type} (g : nat -> A) (c total : nat) (d : A) : c <= total -> length (filled g c total d) = total.
Proof. intros H. unfold filled. rewrite app_length, map_length, seq_length, repeat_length. lia. Qed.

Lemma filled_set {A : Type} (g : nat -> A) (c total : nat) (d : A) :
  c < total -> set_nth_nat (filled g c total d) c (g c) = filled g (Datatypes.S c) total d.
Proof.
  intros H. unfold filled. replace (total - c) with (Datatypes.S (total - Datatypes.S c)) by lia. cbn [repeat].
  pose proof (set_nth_nat_app (map g (seq 0 c)) (d :: repeat d (total - Datatypes.S c)) (g c)) as E.
  rewrite map_length, seq_length in E. rewrite E by discriminate. cbn [tl].
  rewrite seq_S, map_app, <- app_assoc. reflexivity.
Qed.

Lemma filled_skip {A : Type} (g : nat -> A) (c total : nat) (d : A) :
  c < total -> g c = d -> filled g c total d = filled g (Datatypes.S c) total d.
Proof.
  intros H E. unfold filled. replace (total - c) with (Datatypes.S (total - Datatypes.S c)) by lia. cbn [repeat].
  rewrite seq_S, map_app, <- app_assoc. cbn [map app plus]. rewrite E. reflexivity.
Qed.

Lemma filled_nth_next {A : Type} (g : nat -> A) (c total : nat) (d : A) : nth c (filled g c total d) d = d.
Proof.
  unfold filled. rewrite app_nth2; rewrite map_length, seq_length; [|lia]. rewrite Nat.sub_diag.
  destruct (total - c); reflexivity.
Qed.

Lemma map_seq_nth {A B : Type} (d : A) (h : A -> B) (x : list A) :
  map (fun k => h (nth k x d)) (seq 0 (length x)) = map h x.
Proof.
  induction x as [|a x IH]; [reflexivity|]. cbn [length seq map nth]. f_equal.
  rewrite <- seq_shift, map_map. exact IH.
Qed.

(* ---- masks, 2-d shapes ----------------------------------------------------------------------------------------- *)
Lemma vfilter_all (N : Num) (p : N -> bool) (x : list N) : Forall (fun a => p a = true) x -> vfilter N p x = x.
Proof. unfold vfilter. induction 1 as [|a x Ha _ IH]; [reflexivity|]. cbn [filter]. rewrite Ha, IH. reflexivity. Qed.

Lemma msize_rect {A : Type} (m : list (list A)) (k : nat) :
  Forall (fun r => length r = k) m -> msize m = Z.of_nat (length m * k).
Proof.
  intros H. unfold msize, zlen. destruct m as [|r m]; [reflexivity|].
  change 0%Z with (Z.of_nat 0). rewrite znth_of_nat. cbn [nth]. inversion H; subst. lia.
Qed.

Lemma flat_div (i k j : nat) : j < k -> (i * k + j) / k = i.
Proof. intros H. rewrite Nat.div_add_l by lia. rewrite Nat.div_small by exact H. lia. Qed.
Lemma flat_mod (i k j : nat) : j < k -> (i * k + j) mod k = j.
Proof. intros H. rewrite Nat.add_comm, Nat.mod_add by lia. apply Nat.mod_small. exact H. Qed.

Lemma set_nth_nat_id {A : Type} (d : A) (l : list A) (k : nat) : set_nth_nat l k (nth k l d) = l.
Proof. revert k; induction l as [|a l IH]; intros [|k]; cbn; try reflexivity. f_equal. apply IH. Qed.

(* ---- `out = np.empty(len(x)); for i in range(len(x)): out[i] = h x[i]` ----------------------------------------------- *)
Lemma for_range_fill1 (N : Num) (h : N -> N) (x : list N) (f : Z -> list N -> list N) :
  (forall k d, f (Z.of_nat k) d = vset N d (Z.of_nat k) (h (vnth N x (Z.of_nat k)))) ->
  for_range 0 (zlen x) f (vzeros N (zlen x)) = map h x.
Proof.
  intros H. rewrite for_range_zlen. unfold vzeros, zlen. rewrite Nat2Z.id.
  rewrite (fold_left_ext _ (fun d k => set_nth_nat d k (h (nth k x (zero N))))).
  - pose proof (fill_fold (fun k => h (nth k x (zero N))) (length x) [] (repeat (zero N) (length x)) (repeat_length _ _)) as F.
    cbn [app length] in F. rewrite F. apply map_seq_nth.
  - intros d k. rewrite H. unfold vset. rewrite zset_of_nat, vnth_of_nat. reflexivity.
Qed.

(* ---- `k in set(a)`: on an index array that is the image of a list of naturals --------------------------------------- *)
Lemma zmem_of_nat (k : nat) (l : list nat) : zmem (Z.of_nat k) (map Z.of_nat l) = existsb (Nat.eqb k) l.
Proof. unfold zmem. induction l as [|j l IH]; [reflexivity|]. cbn [map existsb]. rewrite Z_eqb_of_nat, IH. reflexivity. Qed.
(* ---- slices `a[lo:hi]`, slice stores `x[lo:hi] = e` --------------------------------------------------------------- *)
Lemma slice_idx_of_nat (len : Z) (k : nat) : slice_idx len (Z.of_nat k) = k.
Proof. unfold slice_idx. destruct (Z.ltb_spec (Z.of_nat k) 0); [lia|]. apply Nat2Z.id. Qed.

Lemma zslice_of_nat {A : Type} (l : list A) (a b : nat) : zslice l (Z.of_nat a) (Z.of_nat b) = skipn a (firstn b l).
Proof. unfold zslice. rewrite !slice_idx_of_nat. reflexivity. Qed.

(* the segment [len p, len p + len r) of p ++ r ++ s *)
Lemma zslice_app3 {A : Type} (p r s : list A) :
  zslice (p ++ r ++ s) (Z.of_nat (length p)) (Z.of_nat (length p + length r)) = r.
Proof.
  rewrite zslice_of_nat. rewrite app_assoc. replace (length p + length r) with (length (p ++ r)) by apply app_length.
  rewrite firstn_app, firstn_all, Nat.sub_diag. cbn [firstn]. rewrite app_nil_r.
  rewrite skipn_app, skipn_all, Nat.sub_diag. reflexivity.
Qed.

Lemma zset_slice_app3 {A : Type} (p r s e : list A) : length e = length r ->
  zset_slice (p ++ r ++ s) (Z.of_nat (length p)) (Z.of_nat (length p + length r)) e = p ++ e ++ s.
Proof.
  intros L. unfold zset_slice. rewrite zslice_app3, L, Nat.eqb_refl, slice_idx_of_nat.
  rewrite firstn_app, firstn_all, Nat.sub_diag. cbn [firstn]. rewrite app_nil_r. f_equal. f_equal.
  rewrite app_assoc. replace (length p + length r) with (length (p ++ r)) by apply app_length.
  rewrite skipn_app, skipn_all, Nat.sub_diag. reflexivity.
Qed.

(* `np.all(a == b)` on int arrays: under the length test it is equality of the two arrays *)
Lemma zall_eq_spec (a b : list Z) : length a = length b -> (zall_eq a b = true <-> a = b).
Proof.
  unfold zall_eq. revert b. induction a as [|i a IH]; intros [|j b] L; try discriminate; [split; reflexivity|].
  cbn [combine forallb fst snd]. rewrite andb_true_iff, Z.eqb_eq, (IH b) by (cbn in L; lia).
  split; [intros [-> ->]; reflexivity|intros H; injection H; auto].
Qed.
Lemma zall_eq_len_iff (a b : list Z) : (zlen a =? zlen b)%Z && zall_eq a b = true <-> a = b.
Proof.
  split.
  - intros H. apply andb_true_iff in H. destruct H as [H1 H2]. apply Z.eqb_eq in H1. unfold zlen in H1.
    apply zall_eq_spec; [lia|exact H2].
  - intros ->. rewrite Z.eqb_refl. apply zall_eq_spec; reflexivity.
Qed.

(* `for v in a: acc += h(v)` *)
Lemma for_each_fold {A S : Type} (l : list A) (f : A -> S -> S) (s : S) : for_each l f s = fold_left (fun s a => f a s) l s.
Proof. reflexivity. Qed.
Lemma for_each_acc (N : Num) (h : N -> N) (l : list N) (s : N) :
  for_each l (fun v acc => add N acc (h v)) s = fold_left (add N) (map h l) s.
Proof. unfold for_each. rewrite fold_left_map. reflexivity. Qed.


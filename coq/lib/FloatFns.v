(* Software exp / ln / pow and float <-> Z conversions on binary64 primitive floats.
   UNVERIFIED code: used only on the correspondence (evaluation) leg, never in a theorem.
   Cross-checked on every run against Python's math module by harness/selftest. *)
From Coq Require Import ZArith Bool Uint63 PrimFloat List.
Import ListNotations.
Open Scope bool_scope. Open Scope float_scope.

Definition fshift : Z := 2101%Z.
Definition f_ldexp (f : float) (e : Z) : float :=
  ldshiftexp f (Uint63.of_Z (Z.max (-2098) (Z.min e 2098) + fshift)).
Definition f_frexp (f : float) : float * Z :=
  let (m, se) := frshiftexp f in (m, (Uint63.to_Z se - fshift)%Z).

Definition f_isnan (x : float) : bool := negb (x =? x).
Definition f_isinf (x : float) : bool := (abs x =? infinity).
Definition f_finite (x : float) : bool := (abs x <? infinity).

(* truncation toward zero of a finite float, as an integer *)
Definition f_to_Z (x : float) : Z :=
  if f_isnan x then 0%Z else
  if f_isinf x then 0%Z else
  let a := abs x in
  if a <? 1 then 0%Z else
  let (m, e) := f_frexp a in               (* a = m * 2^e, m in [0.5,1) *)
  let mant := Uint63.to_Z (normfr_mantissa m) in   (* m * 2^53 *)
  let v := if (e <? 53)%Z then Z.shiftr mant (53 - e) else Z.shiftl mant (e - 53) in
  if x <? 0 then (- v)%Z else v.

Definition f_of_Z (z : Z) : float :=
  match z with
  | Z0 => 0
  | Zpos p => if (z <? 9223372036854775807)%Z then of_uint63 (Uint63.of_Z z)
              else f_ldexp (of_uint63 (Uint63.of_Z (Z.shiftr z 40))) 40
  | Zneg p => let z' := Z.pos p in
              - (if (z' <? 9223372036854775807)%Z then of_uint63 (Uint63.of_Z z')
                 else f_ldexp (of_uint63 (Uint63.of_Z (Z.shiftr z' 40))) 40)
  end.

Definition f_floor (x : float) : Z :=
  let t := f_to_Z x in
  if (f_of_Z t) <=? x then t else (t - 1)%Z.

(* IEEE-754 binary64 bit pattern (as a non-negative Z below 2^64) of a finite or infinite float *)
Definition f_bits (x : float) : Z :=
  let sign := if (x <? 0) || ((x =? 0) && (1 / x <? 0)) then Z.shiftl 1 63 else 0%Z in
  let a := abs x in
  if f_isnan x then 9221120237041090560%Z else
  if a =? 0 then sign else
  if f_isinf a then (sign + Z.shiftl 2047 52)%Z else
  let (m, e) := f_frexp a in
  let mant := Uint63.to_Z (normfr_mantissa m) in   (* in [2^52, 2^53) *)
  let be := (e - 1 + 1023)%Z in
  if (0 <? be)%Z then (sign + Z.shiftl be 52 + (mant - Z.shiftl 1 52))%Z
  else (sign + Z.shiftr mant (1 - be))%Z.

(* round a binary64 value to the nearest binary32 value (ties to even), returned as a binary64;
   overflow to infinity above the binary32 range; binary32 subnormals are handled by rounding at the
   fixed exponent -149 *)
Definition f_round32 (x : float) : float :=
  if f_isnan x then x else
  if f_isinf x then x else
  if x =? 0 then x else
  let a := abs x in
  let (m, e) := f_frexp a in                      (* a = m * 2^e, m in [0.5,1) *)
  let mant := Uint63.to_Z (normfr_mantissa m) in   (* 53-bit integer, a = mant * 2^(e-53) *)
  (* keep 24 bits normally; fewer when e < -125 (binary32 subnormal range) *)
  let drop := Z.max 29 (29 + (-125 - e)) in
  let r :=
    if (53 <? drop)%Z then 0%Z else
    let q := Z.shiftr mant drop in
    let rem := Z.land mant (Z.shiftl 1 drop - 1) in
    let half := Z.shiftl 1 (drop - 1) in
    if (half <? rem)%Z then (q + 1)%Z
    else if (rem <? half)%Z then q
    else if Z.even q then q else (q + 1)%Z in
  let v := f_ldexp (f_of_Z r) (e - 53 + drop) in
  let v := if 0x1.fffffep+127 <? v then infinity else v in
  if x <? 0 then - v else v.

Definition ln2_hi := 0x1.62e42fee00000p-1.
Definition ln2_lo := 0x1.a39ef35793c76p-33.
Definition inv_ln2 := 0x1.71547652b82fep+0.
Definition ln2 := 0x1.62e42fefa39efp-1.

Fixpoint horner (cs : list float) (x : float) : float :=
  match cs with
  | [] => 0
  | c :: r => c + x * horner r x
  end.

(* 1/n! for n = 0..14 *)
Definition exp_coeffs : list float :=
  [1; 1; 0.5; 1/6; 1/24; 1/120; 1/720; 1/5040; 1/40320; 1/362880; 1/3628800; 1/39916800;
   1/479001600; 1/6227020800; 1/87178291200].

Definition f_exp (x : float) : float :=
  if f_isnan x then nan else
  if 709.782712893384 <? x then infinity else
  if x <? -745.2 then 0 else
  let kf := x * inv_ln2 in
  let k := f_floor (kf + 0.5) in
  let kk := f_of_Z k in
  let r := (x - kk * ln2_hi) - kk * ln2_lo in
  f_ldexp (horner exp_coeffs r) k.

Fixpoint atanh_series (n : nat) (s2 : float) (k : float) : float :=
  match n with
  | O => 1 / k
  | S n' => 1 / k + s2 * atanh_series n' s2 (k + 2)
  end.

Definition f_ln (x : float) : float :=
  if f_isnan x then nan else
  if x <? 0 then nan else
  if x =? 0 then neg_infinity else
  if f_isinf x then infinity else
  let (m, e) := f_frexp x in
  let '(m, e) := if m <? 0x1.6a09e667f3bcdp-1 then (m * 2, (e - 1)%Z) else (m, e) in
  let s := (m - 1) / (m + 1) in
  let s2 := s * s in
  f_of_Z e * ln2 + 2 * s * atanh_series 13 s2 1.

Definition f_pow (x y : float) : float :=
  if y =? 0 then 1 else
  if x =? 0 then (if 0 <? y then 0 else infinity) else
  if x <? 0 then nan else
  if x =? 1 then 1 else
  f_exp (y * f_ln x).

Definition f_log2 (x : float) : float := f_ln x / ln2.

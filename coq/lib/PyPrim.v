(* PyPrim: the run-time vocabulary of the Python -> Gallina translator (harness/vp/py2coq.py).
   Every construct of the numba/numpy subset the translator accepts is mapped to one of these
   definitions; the translator emits nothing else (plus [let], [if], tuples and applications).
   Executable definitions only; lemmas are in PyPrimLemmas.v.

   Conventions (they ARE the translator's semantics of the subset, part of the trusted base):
   * a 1-d float array is a [list N]; a 2-d one a [list (list N)]; an int array a [list Z];
   * Python ints are [Z]; indices may be negative (wrap once, as Python / numba do);
     an out-of-range read gives 0 and an out-of-range write is dropped (numba does no bounds check:
     such programs are outside the subset's meaning, theorems carry the length hypotheses);
   * `for i in range(lo, hi)` is [for_range lo hi body state], the state being the tuple of variables
     the body assigns; `break` is a boolean component of the state (see py2coq.py);
   * a float literal is the quotient / product of two exact integers ([nlit]): over R its decimal value,
     over binary64 the correctly rounded quotient = the literal Python parses (|m| < 2^53, 10^k <= 10^22);
   * `a ** k` with a literal non-negative int k is k-fold multiplication ([ipow]); other powers are [npow];
   * bool used as a number is [b2n];
   * an int matrix is a [list (list Z)] ([imnth], [imrow]); a 2-d array is a RECTANGULAR list of rows: `a.shape[1]` is
     the length of row 0 and `a.size` is [msize] = shape[0] * shape[1]; `a.ravel()` is [mravel] = the rows concatenated;
   * boolean-mask indexing `a[a < c]` is [vfilter] = [filter] (the selected entries, in order);
   * np.floor is [nfloor], derived from the truncation [ntrunc] (floor x = trunc x, minus 1 if x < trunc x): exact over R
     and over binary64 for |x| < 2^53;  np.log2 is [nlog2] = ln x / ln 2: the exact value over R; over binary64 only an
     approximation of numpy's log2 (1-2 ulp) -- generated text that uses it is not meant to be evaluated in binary64;
   * np.max of a 1-d array is [vmax_py]: left fold of [nmax] starting from the first element (numpy's maximum.reduce on
     NaN-free data); on an empty array numpy raises, [vmax_py] gives 0 (outside the subset's meaning);
   * `None` is [tt];
   * +infinity: [Num] has none.  A module constant bound to np.inf is the extra argument [pinf : N] of the generated
     functions (see py2coq.py); the generated text is the source's meaning only on inputs whose floats are all real numbers
     below [pinf];
   * `while c: body` is [while_fuel fuel c body state] with an explicit iteration budget `fuel` (an int expression over
     the arguments supplied to the translator, NOT part of the source); a function containing a `while` (or calling
     one that does) returns the pair (value, ok) where ok is the conjunction of the loops' flags: ok = true iff every
     loop stopped because its condition became false.  A result with ok = false has no meaning (budget exhausted);
   * `a[:n]` is [zslice_to a n] (Python: a negative n counts from the end); a slice is a VALUE (a copy): programs that
     store into a name bound to a slice (a numpy view) are rejected by the translator;
   * `set(a)` of an int array is represented by the list [a] itself; the only operation on it is `k in s` / `k not in s`
     = [zmem k a] / its negation ([existsb (Z.eqb k) a]);
   * `a[lo:hi]` is [zslice a lo hi] (each bound: negative counts from the end, then clamped to [0, len]; empty when
     hi <= lo); `x[lo:hi] = e` is [zset_slice x lo hi e]: the segment replaced by the list e when e has exactly the
     segment's length (numpy raises / broadcasts otherwise: [zset_slice] then returns x unchanged, outside the meaning).
     The translator accepts `a[lo:hi]` as a value only inside the right-hand side of such a store (evaluated before it);
   * a call of a helper listed as "opaque" is the application of a function PARAMETER of the generated definition:
     the helper is assumed to be a pure function of its arguments that returns a fresh array (the link theorems
     quantify over every such function satisfying their stated hypotheses);
   * FUNCTION ARGUMENTS (`fnargs`): an argument of the source function that is itself a function (numba first-class function,
     e.g. `output_metric`) is such a function PARAMETER too (placed with the opaque helpers, it disappears from the ordinary
     arguments): a pure function that does not store into its arguments; a tuple result `(float, array)` is a Coq pair whose
     array component is FRESH (it shares no memory with the arguments or with any other array).  The name may only be called.
     `f(a, b, *t)` with `t` a tuple ARGUMENT listed under `empty_star` is `f(a, b)`: the generated definition describes the calls
     of the source function in which `t` is the empty tuple (the parameter `t` disappears; any other use of `t` is rejected);
   * ROW VIEWS: a name bound by `v = A[i]`, A a 2-d ARGUMENT array that the function stores into (directly, through such
     a name, or by handing a row to a mutating callee), denotes row i of A ITSELF (numpy basic indexing returns a view, not
     a copy).  The generated variable `v` is the row INDEX (a Z, evaluated where the binding is executed); a read `v[d]` is
     [mnth A v d] of the array value A has AT THAT POINT, a store `v[d] op= e` is [mset A v d ..] on the array in the
     state, `v` handed to a pure callee is [mrow A v] at the time of the call; rebinding `v = A[k]` just changes the index.
     Such a name may only ever be bound to rows of that one array.  (A name bound to a row of an array the function never
     stores into remains the value [mrow A i]: there a copy and a view cannot be told apart.)
   * MUTATING CALLEES: `x = .. f(A[i]) ..` (or `f(v)`, v a row view; or `f(a)`, a an argument array) where the translated f
     stores into its argument: the generated [src_f] returns (value, final contents of its array); the call is evaluated
     FIRST, the returned row replaces row i of A ([zset A i row]), then the rest of the statement is evaluated.  Accepted
     only as the value of `name = <expression>` with exactly one such call, outside conditional expressions, when nothing
     else in the statement mentions A (so evaluation order is unobservable).
   * ALIASING: the generated definitions take array VALUES, so a generated definition describes the calls in which its
     (mutated) array arguments do not overlap in memory.  Calls in which two arguments are THE SAME array are described by
     a separate translation of the same source function (option `alias = {b: a}`): every occurrence of the name b is
     replaced by a before translation, the parameter b disappears, and every store through either name is seen by reads
     through the other.  Partially overlapping arrays are outside both.
   * `numba.prange(n)` is `range(n)`: the SEQUENTIAL meaning of the loop (what a kernel compiled with parallel=False, or
     run by the interpreter, executes).  The same source compiled with parallel=True races on shared rows: not described.
   * a variable that is an int on one path of an `if` and a float on the other (`g = clip(..)` / `g = 0`) is a float after the
     join: the int branch is converted with [of_Z] (Python converts the int where it first meets a float: same value);
   * `np.all(a == b)` with a, b int arrays OF THE SAME LENGTH is [zall_eq a b]: every pair of entries at the same position is
     equal (true for two empty arrays).  With different lengths numpy broadcasts or raises (numba: raises): [zall_eq] then
     compares the common prefix only, outside the subset's meaning -- link theorems use it under a length test
     (`a.shape[0] == b.shape[0] and np.all(a == b)`) or carry the length hypothesis;
   * `for v in a: body` with a a 1-d float array the function does not store into is [for_each a body state]: the body is run
     once per element, in order, v being the element (a float scalar);
   * a function whose `return`s give an int on one path and a float on another returns a float (numba unifies the return type):
     the int value is converted with [of_Z];
   * `a % b` on ints is [Z.modulo] (sign of the divisor, as in Python, for b <> 0; b = 0 raises in Python: outside);
     `int(x)` of a float is the truncation [ntrunc]. *)
From Coq Require Import List ZArith Bool.
From UV Require Import Num.
Import ListNotations.

Definition for_range {S : Type} (lo hi : Z) (f : Z -> S -> S) (s : S) : S :=
  fold_left (fun s k => f (lo + Z.of_nat k)%Z s) (seq 0 (Z.to_nat (hi - lo))) s.

(* `for v in a: body`: the elements of a in order *)
Definition for_each {A S : Type} (l : list A) (f : A -> S -> S) (s : S) : S := fold_left (fun s a => f a s) l s.

(* `while c: body` under an explicit iteration budget: the state after at most [fuel] iterations and a flag
   telling whether the condition was false when the loop stopped (false = budget exhausted). *)
Fixpoint while_fuel {S : Type} (fuel : nat) (c : S -> bool) (f : S -> S) (s : S) : S * bool :=
  match fuel with
  | O => (s, negb (c s))
  | Datatypes.S n => if c s then while_fuel n c f (f s) else (s, true)
  end.

(* numba signature "i4(...)": an int result is reduced to the int32 range.  Python ints are otherwise unbounded [Z]:
   int64 overflow is NOT modelled (link theorems that depend on it must bound the operands). *)
Definition wrap32 (z : Z) : Z := ((z + 2147483648) mod 4294967296 - 2147483648)%Z.

Definition zlen {A : Type} (l : list A) : Z := Z.of_nat (length l).
Definition wrap_index (len i : Z) : Z := if (i <? 0)%Z then (len + i)%Z else i.

Fixpoint set_nth_nat {A : Type} (l : list A) (k : nat) (v : A) : list A :=
  match l, k with
  | [], _ => []
  | _ :: t, O => v :: t
  | a :: t, Datatypes.S k' => a :: set_nth_nat t k' v
  end.

Definition znth {A : Type} (d : A) (l : list A) (i : Z) : A :=
  let j := wrap_index (zlen l) i in
  if (j <? 0)%Z then d else nth (Z.to_nat j) l d.
Definition zset {A : Type} (l : list A) (i : Z) (v : A) : list A :=
  let j := wrap_index (zlen l) i in
  if (j <? 0)%Z then l else set_nth_nat l (Z.to_nat j) v.

(* int matrices; size of a (rectangular) 2-d array *)
Definition imrow (m : list (list Z)) (i : Z) : list Z := znth [] m i.
Definition imnth (m : list (list Z)) (i j : Z) : Z := znth 0%Z (znth [] m i) j.
Definition msize {A : Type} (m : list (list A)) : Z := (zlen m * zlen (znth [] m 0))%Z.
(* `k in s` where s = set(<int array a>): membership in the list of elements (the only operation available on such a set) *)
Definition zmem (k : Z) (a : list Z) : bool := existsb (Z.eqb k) a.
(* `np.all(a == b)` on int arrays of equal length *)
Definition zall_eq (a b : list Z) : bool := forallb (fun p => Z.eqb (fst p) (snd p)) (combine a b).
(* `a[:n]`: the first n elements; a negative n means len(a) + n (and nothing if that is negative too) *)
Definition zslice_to {A : Type} (l : list A) (n : Z) : list A :=
  firstn (Z.to_nat (if (n <? 0)%Z then (zlen l + n)%Z else n)) l.

(* `a[lo:hi]` and `x[lo:hi] = e` on 1-d arrays (Python slice bounds: negative = from the end, then clamped) *)
Definition slice_idx (len i : Z) : nat := Z.to_nat (if (i <? 0)%Z then (len + i)%Z else i).
Definition zslice {A : Type} (l : list A) (lo hi : Z) : list A :=
  skipn (slice_idx (zlen l) lo) (firstn (slice_idx (zlen l) hi) l).
Definition zset_slice {A : Type} (l : list A) (lo hi : Z) (e : list A) : list A :=
  if Nat.eqb (length e) (length (zslice l lo hi))
  then firstn (slice_idx (zlen l) lo) l ++ e ++ skipn (slice_idx (zlen l) lo + length e) l
  else l.

Section Prim.
Context (N : Num).

Definition vnth (x : list N) (i : Z) : N := znth (zero N) x i.
Definition vset (x : list N) (i : Z) (v : N) : list N := zset x i v.
Definition mnth (m : list (list N)) (i j : Z) : N := vnth (znth [] m i) j.
Definition mrow (m : list (list N)) (i : Z) : list N := znth [] m i.
Definition mset (m : list (list N)) (i j : Z) (v : N) : list (list N) := zset m i (vset (znth [] m i) j v).
Definition vzeros (n : Z) : list N := repeat (zero N) (Z.to_nat n).
Definition mzeros (r c : Z) : list (list N) := repeat (vzeros c) (Z.to_nat r).
Definition inth (x : list Z) (i : Z) : Z := znth 0%Z x i.
Definition iset (x : list Z) (i : Z) (v : Z) : list Z := zset x i v.
Definition vfilter (p : N -> bool) (x : list N) : list N := filter p x.      (* a[mask] *)
Definition mravel (m : list (list N)) : list N := concat m.                   (* m.ravel(), C order *)

Definition nlit (m : Z) (e : Z) : N :=
  if (e <? 0)%Z then div N (of_Z N m) (of_Z N (10 ^ (- e))%Z) else of_Z N (m * 10 ^ e)%Z.

Fixpoint ipow (a : N) (k : nat) : N :=
  match k with
  | O => one N
  | Datatypes.S O => a
  | Datatypes.S k' => mul N a (ipow a k')
  end.

Definition b2n (b : bool) : N := if b then one N else zero N.
Definition nmax (a b : N) : N := if ltb N a b then b else a.      (* Python max(a, b): b if b > a else a *)
Definition nmin (a b : N) : N := if ltb N b a then b else a.      (* Python min(a, b): b if b < a else a *)
Definition nsign (a : N) : N :=                                   (* np.sign *)
  if ltb N a (zero N) then neg N (one N) else if ltb N (zero N) a then one N else zero N.
Definition nfloor (x : N) : N :=                                  (* np.floor *)
  let t := of_Z N (ntrunc N x) in if ltb N x t then sub N t (one N) else t.
Definition nlog2 (x : N) : N := div N (nln N x) (nln N (of_Z N 2)).            (* np.log2 *)
Definition nne (a b : N) : bool := negb (eqb N a b).
Definition ngt (a b : N) : bool := ltb N b a.
Definition nge (a b : N) : bool := leb N b a.

Definition vsum_py (x : list N) : N := fold_left (add N) x (zero N).          (* np.sum, loop order *)
Definition vmap2 (f : N -> N -> N) (x y : list N) : list N :=                  (* elementwise, equal shapes *)
  map (fun ab => f (fst ab) (snd ab)) (combine x y).
Definition vmaps_r (f : N -> N -> N) (x : list N) (c : N) : list N := map (fun a => f a c) x.   (* array op scalar *)
Definition vmaps_l (f : N -> N -> N) (c : N) (x : list N) : list N := map (fun a => f c a) x.   (* scalar op array *)
Definition vmap1 (f : N -> N) (x : list N) : list N := map f x.
Definition vcount (p : N -> bool) (x : list N) : Z := Z.of_nat (length (filter p x)).          (* np.sum(x != 0) *)
(* x.max() / np.max(x) / x.min(): running maximum from the first element (numpy raises on an empty array: 0 here, outside the meaning) *)
Definition vmax_py (x : list N) : N := match x with [] => zero N | a :: l => fold_left nmax l a end.
Definition vmin_py (x : list N) : N := match x with [] => zero N | a :: l => fold_left nmin l a end.
(* X[mask] = E (E elementwise): positions where the mask holds take E's element, the others keep X's *)
Fixpoint vselect (m : list bool) (e x : list N) : list N :=
  match m, e, x with
  | b :: m', a :: e', c :: x' => (if b then a else c) :: vselect m' e' x'
  | _, _, _ => x
  end.
Definition vmean_py (x : list N) : N := div N (vsum_py x) (of_Z N (zlen x)).                    (* np.mean *)
End Prim.

(* transcendental functions [Num] does not carry; supplied per instance (reals: Rtrigo; binary64: software) *)
Record PyExt (N : Num) : Type := mkPyExt {
  psin : N -> N;  pcos : N -> N;  pasin : N -> N;  pacosh : N -> N;  ppi : N
}.

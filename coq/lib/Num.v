(* Num: a record of arithmetic operations (no laws).  Models are written once over an arbitrary
   [Num]; theorems are proved about the instance [RNum] (Coq's real numbers); the correspondence
   check evaluates the very same terms over [FNum] (binary64 primitive floats) with vm_compute. *)
From Coq Require Import ZArith Reals Lra.
Set Implicit Arguments.

Record Num : Type := mkNum {
  T    :> Type;
  zero : T;  one : T;
  add  : T -> T -> T;  sub : T -> T -> T;  mul : T -> T -> T;  div : T -> T -> T;
  neg  : T -> T;  nabs : T -> T;  nsqrt : T -> T;  nexp : T -> T;  nln : T -> T;
  npow : T -> T -> T;                 (* x ^ y for x > 0 (and 0 ^ y = 0 for y > 0) *)
  leb  : T -> T -> bool;  ltb : T -> T -> bool;  eqb : T -> T -> bool;
  of_Z : Z -> T;
  ntrunc : T -> Z                    (* truncation toward zero, as Python's int(x) *)
}.

Declare Scope num_scope.
Delimit Scope num_scope with num.

Module NumNotations.
  Notation "x + y" := (add _ x y) : num_scope.
  Notation "x - y" := (sub _ x y) : num_scope.
  Notation "x * y" := (mul _ x y) : num_scope.
  Notation "x / y" := (div _ x y) : num_scope.
  Notation "- x"   := (neg _ x) : num_scope.
  Notation "x <=? y" := (leb _ x y) : num_scope.
  Notation "x <? y"  := (ltb _ x y) : num_scope.
  Notation "x =? y"  := (eqb _ x y) : num_scope.
End NumNotations.

(* ---- the real-number instance -------------------------------------------------------------- *)
Definition Rleb (a b : R) : bool := if Rle_dec a b then true else false.
Definition Rltb (a b : R) : bool := if Rlt_dec a b then true else false.
Definition Reqb (a b : R) : bool := if Req_EM_T a b then true else false.
(* x ^ y: Rpower for x > 0; 0 ^ y = 0 (y > 0), x ^ 0 = 1 *)
Definition Rpow (x y : R) : R :=
  if Req_EM_T y 0 then 1%R else if Rlt_dec 0 x then Rpower x y else 0%R.

(* truncation toward zero *)
Definition Rtrunc (x : R) : Z := if Rle_dec 0 x then Int_part x else (- Int_part (- x))%Z.

Definition RNum : Num :=
  mkNum 0%R 1%R Rplus Rminus Rmult Rdiv Ropp Rabs sqrt exp ln Rpow Rleb Rltb Reqb IZR Rtrunc.

Lemma Rleb_true a b : Rleb a b = true <-> (a <= b)%R.
Proof. unfold Rleb; destruct (Rle_dec a b); split; intros; auto; try discriminate; lra. Qed.
Lemma Rleb_false a b : Rleb a b = false <-> (b < a)%R.
Proof. unfold Rleb; destruct (Rle_dec a b); split; intros; auto; try discriminate; lra. Qed.
Lemma Rltb_true a b : Rltb a b = true <-> (a < b)%R.
Proof. unfold Rltb; destruct (Rlt_dec a b); split; intros; auto; try discriminate; lra. Qed.
Lemma Rltb_false a b : Rltb a b = false <-> (b <= a)%R.
Proof. unfold Rltb; destruct (Rlt_dec a b); split; intros; auto; try discriminate; lra. Qed.
Lemma Reqb_true a b : Reqb a b = true <-> a = b.
Proof. unfold Reqb; destruct (Req_EM_T a b); split; intros; auto; try discriminate; lra. Qed.
Lemma Reqb_false a b : Reqb a b = false <-> a <> b.
Proof. unfold Reqb; destruct (Req_EM_T a b); split; intros; auto; try discriminate; lra. Qed.

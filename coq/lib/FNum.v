(* The binary64 instance of [Num] used by the correspondence check. *)
From Coq Require Import ZArith Bool PrimFloat.
From UV Require Import Num FloatFns.
Definition FNum : Num :=
  mkNum 0%float 1%float PrimFloat.add PrimFloat.sub PrimFloat.mul PrimFloat.div PrimFloat.opp
        PrimFloat.abs PrimFloat.sqrt f_exp f_ln f_pow PrimFloat.leb PrimFloat.ltb PrimFloat.eqb f_of_Z f_to_Z.

(* tolerance comparison used by verdict functions: NaN ~ NaN, inf ~ same inf *)
Open Scope bool_scope. Open Scope float_scope.
Definition f_close (rtol atol a b : float) : bool :=
  if f_isnan a then f_isnan b else
  if f_isnan b then false else
  if f_isinf a || f_isinf b then (a =? b) else
  (abs (a - b) <=? atol + rtol * abs b).

(* C12: hellinger, haversine, poincare, symmetric_kl over R. *)
From Coq Require Import List ZArith Bool Reals Lra Lia Psatz.
From UV Require Import Num M_metrics T_metrics_base T_metrics_real.
Import ListNotations.
Local Open Scope R_scope.

Definition nonnegl (x : list R) : Prop := Forall (fun a => 0 <= a) x.
Definition posl (x : list R) : Prop := Forall (fun a => 0 < a) x.

(* ================================================================================================== *)
(* hellinger                                                                                          *)
Definition Rclamp0 (a : R) : R := if Rltb a 0 then 0 else a.
Definition Rbc (x y : list R) : R := rsum (zipw (fun a b => sqrt (a * b)) x y).     (* sum sqrt(x_i y_i) *)
Definition Rhell (x y : list R) : R :=
  if Reqb (rsum x) 0 && Reqb (rsum y) 0 then 0
  else if Reqb (rsum x) 0 || Reqb (rsum y) 0 then 1
  else sqrt (Rclamp0 (1 - Rbc x y / sqrt (rsum x * rsum y))).
Lemma hell_eq (x y : list R) : d_hellinger RNum x y = Rhell x y.
Proof. unfold d_hellinger. cbv zeta. rewrite !vsum_rsum. reflexivity. Qed.

Lemma bc_sym x y : Rbc x y = Rbc y x.
Proof. apply rsum_zipw_sym. intros; now rewrite Rmult_comm. Qed.
Lemma bc_nonneg x y : 0 <= Rbc x y.
Proof. apply rsum_zipw_nonneg. intros; apply sqrt_pos. Qed.
Lemma bc_diag x : nonnegl x -> Rbc x x = rsum x.
Proof. unfold Rbc. induction 1 as [|a x Ha Hx IH]; simpl; auto. rewrite IH, sqrt_square; auto. Qed.

Lemma rsq_map_sqrt x : nonnegl x -> rsq (map sqrt x) = rsum x.
Proof. unfold rsq. induction 1 as [|a x Ha Hx IH]; simpl; auto. rewrite IH, sqrt_sqrt; auto. Qed.
Lemma bc_rdot x y : nonnegl x -> nonnegl y -> Rbc x y = rdot (map sqrt x) (map sqrt y).
Proof.
  unfold Rbc, rdot. intros Hx; revert y; induction Hx as [|a x Ha Hx IH]; intros y Hy; destruct Hy as [|b y Hb Hy]; simpl; auto.
  rewrite IH, sqrt_mult; auto.
Qed.
(* Cauchy-Schwarz: the Bhattacharyya coefficient is at most sqrt(sum x * sum y), so the clamp never fires over R *)
Lemma bc_le x y : length x = length y -> nonnegl x -> nonnegl y -> Rbc x y <= sqrt (rsum x * rsum y).
Proof.
  intros HL Hx Hy. rewrite bc_rdot by auto. rewrite <- (rsq_map_sqrt x Hx), <- (rsq_map_sqrt y Hy).
  eapply Rle_trans; [apply Rle_abs|]. apply cs_sqrt. now rewrite !map_length.
Qed.

Lemma hell_sym x y : Rhell x y = Rhell y x.
Proof. unfold Rhell. now rewrite bc_sym, andb_comm, orb_comm, (Rmult_comm (rsum x)). Qed.
Lemma clamp0_range a : a <= 1 -> 0 <= Rclamp0 a <= 1.
Proof. intros H. unfold Rclamp0. destruct (Rltb a 0) eqn:E; [lra | apply Rltb_false in E; lra]. Qed.
Lemma hell_range x y : nonnegl x -> nonnegl y -> 0 <= Rhell x y <= 1.
Proof.
  intros Hx Hy. unfold Rhell.
  destruct (Reqb (rsum x) 0) eqn:Ex; destruct (Reqb (rsum y) 0) eqn:Ey; simpl; try lra.
  apply Reqb_false in Ex, Ey. pose proof (rsum_nonneg x Hx). pose proof (rsum_nonneg y Hy).
  assert (0 < sqrt (rsum x * rsum y)) as Hs by (apply sqrt_lt_R0, Rmult_lt_0_compat; lra).
  pose proof (div_nonneg _ _ (bc_nonneg x y) Hs) as Hq.
  split; [apply sqrt_pos|]. apply Rle_trans with (sqrt 1); [apply sqrt_le_1_alt, clamp0_range; lra | rewrite sqrt_1; lra].
Qed.
Lemma hell_diag x : nonnegl x -> Rhell x x = 0.
Proof.
  intros Hx. unfold Rhell. destruct (Reqb (rsum x) 0) eqn:Ex; simpl; [reflexivity|].
  apply Reqb_false in Ex. pose proof (rsum_nonneg x Hx).
  rewrite bc_diag, sqrt_square by auto.
  replace (1 - rsum x / rsum x) with 0 by (field; exact Ex).
  unfold Rclamp0. destruct (Rltb 0 0) eqn:E; apply sqrt_0.
Qed.
(* on its domain the clamp is inactive: 1 - BC / sqrt(sum x sum y) >= 0 *)
Lemma hell_clamp_inactive x y : length x = length y -> nonnegl x -> nonnegl y -> rsum x <> 0 -> rsum y <> 0 ->
  Rclamp0 (1 - Rbc x y / sqrt (rsum x * rsum y)) = 1 - Rbc x y / sqrt (rsum x * rsum y).
Proof.
  intros HL Hx Hy Ex Ey. pose proof (rsum_nonneg x Hx). pose proof (rsum_nonneg y Hy).
  assert (0 < sqrt (rsum x * rsum y)) as Hs by (apply sqrt_lt_R0, Rmult_lt_0_compat; lra).
  pose proof (bc_le x y HL Hx Hy) as Hle.
  assert (Rbc x y / sqrt (rsum x * rsum y) <= 1) by (apply div_le_c; lra).
  unfold Rclamp0. destruct (Rltb _ 0) eqn:E; [apply Rltb_true in E; lra | reflexivity].
Qed.

(* ================================================================================================== *)
(* haversine                                                                                          *)
Definition Rclamp1 (a : R) : R := if Rltb 1 a then 1 else a.
Definition Rhav_arg (x0 x1 y0 y1 : R) : R :=
  sqrt (sin (/ 2 * (x0 - y0)) * sin (/ 2 * (x0 - y0)) + cos x0 * cos y0 * (sin (/ 2 * (x1 - y1)) * sin (/ 2 * (x1 - y1)))).
Definition Rhav (x0 x1 y0 y1 : R) : R := 2 * asin (Rclamp1 (Rhav_arg x0 x1 y0 y1)).
Lemma half_eq : nhalf RNum = / 2.
Proof. unfold nhalf, n2. cbn. lra. Qed.
Lemma hav_eq (x0 x1 y0 y1 : R) : d_haversine RNum RExt [x0; x1] [y0; y1] = Some (Rhav x0 x1 y0 y1).
Proof.
  unfold d_haversine. cbv zeta. rewrite half_eq. unfold Rhav, Rhav_arg. f_equal.
Qed.
Lemma hav_none (x y : list R) : length x <> 2%nat -> d_haversine RNum RExt x y = None.
Proof. destruct x as [|a [|b [|c x]]]; simpl; intros H; auto; contradiction. Qed.

Lemma sin_half_sym a b : sin (/ 2 * (a - b)) * sin (/ 2 * (a - b)) = sin (/ 2 * (b - a)) * sin (/ 2 * (b - a)).
Proof. replace (/ 2 * (b - a)) with (- (/ 2 * (a - b))) by ring. rewrite sin_neg. ring. Qed.
Lemma hav_sym x0 x1 y0 y1 : Rhav x0 x1 y0 y1 = Rhav y0 y1 x0 x1.
Proof.
  unfold Rhav, Rhav_arg. rewrite (sin_half_sym x0 y0), (sin_half_sym x1 y1), (Rmult_comm (cos x0)). reflexivity.
Qed.
Lemma clamp1_range a : 0 <= a -> 0 <= Rclamp1 a <= 1.
Proof. intros H. unfold Rclamp1. destruct (Rltb 1 a) eqn:E; [lra | apply Rltb_false in E; lra]. Qed.
Lemma asin_nonneg u : 0 <= u <= 1 -> 0 <= asin u.
Proof.
  intros Hu. destruct (Rle_or_lt 0 (asin u)) as [H|H]; auto. exfalso.
  pose proof (asin_bound u) as [Hlo _]. pose proof PI_RGT_0.
  assert (sin (asin u) < 0) as Hs by (apply sin_lt_0_var; lra).
  rewrite sin_asin in Hs by lra. lra.
Qed.
Lemma hav_range x0 x1 y0 y1 : 0 <= Rhav x0 x1 y0 y1 <= PI.
Proof.
  unfold Rhav. pose proof (clamp1_range _ (sqrt_pos (sin (/ 2 * (x0 - y0)) * sin (/ 2 * (x0 - y0)) + cos x0 * cos y0 * (sin (/ 2 * (x1 - y1)) * sin (/ 2 * (x1 - y1)))))) as Hc.
  fold (Rhav_arg x0 x1 y0 y1) in Hc.
  pose proof (asin_nonneg _ Hc). pose proof (asin_bound (Rclamp1 (Rhav_arg x0 x1 y0 y1))) as [_ Hhi]. lra.
Qed.
Lemma hav_diag x0 x1 : Rhav x0 x1 x0 x1 = 0.
Proof.
  unfold Rhav, Rhav_arg. replace (x0 - x0) with 0 by ring. replace (x1 - x1) with 0 by ring.
  rewrite Rmult_0_r, sin_0. replace (0 * 0 + cos x0 * cos x0 * (0 * 0)) with 0 by ring. rewrite sqrt_0.
  unfold Rclamp1. destruct (Rltb 1 0) eqn:E; [apply Rltb_true in E; lra|]. rewrite asin_0. ring.
Qed.

(* ================================================================================================== *)
(* poincare                                                                                           *)
Definition Racosh (t : R) : R := ln (t + sqrt (t * t - 1)).
Definition Rpoinc_t (u v : list R) : R :=
  1 + 2 * (rsum (zipw (fun a b => (a - b) * (a - b)) u v) / ((1 - rsq u) * (1 - rsq v))).
Definition Rpoinc (u v : list R) : R := Racosh (Rpoinc_t u v).
Lemma poinc_eq (u v : list R) : d_poincare RNum u v = Rpoinc u v.
Proof.
  unfold d_poincare. cbv zeta. rewrite !vsq_rsq. rewrite rsq_zipw_minus.
  unfold Rpoinc, Rpoinc_t, Racosh, nacosh, n2. cbn. repeat f_equal; lra.
Qed.
Lemma poinc_sym u v : Rpoinc u v = Rpoinc v u.
Proof.
  unfold Rpoinc, Rpoinc_t. rewrite (rsum_zipw_sym (fun a b => (a - b) * (a - b)) u v) by (intros; ring).
  now rewrite (Rmult_comm (1 - rsq u)).
Qed.
Lemma acosh_nonneg t : 1 <= t -> 0 <= Racosh t.
Proof.
  intros Ht. unfold Racosh. rewrite <- ln_1. pose proof (sqrt_pos (t * t - 1)).
  destruct (Req_dec (t + sqrt (t * t - 1)) 1) as [-> | Hne]; [lra|]. left. apply ln_increasing; lra.
Qed.
Lemma poinc_nonneg u v : rsq u < 1 -> rsq v < 1 -> 0 <= Rpoinc u v.
Proof.
  intros Hu Hv. apply acosh_nonneg. unfold Rpoinc_t.
  assert (0 <= rsum (zipw (fun a b => (a - b) * (a - b)) u v)) by (apply rsum_zipw_nonneg; intros; apply Rle_0_sqr).
  assert (0 < (1 - rsq u) * (1 - rsq v)) by (apply Rmult_lt_0_compat; lra).
  pose proof (div_nonneg _ _ H H0). lra.
Qed.
Lemma poinc_diag u : Rpoinc u u = 0.
Proof.
  unfold Rpoinc, Rpoinc_t, Racosh. rewrite rsum_zipw_diag by (intros; ring).
  unfold Rdiv. rewrite Rmult_0_l, Rmult_0_r, Rplus_0_r. replace (1 * 1 - 1) with 0 by ring.
  rewrite sqrt_0, Rplus_0_r. apply ln_1.
Qed.

(* ================================================================================================== *)
(* symmetric_kl                                                                                       *)
Definition Rnorm (z : R) (x : list R) : list R :=
  map (fun a => a / rsum (map (fun a => a + z) x)) (map (fun a => a + z) x).
Lemma norm_eq z (x : list R) : smooth_normalise RNum z x = Rnorm z x.
Proof. unfold smooth_normalise, Rnorm. cbv zeta. rewrite vsum_rsum. reflexivity. Qed.
Definition Rkl (p q : list R) : R := rsum (zipw (fun a b => a * ln (a / b)) p q).
Definition Rskl (z : R) (x y : list R) : R := (Rkl (Rnorm z x) (Rnorm z y) + Rkl (Rnorm z y) (Rnorm z x)) / 2.
Lemma skl_eq z (x y : list R) : d_symmetric_kl RNum z x y = Rskl z x y.
Proof.
  unfold d_symmetric_kl. cbv zeta. rewrite !norm_eq, !vsum_rsum.
  unfold Rskl, Rkl. rewrite (zipw_flip (fun a b => a * ln (a / b)) (Rnorm z y) (Rnorm z x)).
  unfold n2. cbn. repeat f_equal; lra.
Qed.
Lemma skl_sym z x y : Rskl z x y = Rskl z y x.
Proof. unfold Rskl. now rewrite Rplus_comm. Qed.

Lemma norm_pos z x : 0 < z -> nonnegl x -> posl (Rnorm z x).
Proof.
  intros Hz Hx. unfold Rnorm, posl.
  assert (Hp : posl (map (fun a => a + z) x)).
  { unfold posl. apply Forall_forall. intros t Ht. apply in_map_iff in Ht. destruct Ht as [a [<- Ha]].
    unfold nonnegl in Hx. rewrite Forall_forall in Hx. specialize (Hx a Ha). lra. }
  set (l := map (fun a => a + z) x) in *.
  apply Forall_forall. intros t Ht. apply in_map_iff in Ht. destruct Ht as [a [<- Ha]].
  assert (0 < rsum l) as Hs.
  { clear -Hp Ha. induction Hp as [|b l Hb Hl IH]; [contradiction|]. simpl.
    assert (0 <= rsum l) by (apply rsum_nonneg; eapply Forall_impl; [|exact Hl]; intros; simpl in *; lra). lra. }
  unfold posl in Hp. rewrite Forall_forall in Hp. specialize (Hp a Ha).
  unfold Rdiv. apply Rmult_lt_0_compat; [lra | now apply Rinv_0_lt_compat].
Qed.

(* one term of KL(p||q) + KL(q||p) is (a - b)(ln a - ln b) >= 0 *)
Lemma kl_term_nonneg a b : 0 < a -> 0 < b -> 0 <= a * ln (a / b) + b * ln (b / a).
Proof.
  intros Ha Hb. unfold Rdiv. rewrite !ln_mult, !ln_Rinv; auto using Rinv_0_lt_compat.
  destruct (Rle_or_lt a b) as [H|H].
  - assert (ln a <= ln b) by (destruct H as [H | ->]; [left; now apply ln_increasing | lra]). nra.
  - assert (ln b < ln a) by now apply ln_increasing. nra.
Qed.
Lemma kl_pair_nonneg p q : posl p -> posl q -> 0 <= Rkl p q + Rkl q p.
Proof.
  intros Hp Hq. unfold Rkl. rewrite (zipw_flip (fun a b => a * ln (a / b)) q p). rewrite <- rsum_zipw_add.
  apply rsum_nonneg. apply (zipw_Forall_dom _ (fun a => 0 < a) (fun a => 0 < a)); auto.
  intros a b Ha Hb. now apply kl_term_nonneg.
Qed.
Lemma skl_nonneg z x y : 0 < z -> nonnegl x -> nonnegl y -> 0 <= Rskl z x y.
Proof.
  intros Hz Hx Hy. unfold Rskl. pose proof (kl_pair_nonneg _ _ (norm_pos z x Hz Hx) (norm_pos z y Hz Hy)). lra.
Qed.
Lemma kl_diag p : posl p -> Rkl p p = 0.
Proof.
  intros Hp. unfold Rkl. apply rsum_zero. apply zipw_diag_Forall_dom with (Q := fun a => 0 < a); auto.
  intros a Ha. unfold Rdiv. rewrite Rinv_r by lra. rewrite ln_1. ring.
Qed.
Lemma skl_diag z x : 0 < z -> nonnegl x -> Rskl z x x = 0.
Proof. intros Hz Hx. unfold Rskl. rewrite kl_diag by now apply norm_pos. lra. Qed.

(* C12: triangle inequalities inside the binary family.  matching, rogers_tanimoto and sokal_michener are functions
   f(m) of the number m of coordinates whose TRUTH VALUES differ (and of the length n): m/n, and 2m/(n+m) twice.
   m obeys the triangle inequality (per coordinate: two booleans that differ from a third... ), and both f are
   non-decreasing and sub-additive on m >= 0, so the three distances are metrics on boolean vectors of one length.
   (jaccard is a metric too, but not through this argument; dice, kulsinski, russellrao, sokal_sneath, yule are not.) *)
From Coq Require Import List ZArith Bool Reals Lra Lia Psatz.
From UV Require Import Num M_metrics T_metrics_base T_metrics_bin.
Import ListNotations.
Local Open Scope R_scope.

Definition c_nne (c : counts4) : Z := let '(ntt, ntf, nft, nff) := c in (ntf + nft)%Z.

Lemma nne_nonneg (x y : list R) : (0 <= c_nne (counts RNum x y))%Z.
Proof. pose proof (counts_ok x y) as H. destruct (counts RNum x y) as [[[ntt ntf] nft] nff]. simpl in *. lia. Qed.

Lemma nne_triangle (x y z : list R) : length x = length y -> length y = length z ->
  (c_nne (counts RNum x z) <= c_nne (counts RNum x y) + c_nne (counts RNum y z))%Z.
Proof.
  revert y z; induction x as [|a x IH]; intros [|b y] [|c z] H1 H2; try discriminate; try (simpl; lia).
  specialize (IH y z ltac:(simpl in H1; lia) ltac:(simpl in H2; lia)).
  cbn [counts].
  destruct (counts RNum x z) as [[[t1 f1] g1] e1], (counts RNum x y) as [[[t2 f2] g2] e2],
           (counts RNum y z) as [[[t3 f3] g3] e3].
  destruct (truthy RNum a), (truthy RNum b), (truthy RNum c); simpl in *; lia.
Qed.

Lemma nne_le_total (x y : list R) : length x = length y -> (c_nne (counts RNum x y) <= Z.of_nat (length x))%Z.
Proof.
  intros H. rewrite <- (counts_total x y H). pose proof (counts_ok x y) as Hok.
  destruct (counts RNum x y) as [[[ntt ntf] nft] nff]. simpl in *. lia.
Qed.

(* the three formulas as functions of (m, n) *)
Lemma matching_form (x y : list R) : length x = length y ->
  d_matching RNum x y = IZR (c_nne (counts RNum x y)) / IZR (Z.of_nat (length x)).
Proof.
  intros H. unfold d_matching. pose proof (counts_total x y H) as Ht.
  destruct (counts RNum x y) as [[[ntt ntf] nft] nff]. unfold b_matching. rewrite Ht. reflexivity.
Qed.
Lemma rogerstanimoto_form (x y : list R) : length x = length y ->
  d_rogerstanimoto RNum x y =
  2 * IZR (c_nne (counts RNum x y)) / (IZR (Z.of_nat (length x)) + IZR (c_nne (counts RNum x y))).
Proof.
  intros H. unfold d_rogerstanimoto. pose proof (counts_total x y H) as Ht.
  destruct (counts RNum x y) as [[[ntt ntf] nft] nff]. unfold b_rogerstanimoto. rewrite Ht.
  rewrite !nZ_R, n2_R. simpl c_nne. rewrite !plus_IZR.
  change (div RNum) with Rdiv. change (mul RNum) with Rmult. reflexivity.
Qed.
Lemma sokalmichener_form (x y : list R) : length x = length y ->
  d_sokalmichener RNum x y = d_rogerstanimoto RNum x y.
Proof. reflexivity. Qed.

(* f(m) = 2m/(n+m): non-decreasing and sub-additive for n > 0, m >= 0 *)
Lemma rt_subadd (n a b c : R) : 0 < n -> 0 <= a -> 0 <= b -> 0 <= c -> a <= b + c ->
  2 * a / (n + a) <= 2 * b / (n + b) + 2 * c / (n + c).
Proof.
  intros Hn Ha Hb Hc Habc.
  assert (Hm : 2 * a / (n + a) <= 2 * (b + c) / (n + (b + c))).
  { apply Rmult_le_reg_r with ((n + a) * (n + (b + c))); [nra|].
    replace (2 * a / (n + a) * ((n + a) * (n + (b + c)))) with (2 * a * (n + (b + c))) by (field; lra).
    replace (2 * (b + c) / (n + (b + c)) * ((n + a) * (n + (b + c)))) with (2 * (b + c) * (n + a)) by (field; lra).
    nra. }
  eapply Rle_trans; [exact Hm|].
  apply Rmult_le_reg_r with ((n + (b + c)) * (n + b) * (n + c)); [apply Rmult_lt_0_compat; [nra | lra]|].
  replace (2 * (b + c) / (n + (b + c)) * ((n + (b + c)) * (n + b) * (n + c)))
    with (2 * (b + c) * (n + b) * (n + c)) by (field; lra).
  replace ((2 * b / (n + b) + 2 * c / (n + c)) * ((n + (b + c)) * (n + b) * (n + c)))
    with ((2 * b * (n + c) + 2 * c * (n + b)) * (n + (b + c))) by (field; lra).
  assert (0 <= b * c) by nra. assert (0 <= b * b) by nra. assert (0 <= c * c) by nra.
  assert (0 <= b * c * n) by (apply Rmult_le_pos; lra).
  assert (0 <= b * c * b) by (apply Rmult_le_pos; lra).
  assert (0 <= b * c * c) by (apply Rmult_le_pos; lra).
  nra.
Qed.

Theorem tri_matching (x y z : list R) : length x = length y -> length y = length z ->
  d_matching RNum x z <= d_matching RNum x y + d_matching RNum y z.
Proof.
  intros H1 H2. rewrite (matching_form x z) by congruence. rewrite (matching_form x y H1), (matching_form y z H2).
  rewrite <- H1.
  pose proof (nne_triangle x y z H1 H2) as Ht. apply IZR_le in Ht. rewrite plus_IZR in Ht.
  destruct (Z.eq_dec (Z.of_nat (length x)) 0) as [E|E].
  - rewrite E. unfold Rdiv. rewrite Rinv_0. lra.
  - assert (0 < IZR (Z.of_nat (length x))) as Hn by (apply IZR_pos; lia).
    unfold Rdiv. rewrite <- Rmult_plus_distr_r. apply Rmult_le_compat_r; [left; now apply Rinv_0_lt_compat | exact Ht].
Qed.

Theorem tri_rogerstanimoto (x y z : list R) : length x = length y -> length y = length z -> x <> [] ->
  d_rogerstanimoto RNum x z <= d_rogerstanimoto RNum x y + d_rogerstanimoto RNum y z.
Proof.
  intros H1 H2 Hx. rewrite (rogerstanimoto_form x z) by congruence.
  rewrite (rogerstanimoto_form x y H1), (rogerstanimoto_form y z H2). rewrite <- H1.
  pose proof (nne_triangle x y z H1 H2) as Ht. apply IZR_le in Ht. rewrite plus_IZR in Ht.
  apply rt_subadd; try exact Ht; try (apply IZR_le; apply nne_nonneg).
  apply IZR_lt. destruct x; [contradiction|]. simpl length. lia.
Qed.

Theorem tri_sokalmichener (x y z : list R) : length x = length y -> length y = length z -> x <> [] ->
  d_sokalmichener RNum x z <= d_sokalmichener RNum x y + d_sokalmichener RNum y z.
Proof. exact (tri_rogerstanimoto x y z). Qed.

(* non-vacuity / sharpness: the inequality is attained, and dice (not in the list above) really violates it *)
Example tri_matching_tight :
  d_matching RNum [1; 0] [0; 1] = d_matching RNum [1; 0] [0; 0] + d_matching RNum [0; 0] [0; 1].
Proof.
  rewrite !matching_form by reflexivity. unfold counts, truthy. change (eqb RNum) with Reqb. change (zero RNum) with 0.
  repeat match goal with
  | |- context [Reqb ?u ?v] =>
      let E := fresh "E" in destruct (Reqb u v) eqn:E; [apply Reqb_true in E | apply Reqb_false in E]; try lra
  end. cbn. lra.
Qed.

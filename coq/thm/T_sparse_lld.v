(* C13 for ll_dirichlet: sparse_ll_dirichlet (model/M_sparse_lld.v) on canonical rows = the dense d_ll_dirichlet (model/M_metrics.v)
   on the densified vectors, over R.

   The statement is NOT true for all canonical rows.  The two texts select their terms differently:
     dense  (distances.py): log_beta(u,v) is added when u*v > 0.9; log_single_beta(u) when u*v > 0.9 or u > 0.9; no early return;
     sparse (sparse.py)   : log_beta(u,v) is added when both are stored and u*v != 0; log_single_beta(u) for EVERY stored u;
                            total 0 on both sides -> 0, total 0 on one side -> 1e8.
   They agree exactly when the selections agree, i.e. under
     [lld_big a], [lld_big b] : every stored value is > 0.9                      (then a stored value always contributes log_single_beta)
     [lld_prod a b]           : at every coordinate the product of the two values is 0 or > 0.9
     a <> [], b <> []         : no empty row (then both totals are > 0 and no early return fires)
   which holds for count data (all stored values >= 1: [sparse_ll_dirichlet_eq_dense_counts]).  Outside this class they differ:
   [sparse_ll_dirichlet_refuted_small] (a stored value <= 0.9 without partner) and [sparse_ll_dirichlet_refuted_empty] (one empty row). *)
From Coq Require Import List ZArith Bool Arith Lia Reals Lra.
From UV Require Import Num M_metrics M_sparse M_sparse_lld T_sparse T_sparse_metrics T_metrics_real.
Import ListNotations.
Local Open Scope R_scope.

Definition lld_big (c : rvec) : Prop := Forall (fun e => 9 / 10 < snd e) c.
Definition lld_prod (a b : rvec) : Prop := forall i, Rget a i * Rget b i = 0 \/ 9 / 10 < Rget a i * Rget b i.
Definition lld_counts (c : rvec) : Prop := Forall (fun e => 1 <= snd e) c.

Lemma c09_eq : c09 RNum = 9 / 10.
Proof. unfold c09, nZ. reflexivity. Qed.

Lemma Rvsum_map {B} (g : B -> R) l : M_metrics.vsum RNum (map g l) = fold_left (fun r x => r + g x) l 0.
Proof. unfold M_metrics.vsum. rsimp. apply (fold_left_map Rplus g l 0). Qed.

Lemma mzipw_map {B} (f : R -> R -> R) (g h : B -> R) l :
  M_metrics.zipw f (map g l) (map h l) = map (fun i => f (g i) (h i)) l.
Proof. induction l; simpl; [reflexivity|]. rewrite IHl. reflexivity. Qed.

Lemma mzipw_densify (f : R -> R -> R) n a b :
  M_metrics.zipw f (Rdensify n a) (Rdensify n b) = map (fun i => f (Rget a i) (Rget b i)) (seq 0 n).
Proof. unfold Rdensify, densify. apply (mzipw_map f (get RNum a) (get RNum b)). Qed.

(* sum over the stored entries = sum over all coordinates, for a term that vanishes at value 0 *)
Lemma stored_dense (f : nat -> R -> R) n c : (forall i, f i 0 = 0) -> sorted_from 0 c -> below n c ->
  fold_left (fun r e => r + f (fst e) (snd e)) c 0 = fold_left (fun r i => r + f i (Rget c i)) (seq 0 n) 0.
Proof.
  intros H0 Hs Hb.
  apply (fold_dense (fun r i v => r + f i v) (fun _ => True)) with (n := n) (s := O); auto.
  intros r i _. rewrite H0. lra.
Qed.

Lemma vsum_vals_dense n c : sorted_from 0 c -> below n c ->
  M_metrics.vsum RNum (vals RNum c) = M_metrics.vsum RNum (Rdensify n c).
Proof.
  intros Hs Hb. unfold vals, Rdensify, densify. rewrite !Rvsum_map.
  exact (stored_dense (fun _ v => v) n c (fun _ => eq_refl) Hs Hb).
Qed.

Lemma fold_pos l : forall r, 0 < r -> Forall (fun v => 0 < v) l -> 0 < fold_left Rplus l r.
Proof.
  induction l as [|v l IH]; intros r Hr Hl; [exact Hr|]. simpl. inversion Hl; subst. apply IH; [lra | assumption].
Qed.
Lemma vsum_big_pos c : c <> [] -> lld_big c -> 0 < M_metrics.vsum RNum (vals RNum c).
Proof.
  intros Hne Hb. destruct c as [|[i v] c]; [congruence|]. unfold M_metrics.vsum, vals. rsimp. simpl.
  inversion Hb as [|x l Hv Hc]; subst. cbn [snd] in Hv. apply fold_pos; [lra|].
  clear - Hc. induction Hc as [|[j w] l H Hl IH]; simpl; constructor; [cbn [snd] in H; lra | exact IH].
Qed.

Lemma get_big c t : lld_big c -> Rget c t = 0 \/ 9 / 10 < Rget c t.
Proof.
  induction c as [|[j v] c IH]; intro H; [left; apply Rget_nil|]. rewrite Rget_cons. inversion H; subst.
  destruct (Nat.eqb t j); [right; assumption | apply IH; assumption].
Qed.

Section LLD.
Context (E : Ext RNum).
Notation lb := (log_beta RNum E).
Notation lsb := (log_single_beta RNum E).

(* log_single_beta over all stored values = the dense self_denom sum *)
Lemma sd_dense n (c d : rvec) : sorted_from 0 c -> below n c -> lld_big c ->
  M_metrics.vsum RNum (map lsb (vals RNum c))
  = fold_left (fun r i => r + (if Rltb (9 / 10) (Rget c i * Rget d i) || Rltb (9 / 10) (Rget c i) then lsb (Rget c i) else 0)) (seq 0 n) 0.
Proof.
  intros Hs Hb Hbig. unfold vals. rewrite map_map, Rvsum_map.
  rewrite <- (stored_dense (fun i v => if Rltb (9 / 10) (v * Rget d i) || Rltb (9 / 10) v then lsb v else 0) n c); auto.
  - apply fold_left_ext_in. intros [i v] Hin r. cbn [fst snd].
    assert (Hv : 9 / 10 < v) by (exact (proj1 (Forall_forall _ _) Hbig (i, v) Hin)).
    rewrite (proj2 (Rltb_true (9 / 10) v) Hv), orb_true_r. reflexivity.
  - intros i. rewrite Rmult_0_l. rewrite (proj2 (Rltb_false (9 / 10) 0)) by lra. reflexivity.
Qed.

(* the merge loop = sum over all coordinates of log_beta where the product is non-zero *)
Definition lbt (u v : R) : R := if Rnz (u * v) then lb u v else 0.
Lemma lbt_0_l v : lbt 0 v = 0.
Proof. unfold lbt. rewrite Rmult_0_l. rewrite (proj2 (Rnz_false 0) eq_refl). reflexivity. Qed.
Lemma lbt_0_r u : lbt u 0 = 0.
Proof. unfold lbt. rewrite Rmult_0_r. rewrite (proj2 (Rnz_false 0) eq_refl). reflexivity. Qed.

Lemma lld_merge_nil_l b acc : lld_merge RNum E [] b acc = acc.
Proof. destruct b; reflexivity. Qed.
Lemma lld_merge_nil_r a acc : lld_merge RNum E a [] acc = acc.
Proof. destruct a as [|[i u] a]; reflexivity. Qed.
Lemma lld_merge_cons i u a j v b acc :
  lld_merge RNum E ((i, u) :: a) ((j, v) :: b) acc =
  if Nat.eqb i j then lld_merge RNum E a b (if Rnz (u * v) then acc + lb u v else acc)
  else if Nat.ltb i j then lld_merge RNum E a ((j, v) :: b) acc
  else lld_merge RNum E ((i, u) :: a) b acc.
Proof. reflexivity. Qed.

Lemma fold_zero_l (d : rvec) l : forall acc, fold_left (fun r i => r + lbt (Rget [] i) (Rget d i)) l acc = acc.
Proof. induction l as [|t l IH]; intro acc; cbn [fold_left]; [reflexivity|]. rewrite Rget_nil, lbt_0_l, Rplus_0_r. apply IH. Qed.
Lemma fold_zero_r (c : rvec) l : forall acc, fold_left (fun r i => r + lbt (Rget c i) (Rget [] i)) l acc = acc.
Proof. induction l as [|t l IH]; intro acc; cbn [fold_left]; [reflexivity|]. rewrite Rget_nil, lbt_0_r, Rplus_0_r. apply IH. Qed.

Lemma get_tail k j t : In t (seq (S k) j) -> (Nat.eqb t k = false).
Proof. intro H. apply in_seq in H. apply Nat.eqb_neq. lia. Qed.

Lemma merge_dense : forall n k (a b : rvec) acc, sorted_from k a -> sorted_from k b -> below (k + n) a -> below (k + n) b ->
  lld_merge RNum E a b acc = fold_left (fun r i => r + lbt (Rget a i) (Rget b i)) (seq k n) acc.
Proof.
  induction n as [|n IH]; intros k a b acc Sa Sb Ba Bb.
  - destruct a as [|[i u] a]; [apply lld_merge_nil_l|]. apply sorted_cons in Sa. apply below_cons in Ba. lia.
  - destruct a as [|[i u] a]; [rewrite lld_merge_nil_l, fold_zero_l; reflexivity|].
    destruct b as [|[j v] b]; [rewrite lld_merge_nil_r, fold_zero_r; reflexivity|].
    pose proof Sa as Sa0. pose proof Sb as Sb0. pose proof Ba as Ba0. pose proof Bb as Bb0.
    apply sorted_cons in Sa. destruct Sa as [Hki Sa]. apply sorted_cons in Sb. destruct Sb as [Hkj Sb].
    apply below_cons in Ba. destruct Ba as [Hi Ba]. apply below_cons in Bb. destruct Bb as [Hj Bb].
    assert (EQ : (k + S n = S k + n)%nat) by lia.
    assert (Wa : (k < i)%nat -> sorted_from (S k) ((i, u) :: a)) by (intro; apply sorted_cons; split; [lia | exact Sa]).
    assert (Wb : (k < j)%nat -> sorted_from (S k) ((j, v) :: b)) by (intro; apply sorted_cons; split; [lia | exact Sb]).
    rewrite lld_merge_cons. cbn [seq fold_left].
    destruct (Nat.eq_dec i k) as [->|Hik]; destruct (Nat.eq_dec j k) as [->|Hjk].
    + rewrite Nat.eqb_refl. rewrite !Rget_cons, Nat.eqb_refl.
      rewrite (IH (S k) a b); try assumption; try (rewrite <- EQ; assumption).
      match goal with |- fold_left _ _ ?x = fold_left _ _ ?y => replace x with y by (unfold lbt; destruct (Rnz (u * v)); rn; [reflexivity | apply Rplus_0_r]) end.
      apply fold_left_ext_in. intros t Ht r. rewrite !Rget_cons, (get_tail k n t Ht). reflexivity.
    + assert (Hlt : (k < j)%nat) by lia.
      rewrite (proj2 (Nat.eqb_neq k j)) by lia. rewrite (proj2 (Nat.ltb_lt k j) Hlt).
      rewrite Rget_cons, Nat.eqb_refl. rewrite (get_before (S k) _ k (Wb Hlt)) by lia. rewrite lbt_0_r, Rplus_0_r.
      rewrite (IH (S k) a ((j, v) :: b)); try assumption; try (rewrite <- EQ; assumption); [|exact (Wb Hlt)].
      apply fold_left_ext_in. intros t Ht r. rewrite (Rget_cons k u a t), (get_tail k n t Ht). reflexivity.
    + assert (Hlt : (k < i)%nat) by lia.
      rewrite (proj2 (Nat.eqb_neq i k)) by lia. rewrite (proj2 (Nat.ltb_ge i k)) by lia.
      rewrite (Rget_cons k v b k), Nat.eqb_refl. rewrite (get_before (S k) _ k (Wa Hlt)) by lia. rewrite lbt_0_l, Rplus_0_r.
      rewrite (IH (S k) ((i, u) :: a) b); try assumption; try (rewrite <- EQ; assumption); [|exact (Wa Hlt)].
      apply fold_left_ext_in. intros t Ht r. rewrite (Rget_cons k v b t), (get_tail k n t Ht). reflexivity.
    + assert (Hi' : (k < i)%nat) by lia. assert (Hj' : (k < j)%nat) by lia.
      rewrite (get_before (S k) _ k (Wa Hi')) by lia. rewrite lbt_0_l, Rplus_0_r.
      rewrite <- lld_merge_cons.
      apply (IH (S k) ((i, u) :: a) ((j, v) :: b)); try (rewrite <- EQ; assumption); [exact (Wa Hi') | exact (Wb Hj')].
Qed.

Section Main.
Context (a b : rvec) (n : nat) (Ca : canonical a) (Cb : canonical b) (Ba : below n a) (Bb : below n b).
Let da := Rdensify n a.
Let db := Rdensify n b.

(* the three partial results, each under its own hypothesis only *)
Lemma lld_totals_partial :
  M_metrics.vsum RNum (vals RNum a) = M_metrics.vsum RNum da /\ M_metrics.vsum RNum (vals RNum b) = M_metrics.vsum RNum db.
Proof. split; apply vsum_vals_dense; try assumption; [exact (proj1 Ca) | exact (proj1 Cb)]. Qed.

Lemma lld_log_b_partial : lld_prod a b ->
  lld_merge RNum E a b 0 = M_metrics.vsum RNum (M_metrics.zipw (fun u v => if Rltb (c09 RNum) (u * v) then lb u v else 0) da db).
Proof.
  intros Hp. rewrite (merge_dense n 0 a b 0 (proj1 Ca) (proj1 Cb) Ba Bb).
  unfold da, db. rewrite mzipw_densify, Rvsum_map. apply fold_left_ext_in. intros i _ r. f_equal.
  unfold lbt. rewrite c09_eq. destruct (Hp i) as [H0|H9].
  - rewrite H0. rewrite (proj2 (Rnz_false 0) eq_refl). rewrite (proj2 (Rltb_false (9 / 10) 0)) by lra. reflexivity.
  - rewrite (proj2 (Rnz_true _)) by lra. rewrite (proj2 (Rltb_true _ _) H9). reflexivity.
Qed.

Lemma lld_self_denom_partial : lld_big a -> lld_big b ->
  M_metrics.vsum RNum (map lsb (vals RNum a))
  = M_metrics.vsum RNum (M_metrics.zipw (fun u v => if Rltb (c09 RNum) (u * v) || Rltb (c09 RNum) u then lsb u else 0) da db) /\
  M_metrics.vsum RNum (map lsb (vals RNum b))
  = M_metrics.vsum RNum (M_metrics.zipw (fun u v => if Rltb (c09 RNum) (u * v) || Rltb (c09 RNum) v then lsb v else 0) da db).
Proof.
  intros Ha Hb. split.
  - rewrite (sd_dense n a b (proj1 Ca) Ba Ha). unfold da, db. rewrite mzipw_densify, Rvsum_map, c09_eq. reflexivity.
  - rewrite (sd_dense n b a (proj1 Cb) Bb Hb). unfold da, db. rewrite mzipw_densify, Rvsum_map, c09_eq. apply fold_left_ext_in. intros i _ r. rewrite (Rmult_comm (Rget b i)). reflexivity.
Qed.

Lemma lld_core_R (x y : list R) : lld_core RNum E x y =
  let s1 := M_metrics.vsum RNum x in let s2 := M_metrics.vsum RNum y in
  let log_b := M_metrics.vsum RNum (M_metrics.zipw (fun u v => if Rltb (c09 RNum) (u * v) then lb u v else 0) x y) in
  let sd1 := M_metrics.vsum RNum (M_metrics.zipw (fun u v => if Rltb (c09 RNum) (u * v) || Rltb (c09 RNum) u then lsb u else 0) x y) in
  let sd2 := M_metrics.vsum RNum (M_metrics.zipw (fun u v => if Rltb (c09 RNum) (u * v) || Rltb (c09 RNum) v then lsb v else 0) x y) in
  1 / s2 * (log_b - lb s1 s2 - (sd2 - lsb s2)) + 1 / s1 * (log_b - lb s2 s1 - (sd1 - lsb s1)).
Proof. reflexivity. Qed.

Theorem sparse_ll_dirichlet_eq_dense : a <> [] -> b <> [] -> lld_big a -> lld_big b -> lld_prod a b ->
  sparse_ll_dirichlet RNum E a b = d_ll_dirichlet RNum E da db.
Proof.
  intros Na Nb Ha Hb Hp. unfold sparse_ll_dirichlet, d_ll_dirichlet. rewrite lld_core_R. cbv zeta.
  pose proof (vsum_big_pos a Na Ha) as P1. pose proof (vsum_big_pos b Nb Hb) as P2.
  destruct lld_totals_partial as [T1 T2]. destruct (lld_self_denom_partial Ha Hb) as [S1 S2].
  rewrite <- (lld_log_b_partial Hp), <- S1, <- S2, <- T1, <- T2.
  change (eqb RNum) with Reqb. change (zero RNum) with 0.
  rewrite (proj2 (Reqb_false _ 0)) by (rn; lra). rewrite (proj2 (Reqb_false _ 0)) by (rn; lra). reflexivity.
Qed.
End Main.

(* count data: every stored value >= 1 *)
Lemma counts_big c : lld_counts c -> lld_big c.
Proof. unfold lld_counts, lld_big. apply Forall_impl. intros e H. lra. Qed.
Lemma get_counts c t : lld_counts c -> Rget c t = 0 \/ 1 <= Rget c t.
Proof.
  induction c as [|[j v] c IH]; intro H; [left; apply Rget_nil|]. rewrite Rget_cons. inversion H; subst.
  destruct (Nat.eqb t j); [right; assumption | apply IH; assumption].
Qed.
Lemma counts_prod a b : lld_counts a -> lld_counts b -> lld_prod a b.
Proof.
  intros Ha Hb i. destruct (get_counts a i Ha) as [->|H1]; [left; ring|]. destruct (get_counts b i Hb) as [->|H2]; [left; ring|].
  right. assert (1 * 1 <= Rget a i * Rget b i) by (apply Rmult_le_compat; lra). lra.
Qed.

Theorem sparse_ll_dirichlet_eq_dense_counts (a b : rvec) (n : nat) :
  canonical a -> canonical b -> below n a -> below n b -> a <> [] -> b <> [] -> lld_counts a -> lld_counts b ->
  sparse_ll_dirichlet RNum E a b = d_ll_dirichlet RNum E (Rdensify n a) (Rdensify n b).
Proof.
  intros Ca Cb Ba Bb Na Nb Ha Hb.
  apply sparse_ll_dirichlet_eq_dense; auto using counts_big, counts_prod.
Qed.
End LLD.

(* ---- outside the class: concrete refutations (RExt: pi, int() are the real ones) ------------------------------------ *)

Ltac decide_cmp := repeat match goal with
  | |- context[Rltb ?x ?y] => first [rewrite (proj2 (Rltb_true x y)) by lra | rewrite (proj2 (Rltb_false x y)) by lra]
  | |- context[Reqb ?x ?y] => first [rewrite (proj2 (Reqb_true x y)) by lra | rewrite (proj2 (Reqb_false x y)) by lra]
  end.

Lemma Rtrunc_small x : 0 <= x < 1 -> (Z.to_nat (Rtrunc x) - 1)%nat = O.
Proof.
  intros [H0 H1]. unfold Rtrunc. destruct (Rle_dec 0 x) as [_|N]; [|lra].
  destruct (base_Int_part x) as [Hle _]. assert (Hz : (Int_part x < 1)%Z) by (apply lt_IZR; lra). lia.
Qed.

Lemma log_beta_lt1 x : 0 <= x < 1 -> log_beta RNum RExt x 1 = 0 /\ log_beta RNum RExt 1 x = 0.
Proof.
  intros H. unfold log_beta. cbv zeta. unfold c5, nZ. rsimp. change (xtrunc RNum RExt) with Rtrunc.
  decide_cmp. rewrite (Rtrunc_small x H). cbn [seq fold_left nln RNum]. rewrite ln_1. split; lra.
Qed.

Lemma lsb_half_pos : 1 / 4 < log_single_beta RNum RExt (1 / 2).
Proof.
  unfold log_single_beta, c0125, nhalf, n2, nZ. rsimp. cbn [nln RNum]. change (xpi RNum RExt) with PI.
  assert (L : ln (1 + 1) < ln ((1 + 1) * PI / (1 / 2))).
  { apply ln_increasing; [lra|]. pose proof PI2_1. lra. }
  lra.
Qed.

Definition lld_wit_a : rvec := [(0%nat, 1 / 2)].
Definition lld_wit_b : rvec := [(1%nat, 1)].
Definition lld_wit_c : rvec := [(0%nat, 1)].

Lemma lld_wit_sparse : sparse_ll_dirichlet RNum RExt lld_wit_a lld_wit_b = 0.
Proof.
  unfold sparse_ll_dirichlet, lld_wit_a, lld_wit_b, vals, M_metrics.vsum, clamp0. cbv zeta. cbn [map snd fold_left lld_merge Nat.eqb Nat.ltb Nat.leb]. rsimp.
  rewrite !Rplus_0_l. decide_cmp. cbn [andb orb].
  destruct (log_beta_lt1 (1 / 2)) as [-> ->]; [lra|].
  match goal with |- sqrt (if Rltb ?x 0 then 0 else ?x) = 0 => replace x with 0 by (unfold Rdiv; field) end.
  decide_cmp. apply sqrt_0.
Qed.

Lemma lld_wit_dense : 0 < d_ll_dirichlet RNum RExt (densify RNum 2 lld_wit_a) (densify RNum 2 lld_wit_b).
Proof.
  unfold d_ll_dirichlet, clamp0. rewrite (lld_core_R RExt). cbv zeta.
  unfold lld_wit_a, lld_wit_b, densify, M_metrics.vsum. cbn [seq map get Nat.eqb M_metrics.zipw fold_left]. rewrite c09_eq. rsimp.
  rewrite !Rmult_0_r, !Rmult_0_l, !Rplus_0_l, !Rplus_0_r. decide_cmp. cbn [andb orb]. rewrite !Rplus_0_l, ?Rplus_0_r.
  destruct (log_beta_lt1 (1 / 2)) as [-> ->]; [lra|].
  pose proof lsb_half_pos as P.
  match goal with |- 0 < sqrt (if Rltb ?x 0 then 0 else ?x) => replace x with (2 * log_single_beta RNum RExt (1 / 2)) by (unfold Rdiv; field) end.
  decide_cmp. apply sqrt_lt_R0. lra.
Qed.

Lemma lld_wit_empty_sparse : sparse_ll_dirichlet RNum RExt [] lld_wit_c = 100000000.
Proof.
  unfold sparse_ll_dirichlet, lld_wit_c, vals, M_metrics.vsum, lld_far. cbv zeta. cbn [map snd fold_left]. rsimp.
  rewrite ?Rplus_0_l. decide_cmp. reflexivity.
Qed.
Lemma lld_wit_empty_dense : d_ll_dirichlet RNum RExt (densify RNum 1 []) (densify RNum 1 lld_wit_c) = 0.
Proof.
  unfold d_ll_dirichlet, clamp0. rewrite (lld_core_R RExt). cbv zeta.
  unfold lld_wit_c, densify, M_metrics.vsum. cbn [seq map get Nat.eqb M_metrics.zipw fold_left]. rewrite c09_eq. rsimp.
  rewrite ?Rmult_0_l, ?Rplus_0_l. decide_cmp. cbn [andb orb]. rewrite ?Rplus_0_l.
  destruct (log_beta_lt1 0) as [-> ->]; [lra|].
  match goal with |- sqrt (if Rltb ?x 0 then 0 else ?x) = 0 => replace x with 0 by (unfold Rdiv; rewrite Rinv_0, Rinv_1; ring) end.
  decide_cmp. apply sqrt_0.
Qed.

Lemma lld_wit_ok : canonical lld_wit_a /\ canonical lld_wit_b /\ canonical lld_wit_c /\ canonical [] /\
  below 2 lld_wit_a /\ below 2 lld_wit_b /\ below 1 lld_wit_c /\ below 1 [].
Proof.
  unfold canonical, sorted_from, nostored0, below, lld_wit_a, lld_wit_b, lld_wit_c. simpl.
  repeat split; try lia; repeat constructor; simpl; try lra; lia.
Qed.

(* excluded class 1: a stored value <= 0.9 whose partner is 0.  Rows (0.5, 0) and (0, 1): every hypothesis of the theorem holds except
   [lld_big a]; the sparse function returns 0, the dense one sqrt(2 * log_single_beta(0.5)) > 0 (the sparse text adds
   log_single_beta(0.5) to self_denom1, the dense text skips it because 0.5 <= 0.9). *)
Theorem sparse_ll_dirichlet_refuted_small :
  canonical lld_wit_a /\ canonical lld_wit_b /\ below 2 lld_wit_a /\ below 2 lld_wit_b /\
  lld_wit_a <> [] /\ lld_wit_b <> [] /\ lld_big lld_wit_b /\ lld_prod lld_wit_a lld_wit_b /\
  sparse_ll_dirichlet RNum RExt lld_wit_a lld_wit_b = 0 /\
  0 < d_ll_dirichlet RNum RExt (densify RNum 2 lld_wit_a) (densify RNum 2 lld_wit_b).
Proof.
  destruct lld_wit_ok as (H1 & H2 & _ & _ & H5 & H6 & _). repeat split; try assumption; try apply H1; try apply H2; try discriminate.
  - repeat constructor. cbn. lra.
  - intros i. left. unfold lld_wit_a, lld_wit_b. rewrite !Rget_cons, !Rget_nil. destruct i as [|[|i]]; cbn; ring.
  - exact lld_wit_sparse.
  - exact lld_wit_dense.
Qed.

(* excluded class 2: exactly one empty row.  Rows () and (1): the sparse function returns 1e8, the dense one (over R, where 1/0 = 0) 0;
   the implementation's dense function divides by the zero total. *)
Theorem sparse_ll_dirichlet_refuted_empty :
  canonical [] /\ canonical lld_wit_c /\ below 1 [] /\ below 1 lld_wit_c /\ lld_big [] /\ lld_big lld_wit_c /\ lld_prod [] lld_wit_c /\
  sparse_ll_dirichlet RNum RExt [] lld_wit_c = 100000000 /\
  d_ll_dirichlet RNum RExt (densify RNum 1 []) (densify RNum 1 lld_wit_c) = 0.
Proof.
  destruct lld_wit_ok as (_ & _ & H3 & H4 & _ & _ & H7 & H8). repeat split; try assumption; try apply H3; try apply H4.
  - constructor.
  - repeat constructor. cbn. lra.
  - intros i. left. rewrite Rget_nil. ring.
  - exact lld_wit_empty_sparse.
  - exact lld_wit_empty_dense.
Qed.

Theorem sparse_ll_dirichlet_refuted :
  exists (a b : rvec) (n : nat), canonical a /\ canonical b /\ below n a /\ below n b /\
    sparse_ll_dirichlet RNum RExt a b <> d_ll_dirichlet RNum RExt (densify RNum n a) (densify RNum n b).
Proof.
  exists lld_wit_a, lld_wit_b, 2%nat. destruct sparse_ll_dirichlet_refuted_small as (H1 & H2 & H3 & H4 & _ & _ & _ & _ & Hs & Hd).
  repeat split; try assumption; try apply H1; try apply H2. rewrite Hs. lra.
Qed.

(* the hypotheses of the theorem are satisfiable: rows (1, 2) and (3, 0) *)
Example lld_nonvacuous :
  let a : rvec := [(0%nat, 1); (1%nat, 2)] in let b : rvec := [(0%nat, 3)] in
  canonical a /\ canonical b /\ below 2 a /\ below 2 b /\ a <> [] /\ b <> [] /\ lld_counts a /\ lld_counts b.
Proof.
  cbv zeta. unfold canonical, sorted_from, nostored0, below, lld_counts. simpl.
  repeat split; try lia; try discriminate; repeat constructor; simpl; try lra; lia.
Qed.

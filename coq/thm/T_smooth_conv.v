(* C01 (extension): the 64-step search converges — if the target total is attained by some bandwidth
   sigma* in [2^-L, 2^L] and n_iter >= 2L+1+J, the value returned by the search calibrates the row to within
   max(tol, (k-1)/2^J). *)
From Coq Require Import List ZArith Bool Reals Lra Lia Psatz.
From UV Require Import Num M_smooth T_smooth.
Import ListNotations.
Local Open Scope R_scope.
Ltac rn := change (T RNum) with R in *.

Section Conv.
Variable tol : R.
Hypothesis tol_pos : 0 < tol.
Variable f : R -> R.
Variable m : R.
Hypothesis m_nonneg : 0 <= m.
Hypothesis f_mono : forall s1 s2, 0 < s1 <= s2 -> f s1 <= f s2.
Hypothesis f_loglip : forall s1 s2, 0 < s1 <= s2 -> f s2 - f s1 <= m * ((s2 - s1) / s1).
Variable t sstar : R.
Hypothesis sstar_pos : 0 < sstar.
Hypothesis f_sstar : f sstar = t.

Notation bis := (Rbisect tol).

Definition good (J : nat) (r : R * bool) : Prop :=
  Rabs (f (fst r) - t) < tol \/ Rabs (f (fst r) - t) <= m / 2 ^ J.

Lemma above_star s : 0 < s -> t < f s -> sstar < s.
Proof.
  intros Hs H. destruct (Rlt_le_dec sstar s) as [|Hle]; auto. exfalso.
  pose proof (f_mono s sstar (conj Hs Hle)). lra.
Qed.

Lemma below_star s : 0 < s -> f s < t -> s < sstar.
Proof.
  intros Hs H. destruct (Rlt_le_dec s sstar) as [|Hle]; auto. exfalso.
  pose proof (f_mono sstar s (conj sstar_pos Hle)). lra.
Qed.

(* one evaluation of the loop body: three outcomes *)
Lemma step_cases mid : 0 < mid ->
  (Rltb (Rabs (f mid - t)) tol = true /\ Rabs (f mid - t) < tol) \/
  (Rltb (Rabs (f mid - t)) tol = false /\ Rltb t (f mid) = true /\ sstar < mid) \/
  (Rltb (Rabs (f mid - t)) tol = false /\ Rltb t (f mid) = false /\ mid < sstar).
Proof.
  intros Hm. destruct (Rltb (Rabs (f mid - t)) tol) eqn:E1.
  - left. split; auto. now apply Rltb_true.
  - right. apply Rltb_false in E1. destruct (Rltb t (f mid)) eqn:E2.
    + left. apply Rltb_true in E2. repeat split; auto. now apply above_star.
    + right. apply Rltb_false in E2. repeat split; auto. apply below_star; auto.
      destruct E2 as [E2|E2]; auto. exfalso. rewrite E2 in E1.
      replace (t - t) with 0 in E1 by ring. rewrite Rabs_R0 in E1. lra.
Qed.

Lemma pow2_pos n : 0 < 2 ^ n.  Proof. apply pow_lt; lra. Qed.

(* bracket phase: lo < sigma* < h, relative width rho; n more steps shrink the error to m*rho/2^n *)
Lemma phaseB : forall n lo h rho, 0 < lo -> lo < sstar -> sstar < h -> (h - lo) / lo <= rho ->
  let r := bis n f t lo (Some h) ((lo + h) / 2) in
  Rabs (f (fst r) - t) < tol \/ Rabs (f (fst r) - t) <= m * rho / 2 ^ n.
Proof.
  induction n as [|n IH]; intros lo h rho Hlo Hls Hsh Hrho.
  - cbn. right. set (mid := (lo + h) / 2).
    assert (Hmid: lo <= mid <= h) by (unfold mid; lra).
    pose proof (f_mono lo mid ltac:(lra)). pose proof (f_mono mid h ltac:(lra)).
    pose proof (f_mono lo sstar ltac:(lra)). pose proof (f_mono sstar h ltac:(lra)).
    pose proof (f_loglip lo h ltac:(lra)) as HL.
    assert (Hr: m * ((h - lo) / lo) <= m * rho) by (apply Rmult_le_compat_l; lra).
    rewrite f_sstar in *. replace (m * rho / 1) with (m * rho) by field.
    apply Rabs_le. lra.
  - unfold Rbisect. cbn [bisect]. fold (Rbisect tol). cbn [ltb nabs sub RNum].
    set (mid := (lo + h) / 2). assert (Hm: 0 < mid) by (unfold mid; lra).
    assert (Hinv: 0 < / lo) by (now apply Rinv_0_lt_compat).
    destruct (step_cases mid Hm) as [[E1 H1]|[[E1 [E2 H2]]|[E1 [E2 H2]]]]; rewrite E1.
    + cbn [fst]. now left.
    + rewrite E2. cbn [add div two one RNum]. fold mid.
      replace ((lo + mid) / (1 + 1)) with ((lo + mid) / 2) by (f_equal; ring).
      destruct (IH lo mid (rho / 2) Hlo Hls H2) as [G|G].
      * unfold mid. unfold Rdiv in *.
        replace ((lo + h) * / 2 - lo) with ((h - lo) * / 2) by field. nra.
      * now left.
      * right. eapply Rle_trans; [exact G|]. right. cbn [pow]. field. pose proof (pow2_pos n). lra.
    + rewrite E2. cbn [add div two one RNum]. fold mid.
      replace ((mid + h) / (1 + 1)) with ((mid + h) / 2) by (f_equal; ring).
      destruct (IH mid h (rho / 2) Hm H2 Hsh) as [G|G].
      * assert (Hmi: 0 < / mid) by (now apply Rinv_0_lt_compat).
        assert (Hle: / mid <= / lo) by (apply Rinv_le_contravar; unfold mid; lra).
        unfold Rdiv in *. assert (h - mid = (h - lo) * / 2) by (unfold mid; field).
        rewrite H. assert (0 <= h - lo) by lra.
        apply Rle_trans with ((h - lo) * / 2 * / lo); [apply Rmult_le_compat_l; nra | nra].
      * now left.
      * right. eapply Rle_trans; [exact G|]. right. cbn [pow]. field. pose proof (pow2_pos n). lra.
Qed.

(* halving phase: lo = 0, h > sigma*, h <= sigma* * 2^q *)
Lemma phaseB0 J : forall q n h, sstar < h -> h <= sstar * 2 ^ q -> (q + J <= n)%nat ->
  good J (bis n f t 0 (Some h) ((0 + h) / 2)).
Proof.
  induction q as [|q IH]; intros n h Hsh Hq Hn.
  - cbn in Hq. lra.
  - destruct n as [|n]; [lia|]. unfold Rbisect. cbn [bisect]. fold (Rbisect tol). cbn [ltb nabs sub RNum].
    set (mid := (0 + h) / 2). assert (Hm: 0 < mid) by (unfold mid; lra).
    destruct (step_cases mid Hm) as [[E1 H1]|[[E1 [E2 H2]]|[E1 [E2 H2]]]]; rewrite E1.
    + left. cbn [fst]. exact H1.
    + rewrite E2. cbn [add div two one zero RNum]. fold mid.
      replace ((0 + mid) / (1 + 1)) with ((0 + mid) / 2) by (f_equal; ring).
      apply IH; auto; [|lia]. unfold mid. cbn [pow] in Hq. lra.
    + rewrite E2. cbn [add div two one RNum]. fold mid.
      replace ((mid + h) / (1 + 1)) with ((mid + h) / 2) by (f_equal; ring).
      destruct (phaseB n mid h 1 Hm H2 Hsh) as [G|G].
      * unfold mid. unfold Rdiv. right. field. lra.
      * now left.
      * right. eapply Rle_trans; [exact G|]. rewrite Rmult_1_r.
        unfold Rdiv. apply Rmult_le_compat_l; auto.
        apply Rinv_le_contravar; [apply pow2_pos|]. apply Rle_pow; [lra|lia].
Qed.

(* doubling phase *)
Lemma phaseA J L : sstar >= / 2 ^ L -> forall q n lo mid,
  ((lo = 0 /\ mid = 1) \/ (0 < lo /\ lo < sstar /\ mid = 2 * lo)) ->
  sstar <= mid * 2 ^ q -> (q + L + 1 + J <= n)%nat ->
  good J (bis n f t lo None mid).
Proof.
  intros HL. induction q as [|q IH]; intros n lo mid Hst Hq Hn; (destruct n as [|n]; [lia|]);
    unfold Rbisect; cbn [bisect]; fold (Rbisect tol); cbn [ltb nabs sub RNum];
    (assert (Hm: 0 < mid) by (destruct Hst as [[_ ->]|[? [? ->]]]; lra));
    destruct (step_cases mid Hm) as [[E1 H1]|[[E1 [E2 H2]]|[E1 [E2 H2]]]]; rewrite E1;
    try (left; cbn [fst]; exact H1); rewrite E2; cbn [add div mul two one RNum].
  - (* q = 0, above: bracket found *)
    replace ((lo + mid) / (1 + 1)) with ((lo + mid) / 2) by (f_equal; ring).
    destruct Hst as [[-> ->]|[Hlo [Hls ->]]].
    + apply (phaseB0 J L); auto; [|lia].
      apply Rmult_le_reg_r with (/ 2 ^ L); [apply Rinv_0_lt_compat, pow2_pos|].
      rewrite Rmult_assoc, Rinv_r by (pose proof (pow2_pos L); lra). lra.
    + destruct (phaseB n lo (2 * lo) 1 Hlo Hls H2) as [G|G].
      * right. field. lra.
      * now left.
      * right. eapply Rle_trans; [exact G|]. rewrite Rmult_1_r. unfold Rdiv. apply Rmult_le_compat_l; auto.
        apply Rinv_le_contravar; [apply pow2_pos|]. apply Rle_pow; [lra|lia].
  - (* q = 0, below: impossible, mid < sstar <= mid *)
    cbn in Hq. lra.
  - replace ((lo + mid) / (1 + 1)) with ((lo + mid) / 2) by (f_equal; ring).
    destruct Hst as [[-> ->]|[Hlo [Hls ->]]].
    + apply (phaseB0 J L); auto; [|lia].
      apply Rmult_le_reg_r with (/ 2 ^ L); [apply Rinv_0_lt_compat, pow2_pos|].
      rewrite Rmult_assoc, Rinv_r by (pose proof (pow2_pos L); lra). lra.
    + destruct (phaseB n lo (2 * lo) 1 Hlo Hls H2) as [G|G].
      * right. field. lra.
      * now left.
      * right. eapply Rle_trans; [exact G|]. rewrite Rmult_1_r. unfold Rdiv. apply Rmult_le_compat_l; auto.
        apply Rinv_le_contravar; [apply pow2_pos|]. apply Rle_pow; [lra|lia].
  - (* below: keep doubling *)
    replace (mid * (1 + 1)) with (2 * mid) by ring.
    apply IH; [right; repeat split; auto | cbn [pow] in Hq; lra | lia].
Qed.

Theorem bisect_converges_gen J L n : / 2 ^ L <= sstar <= 2 ^ L -> (2 * L + 1 + J <= n)%nat ->
  good J (bis n f t 0 None 1).
Proof.
  intros [H1 H2] Hn. apply (phaseA J L ltac:(lra) L); [now left | lra | lia].
Qed.
End Conv.

(* ---- instantiation for psum ----------------------------------------------------------------------------- *)
Lemma exp_diff_bound x s1 s2 : 0 < x -> 0 < s1 <= s2 ->
  exp (- (x / s2)) - exp (- (x / s1)) <= (s2 - s1) / s1.
Proof.
  intros Hx [H1 H2].
  set (u := x / s1). set (v := x / s2).
  assert (Hi1: 0 < / s1) by (now apply Rinv_0_lt_compat).
  assert (Hi2: 0 < / s2) by (apply Rinv_0_lt_compat; lra).
  assert (Hv: 0 < v) by (unfold v, Rdiv; nra).
  assert (Huv: u - v = v * ((s2 - s1) / s1)) by (unfold u, v; field; split; lra).
  assert (Hd: 0 <= (s2 - s1) / s1) by (unfold Rdiv; nra).
  (* e^{-u} = e^{-v} e^{-(u-v)} >= e^{-v} (1 - (u - v)) *)
  assert (E: exp (- u) = exp (- v) * exp (- (u - v))) by (rewrite <- exp_plus; f_equal; ring).
  pose proof (exp_ineq1_le (- (u - v))) as H3.
  pose proof (exp_pos (- v)) as Pv.
  assert (H4: exp (- v) - exp (- u) <= exp (- v) * (u - v)) by (rewrite E; nra).
  (* v e^{-v} <= 1 *)
  assert (H5: exp (- v) * v <= 1).
  { pose proof (exp_ineq1_le v). assert (exp (- v) * exp v = 1) by (rewrite <- exp_plus, Rplus_opp_l; apply exp_0). nra. }
  rewrite Huv in H4. nra.
Qed.

Lemma pterm_loglip rho s1 s2 d : 0 < s1 <= s2 -> Rpterm rho s2 d - Rpterm rho s1 d <= (s2 - s1) / s1.
Proof.
  intros Hs. unfold Rpterm, psum_term; cbn. destruct (Rltb 0 (d - rho)) eqn:E.
  - apply Rltb_true in E. now apply exp_diff_bound.
  - destruct Hs as [H1 H2]. assert (0 < / s1) by (now apply Rinv_0_lt_compat). unfold Rdiv. nra.
Qed.

Lemma nsum_loglip rho s1 s2 l : 0 < s1 <= s2 ->
  Rnsum (map (Rpterm rho s2) l) - Rnsum (map (Rpterm rho s1) l) <= INR (length l) * ((s2 - s1) / s1).
Proof.
  intros Hs. induction l as [|x l IH].
  - cbn. lra.
  - cbn [map length]. rewrite S_INR. unfold Rnsum in *. cbn [nsum]. cbn [add RNum]. rn.
    pose proof (pterm_loglip rho s1 s2 x Hs). lra.
Qed.

Lemma psum_loglip row rho s1 s2 : 0 < s1 <= s2 ->
  Rpsum row rho s2 - Rpsum row rho s1 <= INR (length (tl row)) * ((s2 - s1) / s1).
Proof. intros Hs. apply (nsum_loglip rho s1 s2 (tl row) Hs). Qed.

(* the search on a row: if sigma* in [2^-L, 2^L] attains the target and n_iter >= 2L+1+J, the value found
   calibrates the row to within tol (stopped on the tolerance) or within (k-1)/2^J (ran out of steps) *)
Theorem bisect_converges tol row rho target sstar J L n : 0 < tol -> 0 < sstar ->
  Rpsum row rho sstar = target -> / 2 ^ L <= sstar <= 2 ^ L -> (2 * L + 1 + J <= n)%nat ->
  let s := fst (Rbisect tol n (Rpsum row rho) target 0 None 1) in
  Rabs (Rpsum row rho s - target) < tol \/ Rabs (Rpsum row rho s - target) <= INR (length (tl row)) / 2 ^ J.
Proof.
  intros Ht Hs Hf HL Hn.
  apply (bisect_converges_gen tol Ht (Rpsum row rho) (INR (length (tl row))) (pos_INR _)
           (psum_mono row rho) (psum_loglip row rho) target sstar Hs Hf J L n HL Hn).
Qed.

(* Source-independent lemmas for the link files of the SGD epoch kernels of umap/layouts.py (C07): the facts of coq/link/L_sgd.v
   (Euclidean kernel) that do not mention the generated text, restated here so that coq/link/L_sgdg.v (generic-output-metric
   kernel, its own generated file) can use them without importing the other module's generated source.
   [mix c new old]: the first c entries of [new], the rest of [old] -- the shape of a row while a d-loop rewrites it in place. *)
From Coq Require Import List ZArith Bool Reals Lra Lia.
From UV Require Import Num PyPrim PyPrimLemmas T_link T_link_mat M_sgd.
Import ListNotations.

Lemma for_range_ext_all {S : Type} (lo hi : Z) (f g : Z -> S -> S) (s : S) :
  (forall k s, f k s = g k s) -> for_range lo hi f s = for_range lo hi g s.
Proof. intros E. unfold for_range. apply fold_left_ext. intros. apply E. Qed.
Lemma upd_set {A : Type} (l : list A) (i : nat) (v : A) : upd l i v = set_nth_nat l i v.
Proof. revert i; induction l as [|x l IH]; intros [|i]; cbn; try reflexivity. Qed.

Lemma set_nth_nat_comm {A : Type} (l : list A) (i j : nat) (v w : A) :
  i <> j -> set_nth_nat (set_nth_nat l i v) j w = set_nth_nat (set_nth_nat l j w) i v.
Proof. revert i j; induction l as [|x l IH]; intros [|i] [|j] Hn; cbn; try reflexivity; try lia. f_equal. apply IH. lia. Qed.

(* the first c entries of [new], the others of [old] *)
Fixpoint mix {A : Type} (c : nat) (new old : list A) : list A :=
  match c, new, old with
  | Datatypes.S c', n :: new', o :: old' => n :: mix c' new' old'
  | _, _, _ => old
  end.
Lemma mix_0 {A : Type} (new old : list A) : mix 0 new old = old.
Proof. destruct new, old; reflexivity. Qed.
Lemma mix_nth {A : Type} (d : A) : forall c (new old : list A), nth c (mix c new old) d = nth c old d.
Proof. induction c as [|c IH]; intros [|n new] [|o old]; cbn; try reflexivity. apply IH. Qed.
Lemma mix_length {A : Type} : forall c (new old : list A), length (mix c new old) = length old.
Proof. induction c as [|c IH]; intros [|n new] [|o old]; cbn; try reflexivity. f_equal. apply IH. Qed.
Lemma mix_set {A : Type} (d : A) : forall c (new old : list A), length new = length old -> c < length old ->
  set_nth_nat (mix c new old) c (nth c new d) = mix (Datatypes.S c) new old.
Proof.
  induction c as [|c IH]; intros [|n new] [|o old] L Hc; cbn in *; try lia.
  - reflexivity.
  - f_equal. apply IH; lia.
Qed.
Lemma mix_full {A : Type} : forall (new old : list A), length new = length old -> mix (length old) new old = new.
Proof. induction new as [|n new IH]; intros [|o old] L; cbn in *; try lia; try reflexivity. f_equal. apply IH. lia. Qed.
Lemma mix_same {A : Type} : forall c (l : list A), mix c l l = l.
Proof. induction c as [|c IH]; intros [|x l]; cbn; try reflexivity. f_equal. apply IH. Qed.

Section MatNat.
Context (N : Num).
Lemma mnth_nat (H : list (list N)) (j c : nat) : mnth N H (Z.of_nat j) (Z.of_nat c) = nth c (nth j H []) (zero N).
Proof. unfold mnth, vnth. rewrite !znth_of_nat. reflexivity. Qed.
Lemma mset_nat (H : list (list N)) (j c : nat) (v : N) :
  mset N H (Z.of_nat j) (Z.of_nat c) v = set_nth_nat H j (set_nth_nat (nth j H []) c v).
Proof. unfold mset, vset. rewrite !zset_of_nat, znth_of_nat. reflexivity. Qed.
Lemma mrow_nat (H : list (list N)) (j : nat) : mrow N H (Z.of_nat j) = nth j H [].
Proof. unfold mrow. apply znth_of_nat. Qed.
Lemma nth_map2 (f : N -> N -> N) (d : N) : forall (x y : list N) (c : nat), c < length x -> c < length y ->
  nth c (map2 N f x y) d = f (nth c x d) (nth c y d).
Proof. induction x as [|a x IH]; intros [|b y] [|c] Hx Hy; cbn in *; try lia; try reflexivity. apply IH; lia. Qed.
Lemma map2_length (f : N -> N -> N) : forall (x y : list N), length x = length y -> length (map2 N f x y) = length x.
Proof. induction x as [|a x IH]; intros [|b y] L; cbn in *; try lia. f_equal. apply IH. lia. Qed.
End MatNat.
Definition row_of (st : rng3) : list Z := let '(a, b, c) := st in [a; b; c].
Lemma rect_set {A : Type} (D : nat) (m : list (list A)) (i : nat) (r : list A) :
  rect D m -> length r = D -> rect D (set_nth_nat m i r).
Proof.
  unfold rect. intros HR L. revert i; induction HR as [|x m Hx HR IH]; intros [|i]; cbn; try constructor; auto.
Qed.
Lemma map2_fst (N : Num) (f : N -> N -> N) : forall (x y : list N), (forall c o, f c o = c) -> length x = length y -> map2 N f x y = x.
Proof. induction x as [|a x IH]; intros [|b y] E L; cbn in *; try lia; try reflexivity. rewrite E, IH by (auto; lia). reflexivity. Qed.
Lemma for_range_const {S : Type} (n : nat) (f : Z -> S -> S) (s : S) :
  (forall p q s, f p s = f q s) -> for_range 0 (Z.of_nat n) f s = iter_l n (f 0%Z) s.
Proof. intros E. rewrite <- for_range_iter. apply for_range_ext. intros. apply E. Qed.
Lemma for_range_to_nat {S : Type} (hi : Z) (f : Z -> S -> S) (s : S) : for_range 0 hi f s = for_range 0 (Z.of_nat (Z.to_nat hi)) f s.
Proof. unfold for_range. rewrite !Z.sub_0_r, Nat2Z.id. reflexivity. Qed.
Lemma map_set_nth_nat {A B : Type} (f : A -> B) : forall (l : list A) (i : nat) (v : A), map f (set_nth_nat l i v) = set_nth_nat (map f l) i (f v).
Proof. induction l as [|x l IH]; intros [|i] v; cbn; try reflexivity. f_equal. apply IH. Qed.
Lemma nth_map_row (rngs : list rng3) (j : nat) : j < length rngs -> nth j (map row_of rngs) [] = row_of (nth j rngs (0, 0, 0)%Z).
Proof. intros Hj. rewrite (nth_indep _ [] (row_of (0, 0, 0)%Z)) by (rewrite map_length; exact Hj). apply map_nth. Qed.

(* well-formed embeddings: D columns, nH head rows, nT tail rows (the tail array is not looked at when the flag says shared) *)
Section Wfe.
Context (N : Num) (D : nat).
Definition wfe (sh : bool) (nH nT : nat) (e : emb N) : Prop :=
  rect D (eH N e) /\ length (eH N e) = nH /\ rect D (eT N e) /\ length (eT N e) = nT /\ eshared N e = sh.

Lemma wfe_shape sh nH nT e : wfe sh nH nT e -> e = mkEmb N (eH N e) (eT N e) sh.
Proof. intros (_ & _ & _ & _ & <-). destruct e; reflexivity. Qed.

Lemma tail_len sh nH nT e k : wfe sh nH nT e -> k < (if sh then nH else nT) -> length (get_tail N e k) = D.
Proof.
  intros (HR & HL & HRT & HLT & HS) Hk. unfold get_tail. rewrite HS. destruct sh.
  - apply (rect_nth D _ k HR). lia.
  - apply (rect_nth D _ k HRT). lia.
Qed.

Lemma set_head_wfe sh nH nT e j (row : list N) : wfe sh nH nT e -> length row = D -> wfe sh nH nT (set_head N e j row).
Proof.
  intros (HR & HL & HRT & HLT & HS) L. unfold set_head. repeat split; cbn [eH eT eshared]; auto;
    change (@upd (list N)) with (@set_nth_nat (list N)).
  - apply rect_set; assumption.
  - rewrite set_nth_nat_length. exact HL.
Qed.

Lemma set_tail_wfe sh nH nT e k (row : list N) : wfe sh nH nT e -> length row = D -> wfe sh nH nT (set_tail N e k row).
Proof.
  intros W L. pose proof W as (HR & HL & HRT & HLT & HS). unfold set_tail. rewrite HS. destruct sh.
  - apply set_head_wfe; assumption.
  - repeat split; cbn [eH eT eshared]; auto; change (@upd (list N)) with (@set_nth_nat (list N)).
    + apply rect_set; assumption.
    + rewrite set_nth_nat_length. exact HLT.
Qed.
End Wfe.

(* the edge list the models run over: edge i = (head[i], tail[i], epochs_per_sample[i], epochs_per_negative_sample[i]) *)
Definition edge_at (head tail : list Z) (eps epns : list R) (i : nat) : edge RNum :=
  mkEdge RNum (Z.to_nat (nth i head 0%Z)) (Z.to_nat (nth i tail 0%Z)) (nth i eps 0%R) (nth i epns 0%R).
Definition edges_of (head tail : list Z) (eps epns : list R) : list (edge RNum) :=
  map (edge_at head tail eps epns) (seq 0 (length eps)).

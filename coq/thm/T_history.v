(* C10 theorems: invariants of the call-history machine, by induction over arbitrary histories. *)
From Coq Require Import List Arith Bool Lia.
From UV Require Import M_history.
Import ListNotations.
Arguments input_of : simpl never.

Lemma dtag_eqb_eq a b : dtag_eqb a b = true <-> a = b.
Proof.
  destruct a, b; simpl; split; intros H; try discriminate; try (apply Nat.eqb_eq in H; now subst);
    inversion H; subst; apply Nat.eqb_refl.
Qed.
Lemma dtag_eqb_refl a : dtag_eqb a a = true.
Proof. now apply dtag_eqb_eq. Qed.
Lemma dtag_eqb_neq a b : dtag_eqb a b = false <-> a <> b.
Proof.
  split; intros H.
  - intros E. apply dtag_eqb_eq in E. congruence.
  - destruct (dtag_eqb a b) eqn:E; auto. apply dtag_eqb_eq in E. contradiction.
Qed.

(* ---- the invariant ----------------------------------------------------------------------------- *)
Definition repaired (s : state) : Prop :=
  refresh_key (cd s) = true /\ graph_guard (cd s) = true /\ (approx s = false \/ stack_in_order (cd s) = true).
(* the shortcut is keyed on the current training data; at least two training samples *)
Definition fitted (s : state) : Prop := repaired s /\ key s = cur_tag s /\ 2 <= n_train s.

Lemma tick_fields s :
  n_train (tick s) = n_train s /\ olds (tick s) = olds s /\ n_features (tick s) = n_features s /\
  n_components (tick s) = n_components s /\ key (tick s) = key s /\ md (tick s) = md s /\
  seeded (tick s) = seeded s /\ cd (tick s) = cd s.
Proof. repeat split. Qed.

Lemma step_static s o :
  n_features (fst (step s o)) = n_features s /\ n_components (fst (step s o)) = n_components s /\
  md (fst (step s o)) = md s /\ seeded (fst (step s o)) = seeded s /\ cd (fst (step s o)) = cd s.
Proof.
  destruct o; simpl;
    try (destruct (input_of s _) as [[? ?]|]; simpl);
    try (destruct (Nat.eqb m 0); simpl);
    try (destruct (md s) eqn:Emd; simpl);
    try (destruct (Nat.eqb m 0); simpl);
    try (destruct (graph_guard (cd s)); simpl);
    repeat split; auto.
Qed.

Lemma step_fst s o :
  fst (step s o) = tick s \/
  exists m b, o = Update m /\ m <> 0 /\ fst (step s o) = grow (tick s) m b /\
    ((md s = Embedding /\ b = refresh_key (cd s)) \/
     (md s = GraphMode /\ graph_guard (cd s) = false /\ b = false)).
Proof.
  destruct o; unfold step; cbv beta iota zeta.
  - destruct (input_of s TransformTrain) as [[? ?]|]; left; reflexivity.
  - destruct (input_of s (TransformOldTrain i)) as [[? ?]|]; left; reflexivity.
  - left. reflexivity.
  - destruct (md s); [destruct (Nat.eqb m 0)|]; left; reflexivity.
  - destruct (Nat.eqb m 0) eqn:E0; [now left|]. apply Nat.eqb_neq in E0.
    destruct (md s) eqn:Em; simpl.
    + right. exists m, (refresh_key (cd s)). repeat split; auto.
    + destruct (graph_guard (cd s)) eqn:Eg; simpl; [now left|].
      right. exists m, false. repeat split; auto.
Qed.

Lemma step_approx s o : approx (fst (step s o)) = approx s.
Proof.
  destruct (step_fst s o) as [E | (m & b & _ & _ & E & _)]; rewrite E; reflexivity.
Qed.

Lemma stored_tag_repaired s v : repaired s -> stored_tag s v = DTrain v.
Proof.
  intros (_ & _ & [H|H]); unfold stored_tag; rewrite H; simpl; auto. now rewrite andb_false_r.
Qed.

Lemma step_fitted s o : fitted s -> fitted (fst (step s o)).
Proof.
  intros [Hrep [Hk Hn]]. pose proof Hrep as (Hr & Hg & Ha). unfold fitted, repaired.
  destruct (step_static s o) as (_ & _ & _ & _ & Hcd). rewrite Hcd, step_approx.
  split; [repeat split; assumption|].
  destruct (step_fst s o) as [E | (m & b & _ & _ & E & [[_ Hb] | [_ [Hg' _]]])]; rewrite E.
  - split; auto.
  - subst b. rewrite Hr. unfold grow. simpl.
    change (stored_tag (tick s) (S (version (tick s)))) with (stored_tag s (S (version s))).
    rewrite stored_tag_repaired by exact Hrep.
    unfold cur_tag, version. simpl. rewrite app_length. simpl.
    split; [f_equal; lia | lia].
  - congruence.
Qed.

Lemma final_fitted ops : forall s, fitted s -> fitted (final s ops).
Proof.
  induction ops as [|o r IH]; intros s H; simpl; auto. apply IH. now apply step_fitted.
Qed.

Lemma final_static ops : forall s,
  n_features (final s ops) = n_features s /\ n_components (final s ops) = n_components s /\
  md (final s ops) = md s /\ seeded (final s ops) = seeded s /\ cd (final s ops) = cd s.
Proof.
  induction ops as [|o r IH]; intros s; simpl; [repeat split|].
  destruct (IH (fst (step s o))) as (A & B & C & D & E).
  destruct (step_static s o) as (A' & B' & C' & D' & E'). repeat split; congruence.
Qed.

Lemma final_app s a b : final s (a ++ b) = final (final s a) b.
Proof. unfold final. apply fold_left_app. Qed.

(* every entry of the trace of a history satisfies P as soon as P holds at every fitted state *)
Lemma run_Forall (P : state * op * out -> Prop) :
  (forall s o, fitted s -> P (s, o, snd (step s o))) ->
  forall ops s, fitted s -> Forall P (run s ops).
Proof.
  intros HP. induction ops as [|o r IH]; intros s Hs; simpl; constructor.
  - now apply HP.
  - apply IH. now apply step_fitted.
Qed.

(* ---- what one call returns at a fitted state -------------------------------------------------- *)
Lemma transform_step s o r t : is_transform o = true -> input_of s o = Some (r, t) ->
  snd (step s o) = transform s r t.
Proof. intros Ht Hi. destruct o; try discriminate; unfold step; cbv beta iota zeta; rewrite Hi; reflexivity. Qed.

Lemma input_rows_current s o r : fitted s -> input_of s o = Some (r, cur_tag s) -> r = n_train s.
Proof.
  intros Hf Hi. destruct o; unfold input_of in Hi; try discriminate.
  - now inversion Hi.
  - destruct (Nat.eqb i (version s)) eqn:E; [now inversion Hi|].
    destruct (nth_error (olds s) i) eqn:En; [|discriminate]. inversion Hi; subst.
    apply Nat.eqb_neq in E. congruence.
Qed.

Definition entry_transform (e : state * op * out) : Prop :=
  let '(s, o, res) := e in
  forall r t, input_of s o = Some (r, t) ->
    (o_err res = NoErr <-> r <> 0) /\
    (r <> 0 ->
       o_rows res = r /\ o_cols res = width s /\
       (o_short res = true <-> t = cur_tag s) /\
       (t = cur_tag s -> o_tag res = OEmb (version s) /\ o_rows res = n_train s) /\
       (t <> cur_tag s -> o_tag res = OComp (version s) t r (nonce s))).

Lemma transform_entry s o : fitted s -> entry_transform (s, o, snd (step s o)).
Proof.
  intros Hf r t Hi.
  assert (Ht: is_transform o = true) by (destruct o; unfold input_of in Hi; try discriminate; reflexivity).
  rewrite (transform_step s o r t Ht Hi).
  pose proof Hf as Hf'. destruct Hf as [Hrep [Hk Hn]]. unfold transform.
  assert (E1: Nat.eqb (n_train s) 1 = false) by (apply Nat.eqb_neq; lia). rewrite E1.
  destruct (Nat.eqb r 0) eqn:E0.
  - apply Nat.eqb_eq in E0. subst. simpl. split; [split; [discriminate | intros H; now elim H] | intros H; now elim H].
  - apply Nat.eqb_neq in E0. rewrite Hk.
    destruct (dtag_eqb t (cur_tag s)) eqn:Et.
    + apply dtag_eqb_eq in Et. subst t. simpl.
      assert (r = n_train s) by (apply (input_rows_current s o); [exact Hf' | exact Hi]). subst r.
      split; [tauto|]. intros _. repeat split; auto. intros H; now elim H.
    + apply dtag_eqb_neq in Et. simpl.
      split; [tauto|]. intros _. repeat split; auto; try (intros; discriminate); try contradiction.
Qed.

Theorem transform_contract : forall ops s0, fitted s0 -> Forall entry_transform (run s0 ops).
Proof. intros ops s0 H. apply run_Forall; auto. intros s o Hs. now apply transform_entry. Qed.

(* ---- inverse_transform -------------------------------------------------------------------------- *)
Definition entry_inverse (nf : nat) (e : state * op * out) : Prop :=
  let '(s, o, res) := e in
  forall m, o = Inverse m -> md s = Embedding -> m <> 0 ->
    o_err res = NoErr /\ o_rows res = m /\ o_cols res = nf.

Lemma run_static ops : forall s nf, n_features s = nf ->
  Forall (fun e => n_features (fst (fst e)) = nf) (run s ops).
Proof.
  induction ops as [|o r IH]; intros s nf H; simpl; constructor; auto.
  apply IH. destruct (step_static s o) as (A & _). congruence.
Qed.

Lemma run_is_step ops : forall s,
  Forall (fun e => snd e = snd (step (fst (fst e)) (snd (fst e)))) (run s ops).
Proof. induction ops as [|o r IH]; intros s; simpl; constructor; auto. Qed.

Theorem inverse_rows : forall ops s0, Forall (entry_inverse (n_features s0)) (run s0 ops).
Proof.
  intros ops s0. pose proof (run_static ops s0 _ eq_refl) as H. pose proof (run_is_step ops s0) as G.
  rewrite Forall_forall in *. intros [[s o] res] Hin.
  specialize (H _ Hin). specialize (G _ Hin). simpl in H, G. subst res.
  intros m -> Hm Hz. unfold step. cbv beta iota zeta. rewrite Hm.
  assert (E: Nat.eqb m 0 = false) by (now apply Nat.eqb_neq). rewrite E. simpl. auto.
Qed.

(* ---- repeatability ------------------------------------------------------------------------------ *)
Lemma readonly_step s o : readonly o = true ->
  fst (step s o) = tick s.
Proof.
  intros H. destruct o; try discriminate; simpl.
  - destruct (input_of s TransformTrain) as [[? ?]|]; reflexivity.
  - destruct (input_of s (TransformOldTrain i)) as [[? ?]|]; reflexivity.
  - reflexivity.
  - destruct (md s); [destruct (Nat.eqb m 0)|]; reflexivity.
Qed.

(* two states that differ only in the call counter *)
Definition same_but_clock (a b : state) : Prop :=
  n_train a = n_train b /\ olds a = olds b /\ n_features a = n_features b /\
  n_components a = n_components b /\ key a = key b /\ md a = md b /\ seeded a = seeded b /\ cd a = cd b /\
  approx a = approx b.

Lemma same_tick s : same_but_clock s (tick s).
Proof. repeat split. Qed.
Lemma same_trans a b c : same_but_clock a b -> same_but_clock b c -> same_but_clock a c.
Proof. unfold same_but_clock; intuition congruence. Qed.

Lemma readonly_final mid : forall s, forallb readonly mid = true -> same_but_clock s (final s mid).
Proof.
  induction mid as [|o r IH]; intros s H; simpl.
  - repeat split.
  - simpl in H. apply andb_true_iff in H as [Ho Hr]. rewrite readonly_step; auto.
    eapply same_trans; [apply same_tick | apply IH; auto].
Qed.

Lemma seeded_out_same a b o : same_but_clock a b -> seeded a = true -> is_transform o = true ->
  snd (step a o) = snd (step b o).
Proof.
  intros (Hn & Ho & Hf & Hc & Hk & Hm & Hs & Hcd & Hap) Hsd Ht.
  assert (Hv: version a = version b) by (unfold version; now rewrite Ho).
  assert (Hno: nonce a = nonce b) by (unfold nonce; rewrite <- Hs, Hsd; reflexivity).
  assert (Hw: width a = width b) by (unfold width; rewrite Hm, Hc, Hn; reflexivity).
  assert (Hi: input_of a o = input_of b o).
  { destruct o; try discriminate; unfold input_of, cur_tag; rewrite ?Hv, ?Hn, ?Ho; reflexivity. }
  assert (Htr: forall r t, transform a r t = transform b r t).
  { intros r t. unfold transform. rewrite Hn, Hk, Hw, Hv, Hno. reflexivity. }
  destruct o; try discriminate; unfold step; cbv beta iota zeta; rewrite <- Hi;
    destruct (input_of a _) as [[r0 t0]|]; simpl; auto.
Qed.

(* the same transform call, repeated after any read-only calls, at any point of any history of a
   seeded model, returns the same output *)
Theorem transform_repeatable : forall pre mid o s0,
  seeded s0 = true -> is_transform o = true -> forallb readonly mid = true ->
  let s := final s0 pre in
  snd (step s o) = snd (step (final s (o :: mid)) o).
Proof.
  intros pre mid o s0 Hsd Ht Hmid s.
  assert (Hs: seeded s = true).
  { destruct (final_static pre s0) as (_ & _ & _ & D & _). unfold s. congruence. }
  apply seeded_out_same; auto.
  apply (readonly_final (o :: mid)). simpl. rewrite Hmid.
  destruct o; try discriminate; reflexivity.
Qed.

(* ---- the training set only grows by what update() was given ------------------------------------- *)
Fixpoint added (md0 : mode) (guard : bool) (ops : list op) : nat :=
  match ops with
  | [] => 0
  | Update m :: r => (match md0 with Embedding => m | GraphMode => if guard then 0 else m end) + added md0 guard r
  | _ :: r => added md0 guard r
  end.

Theorem n_train_final : forall ops s, n_train (final s ops) = n_train s + added (md s) (graph_guard (cd s)) ops.
Proof.
  induction ops as [|o r IH]; intros s; simpl; [lia|].
  rewrite IH. destruct (step_static s o) as (_ & _ & Hm & _ & Hc). rewrite Hm, Hc.
  destruct o; simpl;
    repeat match goal with
           | |- context [match input_of ?s ?o with _ => _ end] => destruct (input_of s o) as [[? ?]|]; simpl
           end; try lia.
  - destruct (md s); [destruct (Nat.eqb m 0)|]; simpl; lia.
  - destruct (Nat.eqb m 0) eqn:E; simpl.
    + apply Nat.eqb_eq in E. subst. destruct (md s); [|destruct (graph_guard (cd s))]; lia.
    + destruct (md s); simpl; [lia|]. destruct (graph_guard (cd s)); simpl; lia.
Qed.

(* ---- refutations: what the machine does when update() lacks one of the two repairs ------------- *)
Definition stale_code := mkCode false true true.       (* update() does not refresh _input_hash *)
Definition unguarded_code := mkCode true false true.   (* update() does not refuse graph mode *)
Definition reordered_code := mkCode true true false.   (* update() adopts the index's reordered copy of the data *)

(* fit(30 samples); update(5); transform(the original 30 samples) returns 35 rows, and
   transform(the 35 current samples) is not recognised as the training data *)
Lemma stale_key_refuted :
  let s0 := fresh 30 4 2 Embedding true false stale_code in
  key s0 = cur_tag s0 /\ 2 <= n_train s0 /\
  map (fun e => (o_rows (snd e), o_short (snd e))) (run s0 [Update 5; TransformOldTrain 0; TransformTrain])
    = [(35, false); (35, true); (35, false)] /\
  input_of (final s0 [Update 5]) (TransformOldTrain 0) = Some (30, DTrain 0) /\
  ~ Forall entry_transform (run s0 [Update 5; TransformOldTrain 0]).
Proof.
  cbv zeta. repeat split; try (simpl; lia).
  intros H. inversion H as [|? ? _ H2]; subst. inversion H2 as [|? ? H3 _]; subst.
  specialize (H3 30 (DTrain 0) eq_refl). destruct H3 as [_ H3].
  destruct (H3 ltac:(discriminate)) as [Hrows _]. simpl in Hrows. discriminate.
Qed.

(* graph mode: update(5) raises after it has replaced the training data; afterwards
   transform(the original 30 samples) returns the 35 x 35 graph *)
Lemma graph_update_refuted :
  let s0 := fresh 30 4 2 GraphMode true false unguarded_code in
  map (fun e => (o_err (snd e), o_rows (snd e), o_cols (snd e))) (run s0 [Update 5; TransformOldTrain 0])
    = [(ErrOther, 0, 0); (NoErr, 35, 35)] /\
  ~ Forall entry_transform (run s0 [Update 5; TransformOldTrain 0]).
Proof.
  cbv zeta. split; [reflexivity|].
  intros H. inversion H as [|? ? _ H2]; subst. inversion H2 as [|? ? H3 _]; subst.
  specialize (H3 30 (DTrain 0) eq_refl). destruct H3 as [_ H3].
  destruct (H3 ltac:(discriminate)) as [Hrows _]. simpl in Hrows. discriminate.
Qed.

(* ---- non-vacuity ---------------------------------------------------------------------------------- *)
(* approximate-neighbour model whose update() keeps the index's tree-ordered copy as _raw_data: the refreshed
   fingerprint is that of the permuted rows, so transform(the 35 current samples) is not recognised *)
Lemma reordered_refuted :
  let s0 := fresh 30 4 2 Embedding true true reordered_code in
  map (fun e => (o_rows (snd e), o_short (snd e))) (run s0 [TransformTrain; Update 5; TransformTrain])
    = [(30, true); (35, false); (35, false)] /\
  ~ Forall entry_transform (run s0 [Update 5; TransformTrain]).
Proof.
  cbv zeta. split; [reflexivity|].
  intros H. inversion H as [|? ? _ H2]; subst. inversion H2 as [|? ? H3 _]; subst.
  specialize (H3 35 (DTrain 1) eq_refl). destruct H3 as [_ H3].
  destruct (H3 ltac:(discriminate)) as (_ & _ & [_ Hs] & _). simpl in Hs.
  specialize (Hs eq_refl). discriminate Hs.
Qed.

Definition good_code := mkCode true true true.
Lemma history_nonvacuous :
  let s0 := fresh 30 4 2 Embedding true true good_code in
  fitted s0 /\
  map (fun e => (o_rows (snd e), o_cols (snd e), o_short (snd e)))
      (run s0 [TransformTrain; TransformNew 3 7; Update 5; TransformOldTrain 0; TransformTrain; Inverse 2])
    = [(30, 2, true); (3, 2, false); (35, 2, false); (30, 2, false); (35, 2, true); (2, 4, false)].
Proof. cbv zeta. split; [repeat split; simpl; auto; lia | reflexivity]. Qed.

(* C17 theorems. *)
From Coq Require Import List ZArith Bool Reals Lra Lia Psatz.
From UV Require Import Num M_sgd M_dens T_sgd.
Import ListNotations.
Local Open Scope R_scope.
Ltac rn := change (T RNum) with R in *.

(* ---- the density term is switched off by lambda = 0 or frac = 0 ---------------------------------- *)
Lemma flag_off dm (lambda frac : R) n N : lambda = 0 \/ frac = 0 -> (0 <= n < N)%Z ->
  densmap_flag RNum dm lambda frac n N = false.
Proof.
  intros H [Hn HN]. unfold densmap_flag; cbn. destruct H as [->| ->].
  - assert (E: Rltb 0 0 = false) by (apply Rltb_false; lra). rewrite E. now rewrite andb_false_r.
  - assert (E: Rltb (1 - 0) (IZR (n + 1) / IZR N) = false).
    { apply Rltb_false. assert (0 < IZR N) by (apply IZR_lt; lia).
      assert (IZR (n + 1) <= IZR N) by (apply IZR_le; lia).
      apply Rmult_le_reg_r with (IZR N); auto. unfold Rdiv. rewrite Rmult_assoc, Rinv_l; lra. }
    rewrite E. now rewrite andb_false_r.
Qed.

Section Off.
Variables a b gamma : R.
Variable nv : Z.

Lemma edge_step_dens_off cx alpha mo n s i ed :
  edge_step_dens RNum false cx a b gamma alpha mo nv n s i ed = edge_step RNum a b gamma alpha mo nv n s i ed.
Proof. reflexivity. Qed.

Lemma edges_from_dens_off cx alpha mo n : forall es i s,
  edges_from_dens RNum false cx a b gamma alpha mo nv n i es s = edges_from RNum a b gamma alpha mo nv n i es s.
Proof. induction es as [|ed es IH]; intros i s; cbn [edges_from_dens edges_from]; [reflexivity|]. now rewrite IH, edge_step_dens_off. Qed.

Lemma run_dens_from_off dp alpha0 mo nepochs es :
  p_lambda RNum dp = 0 \/ p_frac RNum dp = 0 ->
  forall fuel n s, (0 <= n)%Z -> (n + Z.of_nat fuel <= nepochs)%Z ->
  run_dens_from RNum dp a b gamma alpha0 mo nv nepochs es fuel n s = run_from RNum a b gamma alpha0 mo nv nepochs es fuel n s.
Proof.
  intros Hoff. induction fuel as [|f IH]; intros n s Hn Hf; cbn [run_dens_from run_from]; [reflexivity|].
  rewrite (flag_off (p_densmap RNum dp) _ _ n nepochs Hoff) by lia.
  unfold epoch_dens, epoch. rewrite edges_from_dens_off. apply IH; lia.
Qed.

(* with zero weight (or zero fraction) densMAP performs exactly the UMAP optimisation: same positions,
   same clocks, same random draws, for every graph, schedule and epoch count *)
Theorem dens_off_is_umap dp alpha0 mo nepochs es s :
  p_lambda RNum dp = 0 \/ p_frac RNum dp = 0 ->
  run_dens RNum dp a b gamma alpha0 mo nv nepochs es s = run RNum a b gamma alpha0 mo nv nepochs es s.
Proof.
  intros H. unfold run_dens, run. destruct (Z.le_gt_cases 0 nepochs).
  - apply run_dens_from_off; auto; [lia | rewrite Z2Nat.id; lia].
  - replace (Z.to_nat nepochs) with O by (destruct nepochs; cbn; lia). reflexivity.
Qed.
End Off.

(* ---- local radii ----------------------------------------------------------------------------------- *)
Lemma length_upd {A} (l : list A) i v : length (upd l i v) = length l.
Proof. revert i; induction l as [|x l IH]; intros [|i]; simpl; auto. Qed.

Lemma nth_upd_other {A} (l : list A) i j v d : i <> j -> nth i (upd l j v) d = nth i l d.
Proof. revert i j; induction l as [|x l IH]; intros [|i] [|j] H; simpl; auto; try lia. Qed.

Definition Racc2 : list R -> nat -> nat -> R -> list R := acc2 RNum.

Lemma length_acc2 l j k x : length (Racc2 l j k x) = length l.
Proof. unfold Racc2, acc2. now rewrite !length_upd. Qed.

Lemma nth_acc2 l j k x v : (v < length l)%nat ->
  nth v (Racc2 l j k x) 0 = nth v l 0 + ((if Nat.eqb j v then x else 0) + (if Nat.eqb k v then x else 0)).
Proof.
  intros Hv. unfold Racc2, acc2; cbn [add RNum zero]. rn.
  destruct (Nat.eqb_spec k v) as [->|Hk].
  - rewrite nth_upd_same by (now rewrite length_upd).
    destruct (Nat.eqb_spec j v) as [->|Hj].
    + rewrite nth_upd_same by assumption. lra.
    + rewrite nth_upd_other by auto. lra.
  - rewrite nth_upd_other by auto.
    destruct (Nat.eqb_spec j v) as [->|Hj].
    + rewrite nth_upd_same by assumption. lra.
    + rewrite nth_upd_other by auto. lra.
Qed.

Definition Rwdsum : nat -> list (redge RNum) -> R := wdsum RNum.
Definition Rwsum : nat -> list (redge RNum) -> R := wsum RNum.

Lemma radii_acc_spec : forall es ro ms v, (v < length ro)%nat -> (v < length ms)%nat ->
  nth v (fst (radii_acc RNum es ro ms)) 0 = nth v ro 0 + Rwdsum v es /\
  nth v (snd (radii_acc RNum es ro ms)) 0 = nth v ms 0 + Rwsum v es /\
  length (fst (radii_acc RNum es ro ms)) = length ro /\ length (snd (radii_acc RNum es ro ms)) = length ms.
Proof.
  induction es as [|e es IH]; intros ro ms v Hro Hms; cbn [radii_acc fst snd].
  - unfold Rwdsum, Rwsum; cbn. repeat split; lra.
  - fold (Racc2 ro (r_head RNum e) (r_tail RNum e) (mul RNum (r_mu RNum e) (r_D RNum e))).
    fold (Racc2 ms (r_head RNum e) (r_tail RNum e) (r_mu RNum e)).
    destruct (IH (Racc2 ro (r_head RNum e) (r_tail RNum e) (mul RNum (r_mu RNum e) (r_D RNum e)))
                 (Racc2 ms (r_head RNum e) (r_tail RNum e) (r_mu RNum e)) v) as (H1 & H2 & H3 & H4);
      try (rewrite length_acc2; assumption).
    rewrite H1, H2, H3, H4, !length_acc2, !nth_acc2 by assumption.
    unfold Rwdsum, Rwsum; cbn [wdsum wsum]; unfold contrib; cbn [add mul zero RNum]. rn. repeat split; try lra; reflexivity.
Qed.

Lemma nth_repeat0 n v : nth v (repeat 0 n) 0 = 0.
Proof. revert v; induction n as [|n IH]; intros [|v]; simpl; auto. Qed.

Lemma nth_map2 (f : R -> R -> R) : forall x y v, (v < length x)%nat -> (v < length y)%nat ->
  nth v (map2 RNum f x y) 0 = f (nth v x 0) (nth v y 0).
Proof.
  induction x as [|a x IH]; intros [|b y] [|v] Hx Hy; simpl in *; try lia; auto. apply IH; lia.
Qed.

(* the radius of vertex v is the log of (eps + membership-weighted mean of D over the edges incident to v),
   every edge contributing to both of its end points *)
Theorem radii_def nvert es v : (v < nvert)%nat ->
  nth v (radii RNum nvert es) 0 = ln (/ 100000000 + Rwdsum v es / Rwsum v es).
Proof.
  intros Hv. unfold radii.
  pose proof (radii_acc_spec es (repeat 0 nvert) (repeat 0 nvert) v) as H.
  rewrite !repeat_length in H. specialize (H Hv Hv). revert H. cbn [zero RNum]. rn.
  destruct (radii_acc RNum es (repeat 0 nvert) (repeat 0 nvert)) as [ro ms]. cbn [fst snd].
  intros (H1 & H2 & H3 & H4). rewrite nth_repeat0 in H1, H2.
  rn. rewrite nth_map2 by (rn; lia). cbn. unfold eps8; cbn. rewrite H1, H2. rewrite !Rplus_0_l. unfold Rdiv. rewrite Rmult_1_l. reflexivity.
Qed.

(* the argument of the logarithm is positive (so the radius is a finite real) for every vertex of positive degree *)
Theorem radii_finite v es : 0 < Rwsum v es -> 0 <= Rwdsum v es ->
  0 < / 100000000 + Rwdsum v es / Rwsum v es.
Proof.
  intros Hs Hd. assert (0 <= Rwdsum v es / Rwsum v es).
  { apply Rmult_le_pos; [assumption|]. left. now apply Rinv_0_lt_compat. }
  lra.
Qed.

Lemma wdsum_nonneg v es : Forall (fun e => 0 <= r_mu RNum e /\ 0 <= r_D RNum e) es -> 0 <= Rwdsum v es.
Proof.
  induction 1 as [|e es [Hm HD] Hf IH]; unfold Rwdsum in *; cbn [wdsum]; unfold contrib; cbn [add mul zero RNum]; rn; [lra|].
  assert (0 <= r_mu RNum e * r_D RNum e) by (now apply Rmult_le_pos).
  destruct (Nat.eqb _ v), (Nat.eqb _ v); lra.
Qed.

(* non-vacuity: one edge (0,1) of membership 1/2 and squared distance 4: both ends have radius ln(1e-8 + 4) *)
Lemma radii_example :
  Rwsum 0 [mkRE RNum 0 1 (/ 2) 4] = / 2 /\ Rwdsum 0 [mkRE RNum 0 1 (/ 2) 4] = 2 /\
  Rwsum 1 [mkRE RNum 0 1 (/ 2) 4] = / 2 /\ 0 < Rwsum 0 [mkRE RNum 0 1 (/ 2) 4].
Proof. unfold Rwsum, Rwdsum; cbn. repeat split; lra. Qed.

(* C11 theorems. *)
From Coq Require Import List ZArith Bool Arith Reals Lra Lia.
From UV Require Import Num M_update.
Import ListNotations.

(* ---- part 1: the graph update() builds is the graph fit() builds on the stacked data ------------- *)
Lemma resolve_k_big nn n : nn < n -> resolve_k nn n = nn.
Proof. intros H. unfold resolve_k. destruct (Nat.leb n nn) eqn:E; auto. apply Nat.leb_le in E. lia. Qed.

Section DecisionThms.
Context (N : Num).
Variable point : Type.
Variable dist : point -> point -> N.
Variable G : Type.
Variable gs : nat -> list (list (option N)) -> G.

(* the disconnection distance removes nothing from the table of X *)
Definition below (disc : option N) (d : N) : Prop :=
  match disc with Some t => leb N t d = false | None => True end.
Definition cut_inactive (disc : option N) (X : list point) : Prop :=
  forall x y, In x X -> In y X -> below disc (dist x y).

Lemma cut_entry_below disc d : below disc d -> cut_entry N disc d = cut_entry N None d.
Proof. destruct disc as [t|]; simpl; auto. intros ->. reflexivity. Qed.

Lemma cut_inactive_eq disc X : cut_inactive disc X -> cut N disc (dmat N point dist X) = cut N None (dmat N point dist X).
Proof.
  intros H. unfold cut, dmat. rewrite !map_map. apply map_ext_in. intros x Hx.
  rewrite !map_map. apply map_ext_in. intros y Hy. apply cut_entry_below. now apply H.
Qed.

Lemma cut_inactive_sub disc X Y : (forall x, In x X -> In x Y) -> cut_inactive disc Y -> cut_inactive disc X.
Proof. intros S H x y Hx Hy. apply H; auto. Qed.

Definition Fit := fit N point dist G gs.
Definition Update := update N point dist G gs.

Theorem update_eq_fit : forall c nn disc X1 X2,
  (re_resolve c = true \/ nn < length X1) ->
  (cut_on_update c = true \/ cut_inactive disc (X1 ++ X2)) ->
  Update c nn disc (Fit nn disc X1) X2 = Fit nn disc (X1 ++ X2).
Proof.
  intros c nn disc X1 X2 Hk Hc. unfold Update, Fit, update, fit. simpl.
  assert (Ek: (if re_resolve c then resolve_k nn (length (X1 ++ X2)) else resolve_k nn (length X1))
              = resolve_k nn (length (X1 ++ X2))).
  { destruct (re_resolve c); auto. destruct Hk as [Hk|Hk]; [discriminate|].
    rewrite !resolve_k_big; auto. rewrite app_length. lia. }
  assert (Ec: cut N (if cut_on_update c then disc else None) (dmat N point dist (X1 ++ X2))
              = cut N disc (dmat N point dist (X1 ++ X2))).
  { destruct (cut_on_update c); auto. destruct Hc as [Hc|Hc]; [discriminate|].
    symmetry. now apply cut_inactive_eq. }
  rewrite Ek, Ec. reflexivity.
Qed.

(* any number of update batches *)
Theorem update_chain_eq_fit : forall c nn disc batches X1,
  (re_resolve c = true \/ nn < length X1) ->
  (cut_on_update c = true \/ cut_inactive disc (X1 ++ concat batches)) ->
  update_chain N point dist G gs c nn disc X1 batches = Fit nn disc (X1 ++ concat batches).
Proof.
  intros c nn disc batches. unfold update_chain.
  induction batches as [|B rest IH]; intros X1 Hk Hc; simpl.
  - now rewrite app_nil_r.
  - fold (Fit nn disc X1). fold Update.
    rewrite update_eq_fit; auto.
    + unfold Fit. rewrite IH.
      * now rewrite app_assoc.
      * destruct Hk as [Hk|Hk]; [now left | right; rewrite app_length; lia].
      * destruct Hc as [Hc|Hc]; [now left | right]. now rewrite <- app_assoc.
    + destruct Hc as [Hc|Hc]; [now left | right].
      eapply cut_inactive_sub; [|exact Hc]. intros x Hx. simpl.
      apply in_app_or in Hx as [Hx|Hx]; apply in_or_app; [now left | right; apply in_or_app; now left].
Qed.

(* in particular the neighbour count a later transform/update works with is the fresh fit's *)
Corollary update_k_eq_fit : forall c nn disc X1 X2,
  (re_resolve c = true \/ nn < length X1) -> (cut_on_update c = true \/ cut_inactive disc (X1 ++ X2)) ->
  f_k point G (Update c nn disc (Fit nn disc X1) X2) = resolve_k nn (length (X1 ++ X2)).
Proof. intros. rewrite update_eq_fit; auto. Qed.

End DecisionThms.

(* ---- refutations outside the hypotheses (points on the real line, the graph stage returns what it is given) *)
Local Open Scope R_scope.
Definition Rdist (x y : R) : R := Rabs (x - y).
Definition Rgs (k : nat) (t : list (list (option R))) : nat * list (list (option R)) := (k, t).
Definition RFit := fit RNum R Rdist _ Rgs.
Definition RUpdate := update RNum R Rdist _ Rgs.

(* n1 <= n_neighbors and update() keeps the truncated value: fit on 3 points with n_neighbors = 3 stores 2;
   after 3 more points the fresh fit uses 3 *)
Lemma stale_k_refuted :
  let c := mkUcode false true in
  f_k _ _ (RUpdate c 3%nat None (RFit 3%nat None [0; 1; 2]) [3; 4; 5]) = 2%nat /\
  f_k _ _ (RFit 3%nat None ([0; 1; 2] ++ [3; 4; 5])) = 3%nat /\
  RUpdate c 3%nat None (RFit 3%nat None [0; 1; 2]) [3; 4; 5] <> RFit 3%nat None ([0; 1; 2] ++ [3; 4; 5]).
Proof.
  cbv zeta. split; [reflexivity | split; [reflexivity|]].
  intros H. apply (f_equal (f_k _ _)) in H. discriminate H.
Qed.

Definition entry02 (s : fitted R (nat * list (list (option R)))) : option R :=
  nth 2 (nth 0 (snd (f_G _ _ s)) []) (Some 0).

(* an active disconnection distance that update() does not apply: points 0, 1 then 5, cut at 3 *)
Lemma no_cut_refuted :
  let c := mkUcode true false in
  entry02 (RUpdate c 1%nat (Some 3) (RFit 1%nat (Some 3) [0; 1]) [5]) = Some (Rdist 0 5) /\
  entry02 (RFit 1%nat (Some 3) ([0; 1] ++ [5])) = None /\
  RUpdate c 1%nat (Some 3) (RFit 1%nat (Some 3) [0; 1]) [5] <> RFit 1%nat (Some 3) ([0; 1] ++ [5]).
Proof.
  cbv zeta.
  assert (E1: entry02 (RUpdate (mkUcode true false) 1%nat (Some 3) (RFit 1%nat (Some 3) [0; 1]) [5]) = Some (Rdist 0 5)) by reflexivity.
  assert (E2: entry02 (RFit 1%nat (Some 3) ([0; 1] ++ [5])) = None).
  { unfold entry02, RFit, fit, cut, dmat. simpl. unfold cut_entry. cbn.
    assert (L: Rleb 3 (Rdist 0 5) = true).
    { apply Rleb_true. unfold Rdist, Rabs. destruct (Rcase_abs (0 - 5)); lra. }
    rewrite L. reflexivity. }
  split; [exact E1 | split; [exact E2|]].
  intros H. rewrite H in E1. rewrite E1 in E2. discriminate E2.
Qed.

(* ---- part 2: init_update -------------------------------------------------------------------------- *)
Definition col (d : nat) (row : list R) : R := nth d row 0.
Definition Rvadd : list R -> list R -> list R := vadd RNum.
Definition RrowZ : list (list R) -> Z -> list R := rowZ RNum.
Definition Racc : list (list R) -> Z -> list Z -> list R -> nat -> list R * nat := acc_old RNum.
Definition Rinit_row : list (list R) -> Z -> list Z -> list R -> list R := init_row RNum.
Definition olds (n_orig : Z) (idx : list Z) : list Z := filter (is_old n_orig) idx.
(* sum over the old neighbours of coordinate d of their rows *)
Definition colsum (tbl : list (list R)) (d : nat) (js : list Z) : R :=
  fold_right (fun j acc => col d (RrowZ tbl j) + acc) 0 js.

Lemma vadd_length a : forall b, length a = length b -> length (Rvadd a b) = length a.
Proof. induction a as [|x a IH]; intros [|y b] H; simpl in *; try discriminate; auto. Qed.

Lemma vadd_col a : forall b d, length a = length b -> col d (Rvadd a b) = col d a + col d b.
Proof.
  induction a as [|x a IH]; intros [|y b] d H; simpl in *; try discriminate.
  - unfold col. destruct d; simpl; lra.
  - destruct d; unfold col; simpl; [reflexivity|]. apply IH. lia.
Qed.

Section InitThms.
Variable tbl : list (list R).
Variable D : nat.
Variable n_orig : Z.
Hypothesis rows_D : Forall (fun r => length r = D) tbl.
Hypothesis orig_le : (Z.to_nat n_orig <= length tbl)%nat.

Lemma old_row_length j : is_old n_orig j = true -> length (RrowZ tbl j) = D.
Proof.
  unfold is_old. intros H. apply andb_true_iff in H as [H0 H1].
  apply Z.leb_le in H0. apply Z.ltb_lt in H1. unfold RrowZ, rowZ.
  assert (L: (Z.to_nat j < length tbl)%nat) by lia.
  rewrite Forall_forall in rows_D. apply rows_D. now apply nth_In.
Qed.

Lemma acc_old_spec : forall idx cur n, length cur = D ->
  let '(s, m) := Racc tbl n_orig idx cur n in
  m = (n + length (olds n_orig idx))%nat /\ length s = D /\
  forall d, col d s = col d cur + colsum tbl d (olds n_orig idx).
Proof.
  induction idx as [|j r IH]; intros cur n Hc; simpl.
  - split; [lia | split; [exact Hc | intros d; lra]].
  - unfold olds. simpl. destruct (is_old n_orig j) eqn:E.
    + pose proof (old_row_length j E) as HL.
      specialize (IH (vadd RNum cur (rowZ RNum tbl j)) (S n)).
      assert (Hl: length (vadd RNum cur (rowZ RNum tbl j)) = D).
      { change (length (Rvadd cur (RrowZ tbl j)) = D). rewrite vadd_length; congruence. }
      specialize (IH Hl). unfold Racc in *. destruct (acc_old RNum tbl n_orig r _ (S n)) as [s m].
      destruct IH as (A & B & C). repeat split; auto.
      * simpl. fold (olds n_orig r). lia.
      * intros d. rewrite C. change (col d (Rvadd cur (RrowZ tbl j)) + colsum tbl d (olds n_orig r)
                                     = col d cur + colsum tbl d (j :: olds n_orig r)).
        rewrite vadd_col by congruence. unfold colsum at 2. simpl. fold (colsum tbl d (olds n_orig r)). lra.
    + specialize (IH cur n Hc). unfold Racc in *. destruct (acc_old RNum tbl n_orig r cur n) as [s m]. exact IH.
Qed.

Lemma col_map_div c : forall l d, col d (map (fun x => x / c) l) = col d l / c.
Proof.
  induction l as [|x l IH]; intros d; unfold col in *; simpl.
  - destruct d; unfold Rdiv; ring.
  - destruct d; [reflexivity | apply IH].
Qed.

(* a new row with at least one old neighbour: every coordinate is (initial value + sum over the old
   neighbours) / number of old neighbours *)
Theorem init_row_mean : forall idx cur, length cur = D -> olds n_orig idx <> [] ->
  forall d, col d (Rinit_row tbl n_orig idx cur)
            = (col d cur + colsum tbl d (olds n_orig idx)) / INR (length (olds n_orig idx)).
Proof.
  intros idx cur Hc Hne d. unfold Rinit_row, init_row.
  pose proof (acc_old_spec idx cur O Hc) as S. unfold Racc in S.
  destruct (acc_old RNum tbl n_orig idx cur 0) as [s m]. destruct S as (A & B & C). simpl in A. subst m.
  destruct (Nat.eqb (length (olds n_orig idx)) 0) eqn:E.
  - apply Nat.eqb_eq in E. destruct (olds n_orig idx); [contradiction | discriminate].
  - etransitivity; [apply (col_map_div (IZR (Z.of_nat (length (olds n_orig idx)))))|].
    rewrite C, <- INR_IZR_INZ. reflexivity.
Qed.

(* started from zeros (as update() does) that is the mean of the old neighbours' rows *)
Corollary init_row_is_mean : forall idx, olds n_orig idx <> [] ->
  forall d, col d (Rinit_row tbl n_orig idx (repeat 0 D))
            = colsum tbl d (olds n_orig idx) / INR (length (olds n_orig idx)).
Proof.
  intros idx Hne d. rewrite init_row_mean; auto; [|apply repeat_length].
  assert (Z0: col d (repeat 0 D) = 0).
  { unfold col. clear. revert d. induction D as [|n IH]; intros [|d]; simpl; auto. }
  rewrite Z0. f_equal. lra.
Qed.

(* no old neighbour (e.g. a batch forming a far group): the row is left as it is, nothing is divided *)
Theorem init_row_no_old : forall idx cur, length cur = D -> olds n_orig idx = [] ->
  Rinit_row tbl n_orig idx cur = cur.
Proof.
  intros idx cur Hc He. unfold Rinit_row, init_row.
  assert (G: forall cur n, acc_old RNum tbl n_orig idx cur n = (cur, n)).
  { clear Hc. unfold olds in He. induction idx as [|j r IH]; intros c n; simpl; auto.
    simpl in He. destruct (is_old n_orig j); [discriminate|]. apply IH. exact He. }
  rewrite G. reflexivity.
Qed.

End InitThms.

(* the table keeps its number of rows, and the old rows are untouched *)
Theorem init_update_shape : forall tbl n_orig indices, length indices = length tbl ->
  length (init_update RNum tbl n_orig indices) = length tbl /\
  firstn n_orig (init_update RNum tbl n_orig indices) = firstn n_orig tbl.
Proof.
  intros tbl n_orig indices H. unfold init_update. split.
  - rewrite app_length, map_length, combine_length, !skipn_length, firstn_length, H. lia.
  - destruct (Nat.le_gt_cases n_orig (length tbl)) as [L|L].
    + rewrite firstn_app, firstn_firstn, Nat.min_id, firstn_length, Nat.min_l by auto.
      rewrite Nat.sub_diag. simpl. now rewrite app_nil_r.
    + rewrite !firstn_all2; try lia.
      * rewrite !skipn_all2 by lia. simpl. now rewrite app_nil_r.
      * rewrite app_length, map_length, combine_length, !skipn_length, firstn_length. lia.
Qed.

(* the code before the repair: mean divided by the number of components, and a division by zero for a row
   without old neighbours *)
Lemma init_row_legacy_refuted :
  let tbl := [[2; 4]; [4; 8]; [0; 0]] in
  init_row_legacy RNum tbl 2 [2%Z; 0%Z; 1%Z] [0; 0] = Some [3 / 2; 3] /\
  (forall d, col d (Rinit_row tbl 2 [2%Z; 0%Z; 1%Z] [0; 0]) = col d [3; 6]) /\
  init_row_legacy RNum tbl 2 [2%Z; 2%Z] [0; 0] = None /\
  Rinit_row tbl 2 [2%Z; 2%Z] [0; 0] = [0; 0].
Proof.
  cbv zeta. split; [|split; [|split]].
  - unfold init_row_legacy. simpl. cbn.
    replace ((0 + 2 + 4) / 4) with (3 / 2) by lra. replace ((0 + 4 + 8) / 4) with 3 by lra. reflexivity.
  - intros d. unfold Rinit_row, init_row. simpl. cbn. unfold col.
    destruct d as [|[|[|d]]]; simpl; lra.
  - reflexivity.
  - reflexivity.
Qed.

Lemma update_nonvacuous :
  cut_inactive RNum R Rdist (Some 10) ([0; 1] ++ [5]) /\
  olds 2 [2%Z; 0%Z; 1%Z] = [0%Z; 1%Z] /\
  resolve_k 3 3 = 2%nat /\ resolve_k 3 6 = 3%nat.
Proof.
  repeat split; try reflexivity.
  intros x y Hx Hy. simpl. apply Rleb_false.
  assert (Bx: 0 <= x <= 5) by (simpl in Hx; intuition lra).
  assert (By: 0 <= y <= 5) by (simpl in Hy; intuition lra).
  unfold Rdist. unfold Rabs. destruct (Rcase_abs (x - y)); lra.
Qed.

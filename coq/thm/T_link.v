(* Shared lemmas and tactics for the link theorems (coq/link/L_*.v): the Gallina text generated from the Python
   source by harness/vp/py2coq.py ([src_f]) equals the hand-written model ([d_f] etc.) on all inputs. *)
From Coq Require Import List ZArith Bool Lia.
From UV Require Import Num PyPrim PyPrimLemmas M_metrics.
Import ListNotations.

Lemma fold_left_zipw {S A B C : Type} (g : S -> C -> S) (t : A -> B -> C) (x : list A) (y : list B) (s : S) :
  fold_left g (zipw t x y) s = fold_left (fun s ab => g s (t (fst ab) (snd ab))) (combine x y) s.
Proof. revert y s; induction x as [|a x IH]; intros [|b y] s; try reflexivity. cbn [zipw combine fold_left fst snd]. apply IH. Qed.

Lemma zipw_combine {A B C : Type} (t : A -> B -> C) (x : list A) (y : list B) :
  zipw t x y = map (fun ab => t (fst ab) (snd ab)) (combine x y).
Proof. revert y; induction x as [|a x IH]; intros [|b y]; try reflexivity. cbn [zipw combine map fst snd]. f_equal. apply IH. Qed.

Lemma fold_left_pair' {A B X : Type} (f : A -> X -> A) (g : B -> X -> B) (l : list X) (a : A) (b : B) :
  fold_left (fun s x => let '(p, q) := s in (f p x, g q x)) l (a, b) = (fold_left f l a, fold_left g l b).
Proof. revert a b; induction l as [|x l IH]; intros a b; [reflexivity|]. cbn [fold_left]. apply IH. Qed.

Lemma fold_left_triple' {A B C X : Type} (f : A -> X -> A) (g : B -> X -> B) (h : C -> X -> C) (l : list X) (a : A) (b : B) (c : C) :
  fold_left (fun s x => let '(p, q, r) := s in (f p x, g q x, h r x)) l (a, b, c) = (fold_left f l a, fold_left g l b, fold_left h l c).
Proof. revert a b c; induction l as [|x l IH]; intros a b c; [reflexivity|]. cbn [fold_left]. apply IH. Qed.

Lemma fold_left_combine_fst {S A B : Type} (g : S -> A -> S) (x : list A) (y : list B) (s : S) :
  length x = length y -> fold_left (fun s ab => g s (fst ab)) (combine x y) s = fold_left g x s.
Proof. revert y s; induction x as [|a x IH]; intros [|b y] s L; try discriminate; [reflexivity|]. cbn [combine fold_left fst]. apply IH. cbn in L; lia. Qed.

Lemma fold_left_combine_snd {S A B : Type} (g : S -> B -> S) (x : list A) (y : list B) (s : S) :
  length x = length y -> fold_left (fun s ab => g s (snd ab)) (combine x y) s = fold_left g y s.
Proof. revert y s; induction x as [|a x IH]; intros [|b y] s L; try discriminate; [reflexivity|]. cbn [combine fold_left snd]. apply IH. cbn in L; lia. Qed.

(* the generated loop bodies read x[i], y[i] ...: abstract every read and let unification find the body *)
Ltac reads :=
  repeat match goal with |- context[vnth ?N ?x (Z.of_nat ?k)] => generalize (vnth N x (Z.of_nat k)) end;
  intros; reflexivity.
Ltac loop1 := erewrite for_range_list; [|intros ? ?; reads].
Ltac loop2 L := erewrite for_range_list2; [|exact L|intros ? ?; reads].
Ltac loop3 L1 L2 := erewrite for_range_list3; [|exact L1|exact L2|intros ? ?; reads].

Lemma combine_map_l' {A A' B : Type} (f : A -> A') (x : list A) (y : list B) :
  combine (map f x) y = map (fun ab => (f (fst ab), snd ab)) (combine x y).
Proof. revert y; induction x as [|a x IH]; intros [|b y]; try reflexivity. cbn. f_equal. apply IH. Qed.
Lemma combine_map_r' {A B B' : Type} (f : B -> B') (x : list A) (y : list B) :
  combine x (map f y) = map (fun ab => (fst ab, f (snd ab))) (combine x y).
Proof. revert y; induction x as [|a x IH]; intros [|b y]; try reflexivity. cbn. f_equal. apply IH. Qed.
(* combine w (combine x y)  vs  combine (combine x y) w *)
Lemma fold_left_combine_swap3 {S A B C : Type} (g : S -> C -> A -> B -> S) (x : list A) (y : list B) (w : list C) (s : S) :
  fold_left (fun s wab => g s (fst wab) (fst (snd wab)) (snd (snd wab))) (combine w (combine x y)) s
  = fold_left (fun s abw => g s (snd abw) (fst (fst abw)) (snd (fst abw))) (combine (combine x y) w) s.
Proof.
  revert y w s; induction x as [|a x IH]; intros [|b y] [|c w] s; try reflexivity.
  cbn [combine fold_left fst snd]. apply IH.
Qed.

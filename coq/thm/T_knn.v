(* C03 theorems (and the sorting lemmas shared with C04). *)
From Coq Require Import List ZArith Bool Reals Lra Lia Psatz Permutation Sorting.Sorted.
From UV Require Import Num M_smooth M_union M_knn T_smooth T_union.
Import ListNotations.
Local Open Scope R_scope.
Ltac rn := change (T RNum) with R in *.

(* ---- insertion sort: membership, permutation, commutation with order-preserving maps ---------- *)
Section SortLemmas.
Context {A : Type} (le : A -> A -> bool).

Lemma insert_perm a l : Permutation (insert le a l) (a :: l).
Proof.
  induction l as [|b r IH]; simpl; [reflexivity|].
  destruct (le a b); [reflexivity|].
  rewrite IH. apply perm_swap.
Qed.

Lemma isort_perm l : Permutation (isort le l) l.
Proof.
  induction l as [|a l IH]; simpl; [reflexivity|].
  rewrite insert_perm. now constructor.
Qed.

Lemma isort_In x l : In x (isort le l) <-> In x l.
Proof. split; apply Permutation_in; [|symmetry]; apply isort_perm. Qed.

Lemma isort_length l : length (isort le l) = length l.
Proof. apply Permutation_length, isort_perm. Qed.

(* sortedness, for a total and transitive order *)
Hypothesis le_total : forall a b, le a b = true \/ le b a = true.
Hypothesis le_trans : forall a b c, le a b = true -> le b c = true -> le a c = true.

Lemma insert_sorted a l : StronglySorted (fun x y => le x y = true) l ->
  StronglySorted (fun x y => le x y = true) (insert le a l).
Proof.
  induction 1 as [|b r Hs IH Hf]; simpl.
  - constructor; constructor.
  - destruct (le a b) eqn:E.
    + constructor; [constructor; auto|]. constructor; auto.
      rewrite Forall_forall in *. intros x Hx. eapply le_trans; eauto.
    + constructor; auto. rewrite Forall_forall in *. intros x Hx.
      apply (Permutation_in _ (insert_perm a r)) in Hx. destruct Hx as [<-|Hx]; auto.
      destruct (le_total a b) as [H|H]; congruence.
Qed.

Lemma isort_sorted l : StronglySorted (fun x y => le x y = true) (isort le l).
Proof. induction l; simpl; [constructor | now apply insert_sorted]. Qed.

(* a strongly sorted list is determined by its elements when the order is antisymmetric *)
Hypothesis le_antisym : forall a b, le a b = true -> le b a = true -> a = b.

Lemma sorted_perm_unique l1 : forall l2,
  StronglySorted (fun x y => le x y = true) l1 -> StronglySorted (fun x y => le x y = true) l2 ->
  Permutation l1 l2 -> l1 = l2.
Proof.
  induction l1 as [|a l1 IH]; intros l2 H1 H2 HP.
  - apply Permutation_nil in HP. now subst.
  - destruct l2 as [|b l2]; [apply Permutation_sym, Permutation_nil in HP; discriminate|].
    inversion H1 as [|? ? H1s H1f]; subst. inversion H2 as [|? ? H2s H2f]; subst.
    assert (a = b).
    { assert (Ha: In a (b :: l2)) by (eapply Permutation_in; [exact HP|now left]).
      assert (Hb: In b (a :: l1)) by (eapply Permutation_in; [symmetry; exact HP|now left]).
      destruct Ha as [->|Ha]; auto. destruct Hb as [->|Hb]; auto.
      rewrite Forall_forall in H1f, H2f. apply le_antisym; auto. }
    subst b. f_equal. apply IH; auto. eapply Permutation_cons_inv; eauto.
Qed.
End SortLemmas.

Lemma insert_map {A B} (leA : A -> A -> bool) (leB : B -> B -> bool) (f : A -> B) :
  (forall a b, leB (f a) (f b) = leA a b) ->
  forall a l, insert leB (f a) (map f l) = map f (insert leA a l).
Proof.
  intros H a l. induction l as [|b r IH]; simpl; [reflexivity|].
  rewrite H. destruct (leA a b); simpl; [reflexivity|]. now rewrite IH.
Qed.

Lemma isort_map {A B} (leA : A -> A -> bool) (leB : B -> B -> bool) (f : A -> B) :
  (forall a b, leB (f a) (f b) = leA a b) ->
  forall l, isort leB (map f l) = map f (isort leA l).
Proof.
  intros H l. induction l as [|a l IH]; simpl; [reflexivity|].
  rewrite IH. now apply insert_map.
Qed.

(* ---- rows with their column indices ------------------------------------------------------------- *)
Lemma combine_seq_In {A} (l : list A) : forall s x j, In (x, j) (combine l (seq s (length l))) ->
  (s <= j)%nat /\ nth_error l (j - s) = Some x.
Proof.
  induction l as [|a l IH]; intros s x j H; simpl in H; [contradiction|].
  destruct H as [H|H].
  - inversion H; subst. rewrite Nat.sub_diag. split; [lia|reflexivity].
  - apply IH in H as [H1 H2]. split; [lia|].
    replace (j - s)%nat with (S (j - S s)) by lia. exact H2.
Qed.

Lemma combine_map_l {A B C} (f : A -> B) (l : list A) (m : list C) :
  combine (map f l) m = map (fun p => (f (fst p), snd p)) (combine l m).
Proof. revert m; induction l as [|a l IH]; intros [|c m]; simpl; auto. now rewrite IH. Qed.

Definition Rent_le : entry RNum -> entry RNum -> bool := ent_le RNum.

Lemma Rent_le_spec (a b : entry RNum) :
  Rent_le a b = true <-> (fst a < fst b \/ (fst a = fst b /\ (snd a <= snd b)%nat)).
Proof.
  unfold Rent_le, ent_le; cbn. rewrite orb_true_iff, andb_true_iff, Rltb_true, Reqb_true, Nat.leb_le. tauto.
Qed.

Lemma Rent_le_total a b : Rent_le a b = true \/ Rent_le b a = true.
Proof.
  rewrite !Rent_le_spec. destruct a as [x i], b as [y j]; cbn.
  destruct (Rtotal_order x y) as [H|[H|H]]; try (left; left; lra); try (right; left; lra).
  destruct (Nat.le_ge_cases i j); [left|right]; right; split; auto.
Qed.

Lemma Rent_le_trans a b c : Rent_le a b = true -> Rent_le b c = true -> Rent_le a c = true.
Proof.
  rewrite !Rent_le_spec. destruct a as [x i], b as [y j], c as [z k]; cbn.
  intros [H1|[H1 H1']] [H2|[H2 H2']]; try (left; lra). right; split; [lra|lia].
Qed.

Lemma Rent_le_antisym a b : Rent_le a b = true -> Rent_le b a = true -> a = b.
Proof.
  rewrite !Rent_le_spec. destruct a as [x i], b as [y j]; cbn.
  intros [H1|[H1 H1']] [H2|[H2 H2']]; try lra. f_equal; [lra|lia].
Qed.

(* ---- positive rescaling of all distances -------------------------------------------------------- *)
Definition Rscale_entry : R -> entry RNum -> entry RNum := scale_entry RNum.

Lemma ent_le_scale c a b : 0 < c -> Rent_le (Rscale_entry c a) (Rscale_entry c b) = Rent_le a b.
Proof.
  intros Hc. apply eq_true_iff_eq. rewrite !Rent_le_spec. destruct a as [x i], b as [y j]; cbn.
  split; intros [H|[H H']]; try (left; nra); right; split; auto; nra.
Qed.

Lemma index_row_scale c row :
  index_row RNum (map (Rmult c) row) = map (Rscale_entry c) (index_row RNum row).
Proof. unfold index_row. rewrite map_length. apply combine_map_l. Qed.

Lemma knn_row_scale c k row : 0 < c ->
  knn_row RNum k (map (Rmult c) row) = map (Rscale_entry c) (knn_row RNum k row).
Proof.
  intros Hc. unfold knn_row. rewrite index_row_scale.
  rewrite (isort_map Rent_le Rent_le (Rscale_entry c)) by (intros; now apply ent_le_scale).
  apply firstn_map.
Qed.

(* the k nearest neighbours (as indices) do not change *)
Lemma knn_scale c D k i : 0 < c -> knn RNum (scale_mat RNum c D) k i = knn RNum D k i.
Proof.
  intros Hc. unfold knn, scale_mat.
  change (@nil (T RNum)) with (map (mul RNum c) (@nil (T RNum))). rewrite map_nth.
  change (mul RNum c) with (Rmult c). rewrite knn_row_scale by assumption.
  rewrite map_map. reflexivity.
Qed.

Lemma tables_of_dist_scale c k D : 0 < c ->
  tables_of_dist RNum k (scale_mat RNum c D) = scale_table RNum c (tables_of_dist RNum k D).
Proof.
  intros Hc. unfold tables_of_dist, scale_table, scale_mat. rewrite !map_map.
  apply map_ext. intros row. cbn [fst snd]. f_equal.
  change (mul RNum c) with (Rmult c). now apply knn_row_scale.
Qed.

Lemma memberships_scale c i sigma rho (row : list (entry RNum)) : 0 < c ->
  memberships RNum i (c * sigma) (c * rho) (zrow RNum (map (Rscale_entry c) row)) =
  memberships RNum i sigma rho (zrow RNum row).
Proof.
  intros Hc. unfold zrow.
  induction row as [|[d j] row IH]; [reflexivity|].
  cbn [map fst snd Rscale_entry scale_entry]. unfold memberships in *. cbn [flat_map]. rewrite IH. f_equal.
  destruct (Z.of_nat j =? -1)%Z; [reflexivity|]. destruct (Z.of_nat j =? i)%Z; [reflexivity|].
  pose proof (mem_scale c d rho sigma Hc) as H. unfold Rmem in H. cbn [mul RNum]. now rewrite H.
Qed.

Lemma rhos_scale tol c (cf : cfg RNum) tb : 0 < c ->
  rhos RNum tol cf (scale_table RNum c tb) = map (Rmult c) (rhos RNum tol cf tb).
Proof.
  intros Hc. unfold rhos, scale_table. rewrite !map_map. apply map_ext. intros [row ninf]. cbn [fst snd].
  rewrite map_map.
  replace (map (fun x : entry RNum => fst (scale_entry RNum c x)) row) with (map (Rmult c) (map fst row))
    by (rewrite map_map; reflexivity).
  exact (rho_scale tol c (map fst row) ninf (c_index RNum cf) (c_interp RNum cf) Hc).
Qed.

Lemma combine_map_scale c (s r : list R) :
  combine (map (Rmult c) s) (map (Rmult c) r) = map (fun p => (c * fst p, c * snd p)) (combine s r).
Proof. revert r; induction s as [|a s IH]; intros [|b r]; simpl; auto. now rewrite IH. Qed.

Lemma dir_rows_scale c : 0 < c -> forall tb i (sr : list (R * R)),
  dir_rows RNum i (scale_table RNum c tb) (map (fun p => (c * fst p, c * snd p)) sr) = dir_rows RNum i tb sr.
Proof.
  intros Hc. induction tb as [|[row ninf] tb IH]; intros i [|[s r] sr]; cbn [scale_table map dir_rows fst snd]; try reflexivity.
  fold (scale_table RNum c tb). rewrite IH. f_equal.
  exact (memberships_scale c (Z.of_nat i) s r row Hc).
Qed.

(* the graph built from c*D with bandwidths c*sigma is the graph built from D with bandwidths sigma *)
Theorem graph_with_scale tol c (cf : cfg RNum) tb sigmas : 0 < c ->
  graph_with RNum tol cf (scale_table RNum c tb) (map (Rmult c) sigmas) = graph_with RNum tol cf tb sigmas.
Proof.
  intros Hc. unfold graph_with, coo_with. rewrite rhos_scale by assumption.
  rewrite combine_map_scale. now rewrite dir_rows_scale.
Qed.

Theorem graph_scale_given_calibration tol c (cf : cfg RNum) D sigmas : 0 < c ->
  graph_with RNum tol cf (tables_of_dist RNum (c_k RNum cf) (scale_mat RNum c D)) (map (Rmult c) sigmas)
  = graph_with RNum tol cf (tables_of_dist RNum (c_k RNum cf) D) sigmas.
Proof. intros Hc. rewrite tables_of_dist_scale by assumption. now apply graph_with_scale. Qed.

(* ... and c*sigma calibrates c*row exactly when sigma calibrates row (C01) *)
Theorem calibration_transfers tol c row ninf index interp sigma : 0 < c -> sigma <> 0 ->
  psum RNum (map (Rmult c) row) (rho_of RNum tol (map (Rmult c) row) ninf index interp) (c * sigma)
  = psum RNum row (rho_of RNum tol row ninf index interp) sigma.
Proof. intros Hc Hs. exact (proj1 (calibration_scale tol c row ninf index interp sigma Hc Hs)). Qed.

(* ---- Euclidean distance: translation and permutation of the coordinates -------------------------- *)
Definition Rsq : list R -> list R -> R := sqeuclid RNum.
Definition Rvadd : list R -> list R -> list R := vadd RNum.

Lemma sqeuclid_translate x : forall y t, length x = length t -> length y = length t ->
  Rsq (Rvadd x t) (Rvadd y t) = Rsq x y.
Proof.
  induction x as [|a x IH]; intros [|b y] [|c t] Hx Hy; simpl in *; try discriminate; try reflexivity.
  unfold Rsq, Rvadd in *. cbn. rewrite IH by lia. cbn. ring.
Qed.

Definition sq_pair (p : R * R) : R := (fst p - snd p) * (fst p - snd p).
Fixpoint Rsum (l : list R) : R := match l with [] => 0 | a :: r => a + Rsum r end.

Lemma sqeuclid_pairs x : forall y, Rsq x y = Rsum (map sq_pair (combine x y)).
Proof. induction x as [|a x IH]; intros [|b y]; simpl; try reflexivity. unfold Rsq in *. cbn. now rewrite IH. Qed.

Lemma Rsum_perm l l' : Permutation l l' -> Rsum l = Rsum l'.
Proof. induction 1; simpl; lra. Qed.

(* permuting the coordinates of both vectors in the same way = permuting the list of coordinate pairs *)
Theorem sqeuclid_feature_perm x y x' y' :
  Permutation (combine x y) (combine x' y') -> Rsq x' y' = Rsq x y.
Proof. intros H. rewrite !sqeuclid_pairs. symmetry. apply Rsum_perm. now apply Permutation_map. Qed.

Corollary euclid_invariant x y t x' y' : length x = length t -> length y = length t ->
  Permutation (combine x y) (combine x' y') ->
  euclid RNum (Rvadd x t) (Rvadd y t) = euclid RNum x y /\ euclid RNum x' y' = euclid RNum x y.
Proof.
  intros Hx Hy HP. unfold euclid. split; f_equal.
  - exact (sqeuclid_translate x y t Hx Hy).
  - exact (sqeuclid_feature_perm x y x' y' HP).
Qed.

(* hence the whole distance matrix, and so every graph computed from it, is unchanged *)
Corollary pdist_translate X t : Forall (fun x => length x = length t) X ->
  pdist RNum (euclid RNum) (map (fun x => Rvadd x t) X) = pdist RNum (euclid RNum) X.
Proof.
  intros H. unfold pdist. rewrite map_map. apply map_ext_in. intros x Hx. rewrite map_map.
  apply map_ext_in. intros y Hy. rewrite Forall_forall in H.
  unfold euclid. f_equal. apply sqeuclid_translate; auto.
Qed.

(* ---- relabelling the samples --------------------------------------------------------------------- *)
Lemma graphf_relabel r (A : nat -> nat -> R) (p : nat -> nat) i j :
  graphf RNum r (fun a b => A (p a) (p b)) i j = graphf RNum r A (p i) (p j).
Proof. reflexivity. Qed.

Lemma lookup_relabel (p : nat -> nat) (A : coo RNum) i j : (forall a b, p a = p b -> a = b) ->
  lookup RNum (relabel RNum p A) (p i) (p j) = lookup RNum A i j.
Proof.
  intros Hinj. induction A as [|[[a b] v] A IH]; [reflexivity|].
  cbn [relabel map lookup fst snd]. fold (relabel RNum p A). rewrite IH.
  assert (E1: Nat.eqb (p i) (p a) = Nat.eqb i a).
  { destruct (Nat.eqb_spec i a) as [->|Hn]; [apply Nat.eqb_refl|]. apply Nat.eqb_neq. intros H; apply Hn; auto. }
  assert (E2: Nat.eqb (p j) (p b) = Nat.eqb j b).
  { destruct (Nat.eqb_spec j b) as [->|Hn]; [apply Nat.eqb_refl|]. apply Nat.eqb_neq. intros H; apply Hn; auto. }
  now rewrite E1, E2.
Qed.

(* reordering the samples reorders rows and columns of the graph identically *)
Theorem graph_relabel r (p : nat -> nat) (A : coo RNum) i j : (forall a b, p a = p b -> a = b) ->
  graph RNum r (relabel RNum p A) (p i) (p j) = graph RNum r A i j.
Proof. intros Hinj. unfold graph, graphf. now rewrite !lookup_relabel. Qed.

(* ---- extension: kNN extraction commutes with a permutation of the samples ------------------------ *)
Lemma combine_seq_map (row : list R) : forall s,
  combine row (seq s (length row)) = map (fun j => (nth (j - s) row 0, j)) (seq s (length row)).
Proof.
  induction row as [|a row IH]; intros s; [reflexivity|].
  cbn [length seq combine map]. rewrite Nat.sub_diag. cbn [nth]. f_equal.
  rewrite IH. apply map_ext_in. intros j Hj. apply in_seq in Hj.
  replace (j - s)%nat with (S (j - S s)) by lia. reflexivity.
Qed.

Lemma combine_map_self {A B} (g : A -> B) (l : list A) : combine (map g l) l = map (fun m => (g m, m)) l.
Proof. induction l as [|a l IH]; simpl; [reflexivity|]. now rewrite IH. Qed.

Lemma map_fst_combine_seq (row : list R) s : map fst (combine row (seq s (length row))) = row.
Proof. revert s; induction row as [|a row IH]; intros s; simpl; [reflexivity|]. now rewrite IH. Qed.

(* row of the relabelled matrix: entry m holds the distance to the sample that is now called m *)
Definition perm_row (pinv : nat -> nat) (row : list R) : list R :=
  map (fun m => nth (pinv m) row 0) (seq 0 (length row)).
Definition perm_mat (pinv : nat -> nat) (D : list (list R)) : list (list R) :=
  map (fun a => perm_row pinv (nth (pinv a) D [])) (seq 0 (length D)).
Definition relabel_entry (p : nat -> nat) (e : entry RNum) : entry RNum := (fst e, p (snd e)).

Lemma sorted_relabel (p : nat -> nat) (l : list (entry RNum)) :
  NoDup (map fst l) -> StronglySorted (fun x y => Rent_le x y = true) l ->
  StronglySorted (fun x y => Rent_le x y = true) (map (relabel_entry p) l).
Proof.
  intros Hnd Hs. induction Hs as [|a l Hs IH Hf]; cbn [map]; [constructor|].
  inversion Hnd as [|? ? Hna Hnd']; subst. constructor; [now apply IH|].
  rewrite Forall_forall in *. intros y Hy. apply in_map_iff in Hy as [x [<- Hx]].
  specialize (Hf x Hx). apply Rent_le_spec in Hf. apply Rent_le_spec. cbn [relabel_entry fst snd].
  destruct Hf as [Hlt|[Heq _]]; [now left|]. exfalso. apply Hna. apply in_map_iff. exists x. split; [symmetry; exact Heq | exact Hx].
Qed.

Lemma index_row_perm (p pinv : nat -> nat) (row : list R) :
  Permutation (map p (seq 0 (length row))) (seq 0 (length row)) ->
  (forall j, (j < length row)%nat -> pinv (p j) = j) ->
  Permutation (index_row RNum (perm_row pinv row)) (map (relabel_entry p) (index_row RNum row)).
Proof.
  intros HP Hinv. unfold index_row. change (T RNum) with R in *.
  assert (Hlen: length (perm_row pinv row) = length row) by (unfold perm_row; now rewrite map_length, seq_length).
  rewrite Hlen. unfold perm_row. rewrite combine_map_self.
  rewrite combine_seq_map. rewrite map_map. cbn [relabel_entry fst snd].
  rewrite <- (Permutation_map (fun m : nat => (nth (pinv m) row 0, m)) HP). rewrite map_map.
  apply Permutation_refl'. apply map_ext_in. intros j Hj. apply in_seq in Hj.
  rewrite Hinv by lia. now rewrite Nat.sub_0_r.
Qed.

Theorem knn_row_perm (p pinv : nat -> nat) k (row : list R) :
  Permutation (map p (seq 0 (length row))) (seq 0 (length row)) ->
  (forall j, (j < length row)%nat -> pinv (p j) = j) ->
  NoDup row ->
  knn_row RNum k (perm_row pinv row) = map (relabel_entry p) (knn_row RNum k row).
Proof.
  intros HP Hinv Hnd. unfold knn_row. rewrite <- firstn_map. f_equal.
  set (n := length row) in *.
  assert (Hlen: length (perm_row pinv row) = n) by (unfold perm_row; now rewrite map_length, seq_length).
  apply (sorted_perm_unique Rent_le Rent_le_antisym).
  - apply isort_sorted; [apply Rent_le_total | apply Rent_le_trans].
  - apply sorted_relabel.
    + eapply Permutation_NoDup; [|exact Hnd]. symmetry.
      rewrite <- (map_fst_combine_seq row 0) at 2. apply Permutation_map. apply isort_perm.
    + apply isort_sorted; [apply Rent_le_total | apply Rent_le_trans].
  - rewrite isort_perm. rewrite (Permutation_map (relabel_entry p) (isort_perm Rent_le (index_row RNum row))).
    apply index_row_perm; auto.
Qed.

(* the neighbours of the sample now called p(i) are the renamed neighbours of sample i *)
Theorem knn_equivariant (p pinv : nat -> nat) (D : list (list R)) k i :
  let n := length D in
  Forall (fun row => length row = n) D ->
  Permutation (map p (seq 0 n)) (seq 0 n) ->
  (forall j, (j < n)%nat -> pinv (p j) = j) -> (forall j, (j < n)%nat -> (p j < n)%nat) ->
  (i < n)%nat -> NoDup (nth i D []) ->
  knn RNum (perm_mat pinv D) k (p i) = map p (knn RNum D k i).
Proof.
  intros n Hrows HP Hinv Hrange Hi Hnd. unfold knn. change (T RNum) with R in *.
  assert (Hrow: nth (p i) (perm_mat pinv D) [] = perm_row pinv (nth i D [])).
  { unfold perm_mat. fold n.
    rewrite (nth_indep _ [] (perm_row pinv (nth (pinv 0%nat) D []))) by (rewrite map_length, seq_length; auto).
    rewrite (map_nth (fun a => perm_row pinv (nth (pinv a) D [])) (seq 0 n) 0%nat (p i)).
    rewrite seq_nth by auto. cbn. now rewrite Hinv. }
  rewrite Hrow.
  assert (Hl: length (nth i D []) = n). { rewrite Forall_forall in Hrows. apply Hrows, nth_In. exact Hi. }
  rewrite (knn_row_perm p pinv k (nth i D [])); [|try rewrite Hl; auto..].
  rewrite !map_map. reflexivity.
Qed.

(* ---- a permutation of the features, applied to the whole data set -------------------------------- *)
Definition permute (s : list nat) (x : list R) : list R := map (fun i => nth i x 0) s.

Lemma combine_nth_seq (x : list R) : forall y, length x = length y ->
  combine x y = map (fun i => (nth i x 0, nth i y 0)) (seq 0 (length x)).
Proof.
  induction x as [|a x IH]; intros [|b y] H; simpl in *; try discriminate; [reflexivity|].
  f_equal. rewrite <- seq_shift, map_map. apply IH. lia.
Qed.

Lemma combine_permute s (x y : list R) : combine (permute s x) (permute s y) = map (fun i => (nth i x 0, nth i y 0)) s.
Proof. unfold permute. induction s as [|i s IH]; simpl; [reflexivity|]. now rewrite IH. Qed.

Theorem sqeuclid_permute s (x y : list R) : length x = length y -> Permutation s (seq 0 (length x)) ->
  Rsq (permute s x) (permute s y) = Rsq x y.
Proof.
  intros Hl HP. apply sqeuclid_feature_perm. rewrite combine_permute, (combine_nth_seq x y Hl).
  apply Permutation_map. now symmetry.
Qed.

Corollary pdist_feature_perm s d (X : list (list R)) : Forall (fun x => length x = d) X -> Permutation s (seq 0 d) ->
  pdist RNum (euclid RNum) (map (permute s) X) = pdist RNum (euclid RNum) X.
Proof.
  intros H HP. unfold pdist. rewrite map_map. apply map_ext_in. intros x Hx. rewrite map_map.
  apply map_ext_in. intros y Hy. rewrite Forall_forall in H.
  unfold euclid. f_equal. apply sqeuclid_permute; rewrite (H x Hx); [symmetry; auto | exact HP].
Qed.

(* the Euclidean graph is unchanged by a translation and by a permutation of the features *)
Theorem graph_euclid_invariant tol kscale (c : cfg RNum) (X : list (list R)) t s d :
  Forall (fun x => length x = d) X -> length t = d -> Permutation s (seq 0 d) ->
  graph_of_dist RNum tol kscale c (pdist RNum (euclid RNum) (map (fun x => Rvadd x t) X)) =
  graph_of_dist RNum tol kscale c (pdist RNum (euclid RNum) X) /\
  graph_of_dist RNum tol kscale c (pdist RNum (euclid RNum) (map (permute s) X)) =
  graph_of_dist RNum tol kscale c (pdist RNum (euclid RNum) X).
Proof.
  intros H Ht HP. split.
  - rewrite pdist_translate; [reflexivity|]. rewrite Forall_forall in *. intros x Hx. rewrite (H x Hx). now symmetry.
  - now rewrite (pdist_feature_perm s d X H HP).
Qed.

(* named metric vs metric="precomputed": one and the same term of the model (the content is fit's dispatch) *)
Definition fit_named tol kscale (c : cfg RNum) (d : list R -> list R -> R) (X : list (list R)) := graph_of_dist RNum tol kscale c (pdist RNum d X).
Definition fit_precomputed tol kscale (c : cfg RNum) (D : list (list R)) := graph_of_dist RNum tol kscale c D.
Lemma named_is_precomputed tol kscale c d X : fit_named tol kscale c d X = fit_precomputed tol kscale c (pdist RNum d X).
Proof. reflexivity. Qed.

(* ---- non-vacuity ---------------------------------------------------------------------------------- *)
Ltac rdec := repeat (first
  [ rewrite (proj2 (Rltb_true _ _)) by lra | rewrite (proj2 (Rltb_false _ _)) by lra
  | rewrite (proj2 (Reqb_true _ _)) by lra | rewrite (proj2 (Reqb_false _ _)) by lra
  | rewrite (proj2 (Rleb_true _ _)) by lra | rewrite (proj2 (Rleb_false _ _)) by lra ]; cbn).

Lemma knn_example : knn RNum [[0; 3; 1]; [3; 0; 2]; [1; 2; 0]] 2 1 = [1; 2]%nat.
Proof. unfold knn, knn_row, index_row, isort, ent_le. cbn. rdec. reflexivity. Qed.

(* C16 theorems over the reals (and the lemmas about stored-entry lists shared with C18). *)
From Coq Require Import List ZArith Bool Reals Lra Lia Psatz.
From UV Require Import Num FNum M_supervised.
Import ListNotations.
Local Open Scope R_scope.
Ltac rn := change (T RNum) with R in *.

Definition Rentry : Type := (nat * nat * R)%type.
Definition Rsmat : Type := list Rentry.
Definition Rerow : Rentry -> nat := erow RNum.
Definition Recol : Rentry -> nat := ecol RNum.
Definition Revl : Rentry -> R := evl RNum.
Definition Rentry_at : Rsmat -> nat -> nat -> option R := entry_at RNum.
Definition Rget : Rsmat -> nat -> nat -> R := get RNum.
Definition Rrow_vals : Rsmat -> nat -> list R := row_vals RNum.
Definition Rrow_max : Rsmat -> nat -> R := row_max RNum.
Definition Rnorm_val : R -> R -> R := norm_val RNum.
Definition Rnormalise : Rsmat -> Rsmat := rowmax_normalise RNum.
Definition Rresym : Rsmat -> nat -> nat -> R := resym RNum.
Definition Ratt_f : R -> R -> (nat -> Z) -> Rentry -> Rentry := attenuate_f RNum.
Definition Rfar_of : R -> R := far_of RNum.
Definition Rsup_f : R -> R -> Rsmat -> (nat -> Z) -> nat -> nat -> R := supervised_f RNum.
Definition Rsup : Rsmat -> (nat -> Z) -> R -> nat -> nat -> R := supervised RNum.

(* ---- hypotheses on a stored-entry list -------------------------------------------------------- *)
(* canonical: a position is stored with one value only (implied by "no duplicate positions") *)
Definition functional (s : Rsmat) := forall i j v v', In (i, j, v) s -> In (i, j, v') s -> v = v'.
Definition entries01 (s : Rsmat) := forall i j v, In (i, j, v) s -> 0 < v <= 1.
Definition nonneg (s : Rsmat) := forall i j v, In (i, j, v) s -> 0 <= v.
Definition symmetric (s : Rsmat) := forall i j, Rget s i j = Rget s j i.

Lemma entry_eta (e : Rentry) : e = (Rerow e, Recol e, Revl e).
Proof. destruct e as [[i j] v]; reflexivity. Qed.

Lemma at_key_true i j (e : Rentry) : at_key RNum i j e = true <-> Rerow e = i /\ Recol e = j.
Proof.
  unfold at_key. rewrite andb_true_iff, !Nat.eqb_eq. reflexivity.
Qed.

Lemma entry_at_in s i j v : Rentry_at s i j = Some v -> In (i, j, v) s.
Proof.
  unfold Rentry_at, entry_at. destruct (find (at_key RNum i j) s) as [e|] eqn:F; simpl; [|discriminate].
  intros H; inversion H; subst. apply find_some in F as [Hin Hk].
  apply at_key_true in Hk as [<- <-]. now rewrite <- entry_eta.
Qed.

Lemma in_entry_at s i j v : functional s -> In (i, j, v) s -> Rentry_at s i j = Some v.
Proof.
  intros Hf Hin. destruct (Rentry_at s i j) as [v0|] eqn:E.
  - apply entry_at_in in E. f_equal. eapply Hf; eauto.
  - exfalso. unfold Rentry_at, entry_at in E.
    destruct (find (at_key RNum i j) s) as [e|] eqn:F; simpl in E; [discriminate|].
    eapply find_none in F; eauto.
    assert (at_key RNum i j (i, j, v) = true) by (apply at_key_true; split; reflexivity). congruence.
Qed.

Lemma get_cases s i j : (Rget s i j = 0) \/ In (i, j, Rget s i j) s.
Proof.
  unfold Rget, get. fold (Rentry_at s i j). destruct (Rentry_at s i j) as [v|] eqn:E.
  - right. now apply entry_at_in.
  - now left.
Qed.

Lemma get_in s i j v : functional s -> In (i, j, v) s -> Rget s i j = v.
Proof. intros Hf Hin. unfold Rget, get. fold (Rentry_at s i j). now rewrite (in_entry_at s i j v). Qed.

Lemma get_nonneg s i j : nonneg s -> 0 <= Rget s i j.
Proof. intros Hn. destruct (get_cases s i j) as [->|H]; [lra | eapply Hn; eauto]. Qed.

(* entries through a map that keeps positions *)
Definition keyed (phi : nat -> nat -> R -> R) (e : Rentry) : Rentry :=
  (Rerow e, Recol e, phi (Rerow e) (Recol e) (Revl e)).

Lemma entry_at_keyed phi s i j :
  Rentry_at (map (keyed phi) s) i j = option_map (phi i j) (Rentry_at s i j).
Proof.
  unfold Rentry_at, entry_at. induction s as [|e s IH]; simpl; [reflexivity|].
  assert (K: at_key RNum i j (keyed phi e) = at_key RNum i j e) by reflexivity.
  rewrite K. destruct (at_key RNum i j e) eqn:E; simpl.
  - apply at_key_true in E as [E1 E2]. unfold keyed, evl; simpl. now rewrite E1, E2.
  - apply IH.
Qed.

Lemma in_keyed phi s i j v' :
  In (i, j, v') (map (keyed phi) s) <-> exists v, In (i, j, v) s /\ v' = phi i j v.
Proof.
  rewrite in_map_iff. split.
  - intros [[[a b] v] [He Hin]]. unfold keyed in He; simpl in He. inversion He; subst. eauto.
  - intros [v [Hin ->]]. exists (i, j, v). split; auto.
Qed.

Lemma functional_keyed phi s : functional s -> functional (map (keyed phi) s).
Proof.
  intros Hf i j v v' H1 H2. apply in_keyed in H1 as [a [Ha ->]]. apply in_keyed in H2 as [b [Hb ->]].
  f_equal. eapply Hf; eauto.
Qed.

Lemma get_keyed phi s i j : (forall i j, phi i j 0 = 0) ->
  Rget (map (keyed phi) s) i j = phi i j (Rget s i j).
Proof.
  intros H0. unfold Rget, get. fold (Rentry_at (map (keyed phi) s) i j) (Rentry_at s i j).
  rewrite entry_at_keyed. destruct (Rentry_at s i j); simpl; [reflexivity|]. cbn. now rewrite H0.
Qed.

(* ---- row maximum ------------------------------------------------------------------------------ *)
Definition Rnmax : R -> R -> R := nmax RNum.
Lemma nmax_spec a b : Rnmax a b = Rmax a b.
Proof.
  unfold Rnmax, nmax; cbn. unfold Rmax. destruct (Rleb a b) eqn:E; [apply Rleb_true in E | apply Rleb_false in E];
  destruct (Rle_dec a b); lra.
Qed.

Lemma fold_nmax_ge_acc l : forall acc, acc <= fold_left Rnmax l acc.
Proof.
  induction l as [|x l IH]; simpl; intros acc; [lra|].
  eapply Rle_trans; [|apply IH]. rewrite nmax_spec. apply Rmax_l.
Qed.

Lemma fold_nmax_ge l : forall acc x, In x l -> x <= fold_left Rnmax l acc.
Proof.
  induction l as [|y l IH]; simpl; intros acc x Hin; [contradiction|].
  destruct Hin as [->|Hin]; [|now apply IH].
  eapply Rle_trans; [|apply fold_nmax_ge_acc]. rewrite nmax_spec. apply Rmax_r.
Qed.

Lemma fold_nmax_attained l : forall acc, fold_left Rnmax l acc = acc \/ In (fold_left Rnmax l acc) l.
Proof.
  induction l as [|y l IH]; simpl; intros acc; [now left|].
  destruct (IH (Rnmax acc y)) as [H|H]; [|right; now right].
  rewrite H, nmax_spec. unfold Rmax. destruct (Rle_dec acc y); [right; now left | now left].
Qed.

Lemma in_row_vals s i v : In v (Rrow_vals s i) <-> exists j, In (i, j, v) s.
Proof.
  unfold Rrow_vals, row_vals. rewrite in_map_iff. split.
  - intros [e [Hv Hin]]. apply filter_In in Hin as [Hin Hr]. apply Nat.eqb_eq in Hr.
    exists (Recol e). subst v. fold (Rerow e) in Hr. rewrite <- Hr. fold (Revl e). now rewrite <- entry_eta.
  - intros [j Hin]. exists (i, j, v). split; [reflexivity|]. apply filter_In. split; auto.
    simpl. apply Nat.eqb_refl.
Qed.

Lemma row_max_ge s i j v : In (i, j, v) s -> v <= Rrow_max s i.
Proof. intros H. apply fold_nmax_ge. apply in_row_vals. eauto. Qed.

Lemma row_max_nonneg s i : 0 <= Rrow_max s i.
Proof. apply fold_nmax_ge_acc. Qed.

Lemma row_max_attained s i : Rrow_max s i <> 0 -> exists j, In (i, j, Rrow_max s i) s.
Proof.
  intros H. destruct (fold_nmax_attained (Rrow_vals s i) 0) as [E|E].
  - exfalso. apply H. exact E.
  - now apply in_row_vals.
Qed.

Lemma get_le_row_max s i j : nonneg s -> Rget s i j <= Rrow_max s i.
Proof.
  intros Hn. destruct (get_cases s i j) as [->|H]; [apply row_max_nonneg | eapply row_max_ge; eauto].
Qed.

(* ---- normalisation ---------------------------------------------------------------------------- *)
Lemma norm_val_eq m v : Rnorm_val m v = if Reqb m 0 then v else v / m.
Proof. reflexivity. Qed.

Lemma norm_val_0 m : Rnorm_val m 0 = 0.
Proof. rewrite norm_val_eq. destruct (Reqb m 0); [reflexivity | unfold Rdiv; ring]. Qed.

Lemma norm_val_range m v : 0 <= v <= m -> 0 <= Rnorm_val m v <= 1.
Proof.
  intros H. rewrite norm_val_eq. destruct (Reqb m 0) eqn:E; [apply Reqb_true in E | apply Reqb_false in E].
  - lra.
  - assert (0 < m) by lra. assert (0 < / m) by (now apply Rinv_0_lt_compat).
    unfold Rdiv. split; [nra|]. apply (Rmult_le_reg_r m); auto. rewrite Rmult_assoc, Rinv_l; lra.
Qed.

Lemma norm_val_self m : m <> 0 -> Rnorm_val m m = 1.
Proof.
  intros H. rewrite norm_val_eq. assert (E: Reqb m 0 = false) by (now apply Reqb_false).
  rewrite E. now field.
Qed.

Lemma norm_val_nonzero m v : Rnorm_val m v <> 0 -> v <> 0.
Proof. intros H ->. apply H. apply norm_val_0. Qed.

Lemma norm_val_pos m v : 0 < v <= m -> 0 < Rnorm_val m v.
Proof.
  intros H. rewrite norm_val_eq. destruct (Reqb m 0) eqn:E; [lra|]. apply Reqb_false in E.
  unfold Rdiv. apply Rmult_lt_0_compat; [lra|]. apply Rinv_0_lt_compat. lra.
Qed.

Lemma normalise_keyed s : Rnormalise s = map (keyed (fun i _ v => Rnorm_val (Rrow_max s i) v)) s.
Proof. reflexivity. Qed.

Lemma get_normalise s i j : Rget (Rnormalise s) i j = Rnorm_val (Rrow_max s i) (Rget s i j).
Proof. rewrite normalise_keyed. rewrite get_keyed; auto. intros; apply norm_val_0. Qed.

Lemma functional_normalise s : functional s -> functional (Rnormalise s).
Proof. rewrite normalise_keyed. apply functional_keyed. Qed.

Lemma normalise_range s i j : nonneg s -> 0 <= Rget (Rnormalise s) i j <= 1.
Proof.
  intros Hn. rewrite get_normalise. apply norm_val_range. split; [now apply get_nonneg | now apply get_le_row_max].
Qed.

(* a row with a non-zero entry has an entry equal to 1 after normalisation *)
Lemma normalise_unit s i j : functional s -> nonneg s -> Rget s i j <> 0 ->
  exists j', Rget (Rnormalise s) i j' = 1.
Proof.
  intros Hf Hn Hne.
  assert (Hpos: 0 < Rrow_max s i).
  { pose proof (get_nonneg s i j Hn). pose proof (get_le_row_max s i j Hn). lra. }
  destruct (row_max_attained s i) as [j' Hin]; [lra|].
  exists j'. rewrite get_normalise, (get_in s i j' _ Hf Hin). apply norm_val_self. lra.
Qed.

(* ---- re-symmetrisation ------------------------------------------------------------------------ *)
Lemma resym_eq s i j : Rresym s i j = Rget s i j + Rget s j i - Rget s i j * Rget s j i.
Proof. reflexivity. Qed.

Lemma resym_sym s i j : Rresym s i j = Rresym s j i.
Proof. rewrite !resym_eq. ring. Qed.

Lemma fuzzy_or_range a b : 0 <= a <= 1 -> 0 <= b <= 1 -> 0 <= a + b - a * b <= 1.
Proof. intros; split; nra. Qed.

Lemma fuzzy_or_nonzero a b : a + b - a * b <> 0 -> a <> 0 \/ b <> 0.
Proof.
  intros H. destruct (Req_dec a 0) as [->|Ha]; [|now left]. right. intros ->. apply H; ring.
Qed.

Lemma fuzzy_or_unit b : 1 + b - 1 * b = 1.
Proof. ring. Qed.

(* the four structural facts about resym (normalise s) used by C16 and C18 *)
Lemma reset_range s i j : nonneg s -> 0 <= Rresym (Rnormalise s) i j <= 1.
Proof. intros Hn. rewrite resym_eq. apply fuzzy_or_range; now apply normalise_range. Qed.

(* ---- attenuation ------------------------------------------------------------------------------ *)
Definition Rfactor (ffar funk : R) (lab : nat -> Z) (i j : nat) : R :=
  if unknown (lab i) || unknown (lab j) then funk else if negb (lab i =? lab j)%Z then ffar else 1.

Lemma att_keyed ffar funk lab e :
  Ratt_f ffar funk lab e = keyed (fun i j v => v * Rfactor ffar funk lab i j) e.
Proof.
  unfold Ratt_f, attenuate_f, keyed, Rfactor. cbv zeta. fold (Rerow e) (Recol e) (Revl e).
  destruct (unknown (lab (Rerow e)) || unknown (lab (Recol e))); [reflexivity|].
  destruct (negb (lab (Rerow e) =? lab (Recol e))%Z); [reflexivity|].
  f_equal. cbn. rn. ring.
Qed.

Lemma att_map ffar funk lab g :
  map (Ratt_f ffar funk lab) g = map (keyed (fun i j v => v * Rfactor ffar funk lab i j)) g.
Proof. apply map_ext. apply att_keyed. Qed.

Lemma factor_sym ffar funk lab i j : Rfactor ffar funk lab i j = Rfactor ffar funk lab j i.
Proof.
  unfold Rfactor. rewrite (orb_comm (unknown (lab i))). rewrite (Z.eqb_sym (lab i)). reflexivity.
Qed.

Lemma factor_range ffar funk lab i j : 0 <= ffar <= 1 -> 0 <= funk <= 1 -> 0 <= Rfactor ffar funk lab i j <= 1.
Proof.
  intros. unfold Rfactor. destruct (unknown (lab i) || unknown (lab j)); [lra|].
  destruct (negb (lab i =? lab j)%Z); lra.
Qed.

Definition Ratt (ffar funk : R) (lab : nat -> Z) (g : Rsmat) : Rsmat := map (Ratt_f ffar funk lab) g.

Lemma get_att ffar funk lab g i j : Rget (Ratt ffar funk lab g) i j = Rget g i j * Rfactor ffar funk lab i j.
Proof. unfold Ratt. rewrite att_map, get_keyed; auto. intros; ring. Qed.

Lemma functional_att ffar funk lab g : functional g -> functional (Ratt ffar funk lab g).
Proof. unfold Ratt. rewrite att_map. apply functional_keyed. Qed.

Lemma nonneg_att ffar funk lab g : entries01 g -> 0 <= ffar <= 1 -> 0 <= funk <= 1 -> nonneg (Ratt ffar funk lab g).
Proof.
  intros H01 Hf Hu i j v Hin. unfold Ratt in Hin. rewrite att_map in Hin. apply in_keyed in Hin as [v0 [Hin ->]].
  pose proof (H01 _ _ _ Hin). pose proof (factor_range ffar funk lab i j Hf Hu). nra.
Qed.

Lemma sup_f_eq ffar funk g lab i j :
  Rsup_f ffar funk g lab i j = Rresym (Rnormalise (Ratt ffar funk lab g)) i j.
Proof. reflexivity. Qed.

(* ---- the main facts, for arbitrary factors in [0,1] ------------------------------------------- *)
Lemma sup_f_symmetric ffar funk g lab i j : Rsup_f ffar funk g lab i j = Rsup_f ffar funk g lab j i.
Proof. rewrite !sup_f_eq. apply resym_sym. Qed.

Lemma sup_f_range ffar funk g lab i j : entries01 g -> 0 <= ffar <= 1 -> 0 <= funk <= 1 ->
  0 <= Rsup_f ffar funk g lab i j <= 1.
Proof. intros. rewrite sup_f_eq. apply reset_range. now apply nonneg_att. Qed.

Lemma sup_f_nonzero_att ffar funk g lab i j : Rsup_f ffar funk g lab i j <> 0 ->
  Rget (Ratt ffar funk lab g) i j <> 0 \/ Rget (Ratt ffar funk lab g) j i <> 0.
Proof.
  rewrite sup_f_eq, resym_eq. intros H. apply fuzzy_or_nonzero in H as [H|H]; rewrite get_normalise in H;
  apply norm_val_nonzero in H; auto.
Qed.

Lemma sup_f_support ffar funk g lab i j : symmetric g ->
  Rsup_f ffar funk g lab i j <> 0 -> Rget g i j <> 0.
Proof.
  intros Hs H. apply sup_f_nonzero_att in H as [H|H]; rewrite get_att in H.
  - intros E; apply H; rewrite E; ring.
  - rewrite (Hs i j). intros E; apply H; rewrite E; ring.
Qed.

Lemma sup_f_unit_edge ffar funk g lab i j : functional g -> entries01 g -> symmetric g ->
  0 <= ffar <= 1 -> 0 <= funk <= 1 ->
  Rsup_f ffar funk g lab i j <> 0 -> exists j', Rsup_f ffar funk g lab i j' = 1.
Proof.
  intros Hf H01 Hs Hff Hfu H.
  assert (Hrow: Rget (Ratt ffar funk lab g) i j <> 0).
  { apply sup_f_nonzero_att in H as [H|H]; auto.
    rewrite get_att in *. rewrite (Hs i j), (factor_sym _ _ _ i j). exact H. }
  destruct (normalise_unit (Ratt ffar funk lab g) i j) as [j' Hj']; auto.
  - now apply functional_att.
  - now apply nonneg_att.
  - exists j'. rewrite sup_f_eq, resym_eq, Hj'. ring.
Qed.

(* at a zero far factor no edge joins two different known labels *)
Lemma sup_f_w1 funk g lab i j : unknown (lab i) = false -> unknown (lab j) = false -> lab i <> lab j ->
  Rsup_f 0 funk g lab i j = 0.
Proof.
  intros Ui Uj Hne.
  assert (F: forall a b, unknown (lab a) = false -> unknown (lab b) = false -> lab a <> lab b ->
             Rget (Ratt 0 funk lab g) a b = 0).
  { intros a b Ua Ub Hab. rewrite get_att. unfold Rfactor. rewrite Ua, Ub. simpl.
    apply Z.eqb_neq in Hab. rewrite Hab. simpl. ring. }
  rewrite sup_f_eq, resym_eq, !get_normalise, (F i j), (F j i); auto. rewrite !norm_val_0. ring.
Qed.

(* ---- the factors computed from target_weight --------------------------------------------------- *)
Lemma far_of_lt w : w < 1 -> Rfar_of w = 5 / 2 * (1 / (1 - w)).
Proof.
  intros H. unfold Rfar_of, far_of, c25; cbn. assert (E: Rltb w 1 = true) by (now apply Rltb_true). now rewrite E.
Qed.

Lemma far_of_ge w : 1 <= w -> Rfar_of w = 1000000000000.
Proof.
  intros H. unfold Rfar_of, far_of, cbig; cbn. assert (E: Rltb w 1 = false) by (now apply Rltb_false). now rewrite E.
Qed.

Lemma far_of_pos w : 0 < Rfar_of w.
Proof.
  destruct (Rlt_or_le w 1) as [H|H].
  - rewrite far_of_lt; auto. assert (0 < / (1 - w)) by (apply Rinv_0_lt_compat; lra). unfold Rdiv. nra.
  - rewrite far_of_ge; auto. lra.
Qed.

Lemma exp_neg_range x : 0 <= x -> 0 < exp (- x) <= 1.
Proof.
  intros H. split; [apply exp_pos|]. rewrite <- exp_0. destruct H as [H| <-].
  - left. apply exp_increasing. lra.
  - rewrite Ropp_0. lra.
Qed.

Lemma exp_m1_range : 0 < exp (-1) <= 1.
Proof. replace (IZR (-1)) with (Ropp 1) by lra. apply exp_neg_range. lra. Qed.

Lemma exp_far_range w : 0 < exp (- Rfar_of w) <= 1.
Proof. apply exp_neg_range. left. apply far_of_pos. Qed.

Lemma sup_is_sup_f g lab w : Rsup g lab w = Rsup_f (exp (- Rfar_of w)) (exp (- 1)) g lab.
Proof. reflexivity. Qed.

Theorem sup_props : forall g lab w, functional g -> entries01 g -> symmetric g ->
  let s := Rsup g lab w in
  (forall i j, s i j = s j i) /\
  (forall i j, 0 <= s i j <= 1) /\
  (forall i j, s i j <> 0 -> Rget g i j <> 0) /\
  (forall i j, s i j <> 0 -> exists j', s i j' = 1).
Proof.
  intros g lab w Hf H01 Hs s. subst s. rewrite sup_is_sup_f.
  assert (A: 0 <= exp (- Rfar_of w) <= 1) by (pose proof (exp_far_range w); lra).
  assert (B: 0 <= exp (- 1) <= 1) by (pose proof exp_m1_range; lra).
  repeat split.
  - intros; apply sup_f_symmetric.
  - apply sup_f_range; auto.
  - apply sup_f_range; auto.
  - intros i j. now apply sup_f_support.
  - intros i j. now apply sup_f_unit_edge.
Qed.

(* ---- label renaming ---------------------------------------------------------------------------- *)
Definition renaming (pi : Z -> Z) :=
  pi (-1)%Z = (-1)%Z /\ (forall x, pi x = (-1)%Z -> x = (-1)%Z) /\ (forall x y, pi x = pi y -> x = y).

Lemma unknown_renamed pi l : renaming pi -> unknown (pi l) = unknown l.
Proof.
  intros [H1 [H2 _]]. unfold unknown. destruct (Z.eqb_spec l (-1)) as [->|Hn].
  - rewrite H1. reflexivity.
  - apply Z.eqb_neq. intros E. apply Hn. now apply H2.
Qed.

Lemma eqb_renamed pi a b : renaming pi -> (pi a =? pi b)%Z = (a =? b)%Z.
Proof.
  intros [_ [_ H3]]. destruct (Z.eqb_spec a b) as [->|Hn].
  - apply Z.eqb_refl.
  - apply Z.eqb_neq. intros E. apply Hn. now apply H3.
Qed.

Lemma att_renamed pi ffar funk lab e : renaming pi ->
  Ratt_f ffar funk (fun i => pi (lab i)) e = Ratt_f ffar funk lab e.
Proof.
  intros H. unfold Ratt_f, attenuate_f. cbv zeta. rewrite !(unknown_renamed pi), (eqb_renamed pi); auto.
Qed.

Theorem label_renaming : forall pi g lab w, renaming pi ->
  Rsup g (fun i => pi (lab i)) w = Rsup g lab w.
Proof.
  intros pi g lab w H. unfold Rsup, supervised, sup_norm, attenuate. f_equal. f_equal.
  apply map_ext. intros e. now apply (att_renamed pi).
Qed.

Theorem sup_main : forall g lab w, functional g -> entries01 g -> symmetric g ->
  let s := Rsup g lab w in
  (forall i j, s i j = s j i) /\
  (forall i j, 0 <= s i j <= 1) /\
  (forall i j, s i j <> 0 -> Rget g i j <> 0) /\
  (forall i j, s i j <> 0 -> exists j', s i j' = 1) /\
  (forall pi, renaming pi -> Rsup g (fun i => pi (lab i)) w = s).
Proof.
  intros g lab w Hf H01 Hs s. destruct (sup_props g lab w Hf H01 Hs) as [A [B [C D]]].
  repeat split; auto; try apply B. intros pi Hpi. now apply label_renaming.
Qed.

(* ---- attenuation ratios before renormalisation -------------------------------------------------- *)
Theorem attenuation_ratio : forall w lab i j v,
  Revl (attenuate RNum (Rfar_of w) (unknown_dist RNum) lab (i, j, v)) =
    v * (if unknown (lab i) || unknown (lab j) then exp (- 1)
         else if negb (lab i =? lab j)%Z then exp (- Rfar_of w) else 1) /\
  (w < 1 -> Rfar_of w = 5 / 2 / (1 - w)) /\ (1 <= w -> Rfar_of w = 1000000000000).
Proof.
  intros w lab i j v. split; [|split].
  - unfold attenuate. fold (Ratt_f (exp (- Rfar_of w)) (exp (- 1)) lab (i, j, v)).
    rewrite att_keyed. unfold keyed, Rfactor, Revl, evl. simpl. reflexivity.
  - intros H. rewrite far_of_lt; auto. field. lra.
  - apply far_of_ge.
Qed.

(* at target_weight = 1 the real-number factor exp(-1e12) is positive; the compiled code relies on its
   binary64 value being exactly zero.  The float fact, by computation on the software exp of FloatFns: *)
Example far_factor_underflows :
  nexp FNum (neg FNum (far_of FNum (one FNum))) = zero FNum /\ far_of FNum (one FNum) = of_Z FNum 1000000000000.
Proof. split; vm_compute; reflexivity. Qed.

(* ---- row-indexed lookup: generic in the carrier (pure list reasoning), so it also holds of the binary64
   instance evaluated by the correspondence -------------------------------------------------------------- *)
Lemma find_col_row_of_gen (N : Num) (A : smat N) i j : find_col N (row_of N A i) j = entry_at N A i j.
Proof.
  unfold entry_at, find_col, row_of. induction A as [|e A IH]; simpl; [reflexivity|].
  unfold at_key. destruct (Nat.eqb (erow N e) i) eqn:E1; simpl.
  - destruct (Nat.eqb (ecol N e) j) eqn:E2; simpl; [reflexivity | apply IH].
  - apply IH.
Qed.

Lemma tabulate_eq (X : Type) n (f : nat -> X) i : tabulate n f i = f i.
Proof.
  unfold tabulate. destruct (nth_error (map f (seq 0 n)) i) as [x|] eqn:E; [|reflexivity].
  assert (Hi: (i < length (map f (seq 0 n)))%nat) by (apply nth_error_Some; congruence).
  rewrite map_length, seq_length in Hi.
  apply nth_error_nth with (d := f i) in E. rewrite <- E.
  rewrite (map_nth f (seq 0 n) i i) at 1. rewrite seq_nth; auto.
Qed.

Theorem entry_tab_eq : forall (N : Num) n (s : smat N) i j, entry_tab N n s i j = entry_at N s i j.
Proof. intros. unfold entry_tab. cbv zeta. rewrite tabulate_eq. apply find_col_row_of_gen. Qed.

Theorem resym_tab_eq : forall (N : Num) n (s : smat N) i j, resym_tab N n s i j = resym N s i j.
Proof.
  intros. unfold resym_tab, resym, get. cbv zeta. fold (entry_tab N n s). rewrite !entry_tab_eq. reflexivity.
Qed.

(* ---- non-vacuity -------------------------------------------------------------------------------- *)
Definition ex_g : Rsmat := [(0%nat, 1%nat, / 2); (1%nat, 0%nat, / 2)].
Definition ex_lab (i : nat) : Z := Z.of_nat i.

Lemma ex_g_functional : functional ex_g.
Proof.
  intros i j v v' H1 H2. simpl in H1, H2.
  destruct H1 as [H1|[H1|[]]]; destruct H2 as [H2|[H2|[]]]; inversion H1; inversion H2; subst; try reflexivity; discriminate.
Qed.

Lemma ex_g_entries01 : entries01 ex_g.
Proof. intros i j v H. simpl in H. destruct H as [H|[H|[]]]; inversion H; subst; lra. Qed.

Lemma ex_g_symmetric : symmetric ex_g.
Proof.
  intros i j. unfold Rget, get, entry_at, ex_g, at_key, erow, ecol. simpl.
  destruct i as [|[|i]]; destruct j as [|[|j]]; simpl; reflexivity.
Qed.

Lemma sup_nonvacuous :
  functional ex_g /\ entries01 ex_g /\ symmetric ex_g /\ Rsup ex_g ex_lab 0 0%nat 1%nat = 1.
Proof.
  split; [apply ex_g_functional|]. split; [apply ex_g_entries01|]. split; [apply ex_g_symmetric|].
  rewrite sup_is_sup_f.
  set (f := exp (- Rfar_of 0)). set (u := exp (- 1)).
  assert (Hf: 0 < f) by apply exp_pos.
  assert (G: Rget (Ratt f u ex_lab ex_g) 0%nat 1%nat = / 2 * f).
  { rewrite get_att. unfold Rfactor. simpl. reflexivity. }
  destruct (sup_f_unit_edge f u ex_g ex_lab 0%nat 1%nat) as [j' Hj'];
    try apply ex_g_functional; try apply ex_g_entries01; try apply ex_g_symmetric.
  - pose proof (exp_far_range 0). unfold f. lra.
  - pose proof exp_m1_range. unfold u. lra.
  - rewrite sup_f_eq, resym_eq, !get_normalise.
    assert (P: 0 < Rnorm_val (Rrow_max (Ratt f u ex_lab ex_g) 0) (Rget (Ratt f u ex_lab ex_g) 0%nat 1%nat)).
    { apply norm_val_pos. rewrite G. split; [lra|]. rewrite <- G. apply get_le_row_max.
      apply nonneg_att; [apply ex_g_entries01| |].
      - pose proof (exp_far_range 0). unfold f. lra.
      - pose proof exp_m1_range. unfold u. lra. }
    assert (Q: 0 <= Rnorm_val (Rrow_max (Ratt f u ex_lab ex_g) 1) (Rget (Ratt f u ex_lab ex_g) 1%nat 0%nat) <= 1).
    { rewrite <- get_normalise. apply normalise_range. apply nonneg_att; [apply ex_g_entries01| |].
      - pose proof (exp_far_range 0). unfold f. lra.
      - pose proof exp_m1_range. unfold u. lra. }
    nra.
  - (* the only stored position in row 0 is column 1 *)
    destruct (Nat.eq_dec j' 1) as [->|Hne]; [exact Hj'|].
    exfalso. rewrite sup_f_eq, resym_eq, !get_normalise, !get_att in Hj'.
    assert (Z1: Rget ex_g 0%nat j' = 0).
    { unfold Rget, get, entry_at, ex_g, at_key, erow, ecol. simpl. destruct j' as [|[|j']]; simpl; try reflexivity. congruence. }
    assert (Z2: Rget ex_g j' 0%nat = 0).
    { rewrite <- (ex_g_symmetric 0%nat j'). exact Z1. }
    rewrite Z1, Z2, !Rmult_0_l, !norm_val_0 in Hj'. lra.
Qed.

(* C20 theorems: decision table of the precomputed_knn validation and its use in fit. *)
From Coq Require Import List ZArith Bool Lia.
From UV Require Import M_knnparam.
Import ListNotations.
Local Open Scope Z_scope.

Ltac zb := repeat match goal with
  | |- context [?a <? ?b] => destruct (Z.ltb_spec a b)
  | |- context [?a <=? ?b] => destruct (Z.leb_spec a b)
  | |- context [?a =? ?b] => destruct (Z.eqb_spec a b)
  | H : context [?a <? ?b] |- _ => destruct (Z.ltb_spec a b)
  | H : context [?a <=? ?b] |- _ => destruct (Z.leb_spec a b)
  | H : context [?a =? ?b] |- _ => destruct (Z.eqb_spec a b)
  end.

Ltac fin := simpl; try reflexivity; try lia; try (f_equal; lia).

Lemma valid_precheck x : valid x -> provided x = true /\ precheck x = None.
Proof. intros (H1 & H2 & H3 & H4 & H5). unfold precheck. now rewrite H1, H2, H3, H4, H5. Qed.

(* ---- validate ------------------------------------------------------------------------------------------ *)

(* at least n_neighbors columns and the right number of rows: the tables are kept, pruned to exactly
   n_neighbors columns — for both settings of force, every n, every threshold *)
Theorem prune_to_k : forall thr x, valid x -> k x <= cols x -> rows x = n x ->
  validate thr x = Use (k x) (if n x <? thr then true else force x).
Proof.
  intros thr x V Hc Hr. destruct (valid_precheck x V) as [P Q].
  unfold validate. rewrite P, Q, Hr. simpl. destruct (force x); zb; fin.
Qed.

Theorem too_few_or_wrong_rows_ignored : forall thr x, valid x -> (cols x < k x \/ rows x <> n x) ->
  validate thr x = Ignore (if cols x <? k x then W_few_columns else W_wrong_rows).
Proof.
  intros thr x V H. destruct (valid_precheck x V) as [P Q].
  unfold validate. rewrite P, Q. simpl. zb; fin.
Qed.

(* the three outcomes are exhaustive for well-formed arguments *)
Theorem validate_cases : forall thr x, valid x ->
  (cols x < k x /\ validate thr x = Ignore W_few_columns) \/
  (k x <= cols x /\ rows x <> n x /\ validate thr x = Ignore W_wrong_rows) \/
  (k x <= cols x /\ rows x = n x /\ exists f, validate thr x = Use (k x) f).
Proof.
  intros thr x V. destruct (Z.lt_ge_cases (cols x) (k x)) as [H|H].
  - left. split; auto. rewrite too_few_or_wrong_rows_ignored by auto. now zb; try lia.
  - right. destruct (Z.eq_dec (rows x) (n x)) as [E|E].
    + right. repeat split; auto. eexists. apply prune_to_k; auto.
    + left. repeat split; auto. rewrite too_few_or_wrong_rows_ignored by auto. now zb; try lia.
Qed.

(* malformed arguments raise, whatever the sizes *)
Theorem malformed_is_error : forall thr x, provided x = true ->
  (unique x = true \/ idx_array x = false \/ dist_array x = false \/ same_shape x = false) ->
  exists e, validate thr x = Error e.
Proof.
  intros thr x P H. unfold validate, precheck. rewrite P. simpl.
  destruct (unique x), (idx_array x), (dist_array x), (same_shape x); simpl; eauto;
    destruct H as [H|[H|[H|H]]]; discriminate.
Qed.

(* ---- fit ------------------------------------------------------------------------------------------------- *)

(* kept tables are always consumed (never shadowed by the exact small-data path), pruned, with n_neighbors = k *)
Theorem kept_tables_are_consumed : forall thr sp x, valid x -> k x <= cols x -> rows x = n x ->
  exists b, fit_plan thr sp x = Some (mkPlan b (k x) (Supplied (k x))) /\ b <> B_small_exact.
Proof.
  intros thr sp x V Hc Hr. unfold fit_plan, fit_plan_with. rewrite prune_to_k by assumption.
  unfold plan_of, fit_branch. destruct sp; simpl.
  - eexists; split; [reflexivity|discriminate].
  - destruct (n x <? thr); simpl; eexists; (split; [reflexivity|]).
    + discriminate.
    + destruct (force x); simpl; discriminate.
Qed.

Section Graph.
Context {A B : Type}.
Variable fss : Z -> list (list A) -> B.
Variables own_exact own_approx own_sparse : Z -> list (list A).
Notation fitg := (fit_graph fss own_exact own_approx own_sparse).

Lemma take_cols_idem c (T : list (list A)) : take_cols c (take_cols c T) = take_cols c T.
Proof.
  unfold take_cols. rewrite map_map. apply map_ext. intros r.
  rewrite firstn_firstn. now rewrite Nat.min_id.
Qed.

Lemma fit_graph_kept thr sp x T : valid x -> k x <= cols x -> rows x = n x ->
  fitg thr sp x T = Some (fss (k x) (take_cols (k x) T)).
Proof.
  intros V Hc Hr. unfold fit_graph.
  destruct (kept_tables_are_consumed thr sp x V Hc Hr) as [b [E _]]. now rewrite E.
Qed.

(* the graph is that of the first n_neighbors columns: supplying more columns changes nothing *)
Theorem extra_columns_irrelevant : forall thr sp x T, valid x -> k x <= cols x -> rows x = n x ->
  fitg thr sp x T = fitg thr sp (with_cols x (k x)) (take_cols (k x) T).
Proof.
  intros thr sp x T V Hc Hr.
  rewrite fit_graph_kept by assumption.
  rewrite fit_graph_kept; simpl; try assumption; try lia.
  now rewrite take_cols_idem.
Qed.

(* ... regardless of force_approximation_algorithm *)
Theorem force_irrelevant : forall thr sp x T f, valid x -> k x <= cols x -> rows x = n x ->
  fitg thr sp (with_force x f) T = fitg thr sp x T.
Proof.
  intros thr sp x T f V Hc Hr.
  rewrite (fit_graph_kept thr sp x T) by assumption.
  now rewrite fit_graph_kept.
Qed.

(* exact tables: if the first k columns are what the exact search returns, the graph is that of an ordinary
   (exact, small-data) fit *)
Theorem exact_tables_eq_own : forall thr x T, valid x -> k x <= cols x -> rows x = n x ->
  k x < n x -> n x < thr -> force x = false ->
  take_cols (k x) T = own_exact (k x) ->
  fitg thr false x T = fitg thr false (absent x) T.
Proof.
  intros thr x T V Hc Hr Hk Hn Hf HT.
  rewrite fit_graph_kept by assumption.
  unfold fit_graph, fit_plan, fit_plan_with, validate, plan_of, fit_branch, k_eff. simpl.
  rewrite Hf. simpl. zb; try lia. simpl. unfold graph_of_plan. simpl. now rewrite HT.
Qed.

(* ignored tables: the fit is the ordinary one *)
Theorem ignored_eq_ordinary : forall thr sp x T, valid x -> (cols x < k x \/ rows x <> n x) ->
  fitg thr sp x T = fitg thr sp (absent x) T.
Proof.
  intros thr sp x T V H. unfold fit_graph, fit_plan, fit_plan_with.
  rewrite too_few_or_wrong_rows_ignored by assumption.
  unfold validate at 1. simpl. reflexivity.
Qed.
End Graph.

(* ---- the original chain (documented defect) ---------------------------------------------------------------- *)

(* below the threshold with force = False the original chain keeps every supplied column *)
Theorem orig_skips_pruning : forall thr x, valid x -> k x < cols x -> rows x = n x ->
  n x < thr -> force x = false -> validate_orig thr x = Use (cols x) true.
Proof.
  intros thr x V Hc Hr Hn Hf. destruct (valid_precheck x V) as [P Q].
  unfold validate_orig. rewrite P, Q, Hr, Hf. simpl. zb; fin.
Qed.

(* elsewhere the two chains agree *)
Theorem orig_agrees_elsewhere : forall thr x, ~ (k x < cols x /\ rows x = n x /\ n x < thr /\ force x = false) ->
  validate_orig thr x = validate thr x.
Proof.
  intros thr x H. unfold validate_orig, validate.
  destruct (provided x); simpl; auto. destruct (precheck x); auto.
  destruct (force x) eqn:F; zb; fin; exfalso; apply H; repeat split; auto; lia.
Qed.

Definition ex_input : knn_input := mkIn true false true true true false 8 30 30 5 false.

Theorem prune_to_k_refuted_on_orig :
  valid ex_input /\ k ex_input <= cols ex_input /\ rows ex_input = n ex_input /\
  validate_orig 4096 ex_input = Use 8 true /\ validate 4096 ex_input = Use 5 true /\
  fit_plan_orig 4096 false ex_input = Some (mkPlan B_standard 5 (Supplied 8)).
Proof. repeat split; try reflexivity; vm_compute; congruence. Qed.

(* non-vacuity *)
Lemma knnparam_nonvacuous :
  valid ex_input /\ validate 4096 ex_input = Use 5 true /\
  warnings 4096 ex_input = [W_no_search_index] /\
  validate 4096 (with_cols ex_input 4) = Ignore W_few_columns /\
  fit_plan 4096 false (with_cols ex_input 4) = Some (mkPlan B_small_exact 5 (OwnExact 5)).
Proof. repeat split; reflexivity. Qed.

(* C12: hamming and the binary family over R — facts about the agreement counts, then about each formula. *)
From Coq Require Import List ZArith Bool Reals Lra Lia Psatz.
From UV Require Import Num M_metrics T_metrics_base.
Import ListNotations.
Local Open Scope R_scope.

(* ---- the counts ----------------------------------------------------------------------------------- *)
Definition cnt_ok (c : counts4) : Prop :=
  let '(ntt, ntf, nft, nff) := c in (0 <= ntt /\ 0 <= ntf /\ 0 <= nft /\ 0 <= nff)%Z.

Lemma counts_swap (x y : list R) : counts RNum y x = c_swap (counts RNum x y).
Proof.
  revert y; induction x as [|a x IH]; intros [|b y]; simpl; auto.
  rewrite IH. destruct (counts RNum x y) as [[[ntt ntf] nft] nff]. simpl.
  destruct (truthy RNum a), (truthy RNum b); reflexivity.
Qed.

Lemma counts_ok (x y : list R) : cnt_ok (counts RNum x y).
Proof.
  revert y; induction x as [|a x IH]; intros [|b y]; simpl; try lia.
  specialize (IH y). destruct (counts RNum x y) as [[[ntt ntf] nft] nff]. simpl in *.
  destruct (truthy RNum a), (truthy RNum b); simpl; lia.
Qed.

Lemma counts_total (x y : list R) : length x = length y -> c_total (counts RNum x y) = Z.of_nat (length x).
Proof.
  revert y; induction x as [|a x IH]; intros [|b y] H; try discriminate; auto.
  specialize (IH y ltac:(simpl in H; lia)). cbn [counts].
  destruct (counts RNum x y) as [[[ntt ntf] nft] nff].
  change (length (a :: x)) with (S (length x)). rewrite Nat2Z.inj_succ.
  unfold c_total in *. destruct (truthy RNum a), (truthy RNum b); lia.
Qed.

Lemma counts_diag (x : list R) : exists ntt nff, counts RNum x x = (ntt, 0, 0, nff)%Z.
Proof.
  induction x as [|a x [ntt [nff IH]]]; simpl; [now exists 0%Z, 0%Z|].
  rewrite IH. destruct (truthy RNum a); eauto.
Qed.

(* the counts do not depend on the order of the coordinates (any simultaneous permutation of x and y) *)
Lemma counts_perm_step (a b c d : R) (x y : list R) :
  counts RNum (a :: c :: x) (b :: d :: y) = counts RNum (c :: a :: x) (d :: b :: y).
Proof.
  simpl. destruct (counts RNum x y) as [[[ntt ntf] nft] nff].
  destruct (truthy RNum a), (truthy RNum b), (truthy RNum c), (truthy RNum d); f_equal; try (repeat f_equal; lia).
Qed.

(* ---- hamming ------------------------------------------------------------------------------------------ *)
Definition Rhamm (x y : list R) : R := IZR (count_neq RNum x y) / IZR (Z.of_nat (length x)).
Lemma hamm_eq (x y : list R) : d_hamming RNum x y = Rhamm x y.
Proof. reflexivity. Qed.

Lemma Reqb_sym a b : Reqb a b = Reqb b a.
Proof. destruct (Reqb a b) eqn:E; [apply Reqb_true in E | apply Reqb_false in E]; symmetry; [apply Reqb_true | apply Reqb_false]; auto. Qed.
Lemma Reqb_refl a : Reqb a a = true.
Proof. now apply Reqb_true. Qed.

Lemma cneq_sym (x y : list R) : count_neq RNum x y = count_neq RNum y x.
Proof.
  revert y; induction x as [|a x IH]; intros [|b y]; simpl; auto. rewrite IH.
  change (eqb RNum a b) with (Reqb a b). change (eqb RNum b a) with (Reqb b a). now rewrite Reqb_sym.
Qed.
Lemma cneq_bounds (x y : list R) : (0 <= count_neq RNum x y <= Z.of_nat (length x))%Z.
Proof.
  revert y; induction x as [|a x IH]; intros [|b y]; simpl length; simpl count_neq; try lia.
  specialize (IH y). destruct (Reqb a b); lia.
Qed.
Lemma cneq_diag (x : list R) : count_neq RNum x x = 0%Z.
Proof. induction x as [|a x IH]; simpl; auto. change (eqb RNum a a) with (Reqb a a). rewrite Reqb_refl, IH. reflexivity. Qed.
Lemma cneq_triangle (x y z : list R) : length x = length y -> length y = length z ->
  (count_neq RNum x z <= count_neq RNum x y + count_neq RNum y z)%Z.
Proof.
  revert y z; induction x as [|a x IH]; intros [|b y] [|c z] H1 H2; try discriminate; simpl; try lia.
  specialize (IH y z ltac:(simpl in H1; lia) ltac:(simpl in H2; lia)).
  change (eqb RNum) with Reqb.
  destruct (Reqb a c) eqn:Eac; destruct (Reqb a b) eqn:Eab; destruct (Reqb b c) eqn:Ebc; try lia.
  apply Reqb_true in Eab, Ebc. apply Reqb_false in Eac. exfalso. apply Eac. congruence.
Qed.

Lemma hamm_sym x y : length x = length y -> Rhamm x y = Rhamm y x.
Proof. intros H. unfold Rhamm. now rewrite cneq_sym, H. Qed.
Lemma hamm_range x y : 0 <= Rhamm x y <= 1.
Proof.
  unfold Rhamm. pose proof (cneq_bounds x y) as [H0 H1].
  destruct (Z.eq_dec (Z.of_nat (length x)) 0) as [E|E].
  - assert (count_neq RNum x y = 0%Z) as -> by lia. unfold Rdiv. rewrite Rmult_0_l. lra.
  - apply div_le_1.
    + split; [now apply IZR_nonneg | now apply IZR_le].
    + apply IZR_pos. lia.
Qed.
Lemma hamm_diag x : Rhamm x x = 0.
Proof. unfold Rhamm. rewrite cneq_diag. unfold Rdiv. apply Rmult_0_l. Qed.
Theorem hamm_triangle x y z : length x = length y -> length y = length z -> Rhamm x z <= Rhamm x y + Rhamm y z.
Proof.
  intros H1 H2. unfold Rhamm. rewrite <- H1.
  pose proof (cneq_triangle x y z H1 H2) as Ht. apply IZR_le in Ht. rewrite plus_IZR in Ht.
  destruct (Z.eq_dec (Z.of_nat (length x)) 0) as [E|E].
  - rewrite E. unfold Rdiv. rewrite Rinv_0. lra.
  - assert (0 < IZR (Z.of_nat (length x))) as Hn by (apply IZR_pos; lia).
    unfold Rdiv. rewrite <- Rmult_plus_distr_r. apply Rmult_le_compat_r; [left; now apply Rinv_0_lt_compat | exact Ht].
Qed.
(* on vectors read as booleans hamming is the matching distance: values in {0,1} differ iff their truth values do *)
Definition boolvec (x : list R) : Prop := Forall (fun a => a = 0 \/ a = 1) x.
Lemma hamm_binary (x y : list R) : boolvec x -> boolvec y ->
  count_neq RNum x y = (let '(ntt, ntf, nft, nff) := counts RNum x y in ntf + nft)%Z.
Proof.
  intros Hx; revert y; induction Hx as [|a x Ha Hx IH]; intros y Hy; destruct Hy as [|b y Hb Hy]; simpl; auto.
  rewrite (IH y Hy). destruct (counts RNum x y) as [[[ntt ntf] nft] nff].
  unfold truthy. change (eqb RNum) with Reqb. change (zero RNum) with 0.
  destruct Ha as [-> | ->], Hb as [-> | ->];
    repeat match goal with
    | |- context [Reqb ?u ?v] =>
        let E := fresh "E" in destruct (Reqb u v) eqn:E; [apply Reqb_true in E | apply Reqb_false in E]; try lra
    end; cbn [negb]; lia.
Qed.

(* ---- the formulas on counts ------------------------------------------------------------------------- *)
Ltac zsplit c := destruct c as [[[ntt ntf] nft] nff]; simpl in *.
Ltac zcase t := let E := fresh "E" in destruct t eqn:E; [apply Z.eqb_eq in E | apply Z.eqb_neq in E].

Lemma nZ_R z : nZ RNum z = IZR z.
Proof. reflexivity. Qed.
Lemma n2_R : n2 RNum = 2.
Proof. unfold n2. cbn. lra. Qed.
Lemma nhalf_R : nhalf RNum = / 2.
Proof. unfold nhalf. rewrite n2_R. cbn. lra. Qed.

Ltac rform := unfold b_jaccard, b_matching, b_dice, b_kulsinski, b_rogerstanimoto, b_russellrao, b_sokalmichener,
                     b_sokalsneath, b_yule, c_total in *; rewrite ?nZ_R, ?n2_R, ?nhalf_R in *;
              change (zero RNum) with 0 in *; change (div RNum) with Rdiv in *; change (mul RNum) with Rmult in *;
              change (add RNum) with Rplus in *.

(* symmetry: every formula is invariant under exchanging ntf and nft *)
Lemma b_jaccard_sym c : b_jaccard RNum (c_swap c) = b_jaccard RNum c.
Proof. zsplit c. rform. replace (ntt + nft + ntf)%Z with (ntt + ntf + nft)%Z by lia. reflexivity. Qed.
Lemma b_matching_sym c : b_matching RNum (c_swap c) = b_matching RNum c.
Proof. zsplit c. rform. replace (nft + ntf)%Z with (ntf + nft)%Z by lia. replace (ntt + nft + ntf + nff)%Z with (ntt + ntf + nft + nff)%Z by lia. reflexivity. Qed.
Lemma b_dice_sym c : b_dice RNum (c_swap c) = b_dice RNum c.
Proof. zsplit c. rform. replace (nft + ntf)%Z with (ntf + nft)%Z by lia. reflexivity. Qed.
Lemma b_kulsinski_sym c : b_kulsinski RNum (c_swap c) = b_kulsinski RNum c.
Proof. zsplit c. rform. replace (nft + ntf)%Z with (ntf + nft)%Z by lia. replace (ntt + nft + ntf + nff)%Z with (ntt + ntf + nft + nff)%Z by lia. reflexivity. Qed.
Lemma b_rogerstanimoto_sym c : b_rogerstanimoto RNum (c_swap c) = b_rogerstanimoto RNum c.
Proof. zsplit c. rform. replace (nft + ntf)%Z with (ntf + nft)%Z by lia. replace (ntt + nft + ntf + nff)%Z with (ntt + ntf + nft + nff)%Z by lia. reflexivity. Qed.
Lemma b_sokalmichener_sym c : b_sokalmichener RNum (c_swap c) = b_sokalmichener RNum c.
Proof. zsplit c. rform. replace (nft + ntf)%Z with (ntf + nft)%Z by lia. replace (ntt + nft + ntf + nff)%Z with (ntt + ntf + nft + nff)%Z by lia. reflexivity. Qed.
Lemma b_russellrao_sym c : b_russellrao RNum (c_swap c) = b_russellrao RNum c.
Proof. zsplit c. rform. rewrite andb_comm. replace (ntt + nft + ntf + nff)%Z with (ntt + ntf + nft + nff)%Z by lia. reflexivity. Qed.
Lemma b_sokalsneath_sym c : b_sokalsneath RNum (c_swap c) = b_sokalsneath RNum c.
Proof. zsplit c. rform. replace (nft + ntf)%Z with (ntf + nft)%Z by lia. reflexivity. Qed.
Lemma b_yule_sym c : b_yule RNum (c_swap c) = b_yule RNum c.
Proof. zsplit c. rform. rewrite orb_comm. destruct ((ntf =? 0)%Z || (nft =? 0)%Z); [reflexivity|]. f_equal; ring. Qed.

(* ranges (counts non-negative, at least one coordinate where a division by n occurs) *)
Ltac izr := repeat match goal with
  | H : (0 <= ?z)%Z |- _ => apply IZR_le in H
  | H : (?z <> 0)%Z |- _ => let H' := fresh in assert (H' : IZR z <> 0) by (now apply not_0_IZR); clear H
  end; rewrite ?plus_IZR, ?minus_IZR in *.

Lemma b_jaccard_range c : cnt_ok c -> 0 <= b_jaccard RNum c <= 1.
Proof.
  zsplit c. intros (H1 & H2 & H3 & H4). rform. zcase (ntt + ntf + nft =? 0)%Z; [lra|].
  apply div_le_1; [split|]; try apply IZR_nonneg; try apply IZR_le; try apply IZR_pos; lia.
Qed.
Lemma b_matching_range c : cnt_ok c -> (0 < c_total c)%Z -> 0 <= b_matching RNum c <= 1.
Proof.
  zsplit c. intros (H1 & H2 & H3 & H4) Hn. rform.
  apply div_le_1; [split|]; try apply IZR_nonneg; try apply IZR_le; try apply IZR_pos; lia.
Qed.
Lemma b_dice_range c : cnt_ok c -> 0 <= b_dice RNum c <= 1.
Proof.
  zsplit c. intros (H1 & H2 & H3 & H4). rform. zcase (ntf + nft =? 0)%Z; [lra|].
  assert (0 < IZR (ntf + nft)) by (apply IZR_pos; lia). assert (0 <= IZR ntt) by now apply IZR_nonneg.
  apply div_le_1; lra.
Qed.
Lemma b_kulsinski_range c : cnt_ok c -> 0 <= b_kulsinski RNum c <= 1.
Proof.
  zsplit c. intros (H1 & H2 & H3 & H4). rform. zcase (ntf + nft =? 0)%Z; [lra|].
  apply div_le_1; [split|]; try apply IZR_nonneg; try apply IZR_le; try apply IZR_pos; lia.
Qed.
Lemma b_rt_range (nne n : Z) : (0 <= nne <= n)%Z -> (0 < n)%Z -> 0 <= 2 * IZR nne / IZR (n + nne) <= 1.
Proof.
  intros H Hn. assert (0 <= IZR nne) by (apply IZR_nonneg; lia). assert (IZR nne <= IZR n) by (apply IZR_le; lia).
  assert (0 < IZR n) by (now apply IZR_pos). rewrite plus_IZR. apply div_le_1; lra.
Qed.
Lemma b_rogerstanimoto_range c : cnt_ok c -> (0 < c_total c)%Z -> 0 <= b_rogerstanimoto RNum c <= 1.
Proof. zsplit c. intros (H1 & H2 & H3 & H4) Hn. rform. apply b_rt_range; lia. Qed.
Lemma b_sokalmichener_range c : cnt_ok c -> (0 < c_total c)%Z -> 0 <= b_sokalmichener RNum c <= 1.
Proof. zsplit c. intros (H1 & H2 & H3 & H4) Hn. rform. apply b_rt_range; lia. Qed.
Lemma b_russellrao_range c : cnt_ok c -> (0 < c_total c)%Z -> 0 <= b_russellrao RNum c <= 1.
Proof.
  zsplit c. intros (H1 & H2 & H3 & H4) Hn. rform. destruct (_ && _); [lra|].
  apply div_le_1; [split|]; try apply IZR_nonneg; try apply IZR_le; try apply IZR_pos; lia.
Qed.
Lemma b_sokalsneath_range c : cnt_ok c -> 0 <= b_sokalsneath RNum c <= 1.
Proof.
  zsplit c. intros (H1 & H2 & H3 & H4). rform. zcase (ntf + nft =? 0)%Z; [lra|].
  assert (0 < IZR (ntf + nft)) by (apply IZR_pos; lia). assert (0 <= IZR ntt) by now apply IZR_nonneg.
  apply div_le_1; lra.
Qed.
Lemma b_yule_range c : cnt_ok c -> 0 <= b_yule RNum c <= 2.
Proof.
  zsplit c. intros (H1 & H2 & H3 & H4). rform.
  zcase (ntf =? 0)%Z; simpl; [lra|]. zcase (nft =? 0)%Z; simpl; [lra|].
  assert (0 < IZR ntf) by (apply IZR_pos; lia). assert (0 < IZR nft) by (apply IZR_pos; lia).
  assert (0 <= IZR ntt) by now apply IZR_nonneg. assert (0 <= IZR nff) by now apply IZR_nonneg.
  assert (0 < IZR ntf * IZR nft) by now apply Rmult_lt_0_compat.
  assert (0 <= IZR ntt * IZR nff) by now apply Rmult_le_pos.
  split; [apply div_nonneg | apply div_le_c]; nra.
Qed.

(* identity: no disagreeing coordinate (ntf = nft = 0) gives distance 0 *)
Lemma b_jaccard_diag ntt nff : b_jaccard RNum (ntt, 0, 0, nff)%Z = 0.
Proof. rform. zcase (ntt + 0 + 0 =? 0)%Z; [reflexivity|]. replace (ntt + 0 + 0 - ntt)%Z with 0%Z by lia. unfold Rdiv. apply Rmult_0_l. Qed.
Lemma b_matching_diag ntt nff : b_matching RNum (ntt, 0, 0, nff)%Z = 0.
Proof. rform. simpl. unfold Rdiv. apply Rmult_0_l. Qed.
Lemma b_dice_diag ntt nff : b_dice RNum (ntt, 0, 0, nff)%Z = 0.
Proof. rform. reflexivity. Qed.
Lemma b_kulsinski_diag ntt nff : b_kulsinski RNum (ntt, 0, 0, nff)%Z = 0.
Proof. rform. reflexivity. Qed.
Lemma b_rogerstanimoto_diag ntt nff : b_rogerstanimoto RNum (ntt, 0, 0, nff)%Z = 0.
Proof. rform. simpl. unfold Rdiv. rewrite Rmult_0_r. apply Rmult_0_l. Qed.
Lemma b_sokalmichener_diag ntt nff : b_sokalmichener RNum (ntt, 0, 0, nff)%Z = 0.
Proof. rform. simpl. unfold Rdiv. rewrite Rmult_0_r. apply Rmult_0_l. Qed.
Lemma b_russellrao_diag ntt nff : b_russellrao RNum (ntt, 0, 0, nff)%Z = 0.
Proof. rform. replace (ntt + 0)%Z with ntt by lia. rewrite Z.eqb_refl. reflexivity. Qed.
Lemma b_sokalsneath_diag ntt nff : b_sokalsneath RNum (ntt, 0, 0, nff)%Z = 0.
Proof. rform. reflexivity. Qed.
Lemma b_yule_diag ntt nff : b_yule RNum (ntt, 0, 0, nff)%Z = 0.
Proof. rform. reflexivity. Qed.

(* ---- lifting to vectors ------------------------------------------------------------------------------- *)
Section Lift.
Variable b : counts4 -> R.
Variable B : R.
Hypothesis b_sym : forall c, b (c_swap c) = b c.
Hypothesis b_diag : forall ntt nff, b (ntt, 0, 0, nff)%Z = 0.

Lemma lift_sym (x y : list R) : b (counts RNum x y) = b (counts RNum y x).
Proof. now rewrite (counts_swap x y), b_sym. Qed.
Lemma lift_diag (x : list R) : b (counts RNum x x) = 0.
Proof. destruct (counts_diag x) as [ntt [nff ->]]. apply b_diag. Qed.
End Lift.

Lemma total_pos (x y : list R) : length x = length y -> x <> [] -> (0 < c_total (counts RNum x y))%Z.
Proof. intros H Hx. rewrite counts_total by auto. destruct x; [contradiction|]. simpl length. lia. Qed.
